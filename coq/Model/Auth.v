(* Model of the WAMP authentication glue (definitions only).
   Sources mirrored:
     src/autobahn/wamp/auth.py        create_authenticator, AuthAnonymous, AuthTicket, AuthCryptoSign.on_challenge,
                                      _hash_argon2id13_secret, _hash_pbkdf2_secret, AuthScram.on_challenge / on_welcome,
                                      AuthWampCra.on_challenge, compute_totp, check_totp, pbkdf2, derive_key, compute_wcs,
                                      derive_scram_credential
     src/autobahn/wamp/cryptosign.py  _format_challenge, _sign_challenge, CryptosignKey.sign_challenge
     src/autobahn/util.py             xor
   The cryptographic primitives and the library codecs the glue calls are ORACLES: Section variables of the
   section [Glue] (hashlib.sha256, hmac(sha256/sha1), cryptography's PBKDF2HMAC, argon2 hash_secret, nacl
   SigningKey.sign, passlib saslprep, repr() of bytes).  Their assumed laws are Section
   hypotheses in Proofs/AuthProofs.v.  Modelled CONCRETELY (and proved there): util.xor, binascii
   b2a_hex/a2b_hex, binascii b2a_base64/a2b_base64 (the non-strict C decoder used by base64.b64decode),
   base64.b32encode/b32decode, str.encode
   ("utf8"/"ascii"), struct.pack(">Q"), struct.unpack(">I"), the decimal formatting of ints.
   Octets and code points are N; a Python str is the list of its code points; Python exceptions are explicit. *)
From Coq Require Import NArith ZArith List Bool String Ascii.
Import ListNotations.
Open Scope N_scope.

Definition bytes := list N.
Definition str := list N.
Definition bytes_ok (l : list N) : Prop := Forall (fun b => b < 256) l.
(* a Python str never holds a value above 0x10FFFF *)
Definition str_ok (l : list N) : Prop := Forall (fun c => c < 1114112) l.

(* exception classes that can leave the modelled functions (exact class, not a base class) *)
Inductive exn :=
  | ValueError | UnicodeEncodeError | BinasciiError (* binascii.Error *) | StructError (* struct.error *)
  | RuntimeError | AssertionError | TypeError | PlainException (* raise Exception(...) *)
  | KeyError | IndexError | OverflowError | AttributeError
  | OracleMissing (* used only by the table-driven oracles of Model/AuthRun.v *)
  | OtherExn (* any other class; never raised by the model *).
Inductive result (A : Type) := Ok (a : A) | Raise (e : exn).
Arguments Ok {A} a. Arguments Raise {A} e.
Definition bind {A B} (r : result A) (f : A -> result B) : result B :=
  match r with Ok a => f a | Raise e => Raise e end.
Notation "x <- r ;; k" := (bind r (fun x => k)) (at level 61, r at next level, right associativity).

(* a value that the code accepts both as str and as bytes *)
Inductive pyval := VStr (s : str) | VBytes (b : bytes).

(* ASCII literals *)
Definition lit (s : string) : list N := map N_of_ascii (list_ascii_of_string s).

Fixpoint list_eqb (a b : list N) : bool :=
  match a, b with
  | [], [] => true
  | x :: a', y :: b' => (x =? y) && list_eqb a' b'
  | _, _ => false
  end.

(* ------------------------------------------------------------------------------------------------ *)
(* util.py: xor(d1, d2).  Both arguments are bytes in every modelled call (the two type checks cannot fire);
   differing lengths: raise Exception("cannot XOR binary string of differing length"). *)
Fixpoint xor_zip (a b : bytes) : bytes :=
  match a, b with
  | x :: a', y :: b' => N.lxor x y :: xor_zip a' b'
  | _, _ => []
  end.
Definition xor (a b : bytes) : result bytes :=
  if Nat.eqb (List.length a) (List.length b) then Ok (xor_zip a b) else Raise PlainException.

(* ------------------------------------------------------------------------------------------------ *)
(* binascii.b2a_hex (lower case) / a2b_hex (either case; odd length or a non-hex digit: binascii.Error) *)
Definition hexdigit (n : N) : N := if n <? 10 then 48 + n else 87 + n.
Fixpoint b2a_hex (b : bytes) : bytes :=
  match b with
  | [] => []
  | x :: r => hexdigit (x / 16) :: hexdigit (x mod 16) :: b2a_hex r
  end.
Definition unhexdigit (c : N) : option N :=
  if (48 <=? c) && (c <=? 57) then Some (c - 48)
  else if (97 <=? c) && (c <=? 102) then Some (c - 87)
  else if (65 <=? c) && (c <=? 70) then Some (c - 55)
  else None.
Fixpoint a2b_hex (s : bytes) : result bytes :=
  match s with
  | [] => Ok []
  | [_] => Raise BinasciiError
  | h :: l :: r =>
    match unhexdigit h, unhexdigit l with
    | Some a, Some b => rest <- a2b_hex r ;; Ok (a * 16 + b :: rest)
    | _, _ => Raise BinasciiError
    end
  end.
(* str.encode("ascii") : UnicodeEncodeError on a code point >= 128 *)
Definition ascii_encode (s : str) : result bytes :=
  if forallb (fun c => c <? 128) s then Ok s else Raise UnicodeEncodeError.
(* a str handed to a binascii/base64 decoder: "string argument should contain only ASCII characters" (ValueError) *)
Definition ascii_arg (s : str) : result bytes :=
  if forallb (fun c => c <? 128) s then Ok s else Raise ValueError.

(* ------------------------------------------------------------------------------------------------ *)
(* base64: binascii.b2a_base64(x).strip() == base64.b64encode(x) (standard alphabet, '=' padding) *)
Definition b64chars : list N := lit "ABCDEFGHIJKLMNOPQRSTUVWXYZabcdefghijklmnopqrstuvwxyz0123456789+/".
Definition b64char (i : N) : N := nth (N.to_nat i) b64chars 0.
Fixpoint b64encode (b : bytes) : bytes :=
  match b with
  | [] => []
  | [a] => [b64char (a / 4); b64char ((a mod 4) * 16); 61; 61]
  | [a; b] => [b64char (a / 4); b64char ((a mod 4) * 16 + b / 16); b64char ((b mod 16) * 4); 61]
  | a :: b :: c :: r =>
    b64char (a / 4) :: b64char ((a mod 4) * 16 + b / 16) :: b64char ((b mod 16) * 4 + c / 64)
      :: b64char (c mod 64) :: b64encode r
  end.
(* argon2's own encoder (the hash part of '$argon2id$v=19$...$salt$hash'): same alphabet, no padding *)
Definition b64encode_nopad (b : bytes) : bytes := filter (fun c => negb (c =? 61)) (b64encode b).

(* table_a2b_base64 *)
Definition b64rev (c : N) : option N :=
  if (65 <=? c) && (c <=? 90) then Some (c - 65)
  else if (97 <=? c) && (c <=? 122) then Some (c - 71)
  else if (48 <=? c) && (c <=? 57) then Some (c + 4)
  else if c =? 43 then Some 62
  else if c =? 47 then Some 63
  else None.
(* binascii.a2b_base64(data, strict_mode=False)  (Modules/binascii.c, the loop over the input):
   characters outside the alphabet are skipped; '=' counts as padding only from quad position 2 on and ends the
   parse once the quad is complete; left-over quad position at the end: binascii.Error.
   (leftchar << k) | (ch >> j) is written as leftchar * 2^k + ch / 2^j: the operands have disjoint bits. *)
Fixpoint a2b_loop (s : bytes) (quad left pads : N) : result bytes :=
  match s with
  | [] => if quad =? 0 then Ok [] else Raise BinasciiError
  | c :: r =>
    if c =? 61 then
      if (2 <=? quad) && (4 <=? quad + (pads + 1)) then Ok []
      else a2b_loop r quad left (if 2 <=? quad then pads + 1 else pads)
    else
      match b64rev c with
      | None => a2b_loop r quad left pads
      | Some v =>
        if quad =? 0 then a2b_loop r 1 v 0
        else if quad =? 1 then rest <- a2b_loop r 2 (v mod 16) 0 ;; Ok (left * 4 + v / 16 :: rest)
        else if quad =? 2 then rest <- a2b_loop r 3 (v mod 4) 0 ;; Ok (left * 16 + v / 4 :: rest)
        else rest <- a2b_loop r 0 0 0 ;; Ok (left * 64 + v :: rest)
      end
  end.
Definition a2b_base64 (s : bytes) : result bytes := a2b_loop s 0 0 0.
(* base64.b64decode(s) with the defaults (validate=False): str -> ascii bytes first *)
Definition b64decode (v : pyval) : result bytes :=
  match v with
  | VStr s => b <- ascii_arg s ;; a2b_base64 b
  | VBytes b => a2b_base64 b
  end.

(* ------------------------------------------------------------------------------------------------ *)
(* str.encode("utf8"): surrogates raise UnicodeEncodeError *)
Fixpoint utf8_encode (s : str) : result bytes :=
  match s with
  | [] => Ok []
  | c :: r =>
    if c <? 128 then rest <- utf8_encode r ;; Ok (c :: rest)
    else if c <? 2048 then rest <- utf8_encode r ;; Ok (192 + c / 64 :: 128 + c mod 64 :: rest)
    else if (55296 <=? c) && (c <=? 57343) then Raise UnicodeEncodeError
    else if c <? 65536 then
      rest <- utf8_encode r ;; Ok (224 + c / 4096 :: 128 + (c / 64) mod 64 :: 128 + c mod 64 :: rest)
    else
      rest <- utf8_encode r ;;
      Ok (240 + c / 262144 :: 128 + (c / 4096) mod 64 :: 128 + (c / 64) mod 64 :: 128 + c mod 64 :: rest)
  end.

(* str(int) for a non-negative int *)
Fixpoint uint_digits (u : Decimal.uint) : list N :=
  match u with
  | Decimal.Nil => []
  | Decimal.D0 r => 48 :: uint_digits r | Decimal.D1 r => 49 :: uint_digits r
  | Decimal.D2 r => 50 :: uint_digits r | Decimal.D3 r => 51 :: uint_digits r
  | Decimal.D4 r => 52 :: uint_digits r | Decimal.D5 r => 53 :: uint_digits r
  | Decimal.D6 r => 54 :: uint_digits r | Decimal.D7 r => 55 :: uint_digits r
  | Decimal.D8 r => 56 :: uint_digits r | Decimal.D9 r => 57 :: uint_digits r
  end.
Definition dec_of_N (n : N) : list N := uint_digits (N.to_uint n).
(* f"{token:06d}" *)
Definition fmt_06d (t : N) : str :=
  if t <? 1000000 then
    [48 + t / 100000; 48 + (t / 10000) mod 10; 48 + (t / 1000) mod 10; 48 + (t / 100) mod 10;
     48 + (t / 10) mod 10; 48 + t mod 10]
  else dec_of_N t.

Definition be_num (l : bytes) : N := fold_left (fun acc b => acc * 256 + b) l 0.        (* big-endian value of an octet string *)
(* struct.pack(">Q", n): struct.error unless 0 <= n < 2^64; otherwise the 8 octets of n, most significant first *)
Fixpoint be_bytes (width : nat) (n : N) : bytes :=
  match width with
  | O => []
  | S w => be_bytes w (n / 256) ++ [n mod 256]
  end.
Definition pack_Q (z : Z) : result bytes :=
  if ((0 <=? z) && (z <? 18446744073709551616))%Z then Ok (be_bytes 8 (Z.to_N z)) else Raise StructError.
(* struct.unpack(">I", b)[0]: struct.error unless len(b) == 4 *)
Definition unpack_I (b : bytes) : result N :=
  match b with
  | [a; b; c; d] => Ok (((a * 256 + b) * 256 + c) * 256 + d)
  | _ => Raise StructError
  end.
(* d[a:b] for 0 <= a <= b *)
Definition slice (d : bytes) (a b : N) : bytes := firstn (N.to_nat (b - a)) (skipn (N.to_nat a) d).

(* ------------------------------------------------------------------------------------------------ *)
(* base64.b32encode / base64.b32decode(s) with the defaults (casefold=False, map01=None), Lib/base64.py.
   Alphabet A-Z 2-7; decoding works on quanta of 8 characters accumulated into a 40-bit integer. *)
Definition b32chars : list N := lit "ABCDEFGHIJKLMNOPQRSTUVWXYZ234567".
Definition b32char (i : N) : N := nth (N.to_nat i) b32chars 0.
(* one quantum: 5 octets (40 bits, zero padded) -> 8 characters *)
Definition b32_quantum (n : N) : bytes :=
  [b32char (n / 34359738368); b32char ((n / 1073741824) mod 32); b32char ((n / 33554432) mod 32);
   b32char ((n / 1048576) mod 32); b32char ((n / 32768) mod 32); b32char ((n / 1024) mod 32);
   b32char ((n / 32) mod 32); b32char (n mod 32)].
Fixpoint b32encode (b : bytes) : bytes :=
  match b with
  | [] => []
  | [a] => firstn 2 (b32_quantum (be_num [a; 0; 0; 0; 0])) ++ repeat 61 6
  | [a; b] => firstn 4 (b32_quantum (be_num [a; b; 0; 0; 0])) ++ repeat 61 4
  | [a; b; c] => firstn 5 (b32_quantum (be_num [a; b; c; 0; 0])) ++ repeat 61 3
  | [a; b; c; d] => firstn 7 (b32_quantum (be_num [a; b; c; d; 0])) ++ repeat 61 1
  | a :: b :: c :: d :: e :: r => b32_quantum (be_num [a; b; c; d; e]) ++ b32encode r
  end.

Definition b32rev (c : N) : option N :=
  if (65 <=? c) && (c <=? 90) then Some (c - 65)
  else if (50 <=? c) && (c <=? 55) then Some (c - 24)
  else None.
(* s.rstrip(b"=") *)
Fixpoint lstrip_eq (s : bytes) : bytes :=
  match s with
  | c :: r => if c =? 61 then lstrip_eq r else s
  | [] => []
  end.
Definition rstrip_eq (s : bytes) : bytes := rev (lstrip_eq (rev s)).
(* for c in quanta: acc = (acc << 5) + b32rev[c]   (KeyError -> binascii.Error) *)
Fixpoint b32_acc (q : bytes) (acc : N) : option N :=
  match q with
  | [] => Some acc
  | c :: r => match b32rev c with Some v => b32_acc r (acc * 32 + v) | None => None end
  end.
(* the loop over quanta; returns the decoded octets and the accumulator of the LAST quantum.
   fuel = number of quanta + 1 (the caller passes the length of the string) *)
Fixpoint b32_quanta (fuel : nat) (s : bytes) (last_acc : N) : result (bytes * N) :=
  match fuel, s with
  | _, [] => Ok ([], last_acc)
  | O, _ => Raise OracleMissing                                          (* unreachable: fuel >= length s *)
  | S f, _ =>
    match b32_acc (firstn 8 s) 0 with
    | None => Raise BinasciiError
    | Some acc =>
      r <- b32_quanta f (skipn 8 s) acc ;;
      Ok (be_bytes 5 acc ++ fst r, snd r)                                (* acc.to_bytes(5); acc < 2^40 always *)
    end
  end.
Definition b32decode (s : str) : result bytes :=
  b <- ascii_arg s ;;
  let l := List.length b in
  if negb (Nat.eqb (Nat.modulo l 8) 0) then Raise BinasciiError else
  let s' := rstrip_eq b in
  let padchars := N.of_nat (l - List.length s') in
  r <- b32_quanta (S (List.length s')) s' 0 ;;
  let '(decoded, acc) := r in
  if negb ((padchars =? 0) || (padchars =? 1) || (padchars =? 3) || (padchars =? 4) || (padchars =? 6))
  then Raise BinasciiError
  else if negb (padchars =? 0) && negb (Nat.eqb (List.length decoded) 0) then
    let last := be_bytes 5 (acc * 2 ^ (5 * padchars)) in
    let leftover := N.to_nat ((43 - 5 * padchars) / 8) in
    Ok (firstn (List.length decoded - 5) decoded ++ firstn leftover last)
  else Ok decoded.

(* ------------------------------------------------------------------------------------------------ *)
(* challenge.extra of a "scram" CHALLENGE, as the dict the router sent (the keys the code reads) *)
Record scram_extra := {
  sx_nonce : str;                 (* extra["nonce"]  (server nonce; by convention it starts with the client nonce) *)
  sx_kdf : str;                   (* extra["kdf"] *)
  sx_salt : pyval;                (* extra["salt"]: str with JSON, str or bytes with CBOR/MsgPack *)
  sx_iterations : N;              (* int(extra["iterations"]) *)
  sx_memory : option N;           (* int(extra.get("memory", -1)); None = absent *)
  sx_cbind : str                  (* extra.get("channel_binding", "") *)
}.
(* AuthScram state kept between CHALLENGE and WELCOME: _auth_message, _salted_password *)
Record scram_state := { ss_auth_message : bytes; ss_salted_password : bytes }.
(* the attributes of an AuthScram object that on_challenge / on_welcome read and write; None = attribute not set *)
Record scram_obj := { so_nonce : option str; so_am : option bytes; so_sp : option bytes }.
Definition scram_fresh : scram_obj := {| so_nonce := None; so_am := None; so_sp := None |}.
(* reading the authextra property (what HELLO carries) fixes the client nonce once *)
Definition scram_obj_authextra (fresh_nonce : str) (o : scram_obj) : scram_obj :=
  match so_nonce o with
  | None => {| so_nonce := Some fresh_nonce; so_am := so_am o; so_sp := so_sp o |}
  | Some _ => o
  end.
Inductive scram_op :=
  | OpAuthextra (fresh_nonce : str)          (* the authextra property is read (HELLO); os.urandom yields fresh_nonce *)
  | OpChallenge (x : scram_extra)            (* on_challenge(session, Challenge("scram", x)) *)
  | OpWelcome (sig : option pyval).          (* on_welcome(session, authextra); None: no "scram_server_signature" key *)
(* WELCOME.Details as far as the session's gate and AuthScram.on_welcome read them *)
Inductive sigval := SvText (v : pyval)        (* authextra["scram_server_signature"] is a str or bytes *)
                  | SvOther.                  (* any other value (int, null, list, dict, bool, float) *)
Inductive w_authextra := AxAbsent             (* msg.authextra is None: "authextra" absent or null *)
                       | AxDict (sig : option sigval).   (* a dict; None: it has no "scram_server_signature" key *)
Inductive gate := GateSkip                    (* onWelcome returns None without consulting any authenticator *)
                | GateDeny                    (* onWelcome returns an error string *)
                | GateUnknown                 (* RuntimeError: WELCOME names an authmethod that is not configured *)
                | GateRun (m : str).          (* the authenticator registered under m decides *)
Inductive session_outcome := Joined | Aborted.
Fixpoint mem_str (m : str) (l : list str) : bool :=
  match l with [] => false | x :: r => list_eqb m x || mem_str m r end.
Inductive welcome_verdict := Accept (* returns None *) | Deny (* returns the error string -> session ABORTs *).

Inductive authmethod := MScram | MCryptosign | MCryptosignProxy | MWampCra | MAnonymous | MAnonymousProxy | MTicket.

Section Glue.
  Variable H256 : bytes -> bytes.                                   (* hashlib.new("sha256", x).digest() *)
  Variable HMAC256 : bytes -> bytes -> bytes.                       (* hmac.new(key, msg, hashlib.sha256).digest() *)
  Variable HMAC1 : bytes -> bytes -> bytes.                         (* hmac.new(key, msg, hashlib.sha1).digest() *)
  Variable PBKDF2 : bytes -> bytes -> N -> N -> result bytes.       (* PBKDF2HMAC(SHA256, length, salt, iterations).derive(data):
                                                                       data salt iterations keylen *)
  Variable ARGON2ID : bytes -> bytes -> N -> N -> result bytes.     (* raw 32-octet tag of argon2id v1.3, p=1:
                                                                       secret salt time_cost memory_cost *)
  Variable SIGN : bytes -> bytes -> bytes.                          (* nacl SigningKey(seed).sign(m).signature: seed m *)
  Variable SASLPREP : str -> result str.                            (* passlib.utils.saslprep *)
  Variable REPR_BYTES : bytes -> str.                               (* f"{x}" of a bytes object *)

  (* ---------------------------------------------------------------------------------------------- *)
  (* auth.py: pbkdf2(data, salt, iterations, keylen): both data and salt must be bytes, else
     ValueError("Invalid argument types"); iterations/keylen are ints in every modelled call *)
  Definition pbkdf2 (data salt : pyval) (iterations keylen : N) : result bytes :=
    match data, salt with
    | VBytes d, VBytes s => PBKDF2 d s iterations keylen
    | _, _ => Raise ValueError
    end.
  (* auth.py: derive_key(secret, salt, iterations, keylen): str arguments are utf8-encoded; result is
     binascii.b2a_base64(key).strip() *)
  Definition to_bytes_utf8 (v : pyval) : result bytes :=
    match v with VStr s => utf8_encode s | VBytes b => Ok b end.
  Definition derive_key (secret salt : pyval) (iterations keylen : N) : result bytes :=
    s <- to_bytes_utf8 secret ;;
    sa <- to_bytes_utf8 salt ;;
    key <- pbkdf2 (VBytes s) (VBytes sa) iterations keylen ;;
    Ok (b64encode key).
  (* auth.py: compute_wcs(key, challenge) *)
  Definition compute_wcs (key challenge : pyval) : result bytes :=
    k <- to_bytes_utf8 key ;;
    c <- to_bytes_utf8 challenge ;;
    Ok (b64encode (HMAC256 k c)).
  (* auth.py: AuthWampCra.on_challenge.  [secret] is self._secret (a str after __init__); [salted] carries
     extra["salt"], extra["iterations"], extra["keylen"] when "salt" in extra.  Returns signature.decode("ascii"). *)
  Definition cra_on_challenge (secret : str) (salted : option (pyval * N * N)) (challenge : str) : result str :=
    key0 <- utf8_encode secret ;;
    key <- match salted with
           | Some (salt, iterations, keylen) => derive_key (VBytes key0) salt iterations keylen
           | None => Ok key0
           end ;;
    ch <- utf8_encode challenge ;;
    compute_wcs (VBytes key) (VBytes ch).

  (* ---------------------------------------------------------------------------------------------- *)
  (* auth.py: compute_totp(secret, offset) at wall-clock second [now] = int(time.time()) *)
  Definition compute_totp_at (secret : str) (now offset : Z) : result str :=
    key <- b32decode secret ;;                                 (* binascii.Error is NOT caught (only TypeError is) *)
    let interval := (offset + now / 30)%Z in
    msg <- pack_Q interval ;;
    let digest := HMAC1 key msg in
    match nth_error digest 19 with
    | None => Raise IndexError
    | Some last =>
      let o := N.land 15 last in
      v <- unpack_I (slice digest o (o + 4)) ;;
      Ok (fmt_06d (N.land v 2147483647 mod 1000000))
    end.
  (* auth.py: check_totp: offsets tried in the order 0, +1, -1; an exception of compute_totp propagates *)
  Definition check_totp_at (secret ticket : str) (now : Z) : result bool :=
    t0 <- compute_totp_at secret now 0 ;;
    if list_eqb ticket t0 then Ok true else
    t1 <- compute_totp_at secret now 1 ;;
    if list_eqb ticket t1 then Ok true else
    t2 <- compute_totp_at secret now (-1) ;;
    Ok (list_eqb ticket t2).

  (* ---------------------------------------------------------------------------------------------- *)
  (* auth.py: _hash_argon2id13_secret(password, salt, iterations, memory): salt is base64-decoded; the
     return value is the hash field of argon2's encoded string, i.e. the UNPADDED BASE64 TEXT of the tag *)
  Definition hash_argon2id13_secret (password : bytes) (salt : pyval) (iterations memory : N) : result bytes :=
    s <- b64decode salt ;;
    raw <- ARGON2ID password s iterations memory ;;
    Ok (b64encode_nopad raw).
  (* auth.py: AuthScram.on_challenge, pbkdf2 branch: _hash_pbkdf2_secret(password, base64.b64decode(salt), iterations)
     = pbkdf2(password, <decoded salt>, iterations, keylen=32).
     [decode_salt] = true is the code as it stands (since /repo commit "fix: WAMP-SCRAM with PBKDF2 must use the decoded
     salt"); false is the earlier variant that passed challenge.extra["salt"] on untouched.  Which one the tree
     under test is, harness/props/c19.py reads off auth.py's AST on every run (fail closed) and passes to the cases. *)
  Definition hash_pbkdf2_secret (decode_salt : bool) (password : bytes) (salt : pyval) (iterations : N)
    : result bytes :=
    if decode_salt then s <- b64decode salt ;; pbkdf2 (VBytes password) (VBytes s) iterations 32
    else pbkdf2 (VBytes password) salt iterations 32.

  (* f"{x}" for a value that is str or bytes *)
  Definition fmt_val (v : pyval) : str := match v with VStr s => s | VBytes b => REPR_BYTES b end.

  (* the AuthMessage string, auth.py lines "self._auth_message = ( ... ).encode('ascii')" *)
  Definition scram_auth_message_str (authid_prepped client_nonce : str) (x : scram_extra) : str :=
    lit "n=" ++ authid_prepped ++ lit ",r=" ++ client_nonce
      ++ lit ",r=" ++ sx_nonce x ++ lit ",s=" ++ fmt_val (sx_salt x) ++ lit ",i=" ++ dec_of_N (sx_iterations x)
      ++ lit ",c=" ++ sx_cbind x ++ lit ",r=" ++ sx_nonce x.

  (* the part after the KDF: ClientKey, StoredKey, ClientSignature, ClientProof *)
  Definition scram_client_proof (salted auth_message : bytes) : result bytes :=
    let client_key := HMAC256 salted (lit "Client Key") in
    let stored_key := H256 client_key in
    let client_signature := HMAC256 stored_key auth_message in
    xor client_key client_signature.

  (* auth.py: AuthScram.on_challenge (after the presence checks of the required keys, which the record
     scram_extra already encodes).  Returns base64.b64encode(client_proof) and the state kept for on_welcome. *)
  Definition scram_on_challenge (decode_salt : bool) (password authid client_nonce : str) (x : scram_extra)
    : result (bytes * scram_state) :=
    pw <- utf8_encode password ;;
    aid <- SASLPREP authid ;;
    am <- ascii_encode (scram_auth_message_str aid client_nonce x) ;;
    salted <-
      (if list_eqb (sx_kdf x) (lit "argon2id-13") then
         match sx_memory x with
         | None => Raise ValueError
         | Some m => hash_argon2id13_secret pw (sx_salt x) (sx_iterations x) m
         end
       else if list_eqb (sx_kdf x) (lit "pbkdf2") then hash_pbkdf2_secret decode_salt pw (sx_salt x) (sx_iterations x)
       else Raise RuntimeError) ;;
    proof <- scram_client_proof salted am ;;
    Ok (b64encode proof, {| ss_auth_message := am; ss_salted_password := salted |}).

  (* auth.py: AuthScram.on_welcome(session, authextra) with authextra["scram_server_signature"] = sig *)
  Definition scram_server_signature (st : scram_state) : bytes :=
    HMAC256 (HMAC256 (ss_salted_password st) (lit "Server Key")) (ss_auth_message st).
  Definition scram_on_welcome (st : scram_state) (sig : pyval) : result welcome_verdict :=
    alleged <- b64decode sig ;;
    if list_eqb (scram_server_signature st) alleged (* hmac.compare_digest *) then Ok Accept else Ok Deny.

  (* ---- the AuthScram OBJECT over a history of calls ----
     __init__ sets only _args and _client_nonce = None; _auth_message and _salted_password do not exist until
     on_challenge assigns them (the first right after the AuthMessage is assembled, the second after the KDF
     returned).  on_welcome reads both: a missing attribute is an AttributeError, which the session turns into
     ABORT (protocol.py, WELCOME errback).  [so_nonce] = None until the authextra property has been read. *)
  Definition scram_kdf (decode_salt : bool) (pw : bytes) (x : scram_extra) : result bytes :=
    if list_eqb (sx_kdf x) (lit "argon2id-13") then
      match sx_memory x with
      | None => Raise ValueError
      | Some m => hash_argon2id13_secret pw (sx_salt x) (sx_iterations x) m
      end
    else if list_eqb (sx_kdf x) (lit "pbkdf2") then hash_pbkdf2_secret decode_salt pw (sx_salt x) (sx_iterations x)
    else Raise RuntimeError.
  Definition scram_obj_on_challenge (decode_salt : bool) (password authid : str) (x : scram_extra) (o : scram_obj)
    : scram_obj * result bytes :=
    match so_nonce o with
    | None => (o, Raise AssertionError)                       (* assert self._client_nonce is not None *)
    | Some cnonce =>
      match utf8_encode password with Raise e => (o, Raise e) | Ok pw =>
      match SASLPREP authid with Raise e => (o, Raise e) | Ok aid =>
      match ascii_encode (scram_auth_message_str aid cnonce x) with Raise e => (o, Raise e) | Ok am =>
      let o1 := {| so_nonce := so_nonce o; so_am := Some am; so_sp := so_sp o |} in      (* self._auth_message = ... *)
      match scram_kdf decode_salt pw x with Raise e => (o1, Raise e) | Ok salted =>
      let o2 := {| so_nonce := so_nonce o; so_am := Some am; so_sp := Some salted |} in  (* self._salted_password = ... *)
      match scram_client_proof salted am with
      | Raise e => (o2, Raise e)
      | Ok proof => (o2, Ok (b64encode proof))
      end end end end end
    end.
  (* on_welcome on the object; [sig] = None when authextra has no "scram_server_signature" (KeyError).
     Source order: the signature is decoded first, then _salted_password is read, then _auth_message. *)
  Definition scram_obj_on_welcome (o : scram_obj) (sig : option pyval) : result welcome_verdict :=
    match sig with
    | None => Raise KeyError
    | Some s =>
      alleged <- b64decode s ;;
      match so_sp o with
      | None => Raise AttributeError
      | Some sp =>
        match so_am o with
        | None => Raise AttributeError
        | Some am =>
          if list_eqb (HMAC256 (HMAC256 sp (lit "Server Key")) am) alleged then Ok Accept else Ok Deny
        end
      end
    end.

  (* a history of calls on ONE AuthScram object (password and authid are constructor arguments).
     Output per call: the reply octets of on_challenge; [1] / [0] for on_welcome returning None / the error string;
     [] for reading authextra. *)
  Definition scram_obj_step (decode_salt : bool) (password authid : str) (o : scram_obj) (op : scram_op)
    : scram_obj * result (list N) :=
    match op with
    | OpAuthextra n => (scram_obj_authextra n o, Ok [])
    | OpChallenge x => scram_obj_on_challenge decode_salt password authid x o
    | OpWelcome sig =>
      (o, match scram_obj_on_welcome o sig with
          | Ok Accept => Ok [1] | Ok Deny => Ok [0] | Raise e => Raise e
          end)
    end.
  Fixpoint scram_obj_run (decode_salt : bool) (password authid : str) (o : scram_obj) (ops : list scram_op)
    : scram_obj * list (result (list N)) :=
    match ops with
    | [] => (o, [])
    | op :: r =>
      let '(o1, out) := scram_obj_step decode_salt password authid o op in
      let '(o2, outs) := scram_obj_run decode_salt password authid o1 r in
      (o2, out :: outs)
    end.

  (* ---- mutual authentication THROUGH THE SESSION ----
     protocol.py: ApplicationSession.onMessage, first message WELCOME: d = as_future(self.onWelcome, msg); a result
     other than None or an exception -> ABORT wamp.error.cannot_authenticate, the session is not joined; None -> the
     session is set up and onJoin fires.
     protocol.py: _SessionShim.onWelcome(msg) is the GATE in front of IAuthenticator.on_welcome:
         if msg.authmethod is None or self._authenticators is None: return          # "no authentication"
         try: authenticator = self._authenticators[msg.authmethod]
         except KeyError: raise RuntimeError(...)
         return authenticator.on_welcome(self, msg.authextra)
     [strict] = false is this code; true is the variant that refuses a WELCOME without authmethod when authenticators
     are configured and none of them is anonymous (returns an error string).  harness/props/c19.py reads which one
     the tree under test is off the AST (fail closed). *)
  Definition shim_welcome_gate (strict : bool) (configured : option (list str)) (authmethod : option str) : gate :=
    match configured with
    | None => GateSkip                                                    (* self._authenticators is None *)
    | Some names =>
      match authmethod with
      | None =>
        if strict then
          if mem_str (lit "anonymous") names || mem_str (lit "anonymous-proxy") names then GateSkip else GateDeny
        else GateSkip
      | Some m => if mem_str m names then GateRun m else GateUnknown      (* KeyError -> RuntimeError *)
      end
    end.
  (* AuthScram.on_welcome(session, msg.authextra) as the session calls it: authextra None -> None["..."] is a TypeError;
     key missing -> KeyError; a value that is neither str nor bytes -> base64.b64decode raises TypeError *)
  Definition scram_session_on_welcome (o : scram_obj) (ax : w_authextra) : result welcome_verdict :=
    match ax with
    | AxAbsent => Raise TypeError
    | AxDict None => Raise KeyError
    | AxDict (Some SvOther) => Raise TypeError
    | AxDict (Some (SvText v)) => scram_obj_on_welcome o (Some v)
    end.
  (* on_welcome of the authenticator registered under [m]: AuthAnonymous / AuthTicket / AuthCryptoSign / AuthWampCra
     (and the -proxy variants) return None unconditionally *)
  Definition authenticator_on_welcome (o : scram_obj) (m : str) (ax : w_authextra) : result welcome_verdict :=
    if list_eqb m (lit "scram") then scram_session_on_welcome o ax else Ok Accept.
  Definition session_on_welcome (strict : bool) (configured : option (list str)) (o : scram_obj)
             (authmethod : option str) (ax : w_authextra) : session_outcome :=
    match shim_welcome_gate strict configured authmethod with
    | GateSkip => Joined
    | GateDeny => Aborted
    | GateUnknown => Aborted
    | GateRun m => match authenticator_on_welcome o m ax with Ok Accept => Joined | _ => Aborted end
    end.

  (* auth.py: derive_scram_credential with an explicit 16-octet salt: (stored-key, server-key) before hexlify;
     time_cost 4096, memory_cost 512 *)
  Definition derive_scram_credential (password : str) (salt : bytes) : result (bytes * bytes) :=
    pw <- utf8_encode password ;;
    raw <- ARGON2ID pw salt 4096 512 ;;
    let salted := b64encode_nopad raw in
    Ok (b2a_hex (H256 (HMAC256 salted (lit "Client Key"))), b2a_hex (HMAC256 salted (lit "Server Key"))).

  (* ---------------------------------------------------------------------------------------------- *)
  (* cryptosign.py: _format_challenge(challenge, channel_id_raw, channel_id_type) *)
  Definition cs_format_challenge (challenge_hex : pyval) (channel_id_raw : option bytes)
             (channel_id_type : option str) : result bytes :=
    match challenge_hex with
    | VBytes _ => Raise PlainException                            (* type(challenge_hex) != str *)
    | VStr h =>
      if negb (Nat.eqb (List.length h) 64) then Raise PlainException    (* len(challenge_hex) != 64 *)
      else
        hb <- ascii_arg h ;;
        challenge_raw <- a2b_hex hb ;;
        match channel_id_type with
        | Some t =>
          if list_eqb t (lit "tls-unique") then
            match channel_id_raw with
            | None => Raise TypeError                              (* len(None) *)
            | Some cid =>
              if Nat.eqb (List.length cid) 32 then xor challenge_raw cid else Raise AssertionError
            end
          else Raise AssertionError                                (* assert False, invalid channel_id_type *)
        | None => Ok challenge_raw
        end
    end.
  (* cryptosign.py: CryptosignKey.sign_challenge -> _sign_challenge: hex(signature) + hex(data), a str *)
  Definition cs_sign_challenge (seed : bytes) (challenge_hex : pyval) (channel_id_raw : option bytes)
             (channel_id_type : option str) : result str :=
    data <- cs_format_challenge challenge_hex channel_id_raw channel_id_type ;;
    Ok (b2a_hex (SIGN seed data) ++ b2a_hex data).

  (* ---------------------------------------------------------------------------------------------- *)
  (* auth.py: create_authenticator(name, **kwargs): unknown name -> ValueError *)
  Definition create_authenticator (name : str) : result authmethod :=
    if list_eqb name (lit "scram") then Ok MScram
    else if list_eqb name (lit "cryptosign") then Ok MCryptosign
    else if list_eqb name (lit "cryptosign-proxy") then Ok MCryptosignProxy
    else if list_eqb name (lit "wampcra") then Ok MWampCra
    else if list_eqb name (lit "anonymous") then Ok MAnonymous
    else if list_eqb name (lit "anonymous-proxy") then Ok MAnonymousProxy
    else if list_eqb name (lit "ticket") then Ok MTicket
    else Raise ValueError.
  (* AuthTicket.on_challenge returns the ticket; AuthAnonymous.on_challenge raises RuntimeError *)
  Definition ticket_on_challenge (ticket : str) : result str := Ok ticket.
  Definition anonymous_on_challenge : result str := Raise RuntimeError.
End Glue.

(* ------------------------------------------------------------------------------------------------ *)
(* REFERENCE side: what the PEER computes, written from the RFCs / the WAMP profile and not from the code above.
   The theorems of Props/C19.v relate the model of the code to these. *)
Definition dec_value (l : list N) : N := fold_left (fun acc c => acc * 10 + (c - 48)) l 0.
Definition is_digit (c : N) : Prop := 48 <= c /\ c <= 57.

(* RFC 4226 section 5.3: OffsetBits = low-order 4 bits of String[19]; P = String[Offset..Offset+3];
   return the last 31 bits of P *)
Definition rfc4226_dt (hs : bytes) : N :=
  let offset := nth 19 hs 0 mod 16 in
  be_num (firstn 4 (skipn (N.to_nat offset) hs)) mod 2 ^ 31.

Section Reference.
  Variable H256 : bytes -> bytes.
  Variable HMAC256 : bytes -> bytes -> bytes.
  Variable PBKDF2 : bytes -> bytes -> N -> N -> result bytes.
  Variable VERIFY : bytes -> bytes -> bytes -> bool.                  (* Ed25519 verify: public key, message, signature *)

  (* WAMP-CRA, router side: key = secret, or base64(PBKDF2(secret, salt, iterations, keylen)) for a salted
     secret; expected signature = base64(HMAC-SHA256(key, challenge)) *)
  Definition cra_reference (secret_utf8 : bytes) (salted : option (bytes * N * N)) (challenge_utf8 : bytes)
    : result bytes :=
    key <- match salted with
           | None => Ok secret_utf8
           | Some (salt, iterations, keylen) => dk <- PBKDF2 secret_utf8 salt iterations keylen ;; Ok (b64encode dk)
           end ;;
    Ok (b64encode (HMAC256 key challenge_utf8)).

  (* RFC 5802 section 3 / section 7 message grammar *)
  Definition rfc5802_client_first_bare (user cnonce : str) : str := lit "n=" ++ user ++ lit ",r=" ++ cnonce.
  Definition rfc5802_server_first (nonce salt_b64 : str) (i : N) : str :=
    lit "r=" ++ nonce ++ lit ",s=" ++ salt_b64 ++ lit ",i=" ++ dec_of_N i.
  Definition rfc5802_client_final_without_proof (cbind nonce : str) : str := lit "c=" ++ cbind ++ lit ",r=" ++ nonce.
  Definition rfc5802_auth_message (cfb sf cfwp : str) : str := cfb ++ lit "," ++ sf ++ lit "," ++ cfwp.
  Definition rfc5802_stored_key (salted : bytes) : bytes := H256 (HMAC256 salted (lit "Client Key")).
  Definition rfc5802_server_key (salted : bytes) : bytes := HMAC256 salted (lit "Server Key").
  (* the server recovers ClientKey = ClientProof XOR HMAC(StoredKey, AuthMessage) and compares H(ClientKey) with StoredKey *)
  Definition rfc5802_server_accepts (stored_key auth_message proof : bytes) : bool :=
    match xor proof (HMAC256 stored_key auth_message) with
    | Ok client_key => list_eqb (H256 client_key) stored_key
    | Raise _ => false
    end.
  Definition rfc5802_server_signature (server_key auth_message : bytes) : bytes := HMAC256 server_key auth_message.

  (* WAMP-cryptosign, router side: the reply is hex(64-octet signature || 32-octet signed message); the message
     must verify under the client's public key and must be the challenge XOR the channel id (if bound) *)
  Definition cs_router_accepts (pubkey challenge_raw : bytes) (channel_id : option bytes) (reply : str) : bool :=
    Nat.eqb (List.length reply) 192 &&
    match a2b_hex reply with
    | Ok raw =>
      let sig := firstn 64 raw in
      let msg := skipn 64 raw in
      VERIFY pubkey msg sig &&
      list_eqb msg (match channel_id with None => challenge_raw | Some cid => xor_zip challenge_raw cid end)
    | Raise _ => false
    end.
End Reference.
