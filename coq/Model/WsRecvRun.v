(* Executable entry points for the C02 / C16 correspondence runs (harness/props/c02.py, c16.py). *)
From Coq Require Import NArith List Bool.
From AV Require Import Model.Masker Gen.WsConsts Model.WsRecv.
Import ListNotations.
Open Scope N_scope.

Fixpoint bytes_eqb (a b : list N) : bool :=
  match a, b with
  | [], [] => true
  | x :: a', y :: b' => (x =? y) && bytes_eqb a' b'
  | _, _ => false
  end.
Definition optN_eqb (a b : option N) : bool :=
  match a, b with Some x, Some y => x =? y | None, None => true | _, _ => false end.

(* the decompressor as a replay tape: the i-th call of decompress_message_data returns the i-th recorded output of
   the real zlib object (recorded by the driver); with an empty tape octets pass through *)
Definition tape_codec : codec (list (list N)) :=
  mkCodec (fun t => t) (fun t x => match t with o :: r => (r, o) | [] => (t, x) end) (fun t => t).

(* ghost events are not observable *)
Definition observable (e : event) : bool :=
  match e with EFail _ | ECloseOk _ _ => false | _ => true end.

(* model event vs observed event (the observed close reason is RNone or RBytes) *)
Definition ev_match (m o : event) : bool :=
  match m, o with
  | EMsg p b, EMsg q c => bytes_eqb p q && Bool.eqb b c
  | EPing p, EPing q | EPong p, EPong q | ESendPong p, ESendPong q => bytes_eqb p q
  | ESendClose c r, ESendClose c' r' =>
      optN_eqb c c' && match r, r' with
                       | RText, _ => true
                       | RNone, RNone => true
                       | RBytes x, RBytes y => bytes_eqb x y
                       | _, _ => false
                       end
  | EDrop a, EDrop b => Bool.eqb a b
  | ERaise, ERaise => true
  | _, _ => false
  end.
Fixpoint evs_match (m o : list event) : bool :=
  match m, o with
  | [], [] => true
  | x :: m', y :: o' => ev_match x y && evs_match m' o'
  | _, _ => false
  end.

Definition pst_code (p : pst) : N := match p with OPEN => 0 | CLOSING => 1 | CLOSED => 2 end.
Definition pst_of (n : N) : pst := match n with 0 => OPEN | 1 => CLOSING | _ => CLOSED end.

(* (configuration, initial state code, reads, decompressor tape, observed events,
    (final state code, onClose wasClean, onClose code)) *)
Definition wsrecv_case :=
  (cfg * N * list (list N) * list (list N) * list event * (N * bool * option N))%type.

Definition wsrecv_run (c : wsrecv_case) :=
  let '(cf, p0, chunks, tape, _, _) := c in
  feed_all _ tape_codec cf (init_state _ (pst_of p0) tape) chunks.

Definition wsrecv_case_ok (c : wsrecv_case) : bool :=
  let '(cf, p0, chunks, tape, exp, (fst_, fclean, fcode)) := c in
  match feed_all _ tape_codec cf (init_state _ (pst_of p0) tape) chunks with
  | OutOfFuel _ => false
  | Done _ s evs =>
      evs_match (filter observable evs) exp &&
      (pst_code (st (cn _ s)) =? fst_) &&
      (let '(cl, code, _) := on_lost (cn _ s) in Bool.eqb cl fclean && optN_eqb code fcode)
  end.

(* for replays / diagnostics: the model's observable events and final report *)
Definition wsrecv_show (c : wsrecv_case) :=
  match wsrecv_run c with
  | OutOfFuel _ => None
  | Done _ s evs => Some (filter observable evs, pst_code (st (cn _ s)), on_lost (cn _ s))
  end.

(* the judge on the concatenated stream, with the same tape *)
Definition wsrecv_judge (c : wsrecv_case) :=
  let '(cf, _, chunks, tape, _, _) := c in rfc_judge _ tape_codec cf tape (concat chunks).

(* ---- header sweep (C02): the two header octets [h / 256; h mod 256] followed by as many zero octets as the
   extended length and masking key need ---- *)
Definition hdr_stream (h : N) : list N :=
  let b0 := h / 256 in let b1 := h mod 256 in let len7 := b1 mod 128 in
  let ext := if len7 <=? 125 then 0 else if len7 =? 126 then 2 else 8 in
  [b0; b1] ++ repeat 0 (N.to_nat (ext + (if 128 <=? b1 then 4 else 0))).
Fixpoint rangeN_from (a : N) (n : nat) : list N :=
  match n with O => [] | S k => a :: rangeN_from (a + 1) k end.
(* observed outcomes come run-length encoded: (first header, last header, index into the outcome table) *)
Definition sweep_case :=
  (cfg * N * list (list N) * list (list event * (N * bool * option N)) * list (N * N * N))%type.
Definition sweep_failing (c : sweep_case) : list N :=
  let '(cf, p0, pre, tbl, runs) := c in
  flat_map (fun r : N * N * N =>
    let '(a, b, k) := r in
    match nth_error tbl (N.to_nat k) with
    | None => [a]
    | Some (evs, fin) =>
        filter (fun h => negb (wsrecv_case_ok (cf, p0, pre ++ [hdr_stream h], [], evs, fin)))
               (rangeN_from a (N.to_nat (b - a + 1)))
    end) runs.
Definition sweep_case_ok (c : sweep_case) : bool := match sweep_failing c with [] => true | _ => false end.
