(* Executable entry points for the C20 correspondence run (harness/props/c20.py).
   NaCl is replaced by a TOY authenticated cipher that satisfies the assumed laws (Props/C20.v C20_toy_aead_ok):
   a ciphertext is the sealing secret, nonce and plaintext in the open, or [Garbage] (= any altered ciphertext).
   Private keys are numbered by the harness (key i = the real key sha256("key<i>")), pub s = s + 1000 and
   dh a (pub b) = the unordered pair {a, b}; application values are numbered (V := N); JSON is the identity. *)
From Coq Require Import List String Bool NArith.
From AV Require Import Model.SessionErr Model.SessionErrRun Model.Cryptobox.
Import ListNotations.
Open Scope string_scope.

Definition env := envelope N.
Inductive toyC := Sealed (s : secret) (n : N) (p : env) | Garbage.
Definition toy_seal (s : secret) (n : N) (p : env) : toyC := Sealed s n p.
Definition toy_open (s : secret) (c : toyC) : option env :=
  match c with Sealed s' _ p => if N.eqb s s' then Some p else None | Garbage => None end.
Definition toy_pub (s : sk) : pk := (s + 1000)%N.
Definition toy_dh (a : sk) (p : pk) : secret :=
  let b := (p - 1000)%N in if (a <=? b)%N then (a * 1000 + b)%N else (b * 1000 + a)%N.
(* a value that json.dumps rejects (the harness uses a datetime, which CBOR transports happily) *)
Definition UNSER : N := 555555.
Definition toy_dumps (e : env) : option env :=
  let '(_, a, k) := e in
  if existsb (N.eqb UNSER) (or_nil a) || existsb (fun p => N.eqb UNSER (snd p)) (or_nil k) then None else Some e.
Definition toy_loads (p : env) : option env := Some p.
Definition NOTE : N := 777777.                      (* the log text argument of an encryption error *)

(* ---- keyrings as the harness describes them ---- *)
(* Key(originator_priv, originator_pub, responder_priv, responder_pub); a public key is given by its owner's number *)
Record keyspec := mkKS { ks_opriv : option N; ks_opub : option N; ks_rpriv : option N; ks_rpub : option N }.
Definition key_of (k : keyspec) : option key :=
  make_key toy_pub toy_dh (ks_opriv k) (option_map toy_pub (ks_opub k)) (ks_rpriv k) (option_map toy_pub (ks_rpub k)).
Record ringspec := mkRS {
  rs_default : option keyspec; rs_keys : list (string * keyspec);      (* the ring as first populated *)
  rs_sets : list (string * option keyspec)                              (* later set_key(uri, key | None) calls, in order *)
}.
Definition ring_of (r : ringspec) : keyring :=
  apply_sets
    (fold_left (fun acc '(u, ks) => set_key acc u (key_of ks)) (rs_keys r)
               (set_key empty_ring "" (match rs_default r with Some ks => key_of ks | None => None end)))
    (map (fun '(u, ks) => (u, match ks with Some k => key_of k | None => None end)) (rs_sets r)).
Definition codec_of (r : option ringspec) : option keyring := option_map ring_of r.

(* ---- what the "router" (or an attacker on the path) does to a payload-carrying message ---- *)
Inductive fault :=
| NoFault
| Tamper                     (* any alteration of the ciphertext octets *)
| Swap (env_uri : string)    (* delivered under another envelope URI *)
| BadSerializer              (* enc_serializer detail changed to "cbor" *)
| BadAlgo.                   (* enc_algo detail changed to "mqtt" *)

Definition apply_fault (f : fault) (b : body N toyC) : body N toyC :=
  match b, f with
  | Encoded e, Tamper => Encoded (mkEnc Garbage (e_algo e) (e_serializer e) (e_key e))
  | Encoded e, BadSerializer => Encoded (mkEnc (e_payload e) (e_algo e) (Some "cbor") (e_key e))
  | Encoded e, BadAlgo => Encoded (mkEnc (e_payload e) "mqtt" (e_serializer e) (e_key e))
  | _, _ => b
  end.
Definition env_uri (f : fault) (uri : string) : string := match f with Swap u => u | _ => uri end.

Definition is_encrypted (b : body N toyC) : bool := match b with Encoded _ => true | Plain _ _ => false end.
(* the body as marshalled on the wire: empty args / kwargs are not distinguishable from absent ones *)
Definition norm_body (b : body N toyC) : body N toyC :=
  match b with
  | Plain a k => Plain (Some (or_nil a)) (Some (or_nil k))
  | _ => b
  end.

(* ---- expected observations ---- *)
Inductive xout :=
| XInvoked (a : list N) (k : kw N)         (* handler / endpoint invoked, call resolved, progress delivered, error payload *)
| XFailed (uri : string)                   (* explicit failure with this error URI *)
| XClass (c : N) (a : list N) (k : kw N)    (* remote error surfaced as an instance of the class registered for its URI *)
| XHandlers (l : list (N * list N * kw N)) (* the event handlers invoked, in order: (handler number, args, kwargs) *)
| XIgnored                                 (* event silently ignored *)
| XNotSent.                                (* the sender raised *)

Inductive leg :=
| LPublishEvent (a b : option ringspec) (topic : string) (args : list N) (kwargs : kw N) (f : fault)
                (detail_topic : bool) (handlers : list N)       (* EVENT names the topic?; handlers on the subscription *)
| LCallInvocation (a b : option ringspec) (proc : string) (args : list N) (kwargs : kw N) (f : fault)
                  (reg_prefix : option string) (reg_name : string)   (* how the callee registered: register(fn, name, prefix=...) *)
                  (detail : bool)                                     (* INVOCATION carries the procedure detail *)
| LYieldResult (b a : option ringspec) (proc : string) (inv_encrypted progress : bool) (args : list N) (kwargs : option (kw N)) (f : fault)
| LError (b a : option ringspec) (error : string) (args : option (list N)) (kwargs : option (kw N)) (f : fault)
         (caller_defs : list defop) (kinds : list (cls * ckind)).   (* the caller's define() calls and class kinds *)

Definition kw_eqb' := kw_eqb.
Definition xout_eqb (x y : xout) : bool :=
  match x, y with
  | XInvoked a k, XInvoked a' k' => list_eqb N.eqb a a' && kw_eqb k k'
  | XClass c a k, XClass c' a' k' => N.eqb c c' && list_eqb N.eqb a a' && kw_eqb k k'
  | XFailed u, XFailed u' => String.eqb u u'
  | XHandlers l, XHandlers l' =>
      list_eqb (fun x y => N.eqb (fst (fst x)) (fst (fst y)) && list_eqb N.eqb (snd (fst x)) (snd (fst y)) && kw_eqb (snd x) (snd y)) l l'
  | XIgnored, XIgnored => true
  | XNotSent, XNotSent => true
  | _, _ => false
  end.

(* returns (was the message encrypted, outcome at the receiver) *)
Definition run_leg (l : leg) : bool * xout :=
  match l with
  | LPublishEvent a b topic args kwargs f detail hs =>
      match originate N env toyC N toy_seal toy_dumps (codec_of a) topic args kwargs 0%N with
      | SendRaises => (false, XNotSent)
      | Sent m =>
          let u := env_uri f topic in
          (is_encrypted m,
           XHandlers (dispatch_event N env toyC toy_open toy_loads (codec_of b) (if detail then Some u else None)
                                     (apply_fault f m) (map (fun i => mkHandler i true u) hs)))
      end
  | LCallInvocation a b proc args kwargs f reg_prefix reg_name detail =>
      match originate N env toyC N toy_seal toy_dumps (codec_of a) proc args kwargs 0%N with
      | SendRaises => (false, XNotSent)
      | Sent m =>
          (is_encrypted m,
           match on_invocation_registered N env toyC N toy_seal toy_open toy_dumps toy_loads (fun _ => NOTE) (codec_of b)
                   reg_prefix reg_name (if detail then Some (env_uri f proc) else None) (apply_fault f m) 0%N with
           | EndpointInvoked x k _ => XInvoked x k
           | ErrorReply u _ => XFailed u
           end)
      end
  | LYieldResult b a proc inv_enc progress args kwargs f =>
      let sm := if progress then progress_body N env toyC N toy_seal toy_dumps (codec_of b) inv_enc proc args (or_nil kwargs) 0%N
                else Sent (yield_body N env toyC N toy_seal toy_dumps (codec_of b) inv_enc proc args kwargs 0%N) in
      match sm with
      | SendRaises => (false, XNotSent)
      | Sent m =>
          (is_encrypted m,
           match on_result N env toyC toy_open toy_loads (codec_of a) (env_uri f proc) progress (apply_fault f m) with
           | Resolved x k | ProgressDelivered x k => XInvoked x k
           | RejectedWith u | ProgressNotDelivered u => XFailed u
           end)
      end
  | LError b a error args kwargs f defs kinds =>
      match error_body N env toyC N toy_seal toy_dumps (codec_of b) error args kwargs 0%N with
      | SendRaises => (false, XNotSent)
      | Sent m =>
          let reg := snd (define_results (fun _ => true) defs) in
          let m' := apply_fault f m in
          (is_encrypted m,
           match on_error_codec N env toyC toy_open toy_loads (codec_of a) (env_uri f error) m' with
           | ErrEnc u => XFailed u
           | ErrPayload _ _ =>
               (* the whole _exception_from_message: decrypted payload, then registered class or generic error *)
               match fst (exception_from_message_codec N env toyC toy_open toy_loads N (fun _ => NOTE) (run_construct kinds) HookReturns reg
                            (codec_of a) 48%N 1%N (env_uri f error) m' (fun _ => None)) with
               | Ok e => if (c_cls e =? CLS_ApplicationError)%N then XInvoked (c_args e) (or_nil (c_kwargs e))
                         else XClass (c_cls e) (c_args e) (or_nil (c_kwargs e))
               | Raise _ => XNotSent
               end
           end)
      end
  end.

Definition cb_case := (leg * bool * xout)%type.
Definition cb_case_ok (c : cb_case) : bool :=
  let '(l, enc, x) := c in
  let '(enc', x') := run_leg l in Bool.eqb enc enc' && xout_eqb x x'.
