(* Model of the WebSocket receive path (definitions only).
   Source mirrored:  /repo/src/autobahn/websocket/protocol.py
     WebSocketProtocol._dataReceived / consumeData / processData / onFrameBegin / onFrameData / onFrameEnd /
     processControlFrame / onCloseFrame / onPing / _fail_connection / _protocol_violation / _invalid_payload /
     _max_message_size_exceeded / dropConnection / sendCloseFrame / sendPong /
     onMessageBegin / onMessageFrameBegin / onMessageFrameData / onMessageFrameEnd / onMessageFrame / onMessageEnd,
     and the sendMessage() size guard;  compress_deflate.py PerMessageDeflate.(start_|end_)decompress_message(_data).
   Every integer comparison of those functions is NOT written here: it is the generated definition of
   Gen/WsConsts.v (translators/ws_consts.py reads operator and literals from the source on every run).
   Bytes are N (< 256).  The permessage-compress decompressor is an oracle: a Section variable [cd : codec D].
   Beside the operational model: [rfc_judge], the declarative whole-stream reference written from RFC 6455 section 5
   (and RFC 7692 section 6 for RSV1), not from the code. *)
From Coq Require Import NArith List Bool.
From AV Require Import Model.Masker Gen.WsConsts.
Import ListNotations.
Open Scope N_scope.

(* ------------------------------------------------------------------------------------------------ *)
(* UTF-8: the byte-range automaton of RFC 3629 section 4 / Unicode Table 3-7 (states 0..8, 0 = accept, 1 = reject).
   Builder b-utf8 proves utf8validator.py's and _utf8validator.c's DFA tables equal to this automaton (C09). *)
Definition inr (lo hi b : N) : bool := (lo <=? b) && (b <=? hi).
Definition u_step (s b : N) : N :=
  match s with
  | 0 => if b <=? 0x7F then 0 else if inr 0xC2 0xDF b then 2 else if b =? 0xE0 then 4
         else if inr 0xE1 0xEC b || inr 0xEE 0xEF b then 3 else if b =? 0xED then 5
         else if b =? 0xF0 then 6 else if inr 0xF1 0xF3 b then 7 else if b =? 0xF4 then 8 else 1
  | 2 => if inr 0x80 0xBF b then 0 else 1
  | 3 => if inr 0x80 0xBF b then 2 else 1
  | 4 => if inr 0xA0 0xBF b then 2 else 1
  | 5 => if inr 0x80 0x9F b then 2 else 1
  | 6 => if inr 0x90 0xBF b then 3 else 1
  | 7 => if inr 0x80 0xBF b then 3 else 1
  | 8 => if inr 0x80 0x8F b then 3 else 1
  | _ => 1
  end.
(* utf8validator.py: Utf8Validator.validate -- stops at the first octet that leads to REJECT; the object keeps state
   REJECT (sticky).  A call that consumes all its octets reports valid = (state != REJECT): in particular an empty chunk
   given to a validator that has already rejected is reported invalid again (upstream fix a0b6310f; the native
   validator behaves the same since ebfd183a). *)
Fixpoint u_loop (s : N) (bs : list N) : bool * N :=
  match bs with
  | [] => (negb (s =? 1), s)
  | b :: r => let s' := u_step s b in if s' =? 1 then (false, 1) else u_loop s' r
  end.
(* (valid?, endsOnCodePoint?, new state) *)
Definition u_validate (s : N) (bs : list N) : bool * bool * N :=
  let '(v, s') := u_loop s bs in (v, v && (s' =? 0), s').

(* ------------------------------------------------------------------------------------------------ *)
Inductive pst := OPEN | CLOSING | CLOSED.     (* STATE_OPEN / STATE_CLOSING / STATE_CLOSED; the (PROXY_)CONNECTING
   states belong to the handshake and never reach processData: consumeData dispatches them elsewhere *)

Record cfg := mkCfg {
  isServer : bool;          (* factory.isServer *)
  requireMasked : bool;     (* requireMaskedClientFrames (server option) *)
  acceptMasked : bool;      (* acceptMaskedServerFrames  (client option) *)
  applyMask : bool;
  failByDrop : bool;
  utf8validate : bool;      (* utf8validateIncoming *)
  maxFrame : N;             (* maxFramePayloadSize, 0 = unlimited *)
  maxMsg : N;               (* maxMessagePayloadSize, 0 = unlimited *)
  pmc : bool;               (* self._perMessageCompress is not None *)
  echoClose : bool          (* echoCloseCodeReason *)
}.

(* FrameHeader(opcode, fin, rsv, length, mask) *)
Record frame := mkF { f_op : N; f_fin : bool; f_rsv : N; f_len : N; f_masked : bool; f_mask : list N }.

Inductive creason := RNone | RBytes (r : list N) | RText.   (* RText: human readable diagnostic, not compared *)
Inductive event :=
| EMsg (p : list N) (bin : bool)           (* onMessage *)
| EPing (p : list N)                       (* onPing *)
| EPong (p : list N)                       (* onPong *)
| ESendPong (p : list N)                   (* sendFrame(opcode=10, payload) *)
| ESendClose (code : option N) (r : creason)   (* sendFrame(opcode=8, code ++ reason) *)
| EDrop (abort : bool)                     (* _closeConnection(abort): transport.loseConnection / abortConnection *)
| EFail (code : N)                         (* ghost: _fail_connection(code) entered in a state other than CLOSED *)
| ECloseOk (code : option N) (reason : option (list N))   (* ghost: a close frame passed onCloseFrame's validation *)
| ERaise.                                  (* an exception leaves _dataReceived *)

(* close bookkeeping *)
Record conn := mkC { st : pst; failed : bool (* failedByMe *); clean : bool (* wasClean *);
                     rcode : option N (* remoteCloseCode *); rreason : option (list N) (* remoteCloseReason *) }.
Definition c_st (c : conn) v := mkC v (failed c) (clean c) (rcode c) (rreason c).
Definition c_failed (c : conn) v := mkC (st c) v (clean c) (rcode c) (rreason c).
Definition c_clean (c : conn) v := mkC (st c) (failed c) v (rcode c) (rreason c).
Definition c_rcode (c : conn) v := mkC (st c) (failed c) (clean c) v (rreason c).
Definition c_rreason (c : conn) v := mkC (st c) (failed c) (clean c) (rcode c) v.

(* protocol.py dropConnection(abort): only when state != CLOSED: droppedByMe, state = CLOSED, _closeConnection(abort) *)
Definition drop_connection (c : conn) (abort : bool) : conn * list event :=
  match st c with
  | CLOSED => (c, [])
  | _ => (c_st c CLOSED, [EDrop abort])
  end.

(* protocol.py sendCloseFrame: ignored in CLOSING / CLOSED; in OPEN the frame is written and state = CLOSING
   (the CONNECTING branches raise; those states are outside this model) *)
Definition send_close_frame (c : conn) (code : option N) (r : creason) : conn * list event :=
  match st c with
  | OPEN => (c_st c CLOSING, [ESendClose code r])
  | _ => (c, [])
  end.

(* protocol.py _fail_connection(code, reason) *)
Definition fail_connection (cf : cfg) (c : conn) (code : N) : conn * list event :=
  match st c with
  | CLOSED => (c, [])                                           (* "skip failing of connection ..." *)
  | _ =>
    let c1 := c_failed c true in
    if failByDrop cf
    then let '(c2, e) := drop_connection (c_clean c1 false) true in (c2, EFail code :: e)
    else match st c1 with
         | CLOSING => let '(c2, e) := drop_connection c1 false in (c2, EFail code :: e)
         | _ => let '(c2, e) := send_close_frame c1 (Some code) RText in (c2, EFail code :: e)
         end
  end.
(* _protocol_violation / _invalid_payload / _max_message_size_exceeded: (state, events, "discontinue processing") *)
Definition protocol_violation (cf : cfg) (c : conn) : conn * list event * bool :=
  let '(c1, e) := fail_connection cf c code_protocol_error in (c1, e, failByDrop cf).
Definition invalid_payload (cf : cfg) (c : conn) : conn * list event * bool :=
  let '(c1, e) := fail_connection cf c code_invalid_payload in (c1, e, failByDrop cf).
Definition max_size_exceeded (cf : cfg) (c : conn) : conn * list event :=
  fail_connection cf c code_message_too_big.

(* the header violations, named after the log texts of processData *)
Inductive hviol :=
| HRsv            (* "RSV = .. and no extension negotiated" *)
| HUnmasked       (* "unmasked client-to-server frame" *)
| HMasked         (* "masked server-to-client frame" *)
| HCtlFragmented  (* "fragmented control frame" *)
| HCtlLen         (* "control frame with payload length > 125 octets" *)
| HCtlOpcode      (* "control frame using reserved opcode" *)
| HCloseLen1      (* "received close control frame with payload len 1" *)
| HCtlCompressed  (* "received compressed control frame" *)
| HDataOpcode     (* "data frame using reserved opcode" *)
| HContOutside    (* "received continuation data frame outside fragmented message" *)
| HNonContInside  (* "received non-continuation data frame while inside fragmented message" *)
| HContCompressed (* "received continuation data frame with compress bit set" *)
| HLen16NonMin    (* "invalid data frame length (not using minimal length encoding)" , 16 bit *)
| HLen64Huge      (* "invalid data frame length (>2^63)" *)
| HLen64NonMin.   (* "invalid data frame length (not using minimal length encoding)" , 64 bit *)

(* processData: the fields of the first two octets *)
Definition hb_fin (b0 : N) : bool := negb (N.land b0 0x80 =? 0).
Definition hb_rsv (b0 : N) : N := N.shiftr (N.land b0 0x70) 4.
Definition hb_opcode (b0 : N) : N := N.land b0 0x0F.
Definition hb_masked (b1 : N) : bool := negb (N.land b1 0x80 =? 0).
Definition hb_len1 (b1 : N) : N := N.land b1 0x7F.

Definition vif (b : bool) (v : hviol) : list hviol := if b then [v] else [].

(* processData, "if frame_rsv != 0" ... "continuation data frames MUST NOT have the compressed bit set":
   the violations a header raises, in source order.  Each condition reads the two octets, the configuration and
   inside_message only, none of which a violation changes, so the list can be computed up front. *)
Definition hdr_viols (cf : cfg) (ins : bool) (b0 b1 : N) : list hviol :=
  let fin := hb_fin b0 in let rsv := hb_rsv b0 in let op := hb_opcode b0 in
  let masked := hb_masked b1 in let len1 := hb_len1 b1 in
  vif (pd_rsv_nonzero rsv && negb (pmc cf && pd_rsv_is4 rsv)) HRsv ++
  vif (isServer cf && requireMasked cf && negb masked) HUnmasked ++
  vif (negb (isServer cf) && negb (acceptMasked cf) && masked) HMasked ++
  (if pd_is_ctl op
   then vif (negb fin) HCtlFragmented ++
        vif (pd_ctl_len_bad len1) HCtlLen ++
        vif (pd_ctl_op_bad op) HCtlOpcode ++
        vif (pd_is_close op && pd_len1_is1 len1) HCloseLen1 ++
        vif (pmc cf && pd_rsv_is4_ctl rsv) HCtlCompressed
   else vif (pd_data_op_bad op) HDataOpcode ++
        vif (negb ins && pd_op_is_cont op) HContOutside ++
        vif (ins && pd_op_not_cont op) HNonContInside ++
        vif (pmc cf && pd_rsv_is4_cont rsv && ins) HContCompressed).

(* "if self._protocol_violation(..): return False" repeated for each raised violation *)
Fixpoint pv_all (cf : cfg) (c : conn) (vs : list hviol) : conn * list event * bool :=
  match vs with
  | [] => (c, [], false)
  | _ :: r => let '(c1, e1, stop) := protocol_violation cf c in
              if stop then (c1, e1, true)
              else let '(c2, e2, stop2) := pv_all cf c1 r in (c2, e1 ++ e2, stop2)
  end.

Fixpoint be_val (acc : N) (bs : list N) : N :=      (* struct.unpack("!H"/"!Q") *)
  match bs with [] => acc | b :: r => be_val (acc * 256 + b) r end.
Definition take (n : N) (l : list N) := firstn (N.to_nat n) l.
Definition drop (n : N) (l : list N) := skipn (N.to_nat n) l.
Definition nonempty (l : list N) : bool := match l with [] => false | _ => true end.

(* processData "compute complete header length": None = raise Exception("logic error") *)
Definition header_len (len1 mask_len : N) : option N :=
  if pd_len1_small len1 then Some (2 + mask_len)
  else if pd_len1_is16 len1 then Some (2 + 2 + mask_len)
  else if pd_len1_is64 len1 then Some (2 + 8 + mask_len)
  else None.

(* processData "extract extended payload length": (payload length, violations in source order, index after it) *)
Definition ext_len (len1 : N) (d : list N) : N * list hviol * N :=
  if pd_len1_is16_x len1 then
    let n := be_val 0 (take 2 (drop 2 d)) in (n, vif (pd_len16_nonmin n) HLen16NonMin, 4)
  else if pd_len1_is64_x len1 then
    let n := be_val 0 (take 8 (drop 2 d)) in
    (n, vif (pd_len64_huge n) HLen64Huge ++ vif (pd_len64_nonmin n) HLen64NonMin, 10)
  else (len1, [], 2).

Section WithCodec.
(* The decompressor of the negotiated permessage-compress extension (oracle).
   d_start = start_decompress_message, d_data = decompress_message_data, d_end = end_decompress_message *)
Variable D : Type.
Record codec := mkCodec { d_start : D -> D; d_data : D -> list N -> D * list N; d_end : D -> D }.
Variable cd : codec.

(* message assembly state *)
Record mstate := mkM {
  inside : bool;       (* inside_message *)
  zon : bool;          (* _isMessageCompressed *)
  uon : bool;          (* utf8validateIncomingCurrentMessage *)
  ust : N;             (* utf8validator._state *)
  uval : bool;         (* utf8validateLast[0] *)
  uend : bool;         (* utf8validateLast[1] *)
  mbin : bool;         (* message_is_binary *)
  mdata : list N;      (* b"".join(message_data) *)
  fdata : list N;      (* b"".join(frame_data) *)
  mtotal : N;          (* message_data_total_length *)
  dec : D              (* _perMessageCompress._decompressor *)
}.
Definition m_inside m v := mkM v (zon m) (uon m) (ust m) (uval m) (uend m) (mbin m) (mdata m) (fdata m) (mtotal m) (dec m).
Definition m_zon m v := mkM (inside m) v (uon m) (ust m) (uval m) (uend m) (mbin m) (mdata m) (fdata m) (mtotal m) (dec m).
Definition m_uon m v := mkM (inside m) (zon m) v (ust m) (uval m) (uend m) (mbin m) (mdata m) (fdata m) (mtotal m) (dec m).
Definition m_utf8 m s v e := mkM (inside m) (zon m) (uon m) s v e (mbin m) (mdata m) (fdata m) (mtotal m) (dec m).
Definition m_mbin m v := mkM (inside m) (zon m) (uon m) (ust m) (uval m) (uend m) v (mdata m) (fdata m) (mtotal m) (dec m).
Definition m_mdata m v := mkM (inside m) (zon m) (uon m) (ust m) (uval m) (uend m) (mbin m) v (fdata m) (mtotal m) (dec m).
Definition m_fdata m v := mkM (inside m) (zon m) (uon m) (ust m) (uval m) (uend m) (mbin m) (mdata m) v (mtotal m) (dec m).
Definition m_mtotal m v := mkM (inside m) (zon m) (uon m) (ust m) (uval m) (uend m) (mbin m) (mdata m) (fdata m) v (dec m).
Definition m_dec m v := mkM (inside m) (zon m) (uon m) (ust m) (uval m) (uend m) (mbin m) (mdata m) (fdata m) (mtotal m) v.

Record rstate := mkR {
  cn : conn;
  ms : mstate;
  data : list N;             (* self.data *)
  cur : option frame;        (* self.current_frame *)
  mkey : option (list N);    (* current_frame_masker: Some key = create_xor_masker(key, len), None = XorMaskerNull *)
  mptr : N;                  (* current_frame_masker.pointer() *)
  cdata : list N             (* b"".join(control_frame_data) *)
}.
Definition r_cn s v := mkR v (ms s) (data s) (cur s) (mkey s) (mptr s) (cdata s).
Definition r_ms s v := mkR (cn s) v (data s) (cur s) (mkey s) (mptr s) (cdata s).
Definition r_data s v := mkR (cn s) (ms s) v (cur s) (mkey s) (mptr s) (cdata s).
Definition r_cur s v := mkR (cn s) (ms s) (data s) v (mkey s) (mptr s) (cdata s).
Definition r_cdata s v := mkR (cn s) (ms s) (data s) (cur s) (mkey s) (mptr s) v.

Inductive ctl := Cont | Stop | Raised.   (* processData returned True / returned False / raised *)

(* ---- onMessageFrameBegin(length) (after onMessageBegin when a new message starts) ---- *)
Definition on_message_frame_begin (cf : cfg) (c : conn) (m : mstate) (len : N) : conn * mstate * list event :=
  let m1 := m_mtotal (m_fdata m []) (mtotal m + len) in
  if failed c then (c, m1, [])
  else if mf_msg_limit (maxMsg cf) (mtotal m1) then let '(c1, e) := max_size_exceeded cf c in (c1, m1, e)
  else if mf_frame_limit (maxFrame cf) len then let '(c1, e) := max_size_exceeded cf c in (c1, m1, e)
  else (c, m1, []).

(* ---- onFrameBegin ---- *)
Definition on_frame_begin (cf : cfg) (s : rstate) (f : frame) : rstate * list event :=
  if fb_is_ctl (f_op f) then (r_cdata s [], [])
  else
    let m := ms s in
    let m1 :=
      if inside m then m
      else
        (* new message: decompressor, UTF-8 validator, onMessageBegin *)
        let m_a := m_inside m true in
        let m_b := if pmc cf && fb_rsv_is4 (f_rsv f)
                   then m_dec (m_zon m_a true) (d_start cd (dec m_a)) else m_zon m_a false in
        let m_c := if fb_is_text (f_op f) && utf8validate cf
                   then m_utf8 (m_uon m_b true) 0 true true else m_uon m_b false in
        (* the message hooks are dispatched only while not failedByMe (upstream 18d9c61a): onMessageBegin *)
        if failed (cn s) then m_c else m_mtotal (m_mdata (m_mbin m_c (fb_is_binary (f_op f))) []) 0 in
    (* ... and onMessageFrameBegin *)
    let '(c1, m2, e) := if failed (cn s) then (cn s, m1, []) else on_message_frame_begin cf (cn s) m1 (f_len f) in
    (r_ms (r_cn s c1) m2, e).

(* ---- onMessageFrameData ---- *)
Definition on_message_frame_data (c : conn) (m : mstate) (payload : list N) : mstate :=
  if failed c then m else m_fdata m (fdata m ++ payload).

(* ---- onFrameData(payload): (state, events, "fr is False") ---- *)
Definition on_frame_data (cf : cfg) (s : rstate) (f : frame) (payload : list N) : rstate * list event * bool :=
  if fd_is_ctl (f_op f) then (r_cdata s (cdata s ++ payload), [], false)
  else
    let m := ms s in
    let '(d1, pl) := if zon m then d_data cd (dec m) payload else (dec m, payload) in
    let m1 := m_dec m d1 in
    if uon m1 then
      let '(v, e, u1) := u_validate (ust m1) pl in
      let m2 := m_utf8 m1 u1 v e in
      if negb v then
        let '(c1, ev, stop) := invalid_payload cf (cn s) in
        if stop then (r_ms (r_cn s c1) m2, ev, true)
        else (r_ms (r_cn s c1) (on_message_frame_data c1 m2 pl), ev, false)
      else (r_ms s (on_message_frame_data (cn s) m2 pl), [], false)
    else (r_ms s (on_message_frame_data (cn s) m1 pl), [], false).

(* ---- onCloseFrame(code, reasonRaw) ---- *)
Definition close_code_invalid (k : N) : bool :=
  cf_code_low k || (cf_code_mid k && cf_code_not_allowed k) || cf_code_high k.

Definition on_close_frame (cf : cfg) (c : conn) (code : option N) (reason : option (list N)) : conn * list event :=
  let c0 := c_rreason (c_rcode c None) None in
  (* close code: after _protocol_violation the handler returns in both policies ("return True" when the connection
     was dropped, "return False" when our own 1002 close was sent: the invalid frame is not the reply to it) *)
  match (match code with Some k => close_code_invalid k | None => false end) with
  | true => let '(c', e, _) := protocol_violation cf c0 in (c', e)
  | false =>
    let c1 := c_rcode c0 code in
    (* closing reason: a fresh Utf8Validator; must be valid and end on a code point; otherwise _invalid_payload and return *)
    match (match reason with
           | Some r => let '(v, e, _) := u_validate 0 r in negb (v && e)
           | None => false
           end) with
    | true => let '(c', e, _) := invalid_payload cf c1 in (c', e)
    | false =>
      let c2 := match reason with Some r => c_rreason c1 (Some r) | None => c1 end in
      let ok := [ECloseOk code reason] in
      match st c2 with
      | CLOSING =>
          (* the peer's reply to our close frame *)
          let c3 := c_clean c2 true in
          if isServer cf then let '(c4, e) := drop_connection c3 true in (c4, ok ++ e)
          else (c3, ok)
      | OPEN =>
          (* the peer initiates the closing handshake: reply *)
          let c3 := c_clean c2 true in
          let '(c4, e3) :=
            if echoClose cf
            then send_close_frame c3 (rcode c3) (match rreason c3 with Some r => RBytes r | None => RNone end)
            else send_close_frame c3 (Some code_normal) RNone in
          if isServer cf then let '(c5, e4) := drop_connection c4 false in (c5, ok ++ e3 ++ e4)
          else (c4, ok ++ e3)
      | CLOSED => (c_clean c2 false, ok)
      end
    end
  end.

(* ---- processControlFrame: (state, events, raised) ---- *)
Definition process_control_frame (cf : cfg) (s : rstate) (f : frame) : rstate * list event * bool :=
  let payload := cdata s in
  let s0 := r_cdata s [] in
  if pc_is_close (f_op f) then
    let ll := lenN payload in
    let code := if pc_has_code ll then Some (be_val 0 (take 2 payload)) else None in
    let reason := if pc_has_code ll && pc_has_reason ll then Some (drop 2 payload) else None in
    let '(c1, e1) := on_close_frame cf (cn s0) code reason in
    (r_cn s0 c1, e1, false)
  else if pc_is_ping (f_op f) then
    (* _onPing -> onPing: sendPong(payload) when OPEN; sendPong raises for payloads > 125 *)
    match st (cn s0) with
    | OPEN => if nonempty payload && sp_too_long (lenN payload)
              then (s0, [EPing payload; ERaise], true)
              else (s0, [EPing payload; ESendPong payload], false)
    | _ => (s0, [EPing payload], false)
    end
  else if pc_is_pong (f_op f) then (s0, [EPong payload], false)      (* autoPingPending is None *)
  else (s0, [], false).

(* ---- onFrameEnd: Cont = returned None, Stop = returned False ---- *)
Definition on_frame_end (cf : cfg) (s : rstate) (f : frame) : rstate * list event * ctl :=
  if fe_is_ctl (f_op f) then
    let '(s1, e1, raised) := process_control_frame cf s f in
    if raised then (s1, e1, Raised) else (r_cur s1 None, e1, Cont)
  else
    let m := ms s in
    (* onMessageFrameEnd -> onMessageFrame *)
    (* onMessageFrameEnd -> onMessageFrame; not dispatched once failedByMe: frame_data is left as it is *)
    let m1 := if failed (cn s) then m else m_fdata (m_mdata m (mdata m ++ fdata m)) [] in
    if f_fin f then
      let m2 := if zon m1 then m_dec m1 (d_end cd (dec m1)) else m1 in
      let '(c1, e1, stop) := if uon m2 && negb (uend m2) then invalid_payload cf (cn s) else (cn s, [], false) in
      if stop then (r_ms (r_cn s c1) m2, e1, Stop)           (* current_frame is left set *)
      else
        (* onMessageEnd *)
        let e2 := if failed c1 then [] else [EMsg (mdata m2) (mbin m2)] in
        (r_cur (r_ms (r_cn s c1) (m_inside (if failed c1 then m2 else m_mdata m2 []) false)) None, e1 ++ e2, Cont)
    else (r_cur (r_ms s m1) None, [], Cont).

(* current_frame_masker.process(data) *)
Definition mask_process (k : option (list N)) (p : N) (chunk : list N) : list N * N :=
  match k with
  | Some key => (xor_spec key p chunk, p + lenN chunk)     (* = create_xor_masker(key, len).process, by C15 *)
  | None => (chunk, p + lenN chunk)                        (* XorMaskerNull *)
  end.

(* ---- processData, "outside a frame" branch ---- *)
Definition step_header (cf : cfg) (s : rstate) : rstate * list event * ctl :=
  let d := data s in
  let buffered := lenN d in
  if negb (pd_have2 buffered) then (s, [], Stop) else
  let b0 := nth 0 d 0 in let b1 := nth 1 d 0 in
  let '(c1, e1, stop1) := pv_all cf (cn s) (hdr_viols cf (inside (ms s)) b0 b1) in
  let s1 := r_cn s c1 in
  if stop1 then (s1, e1, Stop) else
  let masked := hb_masked b1 in let len1 := hb_len1 b1 in
  let mask_len := if masked then 4 else 0 in
  match header_len len1 mask_len with
  | None => (s1, e1 ++ [ERaise], Raised)
  | Some hl =>
    if negb (pd_have_header buffered hl) then (s1, e1, Stop) else     (* need more data: NOTHING is undone *)
    let '(plen, lv, i) := ext_len len1 d in
    let '(c2, e2, stop2) := pv_all cf c1 lv in
    let s2 := r_cn s1 c2 in
    if stop2 then (s2, e1 ++ e2, Stop) else
    let mask := if masked then take 4 (drop i d) else [] in
    let i' := i + mask_len in
    let mk := if masked && pd_len_pos plen && applyMask cf then Some mask else None in
    let f := mkF (hb_opcode b0) (hb_fin b0) (hb_rsv b0) plen masked mask in
    let s3 := mkR (cn s2) (ms s2) (drop i' d) (Some f) mk 0 (cdata s2) in
    let '(s4, e4) := on_frame_begin cf s3 f in
    (s4, e1 ++ e2 ++ e4, if pd_len_zero plen || nonempty (data s4) then Cont else Stop)
  end.

(* ---- processData, "inside a started frame" branch ---- *)
Definition step_payload (cf : cfg) (s : rstate) (f : frame) : rstate * list event * ctl :=
  let d := data s in
  let buffered := lenN d in
  let rest := f_len f - mptr s in
  let '(chunk, rem) := if pd_have_rest buffered rest then (take rest d, drop rest d) else (d, []) in
  let '(payload, p1) := if pd_chunk_nonempty (lenN chunk) then mask_process (mkey s) (mptr s) chunk else ([], mptr s) in
  let s1 := mkR (cn s) (ms s) rem (cur s) (mkey s) p1 (cdata s) in
  let '(s2, e2, stop2) := on_frame_data cf s1 f payload in
  if stop2 then (s2, e2, Stop) else
  if mptr s2 =? f_len f then
    let '(s3, e3, c3) := on_frame_end cf s2 f in
    match c3 with
    | Cont => (s3, e2 ++ e3, if nonempty (data s3) then Cont else Stop)
    | x => (s3, e2 ++ e3, x)
    end
  else (s2, e2, if nonempty (data s2) then Cont else Stop).

Definition step (cf : cfg) (s : rstate) : rstate * list event * ctl :=
  match cur s with
  | None => step_header cf s
  | Some f => step_payload cf s f
  end.

Inductive result := Done (s : rstate) (evs : list event) | OutOfFuel.

(* consumeData: while self.processData() and self.state != STATE_CLOSED: pass *)
Fixpoint run (fuel : nat) (cf : cfg) (s : rstate) : result :=
  match fuel with
  | O => OutOfFuel
  | S n =>
    let '(s1, e1, c) := step cf s in
    match c with
    | Cont =>
        match st (cn s1) with
        | CLOSED => Done s1 e1
        | _ => match run n cf s1 with Done s2 e2 => Done s2 (e1 ++ e2) | OutOfFuel => OutOfFuel end
        end
    | _ => Done s1 e1
    end
  end.

(* every iteration but the last either consumes octets or closes a zero-length frame *)
Definition fuel_of (s : rstate) : nat := 2 * length (data s) + 4.

(* _dataReceived(data): self.data += data; consumeData() *)
Definition feed (cf : cfg) (s : rstate) (d : list N) : result :=
  let s0 := r_data s (data s ++ d) in
  match st (cn s0) with
  | CLOSED => Done s0 []                  (* "received data in STATE_CLOSED" *)
  | _ => run (fuel_of s0) cf s0
  end.

(* a sequence of reads *)
Fixpoint feed_all (cf : cfg) (s : rstate) (chunks : list (list N)) : result :=
  match chunks with
  | [] => Done s []
  | c :: r => match feed cf s c with
              | Done s1 e1 => match feed_all cf s1 r with Done s2 e2 => Done s2 (e1 ++ e2) | OutOfFuel => OutOfFuel end
              | OutOfFuel => OutOfFuel
              end
  end.

Definition init_conn (p : pst) : conn := mkC p false false None None.
Definition init_mstate (d0 : D) : mstate := mkM false false false 0 true true false [] [] 0 d0.
(* state right after the opening handshake (succeedHandshake / client processHandshake) *)
Definition init_state (p : pst) (d0 : D) : rstate := mkR (init_conn p) (init_mstate d0) [] None None 0 [].

(* _connectionLost: what onClose reports *)
Definition on_lost (c : conn) : bool * option N * option (list N) :=
  if clean c then (true, rcode c, rreason c) else (false, Some code_abnormal, None).

(* ---- sendMessage(): the size guard (C16).  Ok = frames are written, Refused = PayloadExceededError and no write ---- *)
Inductive send_result := SendOk | SendRefused | SendDisconnected.
Definition send_guard (cf : cfg) (p : pst) (payload_len : N) : send_result :=
  match p with
  | OPEN => if sm_limit (maxMsg cf) payload_len then SendRefused else SendOk
  | _ => SendDisconnected
  end.

(* ================================================================================================= *)
(* The declarative reference: RFC 6455 section 5 (base framing, control frames, fragmentation), 5.5.1 / 7.4 (close),
   8.1 (UTF-8), RFC 7692 section 6 (RSV1 = "per-message compressed", first fragment only).
   Written from the RFCs.  The stream is judged frame by frame; the judge reads the configuration only for what the
   receiver negotiated or configured (masking policy, extension, validation on/off, size limits). *)
Inductive vclass := VProtocol | VInvalidPayload | VTooBig.
Inductive verdict :=
| VMore                                        (* everything so far is well-formed; the rest is an incomplete frame *)
| VFail (c : vclass)                           (* the connection must be failed *)
| VClose (code : option N) (reason : option (list N)).   (* a valid Close frame: nothing is judged after it *)
Inductive jev := JMsg (p : list N) (bin : bool) | JPing (p : list N) | JPong (p : list N).

(* fragmented-message context *)
Record jstate := mkJ {
  j_open : bool;       (* a fragmented message is in progress *)
  j_text : bool;       (* ... it is a text message whose UTF-8 is checked *)
  j_comp : bool;       (* ... it is per-message compressed *)
  j_bin : bool;
  j_acc : list N;      (* application payload so far *)
  j_u : N;             (* RFC 3629 automaton state after j_acc *)
  j_total : N;         (* declared payload octets so far *)
  j_dec : D
}.
Definition j_init (d0 : D) : jstate := mkJ false false false false [] 0 0 d0.

(* RFC 6455 7.4.1 / 7.4.2 + IANA registry: codes that may appear in a Close frame *)
Definition rfc_close_code_ok (k : N) : bool :=
  inr 1000 1003 k || inr 1007 1013 k || inr 3000 4999 k.

(* RFC 3629: well-formed and complete *)
Definition utf8_complete (bs : list N) : bool := let '(v, e, _) := u_validate 0 bs in v && e.

Definition bit (b : N) (i : N) : bool := N.testbit b i.

(* section 5.2 - 5.5 and RFC 7692 section 6: the rules a frame's first two octets can break, one clause per rule
   (named with the same tags as the implementation's diagnostics, but stated from the RFC text):
   in_frag = a fragmented message is in progress (5.4). *)
Definition rfc_rule_f (cf : cfg) (in_frag fin rsv1 rsv2 rsv3 : bool) (op : N) (masked : bool) (len7 : N)
           (r : hviol) : bool :=
  let is_ctl := 8 <=? op in
  match r with
  (* 5.2 RSV1-3 "MUST be 0 unless an extension is negotiated that defines meanings for non-zero values":
     permessage-compress defines RSV1 only *)
  | HRsv => rsv2 || rsv3 || (rsv1 && negb (pmc cf))
  (* 5.1 / 5.3 "a client MUST mask all frames", "a server MUST NOT mask" -- unless the receiver's option relaxes it *)
  | HUnmasked => isServer cf && requireMasked cf && negb masked
  | HMasked => negb (isServer cf) && negb (acceptMasked cf) && masked
  (* 5.5 "All control frames MUST have a payload length of 125 bytes or less and MUST NOT be fragmented" *)
  | HCtlFragmented => is_ctl && negb fin
  | HCtlLen => is_ctl && (125 <? len7)
  (* 5.2 opcodes 0xB-0xF "reserved for further control frames", 3-7 "reserved for further non-control frames" *)
  | HCtlOpcode => inr 11 15 op
  | HDataOpcode => inr 3 7 op
  (* 5.5.1 "If there is a body, the first two bytes of the body MUST be a 2-byte unsigned integer" *)
  | HCloseLen1 => (op =? 8) && (len7 =? 1)
  (* RFC 7692 6.1: "RSV1 ... MUST NOT be set on control frames" / only on the first fragment of a message *)
  | HCtlCompressed => pmc cf && is_ctl && rsv1
  | HContCompressed => pmc cf && negb is_ctl && rsv1 && in_frag
  (* 5.4 a continuation frame needs a message in progress; a new data frame must not start inside one *)
  | HContOutside => (op =? 0) && negb in_frag
  | HNonContInside => negb is_ctl && negb (op =? 0) && in_frag
  (* the length rules are not decided by the first two octets *)
  | HLen16NonMin | HLen64Huge | HLen64NonMin => false
  end.
Definition header_rules : list hviol :=
  [HRsv; HUnmasked; HMasked; HCtlFragmented; HCtlLen; HCtlOpcode; HCloseLen1; HCtlCompressed; HDataOpcode;
   HContOutside; HNonContInside; HContCompressed].
(* the fields of the first two octets, read as the RFC draws them (bit 7 = FIN ... ) *)
Definition rfc_rule (cf : cfg) (in_frag : bool) (b0 b1 : N) (r : hviol) : bool :=
  rfc_rule_f cf in_frag (bit b0 7) (bit b0 6) (bit b0 5) (bit b0 4) (b0 mod 16) (bit b1 7) (b1 mod 128) r.
(* the RFC verdict on a header: the rules it breaks *)
Definition rfc_header_verdict (cf : cfg) (in_frag : bool) (b0 b1 : N) : list hviol :=
  let fin := bit b0 7 in let rsv1 := bit b0 6 in let rsv2 := bit b0 5 in let rsv3 := bit b0 4 in
  let op := b0 mod 16 in let masked := bit b1 7 in let len7 := b1 mod 128 in
  filter (rfc_rule_f cf in_frag fin rsv1 rsv2 rsv3 op masked len7) header_rules.
Definition rfc_header_bad (cf : cfg) (in_frag : bool) (b0 b1 : N) : bool :=
  match rfc_header_verdict cf in_frag b0 b1 with [] => false | _ => true end.

Inductive jlen := LNeed | LBad | LOk (n : N) (rest : list N).
(* 5.2 "Payload length": minimal encoding, most significant bit of the 64-bit form must be 0 *)
Definition rfc_length (len7 : N) (r : list N) : jlen :=
  if len7 <=? 125 then LOk len7 r
  else if len7 =? 126 then
    if lenN r <? 2 then LNeed else
    let n := be_val 0 (take 2 r) in if n <? 126 then LBad else LOk n (drop 2 r)
  else
    if lenN r <? 8 then LNeed else
    let n := be_val 0 (take 8 r) in if (n <? 65536) || (2 ^ 63 <=? n) then LBad else LOk n (drop 8 r).

(* the receiver's configured limits (C16): violated as soon as the declared length is known *)
Definition rfc_too_big (cf : cfg) (total len : N) : bool :=
  ((0 <? maxMsg cf) && (maxMsg cf <? total)) || ((0 <? maxFrame cf) && (maxFrame cf <? len)).

Inductive jframe :=
| FMore | FFail (c : vclass) | FClose (code : option N) (reason : option (list N))
| FNext (evs : list jev) (js : jstate) (rest : list N).

Definition unmask (cf : cfg) (masked : bool) (key : list N) (p : list N) : list N :=
  if masked && applyMask cf then xor_spec key 0 p else p.

(* judge one frame at the head of [bs] *)
Definition judge_frame (cf : cfg) (js : jstate) (bs : list N) : jframe :=
  match bs with
  | b0 :: b1 :: r =>
    if rfc_header_bad cf (j_open js) b0 b1 then FFail VProtocol else
    let fin := bit b0 7 in let rsv1 := bit b0 6 in let op := b0 mod 16 in
    let masked := bit b1 7 in let len7 := b1 mod 128 in
    let mlen := if masked then 4 else 0 in
    (* the base header (extended length and masking key) is judged once it is complete *)
    if lenN r <? (if len7 <=? 125 then 0 else if len7 =? 126 then 2 else 8) + mlen then FMore else
    match rfc_length len7 r with
    | LNeed => FMore
    | LBad => FFail VProtocol
    | LOk n r1 =>
      let key := take mlen r1 in let r2 := drop mlen r1 in
      let complete := n <=? lenN r2 in
      let raw := unmask cf masked key (if complete then take n r2 else r2) in
      let rest := drop n r2 in
      if 8 <=? op then
        (* control frame *)
        if negb complete then FMore
        else if op =? 9 then FNext [JPing raw] js rest
        else if op =? 10 then FNext [JPong raw] js rest
        else (* close: 5.5.1, 7.4 *)
          match raw with
          | [] => FClose None None
          | c1 :: c2 :: reason =>
              let code := c1 * 256 + c2 in
              if negb (rfc_close_code_ok code) then FFail VProtocol
              else match reason with
                   | [] => FClose (Some code) None
                   | _ => if utf8_complete reason then FClose (Some code) (Some reason) else FFail VInvalidPayload
                   end
          | _ => FFail VProtocol
          end
      else
        (* data frame: first frame of a message or continuation *)
        let first := negb (j_open js) in
        let comp := if first then pmc cf && rsv1 else j_comp js in
        let text := if first then (op =? 1) && utf8validate cf else j_text js in
        let isbin := if first then op =? 2 else j_bin js in
        let total := (if first then 0 else j_total js) + n in
        if rfc_too_big cf total n then FFail VTooBig else
        let d0 := if first && comp then d_start cd (j_dec js) else j_dec js in
        let '(d1, app) := if comp then d_data cd d0 raw else (d0, raw) in
        let '(uv, _, u1) := u_validate (if first then 0 else j_u js) app in
        (* 8.1: fail as soon as an octet makes the text invalid, also inside an incomplete frame *)
        if text && negb uv then FFail VInvalidPayload
        else if negb complete then FMore
        else
          let acc := (if first then [] else j_acc js) ++ app in
          if fin then
            if text && negb (u1 =? 0) then FFail VInvalidPayload
            else FNext [JMsg acc isbin]
                       (mkJ false false false false [] 0 0 (if comp then d_end cd d1 else d1)) rest
          else FNext [] (mkJ true text comp isbin acc (if text then u1 else 0) total d1) rest
    end
  | _ => FMore
  end.

Fixpoint judge (fuel : nat) (cf : cfg) (js : jstate) (bs : list N) : option (list jev * verdict) :=
  match fuel with
  | O => None
  | S k =>
    match judge_frame cf js bs with
    | FMore => Some ([], VMore)
    | FFail c => Some ([], VFail c)
    | FClose c r => Some ([], VClose c r)
    | FNext evs js1 rest =>
        match judge k cf js1 rest with Some (e2, v) => Some (evs ++ e2, v) | None => None end
    end
  end.

(* every judged frame has at least two octets *)
Definition rfc_judge (cf : cfg) (d0 : D) (bs : list N) : option (list jev * verdict) :=
  judge (S (length bs)) cf (j_init d0) bs.

End WithCodec.

Arguments mkCodec {D}.
Arguments d_start {D}. Arguments d_data {D}. Arguments d_end {D}.

(* what a list of model events says in the judge's vocabulary: deliveries up to the first failure / close *)
Definition class_of_code (k : N) : vclass :=
  if k =? code_invalid_payload then VInvalidPayload else if k =? code_message_too_big then VTooBig else VProtocol.
Fixpoint judged (evs : list event) : list jev * verdict :=
  match evs with
  | [] => ([], VMore)
  | EMsg p b :: r => let '(l, v) := judged r in (JMsg p b :: l, v)
  | EPing p :: r => let '(l, v) := judged r in (JPing p :: l, v)
  | EPong p :: r => let '(l, v) := judged r in (JPong p :: l, v)
  | EFail k :: _ => ([], VFail (class_of_code k))
  | ECloseOk c rs :: _ => ([], VClose c rs)
  | _ :: r => judged r
  end.

(* the identity codec (a decompressor that passes octets through): used where no message is compressed *)
Definition id_codec : codec unit := mkCodec (fun d => d) (fun d x => (d, x)) (fun d => d).
