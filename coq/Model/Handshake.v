(* Model of the WebSocket opening handshake of autobahn-python (definitions only).
   Sources mirrored (src/autobahn/websocket/protocol.py unless stated otherwise):
     parseHttpHeader
     WebSocketServerProtocol.processHandshake / succeedHandshake / failHandshake /
       sendHttpErrorResponse / sendRedirect / sendServerStatus
     _url_to_origin / _is_same_origin, autobahn/util.py wildcards2patterns
     WebSocketProtocol._parseExtensionsHeader
     WebSocketClientProtocol._actuallyStartHandshake / processHandshake / failHandshake
     websocket/util.py parse_url
   Text is a list of code points (N); the header block is decoded as latin-1, so every
   code point of received text is < 256 and decoding is the identity on octets.
   Python str semantics (strip / split / splitlines / lower / int) use the tables that
   translators/latin1_tables.py reads from the interpreter (Gen/Latin1Tables.v).
   External libraries are ORACLES (record [env]): urllib.parse.urlparse / parse_qs / urlsplit,
   hyperlink, hashlib.sha1, the PMCE classes and the user callbacks.
   Their *raising* behaviour is part of their declared range.
   Python exceptions are explicit: an exception leaving processHandshake propagates through
   consumeData/_dataReceived to the framework entry point: outcome [.. Escaped e]. *)
From Coq Require Import NArith ZArith List Bool.
From Coq Require String Ascii.
Import String.StringSyntax.
From AV Require Import Gen.Latin1Tables Gen.HandshakeConsts.
Import ListNotations.
Open Scope N_scope.

Definition str := list N.

(* ------------------------------------------------------------------------------------------ *)
(* generic helpers                                                                            *)

Definition memN (c : N) (l : list N) : bool := existsb (N.eqb c) l.

Fixpoint str_eqb (a b : str) : bool :=
  match a, b with
  | [], [] => true
  | x :: a', y :: b' => (x =? y) && str_eqb a' b'
  | _, _ => false
  end.

Definition mem_str (x : str) (l : list str) : bool := existsb (str_eqb x) l.
Definition memZ (x : Z) (l : list Z) : bool := existsb (Z.eqb x) l.

Definition is_nil {A} (l : list A) : bool := match l with [] => true | _ => false end.

Fixpoint assocN (c : N) (l : list (N * N)) : option N :=
  match l with
  | [] => None
  | (k, v) :: r => if k =? c then Some v else assocN c r
  end.

Fixpoint assoc_str {A} (k : str) (l : list (str * A)) : option A :=
  match l with
  | [] => None
  | (k', v) :: r => if str_eqb k k' then Some v else assoc_str k r
  end.

Fixpoint join (sep : str) (l : list str) : str :=
  match l with
  | [] => []
  | [x] => x
  | x :: r => x ++ sep ++ join sep r
  end.

Definition lenN (s : str) : N := N.of_nat (length s).

(* ------------------------------------------------------------------------------------------ *)
(* Python str primitives over latin-1 (tables generated)                                      *)

Definition is_space (c : N) : bool := memN c py_space.          (* str.isspace / strip / split() *)
Definition is_linebreak (c : N) : bool := memN c py_linebreak.  (* str.splitlines boundaries *)
Definition lower_c (c : N) : N := match assocN c py_lower_pairs with Some d => d | None => c end.
Definition lower (s : str) : str := map lower_c s.              (* str.lower *)

(* str.lstrip / rstrip / strip with a given set *)
Fixpoint lstrip_with (sp : N -> bool) (s : str) : str :=
  match s with
  | c :: r => if sp c then lstrip_with sp r else s
  | [] => []
  end.
Fixpoint rstrip_with (sp : N -> bool) (s : str) : str :=
  match s with
  | [] => []
  | c :: r => match rstrip_with sp r with
              | [] => if sp c then [] else [c]
              | r' => c :: r'
              end
  end.
Definition strip_with (sp : N -> bool) (s : str) : str := rstrip_with sp (lstrip_with sp s).
Definition strip (s : str) : str := strip_with is_space s.

(* str.splitlines(): a boundary ends the current line; CR LF is one boundary; no empty last line.
   [cur] is the current line reversed; [after_cr] = the previous character was a CR boundary. *)
Fixpoint splitlines_aux (cur : str) (after_cr : bool) (s : str) : list str :=
  match s with
  | [] => match cur with [] => [] | _ => [rev cur] end
  | c :: r =>
      if after_cr && (c =? 10) then splitlines_aux cur false r
      else if is_linebreak c then rev cur :: splitlines_aux [] (c =? 13) r
      else splitlines_aux (c :: cur) false r
  end.
Definition splitlines (s : str) : list str := splitlines_aux [] false s.

(* s.split(sep) for a one-character separator: never empty *)
Fixpoint split_on (sep : N) (s : str) : list str :=
  match s with
  | [] => [[]]
  | c :: r => if c =? sep then [] :: split_on sep r
              else match split_on sep r with
                   | h :: t => (c :: h) :: t
                   | [] => [[c]]
                   end
  end.

(* s.split(): maximal runs of non-space characters *)
Fixpoint split_ws_aux (cur : str) (s : str) : list str :=
  match s with
  | [] => match cur with [] => [] | _ => [rev cur] end
  | c :: r => if is_space c
              then match cur with [] => split_ws_aux [] r | _ => rev cur :: split_ws_aux [] r end
              else split_ws_aux (c :: cur) r
  end.
Definition split_ws (s : str) : list str := split_ws_aux [] s.

(* (s[:i], s[i+1:]) for i = s.find(c), None when c does not occur *)
Fixpoint cut_first (c : N) (s : str) : option (str * str) :=
  match s with
  | [] => None
  | x :: r => if x =? c then Some ([], r)
              else match cut_first c r with
                   | Some (a, b) => Some (x :: a, b)
                   | None => None
                   end
  end.

(* s.rsplit(c, 1) when c occurs: (before the LAST c, after it) *)
Fixpoint cut_last (c : N) (s : str) : option (str * str) :=
  match s with
  | [] => None
  | x :: r => match cut_last c r with
              | Some (a, b) => Some (x :: a, b)
              | None => if x =? c then Some ([], r) else None
              end
  end.

Definition ends_with_char (c : N) (s : str) : bool :=
  match rev s with x :: _ => x =? c | [] => false end.

Fixpoint starts_with (p s : str) : bool :=
  match p, s with
  | [], _ => true
  | x :: p', y :: s' => (x =? y) && starts_with p' s'
  | _ :: _, [] => false
  end.
(* data.find(needle) >= 0 *)
Fixpoint contains (needle s : str) : bool :=
  starts_with needle s || match s with [] => false | _ :: r => contains needle r end.

(* int(s): optional whitespace (its own set), optional sign, digits with single '_' between
   digits, at most py_int_max_digits digits; anything else -> ValueError (None) *)
Definition digit_val (c : N) : option N := assocN c py_digit_pairs.
Fixpoint int_body (acc : Z) (ndig : N) (prev_us : bool) (s : str) : option (Z * N) :=
  match s with
  | [] => if prev_us then None else Some (acc, ndig)
  | c :: r =>
      if c =? 95 then (if prev_us then None else int_body acc ndig true r)
      else match digit_val c with
           | Some d => int_body (acc * 10 + Z.of_N d) (ndig + 1) false r
           | None => None
           end
  end.
Definition py_int (s : str) : option Z :=
  let t := strip_with (fun c => memN c py_int_space) s in
  let '(neg, body) := match t with
                      | 43 :: b => (false, b)
                      | 45 :: b => (true, b)
                      | _ => (false, t)
                      end in
  match body with
  | [] => None
  | c :: _ =>
      if c =? 95 then None
      else match int_body 0 0 false body with
           | Some (v, n) => if n <=? py_int_max_digits then Some (if neg then (- v)%Z else v) else None
           | None => None
           end
  end.

(* str(int) *)
Fixpoint uint_digits (d : Decimal.uint) : str :=
  match d with
  | Decimal.Nil => []
  | Decimal.D0 r => 48 :: uint_digits r | Decimal.D1 r => 49 :: uint_digits r
  | Decimal.D2 r => 50 :: uint_digits r | Decimal.D3 r => 51 :: uint_digits r
  | Decimal.D4 r => 52 :: uint_digits r | Decimal.D5 r => 53 :: uint_digits r
  | Decimal.D6 r => 54 :: uint_digits r | Decimal.D7 r => 55 :: uint_digits r
  | Decimal.D8 r => 56 :: uint_digits r | Decimal.D9 r => 57 :: uint_digits r
  end.
Definition dec_of_N (n : N) : str := uint_digits (N.to_uint n).
Definition dec_of_Z (z : Z) : str :=
  match z with
  | Zneg p => 45 :: dec_of_N (Npos p)
  | _ => dec_of_N (Z.to_N z)
  end.

(* readable literals *)
Definition lit (x : String.string) : str :=
  map (fun a => N.of_nat (Ascii.nat_of_ascii a)) (String.list_ascii_of_string x).
Arguments lit x%string_scope.
Definition CRLF : str := [13; 10].

(* "…".encode("utf8") for code points < 256 (all the model ever renders) *)
Definition utf8_encode (s : str) : str :=
  flat_map (fun c => if c <? 128 then [c] else [192 + c / 64; 128 + c mod 64]) s.

(* ------------------------------------------------------------------------------------------ *)
(* exceptions                                                                                 *)

Inductive exn :=
| ValueError | UnicodeDecodeError | IndexError | URLParseError | IDNAError | InvalidCodepoint
| OtherExn (name : str).

(* ------------------------------------------------------------------------------------------ *)
(* parseHttpHeader                                                                            *)

(* http_headers[key] and http_headers_cnt[key] kept together, in first-seen order *)
Definition hdrs := list (str * (str * N)).

Definition COMMA_SP : str := [44; 32].

Fixpoint hdr_add (k v : str) (h : hdrs) : hdrs :=
  match h with
  | [] => [(k, (v, 1))]
  | (k', (v', n)) :: t =>
      if str_eqb k k' then (k', (v' ++ COMMA_SP ++ v, n + 1)) :: t   (* http_headers[key] += f", {value}" *)
      else (k', (v', n)) :: hdr_add k v t
  end.

(* one element of raw[1:]:  i = h.find(":"); if i > 0: key = h[:i].strip().lower(); value = h[i+1:].strip() *)
Definition header_line (h : str) : option (str * str) :=
  match cut_first 58 h with
  | Some (k, v) => match k with [] => None | _ => Some (lower (strip k), strip v) end
  | None => None
  end.

Definition add_line (acc : hdrs) (h : str) : hdrs :=
  match header_line h with
  | Some (k, v) => hdr_add k v acc
  | None => acc                                     (* skip bad HTTP header *)
  end.

(* None = IndexError of raw[0] (only for input without any line) *)
Definition parse_http_header (data : str) : option (str * hdrs) :=
  match splitlines data with
  | [] => None
  | l0 :: ls => Some (strip l0, fold_left add_line ls [])
  end.

Definition hget (k : str) (h : hdrs) : option (str * N) := assoc_str k h.

(* self.data.find(b"\r\n\r\n"): (data[:end+4], data[end+4:]) *)
Definition EOH : str := [13; 10; 13; 10].
Fixpoint split_eoh_aux (acc : str) (s : str) : option (str * str) :=
  match s with
  | [] => None
  | c :: r => if starts_with EOH s then Some (rev acc ++ EOH, skipn 4 s)
              else split_eoh_aux (c :: acc) r
  end.
Definition split_eoh (s : str) : option (str * str) := split_eoh_aux [] s.

(* ------------------------------------------------------------------------------------------ *)
(* WebSocketProtocol._parseExtensionsHeader (removeQuotes=True)                               *)

(* params: dict key -> list of values (True = None, or a string), insertion order *)
Definition ext_params := list (str * list (option str)).
Definition extension := (str * ext_params)%type.

Fixpoint params_add (k : str) (v : option str) (p : ext_params) : ext_params :=
  match p with
  | [] => [(k, [v])]
  | (k', vs) :: t => if str_eqb k k' then (k', vs ++ [v]) :: t else (k', vs) :: params_add k v t
  end.

Definition unquote (v : str) : str :=
  let v1 := match v with 34 :: r => r | _ => v end in
  match rev v1 with 34 :: r => rev r | _ => v1 end.

Definition parse_param (acc : ext_params) (p : str) : ext_params :=
  match map strip (split_on 61 p) with
  | [] => acc                                              (* unreachable: split never returns [] *)
  | k :: vs =>
      let key := lower k in
      let value := match vs with
                   | [] => None                            (* value = True *)
                   | _ => Some (unquote (join [61] vs))
                   end in
      params_add key value acc
  end.

Definition parse_extension (e : str) : extension :=
  match map strip (split_on 59 e) with
  | [] => ([], [])                                         (* unreachable *)
  | n :: ps => (lower n, fold_left parse_param ps [])
  end.

Definition parse_extensions_header (header : str) : list extension :=
  map parse_extension (filter (fun e => negb (is_nil e)) (map strip (split_on 44 header))).

(* ------------------------------------------------------------------------------------------ *)
(* origin handling                                                                            *)

(* autobahn/util.py wildcards2patterns + re.match:
   "^" + wc.replace(".", "\\.").replace("*", ".*") + "$"
   modelled for wildcard strings without other regular-expression metacharacters
   ([pat_plain]): every character is literal except '*' which matches any run of characters
   other than LF; the final "$" also matches just before one trailing LF. *)
Definition regex_meta : list N := [92; 94; 36; 43; 63; 123; 125; 91; 93; 40; 41; 124].
Definition pat_plain (p : str) : bool := forallb (fun c => negb (memN c regex_meta)) p.

Fixpoint wild_body (p s : str) {struct p} : bool :=
  match p with
  | [] => match s with [] => true | [x] => x =? 10 | _ => false end       (* "$" *)
  | c :: p' =>
      if c =? 42
      then (fix star (s : str) : bool :=
              wild_body p' s || match s with
                                | x :: r => if x =? 10 then false else star r
                                | [] => false
                                end) s
      else match s with
           | x :: r => (x =? c) && wild_body p' r
           | [] => false
           end
  end.
Definition wild_match (p s : str) : bool := wild_body p s.

Inductive port_res := PortNone | PortSome (p : Z) | PortRaises.      (* SplitResult.port *)
Inductive urlsplit_res :=
| UsOk (scheme : str) (hostname : option str) (port : port_res)
| UsRaises.                                                           (* ValueError *)

Inductive origin :=
| ONull
| OTriple (scheme host : str) (port : option Z).

Definition NULL_S : str := Eval cbv in lit "null".
Definition FILE_S : str := Eval cbv in lit "file".
Definition HTTP_S : str := Eval cbv in lit "http".
Definition HTTPS_S : str := Eval cbv in lit "https".
Definition NONE_S : str := Eval cbv in lit "None".

(* the scheme's default port:  {"https": 443, "http": 80}[scheme], KeyError -> None *)
Definition default_port (scheme : str) : option Z :=
  if str_eqb scheme HTTPS_S then Some 443%Z else if str_eqb scheme HTTP_S then Some 80%Z else None.

(* port = res.port; if port is None: port = default.  The test is "is None", not truthiness: an EXPLICIT port - also the
   falsy 0 - is kept verbatim; only an ABSENT port (no ":port", or an empty one) takes the scheme's default *)
Definition origin_port (scheme : str) (port : port_res) : option (option Z) :=
  match port with
  | PortRaises => None                          (* ValueError: not a number / out of 0..65535 *)
  | PortSome p => Some (Some p)
  | PortNone => Some (default_port scheme)
  end.

(* _url_to_origin; None = ValueError *)
Definition url_to_origin (urlsplit : str -> urlsplit_res) (url : str) : option origin :=
  if str_eqb (lower url) NULL_S then Some ONull
  else match urlsplit url with
       | UsRaises => None
       | UsOk scheme0 hostname port =>
           let scheme := lower scheme0 in
           if str_eqb scheme FILE_S then Some ONull
           else match origin_port scheme port with
                | None => None
                | Some port' =>
                    match hostname with
                    | None => None
                    | Some [] => None                           (* if not host: raise ValueError *)
                    | Some h => Some (OTriple scheme h port')
                    end
                end
       end.

(* "{scheme}://{host}:{port}" *)
Definition origin_header (scheme host : str) (port : option Z) : str :=
  scheme ++ [58; 47; 47] ++ host ++ [58] ++ match port with Some p => dec_of_Z p | None => NONE_S end.

(* _is_same_origin (host_scheme / host_port are not used by the code) *)
Definition is_same_origin (o : origin) (allowed : list str) : bool :=
  match o with
  | ONull => false
  | OTriple sc h p => existsb (fun pat => wild_match pat (origin_header sc h p)) allowed
  end.

(* ------------------------------------------------------------------------------------------ *)
(* base64.b64encode                                                                           *)

Definition b64_alphabet : str :=
  Eval cbv in lit "ABCDEFGHIJKLMNOPQRSTUVWXYZabcdefghijklmnopqrstuvwxyz0123456789+/".
Definition b64_char (n : N) : N := nth (N.to_nat (n mod 64)) b64_alphabet 65.
Fixpoint b64_encode (l : list N) : str :=
  match l with
  | [] => []
  | [a] => [b64_char (a / 4); b64_char ((a mod 4) * 16); 61; 61]
  | [a; b] => [b64_char (a / 4); b64_char ((a mod 4) * 16 + b / 16); b64_char ((b mod 16) * 4); 61]
  | a :: b :: c :: r =>
      b64_char (a / 4) :: b64_char ((a mod 4) * 16 + b / 16)
        :: b64_char ((b mod 16) * 4 + c / 64) :: b64_char (c mod 64) :: b64_encode r
  end.

(* Sec-WebSocket-Accept = b64encode(sha1(key + _WS_MAGIC)) *)
Definition accept_of (sha1 : list N -> list N) (key : str) : str := b64_encode (sha1 (key ++ ws_magic)).

(* ------------------------------------------------------------------------------------------ *)
(* oracles and user callbacks                                                                 *)

Inductive uri_res :=
| UriOk (path query fragment : str)
| UriRaises.
Inductive hl_res :=
| HlOk (url : str)
| HlRaises (e : exn).

Inductive flavour := Tx | Aio.       (* txaio: Twisted / asyncio callback semantics *)

(* what onConnect (server) does *)
Inductive conn_res :=
| CrPlain (p : option str)                                   (* return None / return "proto" *)
| CrTuple (p : option str) (headers : list (str * list str)) (* return (proto, headers) *)
| CrDeny (code : Z)                                          (* raise ConnectionDeny(code, reason) *)
| CrError.                                                   (* any other exception *)

Record s_request := {
  rq_host : str; rq_path : str; rq_params : list (str * list str); rq_version : Z;
  rq_origin : str; rq_protocols : list str; rq_extensions : list extension }.

Inductive ext_verdict := ExtParseError | ExtDenied | ExtAccepted.

Record env := {
  urlparse_o : str -> uri_res;                       (* urllib.parse.urlparse: path, query, fragment *)
  parse_qs_o : str -> option (list (str * list str)); (* urllib.parse.parse_qs; None = raises *)
  urlsplit_o : str -> urlsplit_res;                  (* urllib.parse.urlsplit + .scheme/.hostname/.port *)
  hyperlink_o : str -> hl_res;                       (* hyperlink.URL.from_text(u).to_uri().normalize().to_text() *)
  sha1 : list N -> list N;                           (* hashlib.sha1(..).digest() *)
  on_connect : s_request -> conn_res;                (* user callback (server) *)
  pmce_offer_ok : str -> ext_params -> bool;         (* PMCE["Offer"].parse(params) does not raise *)
  pmce_accept : list extension -> option str;        (* perMessageCompressionAccept(offers): None or accept.get_extension_string() *)
  pmce_response : str -> ext_params -> ext_verdict   (* client: PMCE["Response"].parse + perMessageCompressionAccept *)
}.

(* ------------------------------------------------------------------------------------------ *)
(* server                                                                                     *)

Record scfg := {
  s_flavour : flavour;
  s_versions : list Z;                 (* self.versions *)
  s_web_status : bool;                 (* self.webStatus *)
  s_external_port : option Z;          (* self.factory.externalPort (None or 0 = not set) *)
  s_allowed_origins : list str;        (* self.allowedOrigins (wildcards) *)
  s_allow_null_origin : bool;          (* self.factory.allowNullOrigin *)
  s_max_connections : N;               (* self.maxConnections *)
  s_count_connections : N;             (* self.factory.countConnections when the request is processed *)
  s_serve_flash : bool;                (* self.serveFlashSocketPolicy *)
  s_server : str;                      (* self.factory.server ("" / None = falsy) *)
  s_headers : list (str * list str)    (* self.factory.headers *)
}.

Inductive s_outcome :=
| SOpen (response : str) (proto : option str) (rest : str)   (* 101 written, STATE_OPEN; rest = data after the header *)
| SHttpError (code : Z) (headers : list (str * str))         (* failHandshake: HTTP error written, connection dropped *)
| SStatusPage (redirect : option (str * Z))                  (* 200 + HTML (optional meta refresh), dropped *)
| SRedirect (url : str)                                      (* 303 + Location, dropped *)
| SFlashPolicy                                               (* policy file written, dropped *)
| SNeedMore                                                  (* still CONNECTING, nothing written *)
| SStuck                                                     (* exception swallowed by the Deferred: nothing written, still CONNECTING *)
| SEscaped (e : exn).                                        (* exception propagates out of dataReceived *)

Definition K_HOST := Eval cbv in lit "host".
Definition K_UPGRADE := Eval cbv in lit "upgrade".
Definition K_CONNECTION := Eval cbv in lit "connection".
Definition K_VERSION := Eval cbv in lit "sec-websocket-version".
Definition K_PROTOCOL := Eval cbv in lit "sec-websocket-protocol".
Definition K_ORIGIN := Eval cbv in lit "origin".
Definition K_WS_ORIGIN := Eval cbv in lit "sec-websocket-origin".
Definition K_KEY := Eval cbv in lit "sec-websocket-key".
Definition K_EXTENSIONS := Eval cbv in lit "sec-websocket-extensions".
Definition K_ACCEPT := Eval cbv in lit "sec-websocket-accept".
Definition WEBSOCKET_S := Eval cbv in lit "websocket".
Definition UPGRADE_S := Eval cbv in lit "upgrade".
Definition GET_S := Eval cbv in lit "GET".
Definition HTTP_U := Eval cbv in lit "HTTP".
Definition HTTP11_S := Eval cbv in lit "HTTP/1.1".
Definition REDIRECT_S := Eval cbv in lit "redirect".
Definition AFTER_S := Eval cbv in lit "after".
Definition FLASH_REQ : str := Eval cbv in (lit "<policy-file-request/>" ++ [0]).
Definition H_SEC_VERSION := Eval cbv in lit "Sec-WebSocket-Version".

Definition fail400 : s_outcome := SHttpError 400 [].

(* for x in header.split(","): if x.strip().lower() == token: found *)
Definition has_token (token : str) (v : str) : bool :=
  existsb (fun u => str_eqb (lower (strip u)) token) (split_on 44 v).

Fixpoint has_dup (l : list str) : bool :=
  match l with
  | [] => false
  | x :: r => mem_str x r || has_dup r
  end.

Fixpoint insertZ (x : Z) (l : list Z) : list Z :=
  match l with
  | [] => [x]
  | y :: r => if (x <=? y)%Z then x :: l else y :: insertZ x r
  end.
Definition sortZ (l : list Z) : list Z := fold_right insertZ [] l.

(* Host header: optional port, checked against externalPort when that is set. None = failHandshake *)
Definition host_check (ext_port : option Z) (hostv : str) : option str :=
  let host := strip hostv in
  if memN 58 host && negb (ends_with_char 93 host) then
    match cut_last 58 host with
    | None => Some host                                            (* unreachable: ":" occurs *)
    | Some (h, p) =>
        match py_int (strip p) with
        | None => None
        | Some port =>
            match ext_port with
            | Some e => if (e =? 0)%Z then Some h else if (port =? e)%Z then Some h else None
            | None => Some h
            end
        end
    end
  else Some host.

Definition key_ok (key : str) : bool :=
  (lenN key =? key_length)
  && str_eqb (skipn (length key - length key_suffix) key) key_suffix
  && forallb (fun c => memN c key_alphabet) (firstn (length key - length key_suffix) key).

(* the "Upgrade header missing" branch with webStatus; malformed redirect / after parameters are
   refused with 400 (try/except around hyperlink and int()) *)
Definition no_upgrade (e : env) (params : list (str * list str)) : s_outcome :=
  match assoc_str REDIRECT_S params with
  | Some (r0 :: _) =>
      match hyperlink_o e r0 with
      | HlRaises _ => fail400                       (* except Exception: failHandshake("invalid URL in query parameter 'redirect'") *)
      | HlOk url =>
          match assoc_str AFTER_S params with
          | Some (a0 :: _) =>
              match py_int a0 with
              | None => fail400                     (* except ValueError: failHandshake("invalid value for query parameter 'after'") *)
              | Some after => SStatusPage (Some (url, after))
              end
          | _ => SRedirect url
          end
      end
  | _ => SStatusPage None
  end.

(* result of the validation chain of processHandshake, up to and including the connection limit *)
Inductive s_valid :=
| VOk (rq : s_request) (key : str)
| VOut (o : s_outcome).

Definition origin_key (version : Z) : str := if (version <? 13)%Z then K_WS_ORIGIN else K_ORIGIN.

Definition s_validate (c : scfg) (e : env) (header : str) : s_valid :=
  match parse_http_header header with
  | None => VOut fail400                                         (* except Exception around parseHttpHeader *)
  | Some (status_line, hs) =>
  (* HTTP Request line : METHOD, VERSION *)
  match split_ws status_line with
  | [m; u; v] =>
  if negb (str_eqb (strip m) GET_S) then VOut (SHttpError 405 []) else
  if negb (match split_on 47 (strip v) with
           | [a; b] => str_eqb a HTTP_U && mem_str b http_versions
           | _ => false
           end) then VOut (SHttpError 505 []) else
  (* HTTP Request line : REQUEST-URI *)
  match urlparse_o e (strip u) with
  | UriRaises => VOut fail400
  | UriOk path query fragment =>
  if negb (is_nil fragment) then VOut fail400 else
  match parse_qs_o e query with
  | None => VOut fail400
  | Some params =>
  (* Host *)
  match hget K_HOST hs with
  | None => VOut fail400
  | Some (hostv, hostc) =>
  if 1 <? hostc then VOut fail400 else
  match host_check (s_external_port c) hostv with
  | None => VOut fail400
  | Some host =>
  (* Upgrade *)
  match hget K_UPGRADE hs with
  | None => if s_web_status c then VOut (no_upgrade e params) else VOut (SHttpError 426 [])
  | Some (upv, _) =>
  if negb (has_token WEBSOCKET_S upv) then VOut fail400 else
  (* Connection *)
  match hget K_CONNECTION hs with
  | None => VOut fail400
  | Some (cov, _) =>
  if negb (has_token UPGRADE_S cov) then VOut fail400 else
  (* Sec-WebSocket-Version *)
  match hget K_VERSION hs with
  | None => VOut fail400                                         (* Hixie76 *)
  | Some (vv, vc) =>
  if 1 <? vc then VOut fail400 else
  match py_int vv with
  | None => VOut fail400
  | Some version =>
  if negb (memZ version (s_versions c))
  then VOut (SHttpError 400 [(H_SEC_VERSION, join [44] (map dec_of_Z (rev (sortZ (s_versions c)))))]) else
  (* Sec-WebSocket-Protocol *)
  let protocols := match hget K_PROTOCOL hs with
                   | Some (pv, _) => map strip (split_on 44 pv)
                   | None => []
                   end in
  if has_dup protocols then VOut fail400 else
  (* Origin / Sec-WebSocket-Origin *)
  let after_origin (origin_s : str) : s_valid :=
    (* Sec-WebSocket-Key *)
    match hget K_KEY hs with
    | None => VOut fail400
    | Some (kv, kc) =>
    if 1 <? kc then VOut fail400 else
    let key := strip kv in
    if negb (key_ok key) then VOut fail400 else
    (* Sec-WebSocket-Extensions *)
    match (match hget K_EXTENSIONS hs with
           | Some (xv, xc) => if 1 <? xc then None else Some (parse_extensions_header xv)
           | None => Some []
           end) with
    | None => VOut fail400
    | Some exts =>
    (* DoS protection *)
    if (0 <? s_max_connections c) && (s_max_connections c <? s_count_connections c)
    then VOut (SHttpError 503 [])
    else VOk {| rq_host := host; rq_path := path; rq_params := params; rq_version := version;
                rq_origin := origin_s; rq_protocols := protocols; rq_extensions := exts |} key
    end end in
  match hget (origin_key version) hs with
  | None => after_origin []
  | Some (ov, oc) =>
      if 1 <? oc then VOut fail400 else
      let origin_s := strip ov in
      match url_to_origin (urlsplit_o e) origin_s with
      | None => VOut fail400
      | Some o =>
          let allowed := match o with
                         | ONull => if s_allow_null_origin c then true else is_same_origin o (s_allowed_origins c)
                         | _ => is_same_origin o (s_allowed_origins c)
                         end in
          if negb allowed then VOut fail400 else after_origin origin_s
      end
  end
  end end end end end end end end
  | _ => VOut fail400                                            (* len(rl) != 3 *)
  end end.

(* response header lines for user supplied headers *)
Definition COLON_SP : str := [58; 32].
Definition render_headers (hs : list (str * list str)) : str :=
  flat_map (fun kv => flat_map (fun v => fst kv ++ COLON_SP ++ v ++ CRLF) (snd kv)) hs.

Definition L_101 := Eval cbv in lit "HTTP/1.1 101 Switching Protocols".
Definition L_SERVER := Eval cbv in lit "Server: ".
Definition L_UPGRADE_WS := Eval cbv in lit "Upgrade: WebSocket".
Definition L_CONN_UPGRADE := Eval cbv in lit "Connection: Upgrade".
Definition L_PROTOCOL := Eval cbv in lit "Sec-WebSocket-Protocol: ".
Definition L_ACCEPT := Eval cbv in lit "Sec-WebSocket-Accept: ".
Definition L_EXTENSIONS := Eval cbv in lit "Sec-WebSocket-Extensions: ".

Definition render_response (c : scfg) (e : env) (key : str) (proto : option str)
           (user_headers : list (str * list str)) (ext_response : list str) : str :=
  L_101 ++ CRLF
  ++ (if is_nil (s_server c) then [] else L_SERVER ++ s_server c ++ CRLF)
  ++ L_UPGRADE_WS ++ CRLF ++ L_CONN_UPGRADE ++ CRLF
  ++ render_headers (s_headers c) ++ render_headers user_headers
  ++ match proto with Some p => L_PROTOCOL ++ p ++ CRLF | None => [] end
  ++ L_ACCEPT ++ accept_of (sha1 e) key ++ CRLF
  ++ (if is_nil ext_response then [] else L_EXTENSIONS ++ join [44] ext_response ++ CRLF)
  ++ CRLF.

(* offers = the client's extensions that are registered PMCEs; None = an offer failed to parse *)
Fixpoint pmce_offers (e : env) (exts : list extension) : option (list extension) :=
  match exts with
  | [] => Some []
  | (n, p) :: r =>
      if mem_str n pmce_names
      then if pmce_offer_ok e n p
           then match pmce_offers e r with Some l => Some ((n, p) :: l) | None => None end
           else None
      else pmce_offers e r
  end.

(* succeedHandshake *)
Definition s_succeed (c : scfg) (e : env) (rq : s_request) (key rest : str)
           (proto : option str) (user_headers : list (str * list str)) : s_outcome :=
  if match proto with Some p => negb (mem_str p (rq_protocols rq)) | None => false end
  then (* raise Exception("protocol accepted must be from the list client sent or None") inside the callback *)
       match s_flavour c with Tx => SStuck | Aio => SHttpError 500 [] end
  else match pmce_offers e (rq_extensions rq) with
       | None => fail400                                          (* return self.failHandshake(str(e)) *)
       | Some offers =>
           let ext_response := match offers with
                               | [] => []
                               | _ => match pmce_accept e offers with Some s => [s] | None => [] end
                               end in
           SOpen (utf8_encode (render_response c e key proto user_headers ext_response)) proto rest
       end.

(* processHandshake with self.data = data (everything received so far) *)
Definition s_process (c : scfg) (e : env) (data : str) : s_outcome :=
  match split_eoh data with
  | None => if s_serve_flash c && contains FLASH_REQ data then SFlashPolicy else SNeedMore
  | Some (header, rest) =>
      match s_validate c e header with
      | VOut o => o
      | VOk rq key =>
          match on_connect e rq with
          | CrPlain p => s_succeed c e rq key rest p []
          | CrTuple p h => s_succeed c e rq key rest p h
          | CrDeny code => SHttpError code []
          | CrError => SHttpError 500 []
          end
      end
  end.

(* the connection while CONNECTING: every read appends to self.data and runs processHandshake;
   afterwards the handshake code is never entered again (reads after OPEN belong to the frame
   parser: they are collected in [rest]; reads after a drop are ignored; after an escape the
   comparison ends) *)
Inductive s_state :=
| SConnecting (buf : str)
| SDone (o : s_outcome).

Definition s_feed (c : scfg) (e : env) (st : s_state) (chunk : str) : s_state :=
  match st with
  | SConnecting buf =>
      match s_process c e (buf ++ chunk) with
      | SNeedMore => SConnecting (buf ++ chunk)
      | o => SDone o
      end
  | SDone (SOpen r p rest) => SDone (SOpen r p (rest ++ chunk))
  | SDone o => SDone o
  end.

Definition s_run (c : scfg) (e : env) (chunks : list str) : s_state :=
  fold_left (s_feed c e) chunks (SConnecting []).

Definition s_result (st : s_state) : s_outcome :=
  match st with SConnecting _ => SNeedMore | SDone o => o end.

(* ------------------------------------------------------------------------------------------ *)
(* client                                                                                     *)

(* websocket/util.py parse_url over the urlparse oracle *)
Inductive urlparse_full :=
| UpOk (scheme : str) (hostname : option str) (port : port_res) (path query fragment netloc : str)
| UpRaises.

Definition WS_S := Eval cbv in lit "ws".
Definition WSS_S := Eval cbv in lit "wss".
Definition UNIX_S := Eval cbv in lit "unix".

Record url_parts := { u_secure : bool; u_host : str; u_port : Z; u_resource : str; u_path : str }.

(* parse_url(url) over parsed = urllib.parse.urlparse(url) and urllib.parse.unquote (oracles).
   ppath = parsed.path or "/" is the RAW (percent-escaped) path; path = unquote(ppath) is only returned for
   information (factory.path). The resource sent on the wire is composed from the RAW pieces:
     resource = ppath + "?" + parsed.query   if the query is non-empty, else ppath
   urlparse's fourth component (params: the ";..." split off the LAST path segment, because util.py adds ws/wss to
   uses_params) is never used, so parsed.path lacks it: the harness compares the request line with the URL text and
   reports client.startHandshake/request-target/path-params-dropped.
   None = ValueError; unix domain sockets (hostname "unix") are outside the model *)
Definition parse_url (unquote : str -> str) (up : urlparse_full) : option url_parts :=
  match up with
  | UpRaises => None
  | UpOk scheme hostname port rawpath query fragment netloc =>
      if negb (mem_str scheme [WS_S; WSS_S]) then None else
      match hostname with
      | None => None
      | Some [] => None
      | Some host =>
          if negb (is_nil fragment) then None else
          let ppath := match rawpath with [] => [47] | _ => rawpath end in
          let path := unquote ppath in
          let resource := match query with [] => ppath | _ => ppath ++ [63] ++ query end in
          if str_eqb host UNIX_S then None else
          match port with
          | PortRaises => None
          | PortNone => Some {| u_secure := str_eqb scheme WSS_S; u_host := host;
                                u_port := if str_eqb scheme WS_S then 80%Z else 443%Z; u_resource := resource; u_path := path |}
          | PortSome p => if ((p <? 1) || (65535 <? p))%Z then None
                          else Some {| u_secure := str_eqb scheme WSS_S; u_host := host; u_port := p; u_resource := resource; u_path := path |}
          end
      end
  end.

Record ccfg := {
  c_host : str; c_port : Z; c_resource : str;        (* factory.host / port / resource (from parse_url) *)
  c_useragent : str;                                 (* "" / None: header omitted *)
  c_origin : str;                                    (* "" / None: header omitted *)
  c_protocols : list str;
  c_headers : list (str * str);
  c_version : Z;                                     (* spec (draft) version, self.version *)
  c_offers : list str                                (* offer.get_extension_string() for each offer *)
}.

Definition proto_version (spec : Z) : Z :=
  match find (fun p => (fst p =? spec)%Z) spec_to_protocol_version with
  | Some (_, v) => v
  | None => 0%Z                                      (* KeyError: setProtocolOptions rejects such versions *)
  end.

Definition R_GET := Eval cbv in lit "GET ".
Definition R_HTTP11 := Eval cbv in lit " HTTP/1.1".
Definition R_UA := Eval cbv in lit "User-Agent: ".
Definition R_HOST := Eval cbv in lit "Host: ".
Definition R_PRAGMA := Eval cbv in lit "Pragma: no-cache".
Definition R_CACHE := Eval cbv in lit "Cache-Control: no-cache".
Definition R_KEY := Eval cbv in lit "Sec-WebSocket-Key: ".
Definition R_ORIGIN := Eval cbv in lit "Origin: ".
Definition R_WS_ORIGIN := Eval cbv in lit "Sec-WebSocket-Origin: ".
Definition R_VERSION := Eval cbv in lit "Sec-WebSocket-Version: ".

(* _actuallyStartHandshake with the default ConnectingRequest; nonce = os.urandom(16) *)
Definition client_key (nonce : list N) : str := b64_encode nonce.

Definition c_request_lines (c : ccfg) (key : str) : list str :=
  [R_GET ++ c_resource c ++ R_HTTP11]
  ++ (if is_nil (c_useragent c) then [] else [R_UA ++ c_useragent c])
  ++ [R_HOST ++ c_host c ++ [58] ++ dec_of_Z (c_port c); L_UPGRADE_WS; L_CONN_UPGRADE; R_PRAGMA; R_CACHE]
  ++ map (fun kv => fst kv ++ COLON_SP ++ snd kv) (c_headers c)
  ++ [R_KEY ++ key]
  ++ (if is_nil (c_origin c) then []
      else [(if (10 <? c_version c)%Z then R_ORIGIN else R_WS_ORIGIN) ++ c_origin c])
  ++ (if is_nil (c_protocols c) then [] else [L_PROTOCOL ++ join [44] (c_protocols c)])
  ++ (if is_nil (c_offers c) then [] else [L_EXTENSIONS ++ join [44] (c_offers c)])
  ++ [R_VERSION ++ dec_of_Z (proto_version (c_version c))].

Definition c_request_text (c : ccfg) (key : str) : str :=
  flat_map (fun l => l ++ CRLF) (c_request_lines c key) ++ CRLF.

Definition c_request (c : ccfg) (nonce : list N) : str := utf8_encode (c_request_text c (client_key nonce)).

Inductive c_outcome :=
| COpen (proto : option str) (exts : list str) (rest : str)  (* STATE_OPEN *)
| CFailed                                                    (* failHandshake: dropConnection(abort=True) *)
| CNeedMore
| CEscaped (e : exn).

(* the loop over the extensions selected by the server; [have] = a PMCE was already accepted *)
Fixpoint c_extensions (e : env) (have : bool) (exts : list extension) : option (list str) :=
  match exts with
  | [] => Some []
  | (n, p) :: r =>
      if mem_str n pmce_names then
        if have then None                                     (* multiple occurrence of a permessage-compress extension *)
        else match pmce_response e n p with
             | ExtAccepted => match c_extensions e true r with Some l => Some (n :: l) | None => None end
             | _ => None
             end
      else None                                               (* extension we did not request / implement *)
  end.

Definition c_process (c : ccfg) (e : env) (key : str) (data : str) : c_outcome :=
  match split_eoh data with
  | None => CNeedMore
  | Some (header, rest) =>
  (* the log argument response=self.http_response_data.decode("utf8", errors="replace") cannot raise *)
  match parse_http_header header with
  | None => CEscaped IndexError
  | Some (status_line, hs) =>
  let sl := split_ws status_line in
  match sl with
  | ver :: code :: _ =>
  if negb (str_eqb (strip ver) HTTP11_S) then CFailed else
  match py_int (strip code) with
  | None => CFailed
  | Some status =>
  if negb (status =? 101)%Z then CFailed else
  match hget K_UPGRADE hs with
  | None => CFailed
  | Some (upv, _) =>
  if negb (str_eqb (lower (strip upv)) WEBSOCKET_S) then CFailed else
  match hget K_CONNECTION hs with
  | None => CFailed
  | Some (cov, _) =>
  if negb (has_token UPGRADE_S cov) then CFailed else
  match hget K_ACCEPT hs with
  | None => CFailed
  | Some (av, ac) =>
  if 1 <? ac then CFailed else
  if negb (str_eqb (strip av) (accept_of (sha1 e) key)) then CFailed else
  match (match hget K_EXTENSIONS hs with
         | Some (xv, xc) => if 1 <? xc then None else c_extensions e false (parse_extensions_header xv)
         | None => Some []
         end) with
  | None => CFailed
  | Some exts =>
  match hget K_PROTOCOL hs with
  | Some (pv, pc) =>
      if 1 <? pc then CFailed else
      let sp := strip pv in
      if is_nil sp then COpen None exts rest
      else if mem_str sp (c_protocols c) then COpen (Some sp) exts rest else CFailed
  | None => COpen None exts rest
  end end end end end end
  | _ => CFailed                                               (* len(sl) < 2 *)
  end end end.

Inductive c_state :=
| CConnecting (buf : str)
| CDone (o : c_outcome).

Definition c_feed (c : ccfg) (e : env) (key : str) (st : c_state) (chunk : str) : c_state :=
  match st with
  | CConnecting buf =>
      match c_process c e key (buf ++ chunk) with
      | CNeedMore => CConnecting (buf ++ chunk)
      | o => CDone o
      end
  | CDone (COpen p x rest) => CDone (COpen p x (rest ++ chunk))
  | CDone o => CDone o
  end.

Definition c_run (c : ccfg) (e : env) (key : str) (chunks : list str) : c_state :=
  fold_left (c_feed c e key) chunks (CConnecting []).

Definition c_result (st : c_state) : c_outcome :=
  match st with CConnecting _ => CNeedMore | CDone o => o end.

(* ------------------------------------------------------------------------------------------ *)
(* SPECIFICATION (declarative; written from RFC 6455 section 4 and the meaning of the options,
   not from the code). The theorems of Props/C07.v relate the functions above to these.        *)

(* declarative reading of an allowedOrigins entry: literal characters match themselves,
   '*' matches any run of characters other than LF (Python's '.'), nothing else *)
Inductive wild_spec : str -> str -> Prop :=
| WNil : wild_spec [] []
| WLit c p s : c <> 42 -> wild_spec p s -> wild_spec (c :: p) (c :: s)
| WStar p s1 s2 : Forall (fun x => x <> 10) s1 -> wild_spec p s2 -> wild_spec (42 :: p) (s1 ++ s2).

(* Python's "$" also matches just before ONE trailing LF *)
Definition wild_spec_nl (p s : str) : Prop :=
  wild_spec p s \/ exists s', s = s' ++ [10] /\ wild_spec p s'.

Definition extend_rest (o : s_outcome) (t : str) : s_outcome :=
  match o with SOpen resp p rest => SOpen resp p (rest ++ t) | _ => o end.

Definition c_extend_rest (o : c_outcome) (t : str) : c_outcome :=
  match o with COpen p x rest => COpen p x (rest ++ t) | _ => o end.

Definition field_of_line (l : str) : list (str * str) :=
  match header_line l with Some kv => [kv] | None => [] end.

(* the header fields of the block, in order: (lower-cased stripped name, stripped value) *)
Definition fields_of (header : str) : list (str * str) := flat_map field_of_line (tl (splitlines header)).
Definition status_line_of (header : str) : str := strip (hd [] (splitlines header)).

Definition vals (k : str) (fs : list (str * str)) : list str :=
  map snd (filter (fun f => str_eqb k (fst f)) fs).

Definition tokens (v : str) : list str := map strip (split_on 44 v).

Definition limit_ok (c : scfg) : Prop := s_max_connections c = 0 \/ s_count_connections c <= s_max_connections c.

Definition ext_port_matches (ext : option Z) (port : Z) : Prop :=
  match ext with Some x => x = 0%Z \/ port = x | None => True end.

(* a Host value "name:port" (not a bare bracketed IPv6 literal) must carry an integer port, equal to externalPort if set *)
Definition host_ok (ext : option Z) (hv : str) : Prop :=
  In 58 (strip hv) -> ends_with_char 93 (strip hv) = false ->
  exists h p port, cut_last 58 (strip hv) = Some (h, p) /\ py_int (strip p) = Some port /\ ext_port_matches ext port.

Definition origin_permitted (c : scfg) (o : origin) : Prop :=
  match o with
  | ONull => s_allow_null_origin c = true
  | OTriple sc h p => exists pat, In pat (s_allowed_origins c) /\ wild_spec pat (origin_header sc h p)
  end.

Definition rfc4_ok (c : scfg) (e : env) (header : str) : Prop :=
  let fs := fields_of header in
  exists m u v ver,
    split_ws (status_line_of header) = [m; u; v] /\ m = GET_S /\ (exists b, In b http_versions /\ v = HTTP_U ++ 47 :: b) /\
    (exists path query, urlparse_o e u = UriOk path query [] /\ parse_qs_o e query <> None) /\
    (exists hv, vals K_HOST fs = [hv] /\ host_ok (s_external_port c) hv) /\
    (exists uv t, In uv (vals K_UPGRADE fs) /\ In t (split_on 44 uv) /\ lower (strip t) = WEBSOCKET_S) /\
    (exists cv t, In cv (vals K_CONNECTION fs) /\ In t (split_on 44 cv) /\ lower (strip t) = UPGRADE_S) /\
    (exists vv, vals K_VERSION fs = [vv] /\ py_int vv = Some ver /\ In ver (s_versions c)) /\
    NoDup (flat_map tokens (vals K_PROTOCOL fs)) /\
    (vals (origin_key ver) fs = [] \/
     exists ov o, vals (origin_key ver) fs = [ov] /\ url_to_origin (urlsplit_o e) (strip ov) = Some o /\ origin_permitted c o) /\
    (exists kv, vals K_KEY fs = [kv] /\ lenN (strip kv) = key_length /\
                exists body, strip kv = body ++ key_suffix /\ Forall (fun ch => In ch key_alphabet) body) /\
    (length (vals K_EXTENSIONS fs) <= 1)%nat /\
    limit_ok c.


(* the lines of the 101 reply (each is followed by CRLF, then an empty line) *)
Definition header_lines (hs : list (str * list str)) : list str :=
  flat_map (fun kv => map (fun v => fst kv ++ COLON_SP ++ v) (snd kv)) hs.

Definition response_lines (c : scfg) (e : env) (key : str) (proto : option str)
           (user_headers : list (str * list str)) (ext_response : list str) : list str :=
  [L_101] ++ (if is_nil (s_server c) then [] else [L_SERVER ++ s_server c]) ++ [L_UPGRADE_WS; L_CONN_UPGRADE]
  ++ header_lines (s_headers c) ++ header_lines user_headers
  ++ match proto with Some p => [L_PROTOCOL ++ p] | None => [] end
  ++ [L_ACCEPT ++ accept_of (sha1 e) key]
  ++ (if is_nil ext_response then [] else [L_EXTENSIONS ++ join [44] ext_response]).

Definition crlf_lines (ls : list str) : str := flat_map (fun l => l ++ CRLF) ls.

(* what the user callbacks must do for a validated request to be admitted *)
Definition policy_admits (e : env) (rq : s_request) : Prop :=
  (exists p h, (on_connect e rq = CrPlain p \/ on_connect e rq = CrTuple p h) /\ forall q, p = Some q -> In q (rq_protocols rq))
  /\ pmce_offers e (rq_extensions rq) <> None.

(* client side: what a reply must look like to be accepted with subprotocol [proto] and extensions [exts] *)
Definition client_ok (c : ccfg) (e : env) (key : str) (header : str) (proto : option str) (exts : list str) : Prop :=
  let fs := fields_of header in
  exists ver code more,
    split_ws (status_line_of header) = ver :: code :: more /\ ver = HTTP11_S /\ py_int code = Some 101%Z /\
    (exists uv, vals K_UPGRADE fs = [uv] /\ lower (strip uv) = WEBSOCKET_S) /\
    (exists cv t, In cv (vals K_CONNECTION fs) /\ In t (split_on 44 cv) /\ lower (strip t) = UPGRADE_S) /\
    (exists av, vals K_ACCEPT fs = [av] /\ strip av = accept_of (sha1 e) key) /\
    ((vals K_EXTENSIONS fs = [] /\ exts = []) \/
     (exists xv, vals K_EXTENSIONS fs = [xv] /\
        ((parse_extensions_header xv = [] /\ exts = []) \/
         exists n p, parse_extensions_header xv = [(n, p)] /\ In n pmce_names /\ pmce_response e n p = ExtAccepted /\ exts = [n]))) /\
    ((vals K_PROTOCOL fs = [] /\ proto = None) \/
     (exists pv, vals K_PROTOCOL fs = [pv] /\
        ((strip pv = [] /\ proto = None) \/ (strip pv <> [] /\ proto = Some (strip pv) /\ In (strip pv) (c_protocols c))))).

(* ---- the same predicates over an arbitrary division of the header block into lines ---- *)
Definition fields_from (ls : list str) : list (str * str) := flat_map field_of_line (tl ls).
Definition status_from (ls : list str) : str := strip (hd [] ls).

Definition rfc4_ok_on (c : scfg) (e : env) (ls : list str) : Prop :=
  let fs := fields_from ls in
  exists m u v ver,
    split_ws (status_from ls) = [m; u; v] /\ m = GET_S /\ (exists b, In b http_versions /\ v = HTTP_U ++ 47 :: b) /\
    (exists path query, urlparse_o e u = UriOk path query [] /\ parse_qs_o e query <> None) /\
    (exists hv, vals K_HOST fs = [hv] /\ host_ok (s_external_port c) hv) /\
    (exists uv t, In uv (vals K_UPGRADE fs) /\ In t (split_on 44 uv) /\ lower (strip t) = WEBSOCKET_S) /\
    (exists cv t, In cv (vals K_CONNECTION fs) /\ In t (split_on 44 cv) /\ lower (strip t) = UPGRADE_S) /\
    (exists vv, vals K_VERSION fs = [vv] /\ py_int vv = Some ver /\ In ver (s_versions c)) /\
    NoDup (flat_map tokens (vals K_PROTOCOL fs)) /\
    (vals (origin_key ver) fs = [] \/
     exists ov o, vals (origin_key ver) fs = [ov] /\ url_to_origin (urlsplit_o e) (strip ov) = Some o /\ origin_permitted c o) /\
    (exists kv, vals K_KEY fs = [kv] /\ lenN (strip kv) = key_length /\
                exists body, strip kv = body ++ key_suffix /\ Forall (fun ch => In ch key_alphabet) body) /\
    (length (vals K_EXTENSIONS fs) <= 1)%nat /\
    limit_ok c.

Definition client_ok_on (c : ccfg) (e : env) (key : str) (ls : list str) (proto : option str) (exts : list str) : Prop :=
  let fs := fields_from ls in
  exists ver code more,
    split_ws (status_from ls) = ver :: code :: more /\ ver = HTTP11_S /\ py_int code = Some 101%Z /\
    (exists uv, vals K_UPGRADE fs = [uv] /\ lower (strip uv) = WEBSOCKET_S) /\
    (exists cv t, In cv (vals K_CONNECTION fs) /\ In t (split_on 44 cv) /\ lower (strip t) = UPGRADE_S) /\
    (exists av, vals K_ACCEPT fs = [av] /\ strip av = accept_of (sha1 e) key) /\
    ((vals K_EXTENSIONS fs = [] /\ exts = []) \/
     (exists xv, vals K_EXTENSIONS fs = [xv] /\
        ((parse_extensions_header xv = [] /\ exts = []) \/
         exists n p, parse_extensions_header xv = [(n, p)] /\ In n pmce_names /\ pmce_response e n p = ExtAccepted /\ exts = [n]))) /\
    ((vals K_PROTOCOL fs = [] /\ proto = None) \/
     (exists pv, vals K_PROTOCOL fs = [pv] /\
        ((strip pv = [] /\ proto = None) \/ (strip pv <> [] /\ proto = Some (strip pv) /\ In (strip pv) (c_protocols c))))).

(* RFC 7230 line structure: a line ends with CR LF; a bare LF is tolerated (section 3.5); NOTHING else ends a line.
   ([cur] is the current line reversed; like splitlines, no empty last line is produced) *)
Definition drop_cr (cur : str) : str := match cur with c :: t => if c =? 13 then t else cur | [] => [] end.
Fixpoint rfc_lines_aux (cur : str) (s : str) : list str :=
  match s with
  | [] => match cur with [] => [] | _ => [rev cur] end
  | c :: r => if c =? 10 then rev (drop_cr cur) :: rfc_lines_aux [] r else rfc_lines_aux (c :: cur) r
  end.
Definition rfc_lines (s : str) : list str := rfc_lines_aux [] s.

(* the line boundaries of str.splitlines that are not CR / LF (from the generated table: VT FF FS GS RS NEL) *)
Definition odd_breaks : list N := filter (fun c => negb (c =? 10) && negb (c =? 13)) py_linebreak.
Fixpoint cr_ok (s : str) : bool :=       (* every CR is immediately followed by LF *)
  match s with
  | [] => true
  | c :: r => if c =? 13 then match r with d :: _ => (d =? 10) && cr_ok r | [] => false end else cr_ok r
  end.
Definition crlf_only (s : str) : Prop := Forall (fun c => ~ In c odd_breaks) s /\ cr_ok s = true.

(* ------------------------------------------------------------------------------------------ *)
(* several connections on one server factory: the connection limit                             *)
(* _connectionMade: countConnections += 1; processHandshake compares it with maxConnections;
   _connectionLost: countConnections -= 1. Requests are valid; a refused peer is dropped and its
   transport reports the loss at once. *)
Inductive conn_status := KOpen | KGone.
Inductive fop := FOpen | FLose (k : nat).
Record fstate := { f_count : N; f_conns : list conn_status }.

Fixpoint set_gone (k : nat) (l : list conn_status) : list conn_status :=
  match l, k with
  | [], _ => []
  | _ :: r, O => KGone :: r
  | x :: r, S k' => x :: set_gone k' r
  end.

Definition f_step (mx : N) (st : fstate) (o : fop) : fstate :=
  match o with
  | FOpen =>
      let cnt := f_count st + 1 in
      if (0 <? mx) && (mx <? cnt)
      then {| f_count := cnt - 1; f_conns := f_conns st ++ [KGone] |}       (* 503 + drop + connectionLost *)
      else {| f_count := cnt; f_conns := f_conns st ++ [KOpen] |}
  | FLose k =>
      match nth_error (f_conns st) k with
      | Some KOpen => {| f_count := f_count st - 1; f_conns := set_gone k (f_conns st) |}
      | _ => st                                                             (* already gone: connectionLost is not repeated *)
      end
  end.

Definition f_init : fstate := {| f_count := 0; f_conns := [] |}.
Definition f_run (mx : N) (ops : list fop) : fstate := fold_left (f_step mx) ops f_init.
Definition n_open (l : list conn_status) : N := N.of_nat (length (filter (fun s => match s with KOpen => true | KGone => false end) l)).

(* ------------------------------------------------------------------------------------------ *)
(* configuration: WebSocketServerFactory.setProtocolOptions as a function on the handshake options *)
(* every keyword defaults to None = "leave as it is"; a call changes exactly the options it names.
   (Options the handshake does not read - failByDrop, autoPing*, payload limits ... - are not part of scfg.) *)
Record s_update := {
  up_versions : option (list Z); up_web_status : option bool; up_allowed_origins : option (list str);
  up_allow_null_origin : option bool; up_max_connections : option N; up_serve_flash : option bool }.

Definition no_update : s_update :=
  {| up_versions := None; up_web_status := None; up_allowed_origins := None; up_allow_null_origin := None;
     up_max_connections := None; up_serve_flash := None |}.

Definition or_keep {A} (o : option A) (old : A) : A := match o with Some v => v | None => old end.

Definition set_protocol_options (c : scfg) (u : s_update) : scfg :=
  {| s_flavour := s_flavour c;
     s_versions := or_keep (up_versions u) (s_versions c);
     s_web_status := or_keep (up_web_status u) (s_web_status c);
     s_external_port := s_external_port c;
     s_allowed_origins := or_keep (up_allowed_origins u) (s_allowed_origins c);
     s_allow_null_origin := or_keep (up_allow_null_origin u) (s_allow_null_origin c);
     s_max_connections := or_keep (up_max_connections u) (s_max_connections c);
     s_count_connections := s_count_connections c;
     s_serve_flash := or_keep (up_serve_flash u) (s_serve_flash c);
     s_server := s_server c; s_headers := s_headers c |}.

Definition configure (c : scfg) (calls : list s_update) : scfg := fold_left set_protocol_options calls c.

(* resetProtocolOptions: the documented defaults of the handshake options (generated from a fresh factory) *)
Definition default_scfg (fl : flavour) (server : str) (count : N) : scfg :=
  {| s_flavour := fl; s_versions := default_server_versions; s_web_status := default_web_status; s_external_port := None;
     s_allowed_origins := [[42]]; s_allow_null_origin := default_allow_null_origin; s_max_connections := default_max_connections;
     s_count_connections := count; s_serve_flash := default_serve_flash; s_server := server; s_headers := [] |}.

(* the value a sequence of calls leaves in one option: the last call that names it, else the old value *)
Fixpoint last_named {A} (get : s_update -> option A) (calls : list s_update) (old : A) : A :=
  match calls with
  | [] => old
  | u :: r => last_named get r (or_keep (get u) old)
  end.
