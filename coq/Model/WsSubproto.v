(* Model of the WAMP-over-WebSocket transport mixins (definitions only).
   Sources mirrored (tree under test, $AV_REPO/src/autobahn/wamp/websocket.py):
     parseSubprotocolIdentifier, WampWebSocketServerProtocol.onConnect, WampWebSocketClientProtocol.onConnect,
     WampWebSocketFactory.__init__ (_serializers keyed by SERIALIZER_ID, _protocols = "wamp.2." + id),
     WampWebSocketProtocol.onOpen / onMessage / onClose / send / close / abort / _bailout,
     wamp/serializer.py Serializer.unserialize (isBinary check) and Serializer.serialize (BINARY flag).
   The WebSocket engine underneath (opening handshake, frames, closing handshake) belongs to C01/C02/C05/C07; here it
   is the caller of onConnect/onOpen/onMessage/onClose and the callee of sendMessage/_fail_connection/sendClose.
   Strings are lists of character codes.  Python's int() is an oracle (Section variable in the proofs) whose only
   assumed law is int("2") = 2. *)
From Coq Require Import NArith ZArith List Bool.
From AV Require Import Model.RawSocket Gen.RawSocketConsts.
Import ListNotations.
Open Scope N_scope.

Definition str := list N.

Fixpoint str_eqb (a b : str) : bool :=
  match a, b with
  | [], [] => true
  | x :: a', y :: b' => (x =? y) && str_eqb a' b'
  | _, _ => false
  end.
Definition mem_str (x : str) (l : list str) : bool := existsb (str_eqb x) l.

Definition dot : N := 46.
Definition s_wamp : str := [119; 97; 109; 112].                 (* "wamp" *)
Definition s_2 : str := [50].                                   (* "2" *)

(* str.split(".") : never the empty list *)
Fixpoint split_dot (s : str) : list str :=
  match s with
  | [] => [[]]
  | c :: r => if c =? dot then [] :: split_dot r
              else match split_dot r with h :: t => (c :: h) :: t | [] => [[c]] end
  end.
(* ".".join(parts) *)
Fixpoint join_dot (parts : list str) : str :=
  match parts with
  | [] => []
  | [x] => x
  | x :: r => x ++ dot :: join_dot r
  end.

(* parseSubprotocolIdentifier: (version, serializer_id), or None for (None, None) (any exception) *)
Definition parse_subproto (pyint : str -> option Z) (s : str) : option (Z * str) :=
  match split_dot s with
  | s0 :: s1 :: rest =>
      if str_eqb s0 s_wamp                                      (* s[0] != "wamp": raise *)
      then match pyint s1 with                                  (* version = int(s[1]) *)
           | Some v => Some (v, join_dot rest)                  (* ".".join(s[2:]) *)
           | None => None
           end
      else None
  | _ => None                                                   (* s[1]: IndexError *)
  end.

(* WampWebSocketServerProtocol.onConnect: loop over request.protocols (the CLIENT's order);
   Some (subprotocol echoed, serializer id copied from factory._serializers); None = ConnectionDeny(400) *)
Fixpoint server_select (pyint : str -> option Z) (keys : list str) (protos : list str) : option (str * str) :=
  match protos with
  | [] => None
  | p :: r =>
      match parse_subproto pyint p with
      | Some (v, sid) => if (v =? 2)%Z && mem_str sid keys then Some (p, sid) else server_select pyint keys r
      | None => server_select pyint keys r
      end
  end.

(* WampWebSocketFactory.__init__ *)
Definition mk_proto (sid : str) : str := s_wamp ++ dot :: s_2 ++ dot :: sid.      (* f"wamp.2.{ser.SERIALIZER_ID}" *)
Definition client_protocols (ids : list str) : list str := map mk_proto ids.

Inductive client_out :=
| CAccept (sid : str)       (* self._serializer = copy(self.factory._serializers[serializer_id]) *)
| CRefuse                   (* raise Exception("The server does not speak any of the WebSocket subprotocols ...") *)
| CKeyError.                (* self.factory._serializers[serializer_id] fails (unreachable, proved) *)

(* WampWebSocketClientProtocol.onConnect; [resp] = response.protocol *)
Definition client_accept (pyint : str -> option Z) (ids : list str) (resp : option str) : client_out :=
  match resp with
  | None => CRefuse                                             (* None not in self.factory.protocols *)
  | Some p =>
      if mem_str p (client_protocols ids)
      then match parse_subproto pyint p with
           | Some (_, sid) => if mem_str sid ids then CAccept sid else CKeyError
           | None => CKeyError
           end
      else CRefuse
  end.

(* BINARY flag of the serializer an id stands for (generated table; batched variants share the flag) *)
Fixpoint lookup_binary (tbl : list (str * str * N * bool)) (sid : str) : option bool :=
  match tbl with
  | [] => None
  | (i, bi, _, b) :: r => if str_eqb sid i || (negb (str_eqb bi []) && str_eqb sid bi) then Some b else lookup_binary r sid
  end.
Definition binary_of (sid : str) : option bool := lookup_binary gen_serializers sid.

(* ------------------------------------------------------------------------------------------------------------- *)
(* The mixin on top of the WebSocket engine                                                                       *)
(* ------------------------------------------------------------------------------------------------------------- *)
Inductive wsin :=
| WOpen (raises : bool)                       (* engine calls onOpen(); session.onOpen raises or not *)
| WMessage (isBinary : bool) (fc : fclass)    (* engine calls onMessage(payload, isBinary) *)
| WClose (clean : bool)                       (* engine calls onClose(wasClean, code, reason) *)
| WSend (so : ser_out)                        (* session calls transport.send(msg) *)
| WCloseApi                                   (* transport.close() *)
| WAbortApi.                                  (* transport.abort() *)

Inductive wsev :=
| WSessOpen
| WSessMsg (id : N)
| WSessClose (clean : bool)
| WBailout (code : N)                         (* self._fail_connection(code, reason) *)
| WSendMessage (payload : list N) (isBinary : bool)
| WSendClose (code : N)
| WRaised (e : exn).

(* the for-loop of onMessage with its two except clauses; the trace-log arguments read self._session._authid,
   so with no session attached the first message raises AttributeError -> internal error *)
Fixpoint ws_deliver (attached : bool) (ms : list (N * reaction)) : list wsev :=
  match ms with
  | [] => []
  | (id, r) :: rest =>
      if negb attached then [WBailout gen_close_internal_error]
      else WSessMsg id ::
           match r with
           | ROk => ws_deliver attached rest
           | RProto => [WBailout gen_close_protocol_error]       (* except ProtocolError *)
           | _ => [WBailout gen_close_internal_error]            (* except Exception *)
           end
  end.

Definition ws_on_message (bin : bool) (attached : bool) (isBinary : bool) (fc : fclass) : list wsev :=
  if negb (Bool.eqb isBinary bin) then [WBailout gen_close_protocol_error]   (* Serializer.unserialize: isBinary != BINARY *)
  else match fc with
       | Undecodable => [WBailout gen_close_protocol_error]                   (* ProtocolError("invalid serialization ...") *)
       | Batch ms => ws_deliver attached ms
       end.

(* state: is self._session set *)
Definition ws_step (bin : bool) (attached : bool) (i : wsin) : bool * list wsev :=
  match i with
  | WOpen raises => (true, WSessOpen :: if raises then [WBailout gen_close_internal_error] else [])
  | WMessage b fc => (attached, ws_on_message bin attached b fc)
  | WClose clean => (false, if attached then [WSessClose clean] else [])
  | WSend so =>
      (attached,
       if attached
       then match so with
            | SerOk p => [WSendMessage p bin]                   (* self.sendMessage(payload, isBinary) *)
            | _ => [WRaised ESerialization]                      (* except Exception -> SerializationError *)
            end
       else [WRaised ETransportLost])
  | WCloseApi => (attached, if attached then [WSendClose gen_close_normal] else [WRaised ETransportLost])
  | WAbortApi => (attached, if attached then [WBailout gen_close_going_away] else [WRaised ETransportLost])
  end.

Fixpoint ws_run (bin : bool) (attached : bool) (ins : list wsin) : bool * list wsev :=
  match ins with
  | [] => (attached, [])
  | i :: r => let '(a1, e1) := ws_step bin attached i in let '(a2, e2) := ws_run bin a1 r in (a2, e1 ++ e2)
  end.

Definition wobs_step (o : obs) (e : wsev) : obs :=
  match e, o with
  | WSessOpen, ONone => OAttached
  | WSessOpen, _ => OBad
  | WSessMsg _, OAttached => OAttached
  | WSessMsg _, _ => OBad
  | WSessClose _, OAttached => OTold
  | WSessClose _, _ => OBad
  | _, o => o
  end.
Definition wobs_run (o : obs) (evs : list wsev) : obs := fold_left wobs_step evs o.
Definition is_wclose (e : wsev) : bool := match e with WSessClose _ => true | _ => false end.
Definition count_wclose (evs : list wsev) : nat := length (filter is_wclose evs).
Definition is_wopen (i : wsin) : bool := match i with WOpen _ => true | _ => false end.

(* ------------------------------------------------------------------------------------------------------------- *)
(* What a decodable payload is, as far as a transport is concerned (small spec written from the WAMP message format,  *)
(* not from Serializer.unserialize): a message is a NON-EMPTY LIST whose first element is an INTEGER type code that   *)
(* names a message class, and whose remaining fields that class accepts.  Booleans, floats, strings, null, ... are    *)
(* not integers, whatever the host language's subtyping says.                                                         *)
(* ------------------------------------------------------------------------------------------------------------- *)
Inductive tcode := TInt (z : Z) | TBool (b : bool) | TFloat | TStr | TNull | TBytes | TList | TDict.
Inductive raw :=
| RNotList                              (* the payload decodes to something that is not a list *)
| REmptyList
| RMsg (t : tcode) (fields_ok : bool).  (* first element, and whether the message class accepts the rest (oracle) *)
Definition envelope_ok (r : raw) : bool :=
  match r with
  | RMsg (TInt z) ok => (0 <=? z)%Z && memN (Z.to_N z) gen_wamp_type_codes && ok
  | _ => false
  end.
(* the frame class the transports see: a one-message batch if the envelope is acceptable, a protocol violation otherwise *)
Definition classify (r : raw) (id : N) (re : reaction) : fclass :=
  if envelope_ok r then Batch [(id, re)] else Undecodable.

(* ------------------------------------------------------------------------------------------------------------- *)
(* asyncio/websocket.py WebSocketAdapterProtocol: the receive queue between the asyncio transport and the engine   *)
(* ------------------------------------------------------------------------------------------------------------- *)
(* data_received(data): self.receive_queue.<push>(data); wake the waiter.   The waiter callback runs in a LATER loop
   iteration: while self.receive_queue: data = self.receive_queue.<pop>(); self._dataReceived(data).
   Which end is pushed / popped is read from the source on every run (gen_aio_ws_push_back / gen_aio_ws_pop_front). *)
Inductive adin := ARecv (d : list N) | ATurn.
Definition q_push (q : list (list N)) (d : list N) : list (list N) := if gen_aio_ws_push_back then q ++ [d] else d :: q.
Definition q_drain (q : list (list N)) : list (list N) := if gen_aio_ws_pop_front then q else rev q.
(* state: the deque (front first); output: the segments handed to _dataReceived, in that order *)
Definition adapter_step (q : list (list N)) (i : adin) : list (list N) * list (list N) :=
  match i with
  | ARecv d => (q_push q d, [])
  | ATurn => ([], q_drain q)
  end.
Fixpoint adapter_run (q : list (list N)) (ins : list adin) : list (list N) * list (list N) :=
  match ins with
  | [] => (q, [])
  | i :: r => let '(q1, o1) := adapter_step q i in let '(q2, o2) := adapter_run q1 r in (q2, o1 ++ o2)
  end.
Fixpoint received (ins : list adin) : list (list N) :=
  match ins with [] => [] | ARecv d :: r => d :: received r | ATurn :: r => received r end.
