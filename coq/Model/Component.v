(* Model 4.10 (Component): autobahn.wamp.component -- the per-transport retry bookkeeping (_Transport) and the
   reconnect loop of Component._start / _connect_once / stop, as a transition system over the callbacks that
   component.py registers.  Definitions only.

   What is the "environment": the transport + ApplicationSession stack (websocket / rawsocket, protocol.py) and
   the reactor / event loop.  It invokes the callbacks below; the model makes no assumption on their order
   (theorems quantify over every event sequence), it only ignores a callback whose syntactic precondition in the
   code cannot hold (e.g. the delay future firing when no delay future exists).

   Delays are exact rationals (Q); the random.normalvariate sample is an oracle argument of every step. *)
From Coq Require Import List NArith ZArith QArith Bool.
Import ListNotations.
Open Scope Q_scope.

Inductive framework := Tx | Aio.

(* close / error reasons that matter: component.py _connect_once.on_leave compares against the first two *)
Definition r_normal : N := 0%N.            (* wamp.close.normal *)
Definition r_goodbye_and_out : N := 1%N.   (* wamp.close.goodbye_and_out *)
Definition r_transport_lost : N := 2%N.    (* wamp.close.transport_lost *)
Definition reason_normal (r : N) : bool := (r =? r_normal)%N || (r =? r_goodbye_and_out)%N.

(* error classes: what reaches is_fatal / 'connectfailure' / the start() future / the reactor *)
Inductive err :=
| ERefused                 (* OSError family: connection refused *)
| ELost                    (* ConnectionLost / ConnectionResetError / TransportLost *)
| EApp (reason : N)        (* ApplicationError(reason) built by on_leave *)
| EMain                    (* whatever main() raised *)
| EExhausted               (* RuntimeError("Exhausted all transport connect attempts") *)
| EAttr                    (* AttributeError: txaio.resolve/reject/is_called on self._done_f = None *)
| EAlreadyCalled           (* AlreadyCalledError / InvalidStateError (no rule of the repaired code produces it) *)
| EAssert                  (* AssertionError: reactor.callLater(negative) *)
| ERuntime                 (* RuntimeError("max reconnects reached") from next_delay *)
| EOther (n : N).

Definition err_eqb (a b : err) : bool :=
  match a, b with
  | ERefused, ERefused | ELost, ELost | EMain, EMain | EExhausted, EExhausted | EAttr, EAttr
  | EAlreadyCalled, EAlreadyCalled | EAssert, EAssert | ERuntime, ERuntime => true
  | EApp x, EApp y => (x =? y)%N
  | EOther x, EOther y => (x =? y)%N
  | _, _ => false
  end.

(* ------------------------------------------------------------------------------------------------------------ *)
(* component.py: class _Transport *)

Record tcfg := { max_retries : Z;      (* -1 = retry forever *)
                 max_delay : Q;        (* max_retry_delay *)
                 init_delay : Q;       (* initial_retry_delay *)
                 growth : Q;           (* retry_delay_growth *)
                 jitter : Q }.         (* retry_delay_jitter *)

Record tstate := { tc : tcfg;
                   attempts : N;       (* connect_attempts *)
                   successes : N;      (* connect_sucesses *)
                   failures : N;       (* connect_failures *)
                   rdelay : Q;         (* retry_delay *)
                   tfailed : bool }.   (* _permanent_failure *)

(* _Transport.__init__ : self._permanent_failure = False; self.reset() *)
Definition t_init (c : tcfg) : tstate :=
  {| tc := c; attempts := 0; successes := 0; failures := 0; rdelay := init_delay c; tfailed := false |}.

(* _Transport.reset *)
Definition t_reset (t : tstate) : tstate :=
  {| tc := tc t; attempts := 0; successes := 0; failures := 0; rdelay := init_delay (tc t); tfailed := tfailed t |}.

(* _Transport.failed *)
Definition t_fail (t : tstate) : tstate :=
  {| tc := tc t; attempts := attempts t; successes := successes t; failures := failures t; rdelay := rdelay t;
     tfailed := true |}.

Definition t_set_delay (t : tstate) (d : Q) : tstate :=
  {| tc := tc t; attempts := attempts t; successes := successes t; failures := failures t; rdelay := d;
     tfailed := tfailed t |}.

(* _connect_once: transport.connect_attempts += 1 *)
Definition t_attempt (t : tstate) : tstate :=
  {| tc := tc t; attempts := N.succ (attempts t); successes := successes t; failures := failures t;
     rdelay := rdelay t; tfailed := tfailed t |}.

(* on_join: transport.reset(); transport.connect_sucesses += 1 *)
Definition t_joined (t : tstate) : tstate :=
  let r := t_reset t in
  {| tc := tc r; attempts := attempts r; successes := N.succ (successes r); failures := failures r;
     rdelay := rdelay r; tfailed := tfailed r |}.

Definition t_add_failures (t : tstate) (n : N) : tstate :=
  {| tc := tc t; attempts := attempts t; successes := successes t; failures := (failures t + n)%N;
     rdelay := rdelay t; tfailed := tfailed t |}.

(* _Transport.can_reconnect *)
Definition can_reconnect (t : tstate) : bool :=
  if tfailed t then false
  else if (max_retries (tc t) =? -1)%Z then true
  else (Z.of_N (attempts t) <? max_retries (tc t) + 1)%Z.

(* random.normalvariate(mu, sigma): an oracle.  Raw x: the call returns x whatever its arguments;
   Zs z: it returns mu + z*sigma (z = the standard-normal draw).  Theorems quantify over all oracles. *)
Inductive oracle := Raw (x : Q) | Zs (z : Q).
Definition sample (o : oracle) (mu sigma : Q) : Q :=
  match o with Raw x => x | Zs z => mu + z * sigma end.

Inductive nd_result := NdOk (t : tstate) (d : Q) (used : bool) | NdRaise.

(* _Transport.next_delay; `used` = a sample was drawn *)
Definition next_delay (t : tstate) (o : oracle) : nd_result :=
  if (attempts t =? 0)%N then NdOk t 0 false                                   (* never tried: immediately *)
  else if negb (max_retries (tc t) =? -1)%Z && (max_retries (tc t) + 1 <=? Z.of_N (attempts t))%Z
  then NdRaise                                                                  (* "max reconnects reached" *)
  else
    let mu := Qred (rdelay t * growth (tc t)) in                                (* retry_delay *= growth *)
    let x := Qred (sample o mu (mu * jitter (tc t))) in                         (* normalvariate(mu, mu*jitter) *)
    let d := if Qle_bool x (max_delay (tc t)) then x else max_delay (tc t) in   (* if > max: = max *)
    NdOk (t_set_delay t d) d true.

(* ------------------------------------------------------------------------------------------------------------ *)
(* Component *)

Inductive cphase := Connecting | Open | Closed.

(* one call of _connect_once: the transport used, the per-connection future `done` (cf), the session *)
Record conn := { c_tr : nat;
                 c_phase : cphase;
                 c_cf : bool;          (* txaio.is_called(done) *)
                 c_sess : bool;        (* create_session() ran: listeners hooked, session._parent = component *)
                 c_attached : bool;    (* session.is_attached(): joined and not yet left / lost *)
                 c_main : bool }.      (* main() of this session is running *)

Definition c_new (i : nat) : conn :=
  {| c_tr := i; c_phase := Connecting; c_cf := false; c_sess := false; c_attached := false; c_main := false |}.

Record config := { fwk : framework;
                   has_main : bool;               (* Component(main=...) given *)
                   fatal : option (list err);     (* is_fatal: None, or the error classes it answers True for *)
                   listeners : bool }.            (* component.on(...) listeners registered *)

Record comp := { cfg : config;
                 trs : list tstate;               (* self._transports *)
                 cursor : nat;                    (* position of itertools.cycle(self._transports) *)
                 cand : nat;                      (* transport_candidate[0] (index) *)
                 done_pending : bool;             (* self._done_f is not None (and then it is not fired) *)
                 delay_f : option (nat * Q);      (* self._delay_f pending: transport chosen, seconds *)
                 stopping : bool;                 (* self._stopping *)
                 cur_sess : option nat;           (* self._session = session of connection k *)
                 conns : list conn;               (* every _connect_once call so far, oldest first *)
                 started : bool;                  (* ghost: start() was called *)
                 ndone : N }.                     (* ghost: how often the start() future has fired *)

Definition init (c : config) (ts : list tcfg) : comp :=
  {| cfg := c; trs := map t_init ts; cursor := 0; cand := 0; done_pending := false; delay_f := None;
     stopping := false; cur_sess := None; conns := []; started := false; ndone := 0 |}.

Definition set_trs (s : comp) (v : list tstate) : comp :=
  {| cfg := cfg s; trs := v; cursor := cursor s; cand := cand s; done_pending := done_pending s;
     delay_f := delay_f s; stopping := stopping s; cur_sess := cur_sess s; conns := conns s;
     started := started s; ndone := ndone s |}.
Definition set_pick (s : comp) (cur i : nat) : comp :=
  {| cfg := cfg s; trs := trs s; cursor := cur; cand := i; done_pending := done_pending s;
     delay_f := delay_f s; stopping := stopping s; cur_sess := cur_sess s; conns := conns s;
     started := started s; ndone := ndone s |}.
Definition set_delay_f (s : comp) (v : option (nat * Q)) : comp :=
  {| cfg := cfg s; trs := trs s; cursor := cursor s; cand := cand s; done_pending := done_pending s;
     delay_f := v; stopping := stopping s; cur_sess := cur_sess s; conns := conns s;
     started := started s; ndone := ndone s |}.
Definition set_conns (s : comp) (v : list conn) : comp :=
  {| cfg := cfg s; trs := trs s; cursor := cursor s; cand := cand s; done_pending := done_pending s;
     delay_f := delay_f s; stopping := stopping s; cur_sess := cur_sess s; conns := v;
     started := started s; ndone := ndone s |}.
Definition set_cur_sess (s : comp) (v : option nat) : comp :=
  {| cfg := cfg s; trs := trs s; cursor := cursor s; cand := cand s; done_pending := done_pending s;
     delay_f := delay_f s; stopping := stopping s; cur_sess := v; conns := conns s;
     started := started s; ndone := ndone s |}.
Definition set_stopping (s : comp) : comp :=
  {| cfg := cfg s; trs := trs s; cursor := cursor s; cand := cand s; done_pending := done_pending s;
     delay_f := delay_f s; stopping := true; cur_sess := cur_sess s; conns := conns s;
     started := started s; ndone := ndone s |}.
Definition fire_done (s : comp) : comp :=      (* the future fires; _reset(): self._done_f = None *)
  {| cfg := cfg s; trs := trs s; cursor := cursor s; cand := cand s; done_pending := false;
     delay_f := delay_f s; stopping := stopping s; cur_sess := cur_sess s; conns := conns s;
     started := started s; ndone := N.succ (ndone s) |}.
Definition new_done (s : comp) : comp :=       (* _start: self._done_f = create_future(); fresh cycle() *)
  {| cfg := cfg s; trs := trs s; cursor := 0; cand := 0; done_pending := true;
     delay_f := delay_f s; stopping := stopping s; cur_sess := cur_sess s; conns := conns s;
     started := true; ndone := ndone s |}.

Fixpoint upd_nth {A} (l : list A) (i : nat) (f : A -> A) : list A :=
  match l, i with
  | [], _ => []
  | x :: r, O => f x :: r
  | x :: r, S j => x :: upd_nth r j f
  end.

Definition upd_tr (s : comp) (i : nat) (f : tstate -> tstate) : comp := set_trs s (upd_nth (trs s) i f).
Definition upd_conn (s : comp) (k : nat) (f : conn -> conn) : comp := set_conns s (upd_nth (conns s) k f).

Definition c_set_phase (p : cphase) (c : conn) : conn :=
  {| c_tr := c_tr c; c_phase := p; c_cf := c_cf c; c_sess := c_sess c; c_attached := c_attached c; c_main := c_main c |}.
Definition c_call_cf (c : conn) : conn :=
  {| c_tr := c_tr c; c_phase := c_phase c; c_cf := true; c_sess := c_sess c; c_attached := c_attached c; c_main := c_main c |}.
Definition c_set_sess (c : conn) : conn :=
  {| c_tr := c_tr c; c_phase := c_phase c; c_cf := c_cf c; c_sess := true; c_attached := c_attached c; c_main := c_main c |}.
Definition c_set_attached (b : bool) (c : conn) : conn :=
  {| c_tr := c_tr c; c_phase := c_phase c; c_cf := c_cf c; c_sess := c_sess c; c_attached := b; c_main := c_main c |}.
Definition c_set_main (b : bool) (c : conn) : conn :=
  {| c_tr := c_tr c; c_phase := c_phase c; c_cf := c_cf c; c_sess := c_sess c; c_attached := c_attached c; c_main := b |}.

(* session events: ApplicationSession fires them (protocol.py), ObservableMixin.fire bubbles them to _parent *)
Inductive sev := SConnect | SJoin | SReady | SLeave (r : N) | SDisconnect (clean : bool).

Inductive obs :=
| OSchedule (cur : nat) (elig : list bool) (i : nat) (d : Q)
     (* transport_check: cycle position, can_reconnect() of every transport, transport chosen, delay slept next *)
| OAttempt (i : nat) (d : Q)      (* _connect_once -> _connect_transport for transport i, after sleeping d *)
| ODone (r : option err)          (* the future returned by start() fires: None = success *)
| OEscaped (e : err)              (* exception leaves a callback: reactor / loop / unhandled Deferred error *)
| OStop (r : option err)          (* stop() returned (None) or raised *)
| OFail (i : nat) (e : err)       (* connection on transport i failed with e: 'connectfailure', is_fatal(e) *)
| OMarkFailed (i : nat)           (* transport_candidate[0].failed() *)
| OJoined (i : nat)               (* a session on transport i joined *)
| OReset (i : nat)                (* on_join: transport.reset() *)
| OSession (k : nat)              (* create_session() for connection k *)
| OFire (k : nat) (ev : sev)      (* session of connection k fires ev *)
| ONotify (k : nat) (ev : sev)    (* a listener registered on the component is invoked with it *)
| OLeaveCalled (k : nat)          (* the component calls session.leave() *)
| ODisconnectCalled (k : nat).    (* the component calls session.disconnect() *)

Definition is_tx (s : comp) : bool := match fwk (cfg s) with Tx => true | Aio => false end.

(* handle_connect_error: self._is_fatal is None -> False, else self._is_fatal(fail.value) *)
Definition is_fatal (s : comp) (e : err) : bool :=
  match fatal (cfg s) with None => false | Some l => existsb (err_eqb e) l end.

(* Component._can_reconnect *)
Definition any_can (s : comp) : bool := existsb can_reconnect (trs s).

(* transport_check: `while True: transport = next(transport_gen); if transport.can_reconnect(): break`.
   cur = position of the cycle; at most `fuel` elements are inspected. *)
Fixpoint pick (ts : list tstate) (cur fuel : nat) : option nat :=
  match fuel with
  | O => None
  | S f =>
    let i := Nat.modulo cur (length ts) in
    match nth_error ts i with
    | Some t => if can_reconnect t then Some i else pick ts (S i) f
    | None => None
    end
  end.

(* txaio.resolve / reject on self._done_f; `true` = AttributeError because self._done_f is None *)
Definition resolve_done (s : comp) (r : option err) : comp * list obs * bool :=
  if done_pending s then (fire_done s, [ODone r], false) else (s, [], true).

Definition qneg (d : Q) : bool := negb (Qle_bool 0 d).

(* _start.transport_check *)
Definition transport_check (s : comp) (o : oracle) : comp * list obs * bool :=
  if negb (any_can s) then
    (* "Exhausted all transport connect attempts": txaio.reject(self._done_f, e) *)
    let '(s1, ob, raised) := resolve_done s (Some EExhausted) in
    (s1, ob ++ (if raised then [OEscaped EAttr] else []), false)
  else
    match pick (trs s) (cursor s) (length (trs s)) with
    | None => (s, [], false)                                     (* unreachable, see pick_some *)
    | Some i =>
      match nth_error (trs s) i with
      | None => (s, [], false)
      | Some t =>
        let s0 := set_pick s (Nat.modulo (S i) (length (trs s))) i in
        let sched := OSchedule (cursor s) (map can_reconnect (trs s)) i in
        match next_delay t o with
        | NdRaise => (s0, [OEscaped ERuntime], false)            (* unreachable when can_reconnect t *)
        | NdOk t' d used =>
          let s1 := upd_tr s0 i (fun _ => t') in
          if is_tx s && qneg d
          then (s1, [sched d; OEscaped EAssert], used)           (* reactor.callLater(d<0): AssertionError *)
          else (set_delay_f s1 (Some (i, d)), [sched d], used)   (* self._delay_f = txaio.sleep(delay) *)
        end
      end
    end.

(* the per-connection future fails: connect_error -> 'connectfailure' -> handle_connect_error -> transport_check *)
Definition cf_fail (s : comp) (i : nat) (e : err) (o : oracle) : comp * list obs * bool :=
  let '(s1, ob1) := if is_fatal s e then (upd_tr s (cand s) t_fail, [OMarkFailed (cand s)]) else (s, []) in
  let '(s2, ob2, used) := transport_check s1 o in
  (s2, OFail i e :: ob1 ++ ob2, used).

(* the per-connection future succeeds: session_done -> txaio.resolve(self._done_f, None).
   With self._done_f = None that raises: Twisted leaves it in the Deferred; asyncio's add_callbacks hands the
   exception to the errback of the same call (connect_error). *)
Definition cf_ok (s : comp) (i : nat) (o : oracle) : comp * list obs * bool :=
  let '(s1, ob, raised) := resolve_done s None in
  if raised then
    if is_tx s then (s1, [OEscaped EAttr], false) else cf_fail s1 i EAttr o
  else (s1, ob, false).

(* ObservableMixin.fire on a session made by create_session(): own listeners exist, _parent = component *)
Definition notify (s : comp) (k : nat) (ev : sev) : list obs :=
  OFire k ev :: (if listeners (cfg s) then [ONotify k ev] else []).

Inductive event :=
| EvStart                                   (* Component.start() *)
| EvTimer                                   (* self._delay_f fires -> attempt_connect *)
| EvStop                                    (* Component.stop() *)
| EvConnFail (k : nat) (e : err)            (* _connect_transport: on_connect_failure *)
| EvConnOk (k : nat)                        (* _connect_transport: on_connect_success *)
| EvSessOpen (k : nat)                      (* transport handshake done: create_session(); 'connect' *)
| EvSessJoin (k : nat)                      (* 'join' (then 'ready') *)
| EvSessLeave (k : nat) (r : N)             (* 'leave' with CloseDetails.reason r *)
| EvSessDisconnect (k : nat) (clean : bool) (* 'disconnect' *)
| EvLost (k : nat) (e : err)                (* wrapped connectionLost / connection_lost, after the original *)
| EvMainOk (k : nat)                        (* main()'s future succeeds *)
| EvMainErr (k : nat).                      (* main()'s future fails *)

Definition nop (s : comp) : comp * list obs * bool := (s, [], false).

Definition step (s : comp) (e : event) (o : oracle) : comp * list obs * bool :=
  match e with
  | EvStart =>
    (* _start: a second start() while running only chains another future *)
    if done_pending s then nop s else transport_check (new_done s) o
  | EvTimer =>
    match delay_f s with
    | None => nop s
    | Some (i, d) =>
      (* attempt_connect: self._delay_f = None; _connect_once: connect_attempts += 1; _connect_transport *)
      let s1 := set_delay_f s None in
      let s2 := set_conns s1 (conns s1 ++ [c_new i]) in
      (upd_tr s2 i t_attempt, [OAttempt i d], false)
    end
  | EvStop =>
    let s0 := set_stopping s in
    let attached := match cur_sess s with
                    | Some k => match nth_error (conns s) k with Some c => c_attached c | None => false end
                    | None => false end in
    match cur_sess s, attached, delay_f s with
    | Some k, true, _ => (s0, [OLeaveCalled k; OStop None], false)            (* return self._session.leave() *)
    | _, _, Some _ =>
      (* txaio.cancel(self._delay_f) -> error(): self._delay_f = None; stopping: resolve(self._done_f, None) *)
      let '(s1, ob, raised) := resolve_done (set_delay_f s0 None) None in
      (s1, ob ++ (if raised then [OEscaped EAttr] else []) ++ [OStop None], false)
    | _, _, None =>
      (* if self._done_f is not None and not txaio.is_called(self._done_f): resolve *)
      let '(s1, ob, raised) := resolve_done s0 None in
      (s1, ob ++ [OStop None], false)
    end
  | EvConnFail k e =>
    match nth_error (conns s) k with
    | Some c =>
      match c_phase c with
      | Connecting =>
        (* on_connect_failure: connect_failures += 1; reject(done, err).  asyncio: _connect_once.on_error is
           called as well (fan-out) and counts the failure a second time *)
        let s1 := upd_conn s k (fun c => c_call_cf (c_set_phase Closed c)) in
        let s2 := upd_tr s1 (c_tr c) (fun t => t_add_failures t (if is_tx s then 1 else 2)) in
        cf_fail s2 (c_tr c) e o
      | _ => nop s
      end
    | None => nop s
    end
  | EvConnOk k =>
    match nth_error (conns s) k with
    | Some c => match c_phase c with
                | Connecting => (upd_conn s k (c_set_phase Open), [], false)
                | _ => nop s end
    | None => nop s
    end
  | EvSessOpen k =>
    match nth_error (conns s) k with
    | Some c =>
      match c_phase c, c_sess c with
      | Open, false =>
        (* create_session: self._session = session; session._parent = self; on('leave'/'join'/'disconnect') *)
        let s1 := set_cur_sess (upd_conn s k c_set_sess) (Some k) in
        (s1, OSession k :: notify s k SConnect, false)
      | _, _ => nop s
      end
    | None => nop s
    end
  | EvSessJoin k =>
    match nth_error (conns s) k with
    | Some c =>
      if c_sess c then
        (* on_join (always registered): transport.reset(); connect_sucesses += 1; then, only if main was given,
           main() is started *)
        let s1 := upd_conn s k (c_set_attached true) in
        let s2 := upd_conn (upd_tr s1 (c_tr c) t_joined) k (c_set_main (has_main (cfg s))) in
        (s2, [OJoined (c_tr c); OReset (c_tr c)] ++ notify s k SJoin ++ notify s k SReady, false)
      else nop s
    | None => nop s
    end
  | EvSessLeave k r =>
    match nth_error (conns s) k with
    | Some c =>
      if c_sess c then
        let s1 := upd_conn s k (c_set_attached false) in
        if c_cf c then (s1, notify s k (SLeave r), false)
        else
          (* on_leave: normal reasons resolve `done`, anything else rejects it with ApplicationError(reason) *)
          let s2 := upd_conn s1 k c_call_cf in
          let '(s3, ob, used) := if reason_normal r then cf_ok s2 (c_tr c) o else cf_fail s2 (c_tr c) (EApp r) o in
          (s3, ob ++ notify s k (SLeave r), used)
      else nop s
    | None => nop s
    end
  | EvSessDisconnect k clean =>
    match nth_error (conns s) k with
    | Some c =>
      if c_sess c then
        let s1 := upd_conn s k (c_set_attached false) in
        if c_cf c || negb clean then (s1, notify s k (SDisconnect clean), false)
        else
          (* on_disconnect: was_clean and `done` not called yet -> resolve *)
          let s2 := upd_conn s1 k c_call_cf in
          let '(s3, ob, used) := cf_ok s2 (c_tr c) o in
          (s3, ob ++ notify s k (SDisconnect clean), used)
      else nop s
    | None => nop s
    end
  | EvLost k e =>
    match nth_error (conns s) k with
    | Some c =>
      match c_phase c with
      | Open =>
        (* _connect_transport.lost: orig(fail); if not is_called(done): reject(done, fail) *)
        let s1 := upd_conn s k (fun c => c_set_attached false (c_set_phase Closed c)) in
        if c_cf c then (s1, [], false)
        else cf_fail (upd_conn s1 k c_call_cf) (c_tr c) e o
      | _ => nop s
      end
    | None => nop s
    end
  | EvMainOk k =>
    match nth_error (conns s) k with
    | Some c =>
      if c_main c then
        (* main_success: txaio.call_later(0, leave) -> session.leave() *)
        (upd_conn s k (c_set_main false), [OLeaveCalled k], false)
      else nop s
    | None => nop s
    end
  | EvMainErr k =>
    match nth_error (conns s) k with
    | Some c =>
      if c_main c then
        (* main_error: if not txaio.is_called(done): txaio.reject(done, err); session.disconnect() *)
        let s1 := upd_conn s k (c_set_main false) in
        if c_cf c then (s1, [ODisconnectCalled k], false)
        else
          let '(s2, ob, used) := cf_fail (upd_conn s1 k c_call_cf) (c_tr c) EMain o in
          (s2, ob ++ [ODisconnectCalled k], used)
      else nop s
    | None => nop s
    end
  end.

(* a run: every event comes with the oracle that answers a normalvariate call made during that step *)
Fixpoint run (s : comp) (evs : list (event * oracle)) : comp * list obs :=
  match evs with
  | [] => (s, [])
  | (e, o) :: r =>
    let '(s1, ob, _) := step s e o in
    let '(s2, ob2) := run s1 r in
    (s2, ob ++ ob2)
  end.

(* The event loop runs a sleep(d <= 0) to completion before anything else can happen: a zero (or, on asyncio,
   negative) delay is not a state anything can be interleaved with. *)
Definition zero_delay_pending (s : comp) : bool :=
  match delay_f s with Some (_, d) => Qle_bool d 0 | None => false end.

Definition step_settled (s : comp) (e : event) (o : oracle) : comp * list obs * bool :=
  let '(s1, ob, used) := step s e o in
  if zero_delay_pending s1 then
    let '(s2, ob2, _) := step s1 EvTimer o in (s2, ob ++ ob2, used)
  else (s1, ob, used).

(* a script with a queue of oracles consumed only when a sample is drawn (how the driver scripts randomness);
   an exhausted queue answers with the mean (Zs 0).  Returns the unused rest of the queue as well. *)
Fixpoint run_q (s : comp) (evs : list event) (q : list oracle) : comp * list obs * list oracle :=
  match evs with
  | [] => (s, [], q)
  | e :: r =>
    let o := match q with [] => Zs 0 | o :: _ => o end in
    let '(s1, ob, used) := step_settled s e o in
    let '(s2, ob2, q2) := run_q s1 r (if used then tl q else q) in
    (s2, ob ++ ob2, q2)
  end.

(* ------------------------------------------------------------------------------------------------------------ *)
(* the outcome alphabet of the property, as what the transport/session stack does to the component for each.
   k = index of the connection the outcome is played on.  The order of session events relative to the wrapped
   connectionLost differs between the frameworks (asyncio defers session callbacks by one loop turn). *)

Inductive outcome :=
| Refused (e : err)                 (* connection refused / other connect error *)
| HandshakeFail                     (* connected, transport handshake fails, connection dropped *)
| Aborted (r : N)                   (* connected, HELLO answered by ABORT r *)
| JoinedLost                        (* joined, then the transport is lost uncleanly *)
| JoinedLeave (r : N)               (* joined, then the session is closed with GOODBYE reason r *)
| MainReturns                       (* joined, main() returns, the session leaves *)
| MainRaises                        (* joined, main() raises *)
| JoinedLostMainRaises.             (* joined, transport lost, then main() fails because of that *)

(* where a stop() call is inserted while an outcome is being played *)
Inductive stop_at := NoStop | StopConnecting | StopConnected | StopHello | StopJoined.

Definition lost_events (fw : framework) (k : nat) (clean : bool) : list event :=
  match fw with
  | Tx => [EvSessLeave k r_transport_lost; EvSessDisconnect k clean; EvLost k ELost]
  | Aio => [EvLost k ELost; EvSessLeave k r_transport_lost; EvSessDisconnect k clean]
  end.

Definition closed_events (k : nat) : list event := [EvSessDisconnect k true; EvLost k ELost].

Definition stop_if (b : bool) : list event := if b then [EvStop] else [].

Definition sa_eqb (a b : stop_at) : bool :=
  match a, b with
  | NoStop, NoStop | StopConnecting, StopConnecting | StopConnected, StopConnected
  | StopHello, StopHello | StopJoined, StopJoined => true
  | _, _ => false
  end.

Definition play (fw : framework) (k : nat) (oc : outcome) (st : stop_at) : list event :=
  let pre_conn := stop_if (sa_eqb st StopConnecting) in
  let connected := pre_conn ++ [EvConnOk k] ++ stop_if (sa_eqb st StopConnected) in
  let hello := connected ++ [EvSessOpen k] ++ stop_if (sa_eqb st StopHello) in
  let joined := hello ++ [EvSessJoin k] ++ stop_if (sa_eqb st StopJoined) in
  match oc with
  | Refused e => pre_conn ++ [EvConnFail k e]
  | HandshakeFail => connected ++ [EvLost k ELost]
  | Aborted r => hello ++ [EvSessLeave k r] ++ closed_events k
  | JoinedLost => joined ++ lost_events fw k false
  | JoinedLeave r => joined ++ [EvSessLeave k r] ++ closed_events k
  | MainReturns => joined ++ [EvMainOk k; EvSessLeave k r_goodbye_and_out] ++ closed_events k
  | MainRaises => joined ++ [EvMainErr k] ++ lost_events fw k true
  | JoinedLostMainRaises => joined ++ lost_events fw k false ++ [EvMainErr k]
  end.

(* a script item: play an outcome on the next connection, or call stop() between attempts *)
Inductive item := Play (oc : outcome) (st : stop_at) | StopNow.

(* "wait": let virtual time pass until the pending delay has elapsed *)
Definition wait_events (s : comp) : list event :=
  match delay_f s with Some _ => [EvTimer] | None => [] end.

(* the connection an outcome is played on: the one the pending delay will create, or the one that is being
   established already (its zero delay has elapsed); an index without connection if the component is finished *)
Definition target (s : comp) : nat :=
  match delay_f s with
  | Some _ => length (conns s)
  | None =>
    match nth_error (conns s) (pred (length (conns s))) with
    | Some c => match c_phase c with Connecting => pred (length (conns s)) | _ => length (conns s) end
    | None => length (conns s)
    end
  end.

Definition item_events (s : comp) (it : item) : list event :=
  match it with
  | Play oc st => wait_events s ++ play (fwk (cfg s)) (target s) oc st
  | StopNow => [EvStop]
  end.

Fixpoint run_items (s : comp) (its : list item) (q : list oracle) : comp * list obs * list oracle :=
  match its with
  | [] => (s, [], q)
  | it :: r =>
    let '(s1, ob, q1) := run_q s (item_events s it) q in
    let '(s2, ob2, q2) := run_items s1 r q1 in
    (s2, ob ++ ob2, q2)
  end.

(* ------------------------------------------------------------------------------------------------------------ *)
(* Trace functions used by the property statements (Props/C14.v).  A trace is the chronological list of obs. *)

(* attempts on transport i since the last session on transport i joined *)
Definition since_join (tr : list obs) (i : nat) : N :=
  fold_left (fun acc o => match o with
                          | OAttempt j _ => if Nat.eqb j i then N.succ acc else acc
                          | OJoined j => if Nat.eqb j i then 0%N else acc
                          | _ => acc end) tr 0%N.

(* attempts on transport i since its counters were last reset (on_join with main=) *)
Definition since_reset (tr : list obs) (i : nat) : N :=
  fold_left (fun acc o => match o with
                          | OAttempt j _ => if Nat.eqb j i then N.succ acc else acc
                          | OReset j => if Nat.eqb j i then 0%N else acc
                          | _ => acc end) tr 0%N.

(* (transport i was marked failed, attempts on i after that) *)
Definition after_mark (tr : list obs) (i : nat) : bool * N :=
  fold_left (fun a o => match o with
                        | OMarkFailed j => if Nat.eqb j i then (true, snd a) else a
                        | OAttempt j _ => if Nat.eqb j i && fst a then (fst a, N.succ (snd a)) else a
                        | _ => a end) tr (false, 0%N).

(* (transport i was attempted before, every first attempt so far had delay 0) *)
Definition first_ok (tr : list obs) (i : nat) : bool * bool :=
  fold_left (fun a o => match o with
                        | OAttempt j d => if Nat.eqb j i then (true, snd a && (fst a || Qeq_bool d 0)) else a
                        | _ => a end) tr (false, true).

(* how often the start() future fired *)
Definition done_count (tr : list obs) : nat :=
  length (filter (fun o => match o with ODone _ => true | _ => false end) tr).

Definition start_count (evs : list (event * oracle)) : nat :=
  length (filter (fun p => match fst p with EvStart => true | _ => false end) evs).

(* the transport chosen by the latest transport_check *)
Definition last_scheduled (tr : list obs) : option nat :=
  fold_left (fun a o => match o with OSchedule _ _ i _ => Some i | _ => a end) tr None.

(* first index at or cyclically after `cur` whose flag is set *)
Fixpoint cyc_first_from (elig : list bool) (cur fuel : nat) : option nat :=
  match fuel with
  | O => None
  | S f => let i := Nat.modulo cur (length elig) in
           match nth_error elig i with
           | Some true => Some i
           | Some false => cyc_first_from elig (S i) f
           | None => None
           end
  end.
Definition cyc_first (elig : list bool) (cur : nat) : option nat := cyc_first_from elig cur (length elig).

(* every event a session fires is handed to the component's listeners right away *)
Fixpoint bubbled (tr : list obs) : Prop :=
  match tr with
  | [] => True
  | OFire k ev :: r => match r with ONotify k' ev' :: r' => k' = k /\ ev' = ev /\ bubbled r' | _ => False end
  | ONotify _ _ :: _ => False
  | _ :: r => bubbled r
  end.

(* configurations the theorems talk about: max_retries >= -1, max_retry_delay >= 0 *)
Definition tcfg_wf (c : tcfg) : Prop := (-1 <= max_retries c)%Z /\ 0 <= max_delay c.

(* the cycle() position is handed from one transport_check to the next: each check starts where the previous
   choice left off (one past the chosen transport), the first one at 0 *)
Fixpoint chain_cursor (n cur : nat) (tr : list obs) : Prop :=
  match tr with
  | [] => True
  | OSchedule c _ i _ :: r => c = cur /\ chain_cursor n (Nat.modulo (S i) n) r
  | _ :: r => chain_cursor n cur r
  end.

(* can_reconnect as a function of the history: attempts since the last reset, marked failed *)
Definition spec_can (c : tcfg) (n : N) (failed : bool) : bool :=
  if failed then false else if (max_retries c =? -1)%Z then true else (Z.of_N n <? max_retries c + 1)%Z.

(* "has attempts left" in the words of the property: not failed fatally, fewer than max_retries+1 attempts since
   the transport's last successful join *)
Definition prop_has_left (c : tcfg) (tr : list obs) (i : nat) : bool :=
  spec_can c (since_join tr i) (fst (after_mark tr i)).

(* what handle_connect_error leaves behind before transport_check runs *)
Definition after_failure (s : comp) (e : err) : comp := if is_fatal s e then upd_tr s (cand s) t_fail else s.
