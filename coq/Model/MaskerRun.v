(* Executable entry points used by the C15 correspondence run (harness/props/c15.py). *)
From Coq Require Import NArith List Bool.
From AV Require Import Model.Masker.
Import ListNotations.
Open Scope N_scope.

Fixpoint list_eqb (a b : list N) : bool :=
  match a, b with
  | [], [] => true
  | x :: a', y :: b' => (x =? y) && list_eqb a' b'
  | _, _ => false
  end.

(* impl codes: 0 py Simple, 1 py Shifted1, 2 nvx scalar, 3 nvx sse2, 4 py factory, 5 nvx factory,
   6 nvx wrapper scalar (alignment unknown -> 0), 7 nvx wrapper simd *)
Definition proc_of (impl : N) (k : list N) (align hint : N) : N -> list N -> list N * N :=
  match impl with
  | 0 => simple_process k
  | 1 => shifted_process k
  | 2 => nvx_process 1 k align
  | 3 => nvx_process 2 k align
  | 4 => factory_process PurePython (Some hint) k
  | 5 => factory_process (Nvx align) (Some hint) k
  | 6 => nvx_process 1 k align
  | _ => nvx_process 2 k align
  end.

Definition masker_case := (N * list N * N * N * list (list N) * list N * N)%type.

Definition masker_case_ok (c : masker_case) : bool :=
  let '(impl, k, align, ptr0, chunks, exp_out, exp_ptr) := c in
  let hint := lenN (concat chunks) in
  let '(o, p) := run_chunks (proc_of impl k align hint) ptr0 chunks in
  list_eqb o exp_out && (p =? exp_ptr).
