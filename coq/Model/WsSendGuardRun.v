(* C16, send side: the executable comparison of Model/WsSendGuard.v with recorded runs of the implementation.
   The compressor is replayed from the run: [comp_len] is the number of octets the real compressor produced for the
   operation (recorded also for refused operations); payloads are represented by their length (the guard reads
   nothing else); the operations of one case have pairwise distinct payload lengths. *)
From Coq Require Import NArith List Bool.
From AV Require Import Model.Masker Gen.WsConsts Model.WsRecv Model.WsSendGuard.
Import ListNotations.
Open Scope N_scope.

(* operation: (api: 0 = sendMessage, 1 = sendPreparedMessage), doNotCompress, payload length, binary, comp_len *)
Definition send_op_obs := (N * bool * N * bool * N)%type.
(* observed: refused (PayloadExceededError and NOTHING written), RSV1 of the message written, its payload length on the
   wire (sum over the fragments), "self._perMessageCompress._compressor is None" after the call *)
Definition send_obs := (bool * bool * N * bool)%type.
(* maxMessagePayloadSize, permessage-deflate negotiated, operations, observations *)
Definition send_case := (N * bool * list send_op_obs * list send_obs)%type.

Definition zeros (n : N) : list N := repeat 0 (N.to_nat n).

Fixpoint table (ops : list send_op_obs) (plen : N) : N :=
  match ops with
  | [] => 0
  | (_, _, l, _, c) :: rest => if l =? plen then c else table rest plen
  end.

Definition tape_deflate (ops : list send_op_obs) (z : unit) (p : list N) : unit * list N :=
  (tt, zeros (table ops (lenN p))).

Definition op_of (o : send_op_obs) : send_op :=
  let '(api, dnc, l, b, _) := o in
  mkSend (if api =? 0 then ApiMessage dnc else ApiPrepared dnc) (zeros l) b.

Definition send_cfg (max : N) (pmc : bool) : cfg := mkCfg true true false true true true 0 max pmc false.

Fixpoint send_trace (ops_all : list send_op_obs) (cf : cfg) (o : option unit) (ops : list send_op_obs) : list send_obs :=
  match ops with
  | [] => []
  | x :: rest =>
      let '(o1, out) := send_step unit tt (tape_deflate ops_all) cf o (op_of x) in
      let none := match o1 with None => true | Some _ => false end in
      (match out with
       | Refused => (true, false, 0, none)
       | Wrote r d _ => (false, r, lenN d, none)
       end) :: send_trace ops_all cf o1 rest
  end.

Definition obs_eqb (a b : send_obs) : bool :=
  let '(r1, v1, l1, n1) := a in let '(r2, v2, l2, n2) := b in
  Bool.eqb r1 r2 && Bool.eqb v1 v2 && (l1 =? l2) && Bool.eqb n1 n2.

Fixpoint all2 (l1 l2 : list send_obs) : bool :=
  match l1, l2 with
  | [], [] => true
  | a :: r1, b :: r2 => obs_eqb a b && all2 r1 r2
  | _, _ => false
  end.

Definition send_case_ok (c : send_case) : bool :=
  let '(max, pmc, ops, obs) := c in
  all2 (send_trace ops (send_cfg max pmc) None ops) obs.

Definition send_show (c : send_case) : list send_obs :=
  let '(max, pmc, ops, obs) := c in send_trace ops (send_cfg max pmc) None ops.
