(* Model of the incremental UTF-8 validators (definitions only; no generated file is imported here).
   Sources mirrored:
     src/autobahn/websocket/utf8validator.py   UTF8VALIDATOR_DFA indexing, Utf8Validator.reset / validate
     src/autobahn/nvx/_utf8validator.c         utf8_validator_t, nvx_utf8vld_reset / set_impl / validate,
                                               _nvx_utf8vld_validate_table, DFA_TRANSITION,
                                               _nvx_utf8vld_validate_unrolled
     src/autobahn/nvx/_utf8validator.py        Utf8Validator.validate (mapping of the C result to the 4-tuple)
   and, written from RFC 3629 section 4 / Unicode Table 3-7 (NOT from the table): rfc_step, wf_utf8,
   utf8_encode / scalar_value.
   Octets are N (< 256, see bytes_ok); indices are N (Python ints are unbounded; the C size_t wrap-around
   at 2^64 octets is not modelled). *)
From Coq Require Import NArith ZArith List Bool.
Import ListNotations.
Open Scope N_scope.

Definition bytes_ok (l : list N) : Prop := Forall (fun b => b < 256) l.
Definition nlen (d : list N) : N := N.of_nat (length d).

(* ------------------------------------------------------------------------------------------------ *)
(* The table-driven step.  Python: UTF8VALIDATOR_DFA_S[256 + (state << 4) + UTF8VALIDATOR_DFA_S[ba[i]]]
   C:      UTF8VALIDATOR_DFA[256 + state * 16 + UTF8VALIDATOR_DFA[data[i]]]
   An index outside the table is an IndexError in Python and an out-of-bounds read in C; the model returns
   the reject state there, and C09_table_in_bounds shows it never happens for s < 9, b < 256. *)
Definition nthN (l : list N) (i : N) : N := nth (N.to_nat i) l 1.
Definition dfa_step (tbl : list N) (s b : N) : N := nthN tbl (256 + s * 16 + nthN tbl b).

(* ------------------------------------------------------------------------------------------------ *)
(* Reference, from RFC 3629 section 4 (same content as Unicode Table 3-7):
     UTF8-1 = %x00-7F                      UTF8-2 = %xC2-DF UTF8-tail
     UTF8-3 = %xE0 %xA0-BF UTF8-tail / %xE1-EC 2( UTF8-tail ) / %xED %x80-9F UTF8-tail / %xEE-EF 2( UTF8-tail )
     UTF8-4 = %xF0 %x90-BF 2( UTF8-tail ) / %xF1-F3 3( UTF8-tail ) / %xF4 %x80-8F 2( UTF8-tail )
     UTF8-tail = %x80-BF *)
Definition inr (lo hi b : N) : bool := (lo <=? b) && (b <=? hi).
Definition is_tail (b : N) : bool := inr 0x80 0xBF b.

(* UTF8-octets = *( UTF8-char ): the list splits into well-formed code point encodings *)
Fixpoint wf_utf8 (bs : list N) : bool :=
  match bs with
  | [] => true
  | b0 :: r0 =>
    (b0 <=? 0x7F) && wf_utf8 r0                                                       (* UTF8-1 *)
    || match r0 with
       | [] => false
       | b1 :: r1 =>
         inr 0xC2 0xDF b0 && is_tail b1 && wf_utf8 r1                                   (* UTF8-2 *)
         || match r1 with
            | [] => false
            | b2 :: r2 =>
              ((b0 =? 0xE0) && inr 0xA0 0xBF b1 || inr 0xE1 0xEC b0 && is_tail b1       (* UTF8-3 *)
               || (b0 =? 0xED) && inr 0x80 0x9F b1 || inr 0xEE 0xEF b0 && is_tail b1)
              && is_tail b2 && wf_utf8 r2
              || match r2 with
                 | [] => false
                 | b3 :: r3 =>
                   ((b0 =? 0xF0) && inr 0x90 0xBF b1 || inr 0xF1 0xF3 b0 && is_tail b1  (* UTF8-4 *)
                    || (b0 =? 0xF4) && inr 0x80 0x8F b1)
                   && is_tail b2 && is_tail b3 && wf_utf8 r3
                 end
            end
       end
  end.

(* a prefix is viable when it can still be completed to a well-formed string *)
Definition viable (bs : list N) : Prop := exists ext, bytes_ok ext /\ wf_utf8 (bs ++ ext) = true.

(* The same reference as a state machine over "what the current code point still needs", numbered like the
   implementation (0 = on a boundary, 1 = ill-formed, 2 = one tail, 3 = two tails, 4 = after E0,
   5 = after ED, 6 = after F0, 7 = three tails (after F1..F3), 8 = after F4). *)
Definition rfc_step (s b : N) : N :=
  match s with
  | 0 => if b <=? 0x7F then 0
         else if inr 0xC2 0xDF b then 2
         else if b =? 0xE0 then 4
         else if inr 0xE1 0xEC b || inr 0xEE 0xEF b then 3
         else if b =? 0xED then 5
         else if b =? 0xF0 then 6
         else if inr 0xF1 0xF3 b then 7
         else if b =? 0xF4 then 8
         else 1
  | 2 => if inr 0x80 0xBF b then 0 else 1
  | 3 => if inr 0x80 0xBF b then 2 else 1
  | 4 => if inr 0xA0 0xBF b then 2 else 1
  | 5 => if inr 0x80 0x9F b then 2 else 1
  | 6 => if inr 0x90 0xBF b then 3 else 1
  | 7 => if inr 0x80 0xBF b then 3 else 1
  | 8 => if inr 0x80 0x8F b then 3 else 1
  | _ => 1
  end.

(* the machine run over a list of octets *)
Definition dfa_run (step : N -> N -> N) (s : N) (bs : list N) : N := fold_left step bs s.

(* Definition D92 / RFC 3629 section 3: the encoding of one Unicode scalar value *)
Definition scalar_value (cp : N) : bool := (cp <=? 0x10FFFF) && negb (inr 0xD800 0xDFFF cp).
Definition utf8_encode (cp : N) : list N :=
  if cp <=? 0x7F then [cp]
  else if cp <=? 0x7FF then [0xC0 + cp / 64; 0x80 + cp mod 64]
  else if cp <=? 0xFFFF then [0xE0 + cp / 4096; 0x80 + (cp / 64) mod 64; 0x80 + cp mod 64]
  else [0xF0 + cp / 262144; 0x80 + (cp / 4096) mod 64; 0x80 + (cp / 64) mod 64; 0x80 + cp mod 64].

(* ------------------------------------------------------------------------------------------------ *)
(* The observable result of one validate() call: (valid?, endsOnCodePoint?, currentIndex, totalIndex) *)
Definition vresult := (bool * bool * N * N)%type.
Definition r_valid (r : vresult) : bool := fst (fst (fst r)).
Definition r_ends (r : vresult) : bool := snd (fst (fst r)).
Definition r_cur (r : vresult) : N := snd (fst r).
Definition r_tot (r : vresult) : N := snd r.

(* ---- utf8validator.py: class Utf8Validator (pure Python) ---- *)
Record pyv := { py_state : N; py_index : N }.

(* reset(): _state = UTF8_ACCEPT; _index = 0   (_codepoint is not read by validate) *)
Definition py_reset : pyv := {| py_state := 0; py_index := 0 |}.

(* validate(): while i < l: state = DFA[...]; if state == UTF8_REJECT: <bail out at i>; i += 1
   result of the loop: the state, and Some i when it bailed out at offset i *)
Fixpoint py_loop (tbl : list N) (state i : N) (ba : list N) : N * option N :=
  match ba with
  | [] => (state, None)
  | b :: r => let state' := dfa_step tbl state b in
              if state' =? 1 then (state', Some i) else py_loop tbl state' (i + 1) r
  end.

Definition py_validate (tbl : list N) (v : pyv) (ba : list N) : pyv * vresult :=
  match py_loop tbl (py_state v) 0 ba with
  | (s, Some i) =>                 (* self._state = state; self._index += i; return False, False, i, self._index *)
      ({| py_state := s; py_index := py_index v + i |}, (false, false, i, py_index v + i))
  | (s, None) =>                   (* self._state = state; self._index += l;
                                      return state != UTF8_REJECT, state == UTF8_ACCEPT, l, self._index
                                      (state can only be REJECT here when the chunk is empty and an earlier call rejected) *)
      ({| py_state := s; py_index := py_index v + nlen ba |}, (negb (s =? 1), s =? 0, nlen ba, py_index v + nlen ba))
  end.

(* ---- _utf8validator.c ---- *)
Record cv := { c_state : N; c_cur : N; c_tot : N; c_impl : N }.

(* nvx_utf8vld_set_impl(vld, impl) for impl >= 0, with [max_impl] = 2 / 3 / 4 depending on __SSE2__ / __SSE4_1__
   at build time: impl = 0 selects max_impl; impl <= max_impl is taken; anything larger is ignored *)
Definition c_set_impl (max_impl : N) (v : cv) (impl : N) : cv :=
  if impl =? 0 then {| c_state := c_state v; c_cur := c_cur v; c_tot := c_tot v; c_impl := max_impl |}
  else if impl <=? max_impl then {| c_state := c_state v; c_cur := c_cur v; c_tot := c_tot v; c_impl := impl |}
  else v.

(* nvx_utf8vld_reset: state = 0; current_index = 0; total_index = 0 (impl is kept) *)
Definition c_reset (v : cv) : cv := {| c_state := 0; c_cur := 0; c_tot := 0; c_impl := c_impl v |}.
(* nvx_utf8vld_new: reset, then set_impl(p, 0) *)
Definition c_new (max_impl : N) : cv := {| c_state := 0; c_cur := 0; c_tot := 0; c_impl := max_impl |}.

(* while (i < length && state != 1) { state = STEP; if (state == 1) { <bail out at i> } i++; }
   shared by _nvx_utf8vld_validate_table (STEP = table lookup) and _nvx_utf8vld_validate_unrolled
   (STEP = DFA_TRANSITION).  The loop condition still tests state != 1, as in the source; since the entry check of
   c_validate_with it can no longer be false on entry. *)
Fixpoint c_loop (step : N -> N -> N) (state i : N) (data : list N) : N * option N :=
  match data with
  | [] => (state, None)
  | b :: r => if state =? 1 then (state, None)
              else let state' := step state b in
                   if state' =? 1 then (state', Some i) else c_loop step state' (i + 1) r
  end.

(* one of the two loop functions; returns the C return value (-1 / 0 / 1) *)
Definition c_validate_with (step : N -> N -> N) (v : cv) (data : list N) : cv * Z :=
  if c_state v =? 1 then
    (* if (state == 1) { vld->current_index = 0; return -1; }   already rejected by an earlier chunk: state and
       total_index are left as they are *)
    ({| c_state := c_state v; c_cur := 0; c_tot := c_tot v; c_impl := c_impl v |}, (-1)%Z)
  else
  match c_loop step (c_state v) 0 data with
  | (s, Some i) =>      (* vld->state = state; current_index = i; total_index += i; return -1 *)
      ({| c_state := s; c_cur := i; c_tot := c_tot v + i; c_impl := c_impl v |}, (-1)%Z)
  | (s, None) =>        (* vld->state = state; current_index = length; total_index += length; return state == 0 ? 0 : 1 *)
      ({| c_state := s; c_cur := nlen data; c_tot := c_tot v + nlen data; c_impl := c_impl v |},
       if s =? 0 then 0%Z else 1%Z)
  end.

(* DFA_TRANSITION as compiled: [utbl] holds its 9 x 256 results (Gen/Utf8Unrolled.v); for a state outside
   0..8 the macro leaves the state unchanged *)
Definition unrolled_step (utbl : list N) (s b : N) : N :=
  if s <? 9 then nthN utbl (s * 256 + b) else s.

(* nvx_utf8vld_validate: switch (vld->impl): UNROLLED_DFA (2) -> unrolled loop; TABLE_DFA (1), SSE2_DFA (3),
   SSE41_DFA (4) and default -> table loop (the SSE bodies are never dispatched to) *)
Definition c_validate (tbl utbl : list N) (v : cv) (data : list N) : cv * Z :=
  if c_impl v =? 2 then c_validate_with (unrolled_step utbl) v data
  else c_validate_with (dfa_step tbl) v data.

(* _utf8validator.py: validate(): res = lib.nvx_utf8vld_validate(...); return (res >= 0, res == 0,
   get_current_index(), get_total_index()) *)
Definition nvx_validate (tbl utbl : list N) (v : cv) (ba : list N) : cv * vresult :=
  let '(v', res) := c_validate tbl utbl v ba in
  (v', ((0 <=? res)%Z, (res =? 0)%Z, c_cur v', c_tot v')).

(* ---- feeding a validator a list of chunks: the result of every call, in order, and the final object ---- *)
Fixpoint feed {V} (validate : V -> list N -> V * vresult) (v : V) (chunks : list (list N)) : V * list vresult :=
  match chunks with
  | [] => (v, [])
  | c :: cs => let '(v1, r) := validate v c in
               let '(v2, rs) := feed validate v1 cs in (v2, r :: rs)
  end.

(* ---- what every call SHOULD report (the property), from the reference alone ----
   [prev] = octets fed in earlier calls, [c] = this chunk.  first_bad = offset of the first octet that makes
   the whole input non-viable, computed with the reference machine. *)
Fixpoint first_bad (s i : N) (bs : list N) : option N :=
  match bs with
  | [] => None
  | b :: r => let s' := rfc_step s b in if s' =? 1 then Some i else first_bad s' (i + 1) r
  end.
Definition ref_result (prev c : list N) : vresult :=
  match first_bad 0 0 (prev ++ c) with
  | None => (true, wf_utf8 (prev ++ c), nlen c, nlen prev + nlen c)
  | Some i => (false, false, i - nlen prev, i)
  end.
(* expected results of feeding [chunks] one call each *)
Fixpoint ref_feed (prev : list N) (chunks : list (list N)) : list vresult :=
  match chunks with
  | [] => []
  | c :: cs => ref_result prev c :: ref_feed (prev ++ c) cs
  end.

(* verdict, boundary flag and total index (the chunk-relative current index dropped) *)
Definition res3 (r : vresult) : bool * bool * N := let '(a, b, _, d) := r in (a, b, d).

(* FULL-STRENGTH chunking statement for a validator [validate] started at [v0]: after any split into chunks the
   last call reports the verdict, boundary flag and total index that one call on the concatenation reports *)
Definition chunking_independent {V} (validate : V -> list N -> V * vresult) (v0 : V) : Prop :=
  forall chunks d, chunks <> [] -> Forall bytes_ok chunks ->
    res3 (last (snd (feed validate v0 chunks)) d) = res3 (snd (validate v0 (concat chunks))).
