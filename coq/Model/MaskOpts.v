(* C15, "by default": how the masking options reach a connection.

   The table, the defaults and the two flags come from Gen/MaskOpts.v, which translators/mask_opts.py regenerates from
   the tree under test on every run by evaluating the real factories (finite domain: booleans x {absent, True, False}).
   This file only interprets that table: a factory's masking options as an association list, a setProtocolOptions()
   call as the (possibly empty) list of masking keywords it names. *)
From Coq Require Import List String Bool.
From AV Require Import Gen.MaskOpts.
Import ListNotations.
Open Scope string_scope.

Definition mstate := list (string * bool).
Definition mcall := list (string * bool).      (* masking keywords named by one call, with the values given *)
Definition mtable := list (string * bool * option bool * bool).

Fixpoint arg_of (c : mcall) (m : string) : option bool :=
  match c with
  | [] => None
  | (k, v) :: r => if String.eqb k m then Some v else arg_of r m
  end.

Definition optb_eqb (a b : option bool) : bool :=
  match a, b with
  | None, None => true
  | Some x, Some y => Bool.eqb x y
  | _, _ => false
  end.

Fixpoint tbl_lookup (t : mtable) (m : string) (prior : bool) (arg : option bool) : option bool :=
  match t with
  | [] => None
  | (k, p, a, v) :: r =>
      if String.eqb k m && Bool.eqb p prior && optb_eqb a arg then Some v else tbl_lookup r m prior arg
  end.

(* what the code SHOULD do with one keyword: absent leaves the option alone, a value replaces it *)
Definition spec_set (prior : bool) (arg : option bool) : bool :=
  match arg with None => prior | Some b => b end.

(* one call, as the table says; an entry the table does not cover makes the option disappear (so that nothing can be
   proved about it) *)
Fixpoint apply_call (t : mtable) (c : mcall) (st : mstate) : mstate :=
  match st with
  | [] => []
  | (m, v) :: r =>
      match tbl_lookup t m v (arg_of c m) with
      | Some v' => (m, v') :: apply_call t c r
      | None => apply_call t c r
      end
  end.

Definition run_calls (t : mtable) (calls : list mcall) (st : mstate) : mstate :=
  fold_left (fun s c => apply_call t c s) calls st.

Definition names_no_masking_option (opts : list string) (c : mcall) : Prop :=
  forall m, In m opts -> arg_of c m = None.

(* the table is total on its role's options and equals spec_set *)
Definition table_ok (opts : list string) (t : mtable) : bool :=
  forallb (fun m => forallb (fun p => forallb (fun a =>
     optb_eqb (tbl_lookup t m p a) (Some (spec_set p a))) [None; Some true; Some false]) [true; false]) opts.
