(* Model of the subscriber side of autobahn.wamp.protocol.ApplicationSession (definitions only).
   Projection needed by property C11; sources mirrored (statement group by statement group):
     src/autobahn/wamp/protocol.py   ApplicationSession.subscribe / _subscribe, _unsubscribe,
                                     onMessage: Event / Subscribed / Unsubscribed / Error branches,
                                     onClose + onLeave + _errback_outstanding_requests (transport loss)
     src/autobahn/wamp/request.py    Subscription (id, topic, active, handler, unsubscribe()), Handler,
                                     SubscribeRequest, UnsubscribeRequest
     src/autobahn/wamp/uri.py        @subscribe decorator (object form of subscribe(): one _subscribe per pattern)
     src/autobahn/wamp/types.py      SubscribeOptions.__init__ (normalisation of details / details_arg), message_attr
     src/autobahn/wamp/message.py    Subscribe.marshal_options
   The session is taken in its joined state (transport attached, WELCOME processed); joining, GOODBYE and the
   other four request tables belong to other projections (Model/Session*.v).
   Event branch as repaired in /repo 25140640 (a fresh kwargs dict per handler) and e9f79ad0 (the handler list is
   snapshotted when the event arrives; subscriptions deactivated meanwhile are passed over).

   Identity of Python objects: every SUBSCRIBE request id is allocated once (IdGenerator, no wrap-around modelled),
   so the request id serves as the identity ("label") of the handler passed to that subscribe() call and of the
   Subscription object later created from it. *)
From Coq Require Import NArith ZArith List Bool.
Import ListNotations.
Open Scope N_scope.

(* ------------------------------------------------------------------ payload values *)
Definition key := N.                       (* keyword-argument names *)

Record details := {                        (* types.EventDetails as built in the Event branch *)
  d_owner : N;                             (* identity of the Subscription object passed as details.subscription *)
  d_sub : N;                               (* that object's .id *)
  d_pub : N;                               (* msg.publication *)
  d_publisher : option N;                  (* msg.publisher *)
  d_topic : N;                             (* msg.topic or subscription.topic *)
  d_retained : option bool;                (* msg.retained *)
  d_extra : N }.                           (* the remaining fields, kept opaque: a token naming the combination of
                                              publisher_authid, publisher_authrole, transaction_hash and forward_for *)

Inductive kval := KInt (z : Z) | KDet (d : details).
Definition kwargs := list (key * kval).    (* a Python dict: insertion ordered, unique keys *)

(* d[k] = v : replace in place, else append *)
Fixpoint dict_set (k : key) (v : kval) (d : kwargs) : kwargs :=
  match d with
  | [] => [(k, v)]
  | (k', v') :: r => if k' =? k then (k, v) :: r else (k', v') :: dict_set k v r
  end.

Definition dict_keys (d : kwargs) : list key := map fst d.

(* ------------------------------------------------------------------ handlers *)
Inductive behaviour :=
| BReturn                                  (* body returns None *)
| BRaise (tag : N)                         (* body raises an application exception *)
| BUnsub (targets : list N).               (* body calls .unsubscribe() on those Subscription objects
                                              (if it holds them and they are active), then returns *)
Record signature := {                      (* def h([self,] p0, .., p(n-1) [, *args] [, k1=.., ..] [, **kw]) *)
  sg_fixed : nat;                          (* required positional parameters (their names are no keyword names) *)
  sg_varargs : bool;                       (* *args *)
  sg_kwonly : list key;                    (* keyword-only parameters, all with defaults *)
  sg_varkw : bool }.                       (* **kw *)
Definition SigAny : signature := {| sg_fixed := 0; sg_varargs := true; sg_kwonly := []; sg_varkw := true |}.
Definition SigOnly (ks : list key) : signature :=
  {| sg_fixed := 0; sg_varargs := true; sg_kwonly := ks; sg_varkw := false |}.

Inductive anntype := TInt | TStr.          (* published values are integers: an int annotation fits, a str one never does *)

Record handler := {                        (* request.Handler(fn, obj, details_arg) + what fn does *)
  h_obj : bool;                            (* decorated-object form: obj is passed as first positional argument *)
  h_details : option key;                  (* details_arg *)
  h_sig : signature;
  h_check : bool;                          (* check_types: Handler.fn is the coroutine wrapper of session.type_check(fn) *)
  h_ann : option anntype;                  (* type hint on p0 (read only by the type_check wrapper) *)
  h_beh : behaviour }.

Fixpoint memN (x : N) (l : list N) : bool :=
  match l with [] => false | y :: r => (x =? y) || memN x r end.

(* does the call fn( *args, **kw) bind?  (Python's call machinery, or inspect.getcallargs inside the wrapper) *)
Definition accepts (sg : signature) (nargs : nat) (kw : kwargs) : bool :=
  Nat.leb (sg_fixed sg) nargs && (sg_varargs sg || Nat.eqb nargs (sg_fixed sg))
  && (sg_varkw sg || forallb (fun k => memN k (sg_kwonly sg)) (dict_keys kw)).

(* protocol.py type_check/_type_check: isinstance(arguments[name], hint) fails -> raise TypeCheckError *)
Definition ill_typed (h : handler) : bool :=
  h_check h && Nat.leb 1 (sg_fixed (h_sig h)) && match h_ann h with Some TStr => true | _ => false end.

(* what the application says about one handler; how details are requested is said through the options *)
Record hspec := { hs_sig : signature; hs_check : bool; hs_ann : option anntype; hs_beh : behaviour }.

(* ------------------------------------------------------------------ SubscribeOptions *)
Inductive matchpol := MExact | MPrefix | MWildcard.
Record subopts := {                        (* the constructor arguments of types.SubscribeOptions *)
  o_details : option bool;                 (* details=None|False|True *)
  o_details_arg : option key;              (* details_arg=None|"name" *)
  o_match : option matchpol;
  o_get_retained : option bool }.

Definition key_details : key := 3.         (* the keyword "details" *)

(* types.py: assert details is None or (type(details) == bool and details_arg is None) *)
Definition opts_valid (o : subopts) : bool :=
  match o_details o, o_details_arg o with Some _, Some _ => false | _, _ => true end.

(* types.py:  if details: self.details_arg = "details"  else: self.details_arg = details_arg *)
Definition norm_details (o : subopts) : option key :=
  match o_details o with Some true => Some key_details | _ => o_details_arg o end.

(* protocol.py _subscribe: Handler(fn, obj, options.details_arg if options else None) *)
Definition handler_details (o : option subopts) : option key :=
  match o with Some x => norm_details x | None => None end.

(* what the application asked for, from the documentation of SubscribeOptions: details=True -> keyword "details";
   details_arg="name" -> that keyword; anything else (no options, details=None, details=False) -> no details *)
Definition requested_details (o : option subopts) : option key :=
  match o with
  | None => None
  | Some x => match o_details x with
              | Some true => Some key_details
              | Some false => None
              | None => o_details_arg x
              end
  end.

(* message_attr() then Subscribe.marshal_options(): match is sent unless None/"exact"; get_retained unless None *)
Definition wire_match (o : option subopts) : option matchpol :=
  match o with
  | Some x => match o_match x with Some MExact => None | m => m end
  | None => None
  end.
Definition wire_retained (o : option subopts) : option bool :=
  match o with Some x => o_get_retained x | None => None end.

Definition mk_handler (obj : bool) (o : option subopts) (sp : hspec) : handler :=
  {| h_obj := obj; h_details := handler_details o; h_sig := hs_sig sp; h_check := hs_check sp; h_ann := hs_ann sp;
     h_beh := hs_beh sp |}.

(* ------------------------------------------------------------------ messages, results, outputs *)
Inductive wmsg :=
| MSubscribe (request topic : N) (m : option matchpol) (retained : option bool)
                                                          (* [32, request, {match?, get_retained?}, topic] *)
| MUnsubscribe (request subscription : N).                (* [34, request, subscription] *)

Inductive exn :=
| EProtocolError | ETransportLost | EAssertion
| EException                               (* request.py: Exception("subscription no longer active") *)
| ETypeError                               (* the call machinery rejects an unexpected keyword *)
| ETypeCheck                               (* exception.TypeCheckError raised by the type_check wrapper *)
| EUser (tag : N)                          (* raised by a handler body *)
| EAppError (uri : N)                      (* ApplicationError built from an ERROR message *)
| EClosed.                                 (* ApplicationError("wamp.close.transport_lost") from onLeave *)

Inductive result :=
| RSub (subscription : N)                  (* Subscription object with that id *)
| RNum (n : N)                             (* unsubscribe: 0 from UNSUBSCRIBED, or handlers left *)
| RErr (e : exn).

Inductive out :=
| OSent (m : wmsg)
| OInvoke (label : N) (withobj : bool) (args : list Z) (kw : kwargs) (ran : bool)
      (* handler.fn( *invoke_args, **invoke_kwargs) was evaluated; ran = the signature accepted the call *)
| OUserError (label : N) (e : exn)         (* onUserError via _swallow_error *)
| ORaised (e : exn)                        (* exception leaving the API call / onMessage *)
| ODone (request : N) (r : result)         (* future returned by subscribe(callable) completed *)
| ODoneG (group : N) (rs : list result)    (* future returned by subscribe(object) (txaio.gather) completed *)
| ODoneU (label : N) (r : result).         (* future returned by Subscription(label).unsubscribe() completed *)

(* ------------------------------------------------------------------ session state *)
Record subreq := {                         (* request.SubscribeRequest *)
  sr_topic : N; sr_handler : handler;
  sr_group : N }.                          (* the future handed to the application that on_reply feeds (see fut) *)
Record unsubreq := {                       (* request.UnsubscribeRequest *)
  ur_sub : N;
  ur_obj : N }.                            (* ghost: whose .unsubscribe() returned this on_reply *)
Record subent := {                         (* the immutable part of a request.Subscription in a handler list *)
  se_label : N; se_topic : N; se_handler : handler }.
Record subobj := {                         (* the user's handle on a Subscription: .id and .active *)
  so_id : N; so_active : bool;
  so_held : bool }.                        (* the application has been handed the object: its subscribe() future (or the
                                              gather it belongs to) has completed.  Only then can it call .unsubscribe() *)

(* The future subscribe() returns: on_reply itself (single) or txaio.gather(on_replies) (object form), named by the
   first request id it covers.  While subscribe() is still running (a reply can arrive from inside transport.send())
   it is not [sealed]: outcomes are recorded, but the application - which attaches its callbacks once it has the
   future - sees the completion, and receives the Subscription objects, only when subscribe() has returned. *)
Record fut := { f_single : bool; f_sealed : bool; f_members : list (N * option result) }.

Record sess := {
  s_transport : bool;                      (* self._transport is not None *)
  s_joined : bool;                         (* self._session_id is not None *)
  s_next : N;                              (* IdGenerator._next (last id handed out) *)
  s_subreqs : list (N * subreq);           (* self._subscribe_reqs   (dict, insertion order) *)
  s_unsubreqs : list (N * unsubreq);       (* self._unsubscribe_reqs *)
  s_subs : list (N * list subent);         (* self._subscriptions: id -> LIST of Subscription *)
  s_objs : list (N * subobj);              (* every Subscription object created so far, by label *)
  s_gathers : list (N * fut);              (* futures returned by subscribe() that have not completed for the application *)
  s_ever : list N }.                       (* ghost: subscription ids ever entered into s_subs *)

Definition init : sess :=
  {| s_transport := true; s_joined := true; s_next := 0; s_subreqs := []; s_unsubreqs := [];
     s_subs := []; s_objs := []; s_gathers := []; s_ever := [] |}.

(* ---- association lists (Python dicts keyed by ints) *)
Fixpoint lookup {A} (k : N) (l : list (N * A)) : option A :=
  match l with [] => None | (k', v) :: r => if k' =? k then Some v else lookup k r end.
Fixpoint remove_key {A} (k : N) (l : list (N * A)) : list (N * A) :=
  match l with [] => [] | (k', v) :: r => if k' =? k then r else (k', v) :: remove_key k r end.
(* d[k] = v *)
Fixpoint assoc_set {A} (k : N) (v : A) (l : list (N * A)) : list (N * A) :=
  match l with
  | [] => [(k, v)]
  | (k', v') :: r => if k' =? k then (k, v) :: r else (k', v') :: assoc_set k v r
  end.
Definition keys {A} (l : list (N * A)) : list N := map fst l.

Definition attached (s : sess) (sid : N) : list subent :=
  match lookup sid (s_subs s) with Some l => l | None => [] end.
Definition labels (l : list subent) : list N := map se_label l.

(* list.remove(x): first occurrence, by object identity *)
Fixpoint remove_label (l : N) (lst : list subent) : list subent :=
  match lst with [] => [] | e :: r => if se_label e =? l then r else e :: remove_label l r end.

Definition set_subs (s : sess) v := {| s_transport := s_transport s; s_joined := s_joined s; s_next := s_next s;
  s_subreqs := s_subreqs s; s_unsubreqs := s_unsubreqs s; s_subs := v; s_objs := s_objs s;
  s_gathers := s_gathers s; s_ever := s_ever s |}.

(* ------------------------------------------------------------------ completion of subscribe futures *)
Definition all_done (ms : list (N * option result)) : option (list result) :=
  fold_right (fun m acc => match snd m, acc with Some r, Some rs => Some (r :: rs) | _, _ => None end) (Some []) ms.

Definition set_member (rid : N) (r : result) (ms : list (N * option result)) :=
  map (fun m => if fst m =? rid then (fst m, Some r) else m) ms.

Definition is_rsub (r : result) : bool := match r with RSub _ => true | _ => false end.
Definition handed_over (ms : list (N * option result)) : list N :=
  map fst (filter (fun m => match snd m with Some r => is_rsub r | None => false end) ms).

Definition done_out (single : bool) (g : N) (rs : list result) : list out :=
  if single then match rs with [r] => [ODone g r] | _ => [] end else [ODoneG g rs].

(* the future [g] now has members [ms]: complete it for the application if subscribe() has returned and all are in.
   Returns the futures, the completion observed, and the labels of the Subscription objects handed over. *)
Definition settle (gs : list (N * fut)) (g : N) (single sealed : bool) (ms : list (N * option result))
  : list (N * fut) * list out * list N :=
  match (if sealed then all_done ms else None) with
  | Some rs => (remove_key g gs, done_out single g rs, handed_over ms)
  | None => (assoc_set g {| f_single := single; f_sealed := sealed; f_members := ms |} gs, [], [])
  end.

(* txaio.resolve / txaio.reject on a SubscribeRequest.on_reply *)
Definition complete_sub (gs : list (N * fut)) (rid : N) (rq : subreq) (r : result)
  : list (N * fut) * list out * list N :=
  match lookup (sr_group rq) gs with
  | None => (gs, [], [])
  | Some f => settle gs (sr_group rq) (f_single f) (f_sealed f) (set_member rid r (f_members f))
  end.

(* subscribe() returns its future to the application *)
Definition seal (gs : list (N * fut)) (g : N) : list (N * fut) * list out * list N :=
  match lookup g gs with
  | None => (gs, [], [])
  | Some f => settle gs g (f_single f) true (f_members f)
  end.

Fixpoint hold (ls : list N) (objs : list (N * subobj)) : list (N * subobj) :=
  match objs with
  | [] => []
  | (l, o) :: r => (l, if memN l ls then {| so_id := so_id o; so_active := so_active o; so_held := true |} else o)
                   :: hold ls r
  end.

(* ------------------------------------------------------------------ Subscription.unsubscribe() / _unsubscribe *)
Definition has_label (l : N) (lst : list subent) : bool := existsb (fun e => se_label e =? l) lst.

Definition api_unsubscribe (s : sess) (l : N) : sess * list out :=
  match lookup l (s_objs s) with
  | None => (s, [])                                              (* no such object (yet): nothing to call *)
  | Some o =>
    if negb (so_held o) then (s, [])                             (* created, but not yet handed to the application *)
    else if negb (so_active o) then (s, [ORaised EException])         (* request.py: "subscription no longer active" *)
    else match lookup (so_id o) (s_subs s) with                  (* assert subscription.id in self._subscriptions *)
    | None => (s, [ORaised EAssertion])
    | Some lst =>
      if negb (has_label l lst) then (s, [ORaised EAssertion])   (* assert subscription in self._subscriptions[id] *)
      else if negb (s_transport s) then (s, [ORaised ETransportLost])
      else
        let lst' := remove_label l lst in                        (* .remove(subscription); subscription.active = False *)
        let subs' := assoc_set (so_id o) lst' (s_subs s) in
        let objs' := assoc_set l {| so_id := so_id o; so_active := false; so_held := so_held o |} (s_objs s) in
        match lst' with
        | [] =>                                                  (* scount == 0: UNSUBSCRIBE *)
          let rid := s_next s + 1 in
          ({| s_transport := s_transport s; s_joined := s_joined s; s_next := rid; s_subreqs := s_subreqs s;
              s_unsubreqs := s_unsubreqs s ++ [(rid, {| ur_sub := so_id o; ur_obj := l |})];
              s_subs := subs'; s_objs := objs'; s_gathers := s_gathers s; s_ever := s_ever s |},
           [OSent (MUnsubscribe rid (so_id o))])
        | _ :: _ =>                                              (* create_future_success(scount) *)
          ({| s_transport := s_transport s; s_joined := s_joined s; s_next := s_next s; s_subreqs := s_subreqs s;
              s_unsubreqs := s_unsubreqs s; s_subs := subs'; s_objs := objs'; s_gathers := s_gathers s;
              s_ever := s_ever s |},
           [ODoneU l (RNum (N.of_nat (length lst')))])
        end
    end
  end.

(* ------------------------------------------------------------------ EVENT *)
Record event := {
  e_sub : N; e_pub : N; e_args : list Z; e_kwargs : kwargs;
  e_publisher : option N; e_topic : option N; e_retained : option bool;
  e_extra : N }.                           (* publisher_authid / publisher_authrole / transaction_hash / forward_for, opaque *)

Definition mk_details (e : subent) (ev : event) : details :=
  {| d_owner := se_label e; d_sub := e_sub ev; d_pub := e_pub ev; d_publisher := e_publisher ev;
     d_topic := match e_topic ev with Some t => t | None => se_topic e end;      (* msg.topic or subscription.topic *)
     d_retained := e_retained ev; d_extra := e_extra ev |}.

(* invoke_kwargs = dict(msg.kwargs) if msg.kwargs else dict()      -- a fresh dict for every handler
   if handler.details_arg: invoke_kwargs[handler.details_arg] = types.EventDetails(subscription, ...) *)
Definition build_kwargs (e : subent) (ev : event) : kwargs :=
  match h_details (se_handler e) with
  | Some k => dict_set k (KDet (mk_details e ev)) (e_kwargs ev)
  | None => e_kwargs ev
  end.

(* the handler body calling .unsubscribe() on the Subscription objects it holds; an exception ends the body *)
Fixpoint body_unsub (s : sess) (targets : list N) : sess * list out * option exn :=
  match targets with
  | [] => (s, [], None)
  | t :: r =>
    match lookup t (s_objs s) with
    | Some o =>
      if so_held o && so_active o then
        let '(s1, o1) := api_unsubscribe s t in
        match o1 with
        | [ORaised e] => (s1, [], Some e)
        | _ => let '(s2, o2, x) := body_unsub s1 r in (s2, o1 ++ o2, x)
        end
      else body_unsub s r
    | None => body_unsub s r
    end
  end.

(* future = txaio.as_future(handler.fn, *invoke_args, **invoke_kwargs); add_callbacks(future, _success, _error)
   With check_types, handler.fn is the wrapper: it binds the arguments itself (TypeError), checks the hints
   (TypeCheckError) and otherwise calls fn( *args, **kwargs) unchanged.  OInvoke reports what fn's body receives. *)
Definition invoke (s : sess) (e : subent) (args : list Z) (kw : kwargs) : sess * list out :=
  let h := se_handler e in
  let l := se_label e in
  if negb (accepts (h_sig h) (length args) kw) then (s, [OInvoke l (h_obj h) args kw false; OUserError l ETypeError])
  else if ill_typed h then (s, [OInvoke l (h_obj h) args kw false; OUserError l ETypeCheck])
  else match h_beh h with
  | BReturn => (s, [OInvoke l (h_obj h) args kw true])
  | BRaise t => (s, [OInvoke l (h_obj h) args kw true; OUserError l (EUser t)])
  | BUnsub ts =>
      let '(s1, o1, x) := body_unsub s ts in
      (s1, OInvoke l (h_obj h) args kw true :: o1 ++ match x with Some ex => [OUserError l ex] | None => [] end)
  end.

Definition set_objs (s : sess) (objs : list (N * subobj)) : sess :=
  {| s_transport := s_transport s; s_joined := s_joined s; s_next := s_next s; s_subreqs := s_subreqs s;
     s_unsubreqs := s_unsubreqs s; s_subs := s_subs s; s_objs := objs; s_gathers := s_gathers s; s_ever := s_ever s |}.

(* subscription.active as the dispatch loop reads it.  A listed Subscription always has its object (invariant
   inv_att of Proofs/SessionSubProofs.v); the None branch is not reachable and is resolved to "skip". *)
Definition is_active (s : sess) (l : N) : bool :=
  match lookup l (s_objs s) with Some o => so_active o | None => false end.

(* txaio flavour.  Twisted: callbacks fire synchronously and a coroutine function runs eagerly (maybeDeferred), so
   every handler is called inside the dispatch loop.  asyncio: every future callback runs in the loop turn after the
   operation, and txaio.as_future wraps a coroutine function (the check_types wrapper is one) in a Task: the loop
   only creates the Task, the handler body starts in the following loop turn. *)
Inductive flavour := Tx | Aio.

Definition deferred (fl : flavour) (e : subent) : bool :=
  match fl with Tx => false | Aio => h_check (se_handler e) end.

Inductive item :=
| INow (o : out)                           (* produced inside the call *)
| ISoon (o : out)                          (* asyncio: a callback the application attaches to a future that is already
                                              complete when subscribe() returns it: first loop turn after the call *)
| ILater (e : subent) (ev : event)         (* a Task created for this entry and event; its body runs after the call *)
| IHold (second : bool) (ls : list N).     (* asyncio: the callback that hands these Subscription objects to the
                                              application runs in the first / second loop turn after the call *)

(* for subscription in list(self._subscriptions[msg.subscription]):      -- a SNAPSHOT taken when the event arrives
       if not subscription.active: continue                              -- unsubscribed by an earlier handler of this event
       ... *)
Fixpoint deliver (fl : flavour) (snap : list subent) (ev : event) (s : sess) : sess * list item :=
  match snap with
  | [] => (s, [])
  | e :: r =>
    if is_active s (se_label e) then
      if deferred fl e then
        let '(s2, i2) := deliver fl r ev s in (s2, ILater e ev :: i2)
      else
        let '(s1, o1) := invoke s e (e_args ev) (build_kwargs e ev) in
        let '(s2, i2) := deliver fl r ev s1 in
        (s2, map INow o1 ++ i2)
    else deliver fl r ev s
  end.

Definition is_immediate (o : out) : bool :=
  match o with OSent _ | OInvoke _ _ _ _ _ | ORaised _ => true | _ => false end.
Definition is_gather (o : out) : bool := match o with ODoneG _ _ => true | _ => false end.

(* asyncio: the loop turns after the call, in call_soon order.  g0 = what happened inside the call; g1 = first turn:
   callbacks of the futures completed inside the call (onUserError of a failed handler, completions seen by the
   application) and the Tasks' first steps (handler body: its call, the messages it sends); g2 = second turn: callbacks
   scheduled by the first (a gather's completion, what the Tasks leave behind). *)
Fixpoint run_items (s : sess) (its : list item) : sess * list out * list out * list out * list N :=
  match its with
  | [] => (s, [], [], [], [])
  | INow o :: r =>
      let '(s2, g0, g1, g2, h2) := run_items s r in
      if is_immediate o then (s2, o :: g0, g1, g2, h2)
      else if is_gather o then (s2, g0, g1, o :: g2, h2) else (s2, g0, o :: g1, g2, h2)
  | ISoon o :: r =>
      let '(s2, g0, g1, g2, h2) := run_items s r in (s2, g0, o :: g1, g2, h2)
  | ILater e ev :: r =>
      let '(s1, o1) := invoke s e (e_args ev) (build_kwargs e ev) in
      let '(s2, g0, g1, g2, h2) := run_items s1 r in
      (s2, g0, filter is_immediate o1 ++ g1, filter (fun o => negb (is_immediate o)) o1 ++ g2, h2)
  | IHold false ls :: r => run_items (set_objs s (hold ls (s_objs s))) r
  | IHold true ls :: r =>
      let '(s2, g0, g1, g2, h2) := run_items s r in (s2, g0, g1, g2, ls ++ h2)
  end.

Fixpoint now_outs (its : list item) : list out :=
  match its with
  | [] => []
  | INow o :: r | ISoon o :: r => o :: now_outs r
  | ILater _ _ :: r | IHold _ _ :: r => now_outs r
  end.

Definition on_event (fl : flavour) (s : sess) (ev : event) : sess * list item :=
  match lookup (e_sub ev) (s_subs s) with
  | Some lst => deliver fl lst ev s                               (* if msg.subscription in self._subscriptions *)
  | None => (s, [INow (ORaised EProtocolError)])                  (* EVENT received for non-subscribed subscription ID *)
  end.

(* ------------------------------------------------------------------ SUBSCRIBED / UNSUBSCRIBED / ERROR *)
Definition append_sub (sid : N) (e : subent) (subs : list (N * list subent)) :=
  match lookup sid subs with
  | Some lst => assoc_set sid (lst ++ [e]) subs
  | None => subs ++ [(sid, [e])]
  end.

(* [now]: the application's callbacks on a completed future run at once (Twisted) - it holds the Subscription objects
   immediately; otherwise (asyncio) they run in a later loop turn and the labels are returned for that moment *)
Definition on_subscribed (now : bool) (s : sess) (req sid : N) : sess * list out * list N :=
  match lookup req (s_subreqs s) with
  | None => (s, [ORaised EProtocolError], [])                     (* SUBSCRIBED received for non-pending request ID *)
  | Some rq =>
      let e := {| se_label := req; se_topic := sr_topic rq; se_handler := sr_handler rq |} in
      let '(gs, o, hs) := complete_sub (s_gathers s) req rq (RSub sid) in
      ({| s_transport := s_transport s; s_joined := s_joined s; s_next := s_next s;
          s_subreqs := remove_key req (s_subreqs s); s_unsubreqs := s_unsubreqs s;
          s_subs := append_sub sid e (s_subs s);
          s_objs := hold (if now then hs else [])
                         (s_objs s ++ [(req, {| so_id := sid; so_active := true; so_held := false |})]);
          s_gathers := gs; s_ever := sid :: s_ever s |}, o, hs)
  end.

Fixpoint deactivate (ls : list N) (objs : list (N * subobj)) : list (N * subobj) :=
  match objs with
  | [] => []
  | (l, o) :: r => (l, if memN l ls then {| so_id := so_id o; so_active := false; so_held := so_held o |} else o)
                   :: deactivate ls r
  end.

Definition on_unsubscribed (s : sess) (req : N) : sess * list out :=
  match lookup req (s_unsubreqs s) with
  | None => (s, [ORaised EProtocolError])                         (* UNSUBSCRIBED received for non-pending request ID;
                                                                    also router revocation [35, 0, {subscription}] *)
  | Some rq =>
      let sid := ur_sub rq in
      ({| s_transport := s_transport s; s_joined := s_joined s; s_next := s_next s; s_subreqs := s_subreqs s;
          s_unsubreqs := remove_key req (s_unsubreqs s);
          s_subs := remove_key sid (s_subs s);                    (* del self._subscriptions[id] (if present) *)
          s_objs := deactivate (labels (attached s sid)) (s_objs s);   (* every listed subscription.active = False *)
          s_gathers := s_gathers s; s_ever := s_ever s |},
       [ODoneU (ur_obj rq) (RNum 0)])
  end.

Definition on_error (now : bool) (s : sess) (rtype req uri : N) : sess * list out * list N :=
  if (rtype =? 32) then
    match lookup req (s_subreqs s) with
    | Some rq =>
        let '(gs, o, hs) := complete_sub (s_gathers s) req rq (RErr (EAppError uri)) in
        ({| s_transport := s_transport s; s_joined := s_joined s; s_next := s_next s;
            s_subreqs := remove_key req (s_subreqs s); s_unsubreqs := s_unsubreqs s; s_subs := s_subs s;
            s_objs := hold (if now then hs else []) (s_objs s); s_gathers := gs; s_ever := s_ever s |}, o, hs)
    | None => (s, [ORaised EProtocolError], [])
    end
  else if (rtype =? 34) then
    match lookup req (s_unsubreqs s) with
    | Some rq =>
        ({| s_transport := s_transport s; s_joined := s_joined s; s_next := s_next s; s_subreqs := s_subreqs s;
            s_unsubreqs := remove_key req (s_unsubreqs s); s_subs := s_subs s; s_objs := s_objs s;
            s_gathers := s_gathers s; s_ever := s_ever s |}, [ODoneU (ur_obj rq) (RErr (EAppError uri))], [])
    | None => (s, [ORaised EProtocolError], [])
    end
  else (s, [ORaised EProtocolError], []).     (* the other request tables are empty in this projection *)

(* ------------------------------------------------------------------ transport loss *)
(* onClose: _transport = None; if joined: onLeave -> _errback_outstanding_requests(ApplicationError(transport_lost)) *)
Fixpoint reject_subs (gs : list (N * fut)) (rqs : list (N * subreq))
  : list (N * fut) * list out * list N :=
  match rqs with
  | [] => (gs, [], [])
  | (rid, rq) :: r => let '(gs1, o1, h1) := complete_sub gs rid rq (RErr EClosed) in
                      let '(gs2, o2, h2) := reject_subs gs1 r in (gs2, o1 ++ o2, h1 ++ h2)
  end.

Definition on_lose (s : sess) : sess * list out :=
  if s_joined s then
    let '(gs, o1, hs) := reject_subs (s_gathers s) (s_subreqs s) in
    let o2 := map (fun p => ODoneU (ur_obj (snd p)) (RErr EClosed)) (s_unsubreqs s) in
    ({| s_transport := false; s_joined := false; s_next := s_next s; s_subreqs := []; s_unsubreqs := [];
        s_subs := s_subs s; s_objs := hold hs (s_objs s); s_gathers := gs; s_ever := s_ever s |}, o1 ++ o2)
  else
    ({| s_transport := false; s_joined := false; s_next := s_next s; s_subreqs := s_subreqs s;
        s_unsubreqs := s_unsubreqs s; s_subs := s_subs s; s_objs := s_objs s; s_gathers := s_gathers s;
        s_ever := s_ever s |}, []).

(* ------------------------------------------------------------------ messages; replies delivered inside send() *)
Inductive msg :=
| MsgSubscribed (request subscription : N)       (* [33, request, subscription] *)
| MsgUnsubscribed (request : N)                  (* [35, request] *)
| MsgRevoked (subscription : N)                  (* [35, 0, {"subscription": id}]  router revocation *)
| MsgError (rtype request uri : N)               (* [8, rtype, request, {}, uri] *)
| MsgEvent (ev : event).                         (* [36, sub, pub, details, args, kwargs] *)

Definition is_tx (fl : flavour) : bool := match fl with Tx => true | Aio => false end.
(* asyncio: when the application's callback on the completed future (a gather's: one turn later) hands the objects over *)
Definition hold_items (fl : flavour) (o : list out) (hs : list N) : list item :=
  match fl with Tx => [] | Aio => [IHold (existsb is_gather o) hs] end.

(* ApplicationSession.onMessage *)
Definition on_message (fl : flavour) (s : sess) (m : msg) : sess * list item :=
  if negb (s_joined s) then (s, [INow (ORaised EProtocolError)])      (* session is not yet established *)
  else match m with
  | MsgSubscribed r sid => let '(s1, o, hs) := on_subscribed (is_tx fl) s r sid in (s1, map INow o ++ hold_items fl o hs)
  | MsgUnsubscribed r => let '(s1, o) := on_unsubscribed s r in (s1, map INow o)
  | MsgRevoked _ => let '(s1, o) := on_unsubscribed s 0 in (s1, map INow o)   (* request 0 is looked up like any id *)
  | MsgError rt r u => let '(s1, o, hs) := on_error (is_tx fl) s rt r u in (s1, map INow o ++ hold_items fl o hs)
  | MsgEvent ev => on_event fl s ev
  end.

(* an in-process / loopback transport hands the router's answers to onMessage before transport.send() returns;
   an exception leaving onMessage there is the transport's to report, the next message is delivered all the same *)
Fixpoint run_inline (fl : flavour) (s : sess) (ms : list msg) : sess * list item :=
  match ms with
  | [] => (s, [])
  | m :: r => let '(s1, i1) := on_message fl s m in
              let '(s2, i2) := run_inline fl s1 r in (s2, i1 ++ i2)
  end.

(* ------------------------------------------------------------------ subscribe() *)
(* on_replies.append(_subscribe(...)) / the single on_reply: the future being built gets one more member.  Request ids
   of one subscribe(object) call need not be consecutive: a handler called from inside a send() may allocate ids too. *)
Definition add_member (g rid : N) (gs : list (N * fut)) : list (N * fut) :=
  match lookup g gs with
  | Some f => assoc_set g {| f_single := f_single f; f_sealed := f_sealed f; f_members := f_members f ++ [(rid, None)] |} gs
  | None => gs
  end.

(* request_id = self._request_id_gen.next(); self._subscribe_reqs[request_id] = SubscribeRequest(...) *)
Definition record_sub (s : sess) (h : handler) (topic g : N) : sess :=
  let rid := s_next s + 1 in
  {| s_transport := s_transport s; s_joined := s_joined s; s_next := rid;
     s_subreqs := s_subreqs s ++ [(rid, {| sr_topic := topic; sr_handler := h; sr_group := g |})];
     s_unsubreqs := s_unsubreqs s; s_subs := s_subs s; s_objs := s_objs s;
     s_gathers := add_member g rid (s_gathers s);               (* on_reply will feed the future this call returns *)
     s_ever := s_ever s |}.

(* protocol.py _subscribe(obj, fn, topic, options, check_types): the request is recorded, THEN the message is sent;
   [rin] is what the transport delivers from inside that send() *)
Definition do_subscribe (fl : flavour) (s : sess) (h : handler) (o : option subopts) (topic g : N) (rin : list msg)
  : sess * list item :=
  let '(s2, i2) := run_inline fl (record_sub s h topic g) rin in
  (s2, INow (OSent (MSubscribe (s_next s + 1) topic (wire_match o) (wire_retained o))) :: i2).

Definition set_gathers (s : sess) (gs : list (N * fut)) (objs : list (N * subobj)) : sess :=
  {| s_transport := s_transport s; s_joined := s_joined s; s_next := s_next s; s_subreqs := s_subreqs s;
     s_unsubreqs := s_unsubreqs s; s_subs := s_subs s; s_objs := objs; s_gathers := gs; s_ever := s_ever s |}.

(* subscribe() returns: the application gets the future (and whatever it already holds) *)
Definition return_future (fl : flavour) (s : sess) (g : N) : sess * list item :=
  let '(gs, o, hs) := seal (s_gathers s) g in
  match fl with
  | Tx => (set_gathers s gs (hold hs (s_objs s)), map INow o)     (* callbacks on a fired Deferred run at once *)
  | Aio => (set_gathers s gs (s_objs s), map ISoon o ++ [IHold false hs])
  end.

Definition opts_ok (o : option subopts) : bool := match o with Some x => opts_valid x | None => true end.

(* subscribe(callable, topic, options) *)
Definition api_subscribe (fl : flavour) (s : sess) (sp : hspec) (o : option subopts) (topic : N) (rin : list msg)
  : sess * list item :=
  if negb (opts_ok o) then (s, [INow (ORaised EAssertion)])     (* SubscribeOptions(...) itself raises *)
  else if negb (s_transport s) then (s, [INow (ORaised ETransportLost)])
  else
    let g := s_next s + 1 in
    let s0 := set_gathers s (s_gathers s ++ [(g, {| f_single := true; f_sealed := false; f_members := [] |})])
                          (s_objs s) in
    let '(s1, i1) := do_subscribe fl s0 (mk_handler false o sp) o topic g rin in
    let '(s2, i2) := return_future fl s1 g in
    (s2, i1 ++ i2).

(* one decorated method: its own options (decorator), the topic, what the transport delivers inside its send() *)
Definition method := (hspec * option subopts * N * list msg)%type.

(* subopts = pat.options or options; if None: SubscribeOptions(match="exact")   (exact URIs only in this projection) *)
Definition method_opts (call : option subopts) (own : option subopts) : option subopts :=
  match own with
  | Some x => Some x
  | None => match call with
            | Some x => Some x
            | None => Some {| o_details := None; o_details_arg := None; o_match := Some MExact; o_get_retained := None |}
            end
  end.

Fixpoint subscribe_all (fl : flavour) (s : sess) (g : N) (call : option subopts) (ms : list method) : sess * list item :=
  match ms with
  | [] => (s, [])
  | (sp, own, t, rin) :: r =>
      let o := method_opts call own in
      let '(s1, i1) := do_subscribe fl s (mk_handler true o sp) o t g rin in
      let '(s2, i2) := subscribe_all fl s1 g call r in (s2, i1 ++ i2)
  end.

Definition methods_ok (call : option subopts) (ms : list method) : bool :=
  opts_ok call && forallb (fun m => opts_ok (snd (fst (fst m)))) ms.

(* subscribe(object, options=call): one _subscribe per decorated method (inspect.getmembers order), then
   txaio.gather(on_replies).  The gather is named by the first request id it covers. *)
Definition api_subscribe_obj (fl : flavour) (s : sess) (ms : list method) (call : option subopts) : sess * list item :=
  if negb (methods_ok call ms) then (s, [INow (ORaised EAssertion)])
  else if negb (s_transport s) then (s, [INow (ORaised ETransportLost)])
  else
    let g := s_next s + 1 in
    let s0 := set_gathers s (s_gathers s ++ [(g, {| f_single := false; f_sealed := false; f_members := [] |})])
                          (s_objs s) in
    let '(s1, i1) := subscribe_all fl s0 g call ms in
    let '(s2, i2) := return_future fl s1 g in
    (s2, i1 ++ i2).

(* ------------------------------------------------------------------ unsubscribe() called by the application *)
Definition is_done_u (l : N) (it : item) : bool :=
  match it with INow (ODoneU l' _) => l' =? l | _ => false end.

(* _unsubscribe records the request and sends last; an UNSUBSCRIBED / ERROR delivered from inside that send() completes
   on_reply before the application has it: its callback runs when unsubscribe() has returned *)
Definition api_unsubscribe_inl (fl : flavour) (s : sess) (l : N) (rin : list msg) : sess * list item :=
  let '(s1, o1) := api_unsubscribe s l in
  match o1 with
  | [OSent (MUnsubscribe _ _)] =>
      let '(s2, i2) := run_inline fl s1 rin in
      (s2, map INow o1 ++ filter (fun it => negb (is_done_u l it)) i2 ++ filter (is_done_u l) i2)
  | _ => (s1, map INow o1)
  end.

(* ------------------------------------------------------------------ operations *)
Inductive op :=
| OpSubscribe (sp : hspec) (o : option subopts) (topic : N) (rin : list msg)
                                                 (* session.subscribe(fn, topic, options, check_types) *)
| OpSubscribeObj (ms : list method) (call : option subopts)
                                                 (* session.subscribe(obj, options=call) *)
| OpUnsubscribe (label : N) (rin : list msg)     (* Subscription(label).unsubscribe() called by the application *)
| OpSubscribed (request subscription : N)        (* onMessage(...) from the network, after the call has returned *)
| OpUnsubscribed (request : N)
| OpRevoked (subscription : N)
| OpError (rtype request uri : N)
| OpEvent (ev : event)
| OpLose.                                        (* transport lost: onClose(False) *)

Definition as_msg (o : op) : option msg :=
  match o with
  | OpSubscribed r sid => Some (MsgSubscribed r sid)
  | OpUnsubscribed r => Some (MsgUnsubscribed r)
  | OpRevoked sid => Some (MsgRevoked sid)
  | OpError rt r u => Some (MsgError rt r u)
  | OpEvent ev => Some (MsgEvent ev)
  | _ => None
  end.

(* what happens inside the call *)
Definition step_items (fl : flavour) (s : sess) (o : op) : sess * list item :=
  match o with
  | OpSubscribe sp opts t rin => api_subscribe fl s sp opts t rin
  | OpSubscribeObj ms call => api_subscribe_obj fl s ms call
  | OpUnsubscribe l rin => api_unsubscribe_inl fl s l rin
  | OpSubscribed r sid => on_message fl s (MsgSubscribed r sid)
  | OpUnsubscribed r => on_message fl s (MsgUnsubscribed r)
  | OpRevoked sid => on_message fl s (MsgRevoked sid)
  | OpError rt r u => on_message fl s (MsgError rt r u)
  | OpEvent ev => on_message fl s (MsgEvent ev)
  | OpLose => let '(s1, o1) := on_lose s in (s1, map INow o1)
  end.

(* Twisted: everything happened inside the call, in program order (nothing is ever deferred).
   asyncio: then the loop runs until it is idle. *)
Definition finalize (fl : flavour) (s : sess) (its : list item) : sess * list out :=
  match fl with
  | Tx => (s, now_outs its)
  | Aio => let '(s2, g0, g1, g2, h2) := run_items s its in (set_objs s2 (hold h2 (s_objs s2)), g0 ++ g1 ++ g2)
  end.

(* asyncio order of a call that created no Task *)
Definition order (fl : flavour) (os : list out) : list out :=
  match fl with
  | Tx => os
  | Aio => filter is_immediate os
           ++ filter (fun o => negb (is_immediate o) && negb (is_gather o)) os
           ++ filter is_gather os
  end.

Definition step (fl : flavour) (s : sess) (o : op) : sess * list out :=
  let '(s1, its) := step_items fl s o in finalize fl s1 its.

Fixpoint run (fl : flavour) (s : sess) (ops : list op) : sess * list (list out) :=
  match ops with
  | [] => (s, [])
  | o :: r => let '(s1, o1) := step fl s o in
              let '(s2, o2) := run fl s1 r in (s2, o1 :: o2)
  end.

Definition final (fl : flavour) (ops : list op) : sess := fst (run fl init ops).

(* ------------------------------------------------------------------ observation helpers used by the property statements *)
Definition invocation := (N * list Z * kwargs)%type.
Fixpoint invocations (os : list out) : list invocation :=
  match os with
  | [] => []
  | OInvoke l _ a kw _ :: r => (l, a, kw) :: invocations r
  | _ :: r => invocations r
  end.
Definition invoked_labels (os : list out) : list N := map (fun x => fst (fst x)) (invocations os).

(* what the property demands for one handler: the PUBLISHED args and kwargs plus only its own requested details *)
Definition expected_invocation (ev : event) (e : subent) : invocation :=
  (se_label e, e_args ev,
   match h_details (se_handler e) with
   | Some k => dict_set k (KDet (mk_details e ev)) (e_kwargs ev)
   | None => e_kwargs ev
   end).

Definition sends_unsubscribe (o : out) : bool := match o with OSent (MUnsubscribe _ _) => true | _ => false end.
Definition is_raised (o : out) : bool := match o with ORaised _ => true | _ => false end.
Definition reentrant (e : subent) : bool := match h_beh (se_handler e) with BUnsub _ => true | _ => false end.
