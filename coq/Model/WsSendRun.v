(* Executable entry points for the C01 correspondence run (harness/props/c01.py).
   A case = configuration, the mask keys issued by the pinned random source, the API calls made on the
   real protocol object, and what the real code did per call (octets given to transport.write, result).
   Large payloads are described by a generator (pat seed n) on both sides and large writes are compared by
   length + Adler-32 instead of octet literals. *)
From Coq Require Import NArith ZArith List Bool.
From AV Require Import Model.Masker Model.WsFrame Model.WsSend.
Import ListNotations.
Open Scope N_scope.

Fixpoint list_eqb (a b : list N) : bool :=
  match a, b with
  | [], [] => true
  | x :: a', y :: b' => (x =? y) && list_eqb a' b'
  | _, _ => false
  end.

(* octet strings are written by the harness as one hexadecimal numeral: hx 3 0x0a0b0c = [10;11;12] *)
Fixpoint hx_loop (n : nat) (v : N) (acc : list N) : list N :=
  match n with
  | O => acc
  | S n' => hx_loop n' (N.shiftr v 8) (N.land v 255 :: acc)
  end.
Definition hx (n v : N) : list N := hx_loop (N.to_nat n) v [].

(* deterministic payload generator shared with the Python side (xorshift32, bit operations only so that
   vm_compute stays fast):  x ^= x << 13 (mod 2^32); x ^= x >> 17; x ^= x << 5 (mod 2^32); octet = x & 255 *)
Definition m32 : N := 4294967295.
Fixpoint pat_loop (n : nat) (x : N) : list N :=
  match n with
  | O => []
  | S n' => let x1 := N.lxor x (N.land (N.shiftl x 13) m32) in
            let x2 := N.lxor x1 (N.shiftr x1 17) in
            let x3 := N.lxor x2 (N.land (N.shiftl x2 5) m32) in
            N.land x3 255 :: pat_loop n' x3
  end.
Definition pat (seed n : N) : list N := pat_loop (N.to_nat n) seed.
(* 7-bit variant (valid UTF-8 for text messages) *)
Definition apat (seed n : N) : list N := map (fun b => N.land b 127) (pat seed n).

(* zlib.adler32 (sums reduced once at the end; same value) *)
Definition adler32 (l : list N) : N :=
  let '(a, b) := fold_left (fun (ab : N * N) x => let a' := fst ab + x in (a', snd ab + a')) l (1, 0) in
  (b mod 65521) * 65536 + (a mod 65521).

Inductive wdesc :=
| WLit (l : list N)
| WSum (len : N) (adler : N).

Definition write_ok (w : list N) (d : wdesc) : bool :=
  match d with
  | WLit l => list_eqb w l
  | WSum n a => (lenN w =? n) && (adler32 w =? a)
  end.

Fixpoint writes_ok (ws : list (list N)) (ds : list wdesc) : bool :=
  match ws, ds with
  | [], [] => true
  | w :: ws', d :: ds' => write_ok w d && writes_ok ws' ds'
  | _, _ => false
  end.

Definition exn_eqb (a b : exn) : bool :=
  match a, b with
  | ExException, ExException | ExDisconnected, ExDisconnected | ExPayloadExceeded, ExPayloadExceeded
  | ExAssertion, ExAssertion | ExAttribute, ExAttribute => true
  | _, _ => false
  end.

Definition ret_eqb (a b : ret) : bool :=
  match a, b with
  | RNone, RNone => true
  | RInt x, RInt y => Z.eqb x y
  | RRaise e, RRaise f => exn_eqb e f
  | _, _ => false            (* ROutOfFuel never equals what the implementation did *)
  end.

Fixpoint outs_ok (outs : list (list (list N) * ret)) (exp : list (list wdesc * ret)) : bool :=
  match outs, exp with
  | [], [] => true
  | (w, r) :: outs', (d, r') :: exp' => writes_ok w d && ret_eqb r r' && outs_ok outs' exp'
  | _, _ => false
  end.

Definition ks_of (keys : list (list N)) : nat -> list N := fun i => nth i keys [0; 0; 0; 0].

(* (isServer, maskClientFrames, maskServerFrames, applyMask, autoFragmentSize, maxMessagePayloadSize) *)
Definition cfg_of (t : bool * bool * bool * bool * Z * N) : scfg :=
  let '(srv, mc, ms, am, af, mx) := t in mkScfg srv mc ms am af mx PurePython.

Definition send_case : Type :=
  (bool * bool * bool * bool * Z * N) * list (list N) * list op * list (list wdesc * ret).

(* the model reproduces, call by call, every transport.write and every result of the implementation *)
Definition send_case_ok (c : send_case) : bool :=
  let '(t, keys, ops, exp) := c in
  let '(_, outs) := run (cfg_of t) (ks_of keys) sst0 ops in
  outs_ok outs exp.

(* for call sequences that the application-level specification accepts: the reference parser, applied to
   everything the model wrote (after draining the queue), reports exactly the specified events, nothing open
   beyond what the specification says, no trailing octets.  (This is theorem C01_sequence_delivery evaluated
   on the case; it makes the run fail loudly if model and specification ever drift apart.) *)
Fixpoint ev_eqb (a b : list event) : bool :=
  match a, b with
  | [], [] => true
  | EvMessage x p :: a', EvMessage y q :: b' => Bool.eqb x y && list_eqb p q && ev_eqb a' b'
  | EvPing p :: a', EvPing q :: b' => list_eqb p q && ev_eqb a' b'
  | EvPong p :: a', EvPong q :: b' => list_eqb p q && ev_eqb a' b'
  | EvClose p :: a', EvClose q :: b' => list_eqb p q && ev_eqb a' b'
  | _, _ => false
  end.

Definition rc_of_cfg (c : scfg) : rcfg := if is_server c then rc_strict_from_server else rc_strict_from_client.

Definition spec_case_ok (c : send_case) : bool :=
  let '(t, keys, ops, _) := c in
  let cfg := cfg_of t in
  match spec_run cfg [] SpGround ops with
  | None => true                                   (* not a legal application-level sequence: nothing claimed *)
  | Some (s, _, evs) =>
      if spec_at_boundary s && apply_mask cfg then   (* the theorem's hypotheses *)
        match rfc_parse rc_any (wire cfg (ks_of keys) ops) with
        | WellFormed _ evs' o tail =>
            ev_eqb evs evs' && match tail with [] => true | _ => false end &&
            match o, spec_open s with
            | None, None => true
            | Some (b1, p1), Some (b2, p2) => Bool.eqb b1 b2 && list_eqb p1 p2
            | _, _ => false
            end
        | _ => false
        end
      else true
  end.

Definition send_case_all_ok (c : send_case) : bool := send_case_ok c && spec_case_ok c.
