(* Model of the four XOR masker implementations (definitions only).
   Sources mirrored:
     src/autobahn/websocket/xormasker.py   XorMaskerSimple / XorMaskerShifted1 / create_xor_masker
     src/autobahn/nvx/_xormasker.c         _nvx_xormask_process_simple / _nvx_xormask_process_sse2
     src/autobahn/nvx/_xormasker.py        XorMaskerNvx.process / create_xor_masker
   Bytes are N (< 256), the running pointer is N, the key is a 4-element list. *)
From Coq Require Import NArith List.
Import ListNotations.
Open Scope N_scope.

(* mask[i & 3] *)
Definition kget (k : list N) (i : N) : N := nth (N.to_nat (N.land i 3)) k 0.

(* ---- specification: byte-wise XOR with the key repeated from the running offset ---- *)
Fixpoint xor_spec (k : list N) (p : N) (d : list N) : list N :=
  match d with
  | [] => []
  | b :: r => N.lxor b (kget k p) :: xor_spec k (p + 1) r
  end.

Definition lenN (d : list N) : N := N.of_nat (length d).

(* ---- xormasker.py: XorMaskerSimple.process  (also _nvx_xormask_process_simple) ----
   for k in range(dlen): payload[k] ^= msk[ptr & 3]; ptr += 1 *)
Fixpoint simple_loop (k : list N) (ptr : N) (d : list N) : list N * N :=
  match d with
  | [] => ([], ptr)
  | b :: r => let '(o, p') := simple_loop k (ptr + 1) r in
              (N.lxor b (nth (N.to_nat (N.land ptr 3)) k 0) :: o, p')
  end.
Definition simple_process (k : list N) (ptr : N) (d : list N) : list N * N := simple_loop k ptr d.

(* ---- xormasker.py: XorMaskerShifted1 ----
   __init__: mskarray[j] = [mask[(i + j) & 3] for i in range(4)]
   process : msk = mskarray[ptr & 3]; payload[k] ^= msk[k & 3]; ptr += dlen *)
Definition mskarray (k : list N) (j : N) : list N :=
  map (fun i => nth (N.to_nat (N.land (i + j) 3)) k 0) [0; 1; 2; 3].
Fixpoint shifted_loop (msk : list N) (i : N) (d : list N) : list N :=
  match d with
  | [] => []
  | b :: r => N.lxor b (nth (N.to_nat (N.land i 3)) msk 0) :: shifted_loop msk (i + 1) r
  end.
Definition shifted_process (k : list N) (ptr : N) (d : list N) : list N * N :=
  (shifted_loop (mskarray k (N.land ptr 3)) 0 d, ptr + lenN d).

(* ---- _xormasker.c: _nvx_xormask_process_sse2 ----
   [align] is ((uintptr_t)data) & 15, the only thing the code reads from the address. *)
Definition mask16 (k : list N) (ptr : N) : list N :=
  map (fun i => nth (N.to_nat (N.land (ptr + i) 3)) k 0)
      [0;1;2;3;4;5;6;7;8;9;10;11;12;13;14;15].
Fixpoint xor_lists (a m : list N) : list N :=
  match a, m with
  | x :: a', y :: m' => N.lxor x y :: xor_lists a' m'
  | _, _ => []
  end.
(* the aligned middle: [chunks] blocks of 16 octets, all XORed with the same xmm_mask *)
Fixpoint sse2_blocks (m16 : list N) (chunks : nat) (d : list N) : list N * list N :=
  match chunks with
  | O => ([], d)
  | S c => let '(o, rest) := sse2_blocks m16 c (skipn 16 d) in
           (xor_lists (firstn 16 d) m16 ++ o, rest)
  end.
Definition sse2_process (k : list N) (align : N) (ptr : N) (d : list N) : list N * N :=
  let length0 := lenN d in
  let head_len :=
      if 16 <=? length0
      then (let h := N.land align 15 in
            if h =? 0 then 0
            else let h' := 16 - h in if length0 <? h' then length0 else h')
      else 0 in
  let '(head_out, ptr1) := simple_loop k ptr (firstn (N.to_nat head_len) d) in
  let d1 := skipn (N.to_nat head_len) d in
  let m16 := mask16 k ptr1 in                 (* rebuilt after the head; identical if head_len = 0 *)
  let chunks := N.to_nat (lenN d1 / 16) in
  let '(mid_out, tail) := sse2_blocks m16 chunks d1 in
  let ptr2 := ptr1 + N.of_nat chunks * 16 in
  let '(tail_out, ptr3) := simple_loop k ptr2 tail in
  (head_out ++ mid_out ++ tail_out, ptr3).

(* nvx_xormask_process dispatch on impl: 1 = simple, 2 = sse2, anything else = simple *)
Definition nvx_process (impl : N) (k : list N) (align ptr : N) (d : list N) : list N * N :=
  if impl =? 2 then sse2_process k align ptr d else simple_loop k ptr d.

(* create_xor_masker(mask, length): which implementation a frame of payload length [n] gets.
   pure python: Simple if n < 128 else Shifted1; NVX: impl 1 if n < 128 else impl 2 *)
Inductive flavour := PurePython | Nvx (align : N).
Definition factory_process (fl : flavour) (len_hint : option N) (k : list N) (ptr : N) (d : list N)
  : list N * N :=
  let small := match len_hint with None => true | Some n => n <? 128 end in
  match fl with
  | PurePython => if small then simple_process k ptr d else shifted_process k ptr d
  | Nvx a => if small then nvx_process 1 k a ptr d else nvx_process 2 k a ptr d
  end.

(* a masker object fed a list of chunks: the outputs concatenated and the final pointer *)
Fixpoint run_chunks (proc : N -> list N -> list N * N) (ptr : N) (chunks : list (list N))
  : list N * N :=
  match chunks with
  | [] => ([], ptr)
  | c :: cs => let '(o, p1) := proc ptr c in
               let '(os, p2) := run_chunks proc p1 cs in (o ++ os, p2)
  end.

(* XorMaskerNull *)
Definition null_process (ptr : N) (d : list N) : list N * N := (d, ptr + lenN d).
