(* Executable entry points used by the C04 / C06 correspondence runs (harness/props/c04.py, c06.py):
   a history whose future-valued arguments are given as "index of the j-th future an API call returned" (that is
   what a user of the real API holds), run through Model/Session.v, with the model's future identities renamed to
   those indices and completions of futures the API never handed out dropped (nobody can observe them). *)
From Coq Require Import NArith List Bool.
From AV Require Import Gen.WampTypeCodes Model.Session.
Import ListNotations.
Open Scope N_scope.

(* ---- boolean equalities ---- *)
Definition optN_eqb (a b : option N) : bool :=
  match a, b with Some x, Some y => x =? y | None, None => true | _, _ => false end.
Definition optbool_eqb (a b : option bool) : bool :=
  match a, b with Some x, Some y => Bool.eqb x y | None, None => true | _, _ => false end.
Fixpoint listN_eqb (a b : list N) : bool :=
  match a, b with [], [] => true | x :: a', y :: b' => (x =? y) && listN_eqb a' b' | _, _ => false end.
Fixpoint kw_eqb (a b : list (N * N)) : bool :=
  match a, b with
  | [], [] => true
  | (x, u) :: a', (y, v) :: b' => (x =? y) && (u =? v) && kw_eqb a' b'
  | _, _ => false
  end.
Definition reason_eqb (a b : reason) : bool :=
  match a, b with
  | RsNormal, RsNormal | RsTransportLost, RsTransportLost | RsCannotAuth, RsCannotAuth => true
  | RsUser x, RsUser y => x =? y
  | _, _ => false
  end.
Definition value_eqb (a b : value) : bool :=
  match a, b with
  | VNone, VNone | VZero, VZero => true
  | VSingle x, VSingle y | VPublication x, VPublication y | VSubscription x, VSubscription y
  | VRegistration x, VRegistration y | VCount x, VCount y => x =? y
  | VCallResult x k, VCallResult y l => listN_eqb x y && kw_eqb k l
  | _, _ => false
  end.
(* an ApplicationError built from an ERROR message does not tell "no args" from "empty args" *)
Definition err_eqb (a b : err) : bool :=
  match a, b with
  | EApp u p, EApp v q => (u =? v) && listN_eqb (args_or_empty (p_args p)) (args_or_empty (p_args q))
                          && kw_eqb (kw_or_empty (p_kw p)) (kw_or_empty (p_kw q))
  | ELeave r, ELeave r' => reason_eqb r r'
  | ETransportLost, ETransportLost | ECancelled, ECancelled => true
  | _, _ => false
  end.
Definition result_eqb (a b : result) : bool :=
  match a, b with ROk x, ROk y => value_eqb x y | RErr x, RErr y => err_eqb x y | _, _ => false end.
Definition wmsg_eqb (a b : wmsg) : bool :=
  match a, b with
  | MHello, MHello | MAuthenticate, MAuthenticate => true
  | MAbort r, MAbort r' | MGoodbye r, MGoodbye r' => reason_eqb r r'
  | MPublish i u x k a e, MPublish i' u' x' k' a' e' =>
      (i =? i') && (u =? u') && listN_eqb x x' && kw_eqb k k' && optbool_eqb a a' && optbool_eqb e e'
  | MSubscribe i u m r, MSubscribe i' u' m' r' => (i =? i') && (u =? u') && (m =? m') && optbool_eqb r r'
  | MUnsubscribe i x, MUnsubscribe i' x' | MUnregister i x, MUnregister i' x' => (i =? i') && (x =? x')
  | MCall i u x k t p, MCall i' u' x' k' t' p' =>
      (i =? i') && (u =? u') && listN_eqb x x' && kw_eqb k k' && optN_eqb t t' && Bool.eqb p p'
  | MCancel i, MCancel i' | MYield i, MYield i' => i =? i'
  | MRegister i u m v, MRegister i' u' m' v' => (i =? i') && (u =? u') && (m =? m') && (v =? v')
  | _, _ => false
  end.
Definition exn_eqb (a b : exn) : bool :=
  match a, b with
  | XProtocolError, XProtocolError | XTransportLost, XTransportLost | XTypeError, XTypeError
  | XAttributeError, XAttributeError | XException, XException | XNoObject, XNoObject | XKeyError, XKeyError
  | XSerializationError, XSerializationError | XPayloadExceeded, XPayloadExceeded => true
  | _, _ => false
  end.
Definition cb_eqb (a b : cb) : bool :=
  match a, b with
  | CbConnect, CbConnect | CbWelcome, CbWelcome | CbChallenge, CbChallenge | CbDisconnect, CbDisconnect => true
  | CbJoin x, CbJoin y => x =? y
  | CbLeave r s, CbLeave r' s' => reason_eqb r r' && optN_eqb s s'
  | _, _ => false
  end.
Definition out_eqb (a b : out) : bool :=
  match a, b with
  | Sent m, Sent m' | SendFailed m, SendFailed m' | Dropped m, Dropped m' => wmsg_eqb m m'
  | Completed f r, Completed f' r' => (f =? f') && result_eqb r r'
  | Progress f d x k, Progress f' d' x' k' => (f =? f') && Bool.eqb d d' && listN_eqb x x' && kw_eqb k k'
  | Called c, Called c' => cb_eqb c c'
  | UserError, UserError | TransportClose, TransportClose | TransportAbort, TransportAbort => true
  | Raised e, Raised e' | ApiRaised e, ApiRaised e' | LoopError e, LoopError e' => exn_eqb e e'
  | ApiReturned f, ApiReturned f' => optN_eqb f f'
  | _, _ => false
  end.
Fixpoint outs_eqb (a b : list out) : bool :=
  match a, b with [], [] => true | x :: a', y :: b' => out_eqb x y && outs_eqb a' b' | _, _ => false end.
Fixpoint trace_eqb (a b : list (list out)) : bool :=
  match a, b with [], [] => true | x :: a', y :: b' => outs_eqb x y && trace_eqb a' b' | _, _ => false end.

(* ---- histories with future arguments named by "j-th returned future" ---- *)
Inductive cop :=
| COp (o : op) | CUnsub (j : N) | CUnreg (j : N) | CCancel (j : N)
| CFail (e : exn) (a : cop)      (* the API call [a] while transport.send() raises e for the request message *)
| CReact (j : N) (a : cop)       (* the callback that issues the API call [a] is attached to the j-th returned future *)
| CInline (a : cop) (r : op).    (* API call [a]; the router message [r] is delivered re-entrantly from inside
                                    transport.send() of the request (loopback / in-process router links) *)

Fixpoint index_of (f : N) (l : list N) (i : N) : option N :=
  match l with [] => None | x :: t => if x =? f then Some i else index_of f t (i + 1) end.

Definition returned_of (o : list out) : list N :=
  flat_map (fun e => match e with ApiReturned (Some f) => [f] | _ => [] end) o.

(* rename the model's future identities to indices among the returned futures; drop what nobody can observe *)
Definition rename (ret : list N) (o : list out) : list out :=
  flat_map (fun e =>
    match e with
    | Completed f r => match index_of f ret 0 with Some j => [Completed j r] | None => [] end
    | Progress f d a k => match index_of f ret 0 with Some j => [Progress j d a k] | None => [] end
    | ApiReturned (Some f) => match index_of f ret 0 with Some j => [ApiReturned (Some j)] | None => [] end
    | x => [x]
    end) o.

Fixpoint resolve (ret : list N) (c : cop) : option op :=
  match c with
  | COp o => Some o
  | CUnsub j => match nth_error ret (N.to_nat j) with Some f => Some (AUnsubscribe f) | None => None end
  | CUnreg j => match nth_error ret (N.to_nat j) with Some f => Some (AUnregister f) | None => None end
  | CCancel j => match nth_error ret (N.to_nat j) with Some f => Some (ACancel f) | None => None end
  | CFail e a => match resolve ret a with Some o => Some (AFail e o) | None => None end
  | CReact j a => match nth_error ret (N.to_nat j), resolve ret a with
                  | Some f, Some o => Some (AReact f o)
                  | _, _ => None
                  end
  | CInline a _ => resolve ret a
  end.

Definition inline_reply (c : cop) : option op := match c with CInline _ r => Some r | _ => None end.

(* did transport.send() accept a request message (then, and only then, a loopback transport answers inside send) *)
Definition sent_request (o : list out) : bool :=
  existsb (fun e => match e with
                    | Sent (MPublish _ _ _ _ _ _) | Sent (MSubscribe _ _ _ _) | Sent (MUnsubscribe _ _)
                    | Sent (MCall _ _ _ _ _ _) | Sent (MRegister _ _ _ _) | Sent (MUnregister _ _) => true
                    | _ => false
                    end) o.
Definition is_apiret (e : out) : bool := match e with ApiReturned _ | ApiRaised _ => true | _ => false end.

(* One step of a case.  Because every API path records its request before it calls send() (Model/Session.v: new_request
   precedes send), a reply delivered from inside send() finds the state that [step] leaves behind: the inline schedule
   is the history [a; r].  Only the order of what an observer sees differs: the API call returns after the reply was
   processed, and the callbacks of the future it returns can be attached only then (Twisted fires them at once). *)
Definition step_case (fl : flavour) (cfg : ucfg) (s : sess) (o : op) (inl : option op) : sess * list out :=
  let '(s1, o1) := step fl cfg s o in
  match inl with
  | Some r =>
      if sent_request o1 then
        let '(s2, o2) := step fl cfg s1 r in
        let newf := returned_of o1 in
        let mine := fun e => match e with Completed f _ => memN f newf | _ => false end in
        (s2, filter (fun e => negb (is_apiret e)) o1 ++ filter (fun e => negb (mine e)) o2
             ++ filter is_apiret o1 ++ filter mine o2)
      else (s1, o1)
  | None => (s1, o1)
  end.

Fixpoint run_case (fl : flavour) (cfg : ucfg) (s : sess) (ret : list N) (ops : list cop) : sess * list (list out) :=
  match ops with
  | [] => (s, [])
  | c :: r =>
      match resolve ret c with
      | None => let '(s2, tr) := run_case fl cfg s ret r in (s2, [ApiRaised XNoObject] :: tr)
      | Some o =>
          let '(s1, o1) := step_case fl cfg s o (inline_reply c) in
          let ret1 := ret ++ returned_of o1 in
          let '(s2, tr) := run_case fl cfg s1 ret1 r in
          (s2, rename ret1 o1 :: tr)
      end
  end.

(* what the harness also reads back from the implementation at the end of a history *)
Record endstate := { e_sid : option N; e_transport : bool; e_goodbye : bool; e_next_id : N; e_tables : list N }.
Definition endstate_of (s : sess) : endstate :=
  {| e_sid := sid s; e_transport := transport s; e_goodbye := goodbye_sent s; e_next_id := next_id s;
     e_tables := map (fun k => N.of_nat (length (table k (pend s)))) all_kinds |}.
Definition endstate_eqb (a b : endstate) : bool :=
  optN_eqb (e_sid a) (e_sid b) && Bool.eqb (e_transport a) (e_transport b) && Bool.eqb (e_goodbye a) (e_goodbye b)
  && (e_next_id a =? e_next_id b) && listN_eqb (e_tables a) (e_tables b).

Definition session_case := (flavour * ucfg * list cop * list (list out) * endstate)%type.

Definition session_case_ok (c : session_case) : bool :=
  let '(fl, cfg, ops, expected, est) := c in
  let '(s, tr) := run_case fl cfg init [] ops in
  trace_eqb tr expected && endstate_eqb (endstate_of s) est.

(* for replays / diagnostics: the model's own answer *)
Definition session_case_model (c : session_case) : list (list out) * endstate :=
  let '(fl, cfg, ops, _, _) := c in
  let '(s, tr) := run_case fl cfg init [] ops in (tr, endstate_of s).

(* index of the first op whose outputs differ (for shrinking hints) *)
Fixpoint first_diff (a b : list (list out)) (i : N) : option N :=
  match a, b with
  | [], [] => None
  | x :: a', y :: b' => if outs_eqb x y then first_diff a' b' (i + 1) else Some i
  | _, _ => Some i
  end.
Definition session_case_diff (c : session_case) : option N :=
  let '(fl, cfg, ops, expected, _) := c in
  first_diff (snd (run_case fl cfg init [] ops)) expected 0.
