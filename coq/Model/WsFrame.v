(* WebSocket wire format (RFC 6455 section 5.2) -- definitions only.
   - octets are N (< 256); big-endian helpers
   - encode_len  : the 7/16/64-bit length selection exactly as written three times in protocol.py
                   (sendFrame, beginMessageFrame, PreparedMessage.__init__)
   - decode_len  : the reader's side, written from RFC 6455 5.2 (minimal form required, MSB of the
                   64-bit form must be 0)
   - frame / encode_frame : spec-level encoder of one frame
   - rfc_parse   : declarative WHOLE-STREAM reference parser written from the RFC, not from the code:
                   splits the octets into frames (per-frame rules), then reassembles messages
                   (sequencing rules of 5.4 / 5.5) and returns either the frames + events + what is
                   still open, or a malformedness verdict.
   The receive loop of the implementation is modelled elsewhere (Model/WsRecv.v, another owner);
   nothing here is derived from it. *)
From Coq Require Import NArith List Bool.
From AV Require Import Model.Masker.
Import ListNotations.
Open Scope N_scope.

Definition octets (l : list N) : Prop := Forall (fun b => b < 256) l.

(* ---- big endian ---- *)
(* struct.pack("!H", v) = be_encode 2 v ; struct.pack("!Q", v) = be_encode 8 v ; "!I" = be_encode 4 *)
Fixpoint be_encode (w : nat) (v : N) : list N :=
  match w with
  | O => []
  | S w' => (v / 256 ^ N.of_nat w') mod 256 :: be_encode w' v
  end.

Definition be_decode (l : list N) : N := fold_left (fun acc b => acc * 256 + b) l 0.

(* ---- payload length field ----
   protocol.py sendFrame / beginMessageFrame / PreparedMessage.__init__:
       if l <= 125: b1 |= l
       elif l <= 0xFFFF: b1 |= 126; el = struct.pack("!H", l)
       elif l <= 0x7FFFFFFFFFFFFFFF: b1 |= 127; el = struct.pack("!Q", l)
       else: raise Exception("invalid payload length")                         -> None *)
Definition max_len : N := 9223372036854775807.   (* 0x7FFFFFFFFFFFFFFF = 2^63 - 1 *)

Definition encode_len (n : N) : option (N * list N) :=
  if n <=? 125 then Some (n, [])
  else if n <=? 65535 then Some (126, be_encode 2 n)
  else if n <=? max_len then Some (127, be_encode 8 n)
  else None.

(* total spec-level variant used by encode_frame (for n > max_len it produces octets that
   decode_len rejects; no theorem claims anything about them) *)
Definition len_field (n : N) : N * list N :=
  if n <=? 125 then (n, [])
  else if n <=? 65535 then (126, be_encode 2 n)
  else (127, be_encode 8 n).

Inductive perr :=
| ENonMinimalLength        (* 5.2: "the minimal number of bytes MUST be used to encode the length" *)
| ELengthMsb               (* 5.2: 64-bit form, "the most significant bit MUST be 0" *)
| EReservedBits            (* 5.2: RSV1-3 MUST be 0 unless an extension is negotiated *)
| EReservedOpcode          (* 5.2: opcodes 3-7 and 0xB-0xF are reserved *)
| EControlFragmented       (* 5.5: control frames MUST NOT be fragmented *)
| EControlTooLong          (* 5.5: control frames MUST have a payload length of 125 bytes or less *)
| EMaskRequired            (* 5.1: a client MUST mask all frames *)
| EMaskForbidden           (* 5.1: a server MUST NOT mask any frames *)
| EUnexpectedContinuation  (* 5.4: continuation frame with no message to continue *)
| EExpectedContinuation    (* 5.4: new data frame while a fragmented message is open *)
| EFrameAfterClose.        (* 5.5.1: nothing is sent after a Close frame *)

Inductive dl_result :=
| DLOk (n : N) (rest : list N)
| DLIncomplete
| DLBad (e : perr).

(* RFC 6455 5.2 "Payload length": l7 is the 7-bit field, bs the octets following the 2nd header octet *)
Definition decode_len (l7 : N) (bs : list N) : dl_result :=
  if l7 <=? 125 then DLOk l7 bs
  else if l7 =? 126 then
    if Nat.ltb (length bs) 2 then DLIncomplete
    else let n := be_decode (firstn 2 bs) in
         if n <? 126 then DLBad ENonMinimalLength else DLOk n (skipn 2 bs)
  else
    if Nat.ltb (length bs) 8 then DLIncomplete
    else let n := be_decode (firstn 8 bs) in
         if n <? 65536 then DLBad ENonMinimalLength
         else if max_len <? n then DLBad ELengthMsb
         else DLOk n (skipn 8 bs).

(* ---- frames ---- *)
Record frame := mkFrame {
  f_fin : bool;
  f_rsv : N;                      (* RSV1..3 as a 3-bit number, RSV1 = 4 *)
  f_opcode : N;
  f_mask : option (list N);       (* masking key if the MASK bit is set *)
  f_payload : list N              (* application view: UNMASKED payload *)
}.

Definition key_ok (k : list N) : Prop := length k = 4%nat /\ octets k.

Definition frame_ok (f : frame) : Prop :=
  f_rsv f < 8 /\ f_opcode f < 16 /\
  match f_mask f with Some k => key_ok k | None => True end /\
  lenN (f_payload f) <= max_len.

Definition byte0 (fin : bool) (rsv opcode : N) : N := (if fin then 128 else 0) + rsv * 16 + opcode.

(* header octets of a frame announcing a payload of n octets *)
Definition encode_header (fin : bool) (rsv opcode : N) (mask : option (list N)) (n : N) : list N :=
  let '(l7, el) := len_field n in
  match mask with
  | Some k => byte0 fin rsv opcode :: (128 + l7) :: el ++ k
  | None => byte0 fin rsv opcode :: l7 :: el
  end.

(* 5.3: octet i of the payload is XORed with octet (i mod 4) of the masking key *)
Definition mask_payload (mask : option (list N)) (p : list N) : list N :=
  match mask with Some k => xor_spec k 0 p | None => p end.

Definition encode_frame (f : frame) : list N :=
  encode_header (f_fin f) (f_rsv f) (f_opcode f) (f_mask f) (lenN (f_payload f))
  ++ mask_payload (f_mask f) (f_payload f).

Definition encode_frames (fs : list frame) : list N := concat (map encode_frame fs).

(* ---- reference parser: one frame ---- *)
Inductive mask_policy :=
| MustMask        (* we are reading what a client wrote *)
| MustNotMask     (* we are reading what a server wrote *)
| AnyMask.        (* no judgement on the MASK bit *)

Record rcfg := mkRcfg {
  rc_mask : mask_policy;
  rc_rsv_ok : N -> bool;          (* which RSV values a negotiated extension permits besides 0 *)
  rc_opcode_rules : bool          (* judge opcodes (5.2 reserved opcodes, 5.5 control frame rules); false = syntax only *)
}.

Definition rc_strict_from_client : rcfg := mkRcfg MustMask (fun _ => false) true.
Definition rc_strict_from_server : rcfg := mkRcfg MustNotMask (fun _ => false) true.
Definition rc_any : rcfg := mkRcfg AnyMask (fun _ => false) true.      (* no judgement on the MASK bit only *)
Definition rc_syntax : rcfg := mkRcfg AnyMask (fun _ => true) false.   (* frame syntax only: any opcode / RSV / mask *)

Definition is_control (opcode : N) : bool := 8 <=? opcode.
Definition opcode_known (opcode : N) : bool :=
  (opcode =? 0) || (opcode =? 1) || (opcode =? 2) || (opcode =? 8) || (opcode =? 9) || (opcode =? 10).

(* the rules that can be judged from the header alone (5.1, 5.2, 5.5) *)
Definition header_check (rc : rcfg) (fin : bool) (rsv opcode : N) (masked : bool) (n : N) : option perr :=
  if negb (rsv =? 0) && negb (rc_rsv_ok rc rsv) then Some EReservedBits
  else if rc_opcode_rules rc && negb (opcode_known opcode) then Some EReservedOpcode
  else if rc_opcode_rules rc && is_control opcode && negb fin then Some EControlFragmented
  else if rc_opcode_rules rc && is_control opcode && (125 <? n) then Some EControlTooLong
  else match rc_mask rc, masked with
       | MustMask, false => Some EMaskRequired
       | MustNotMask, true => Some EMaskForbidden
       | _, _ => None
       end.

Inductive fres :=
| FOk (f : frame) (rest : list N)
| FIncomplete
| FBad (e : perr).

Definition parse_frame (rc : rcfg) (bs : list N) : fres :=
  match bs with
  | b0 :: b1 :: r =>
      let fin := 128 <=? b0 in
      let rsv := (b0 / 16) mod 8 in
      let opcode := b0 mod 16 in
      let masked := 128 <=? b1 in
      let l7 := b1 mod 128 in
      match decode_len l7 r with
      | DLIncomplete => FIncomplete
      | DLBad e => FBad e
      | DLOk n r1 =>
          match header_check rc fin rsv opcode masked n with
          | Some e => FBad e
          | None =>
              if masked then
                if Nat.ltb (length r1) 4 then FIncomplete
                else let k := firstn 4 r1 in
                     let r2 := skipn 4 r1 in
                     if lenN r2 <? n then FIncomplete
                     else FOk (mkFrame fin rsv opcode (Some k) (xor_spec k 0 (firstn (N.to_nat n) r2)))
                              (skipn (N.to_nat n) r2)
              else
                if lenN r1 <? n then FIncomplete
                else FOk (mkFrame fin rsv opcode None (firstn (N.to_nat n) r1)) (skipn (N.to_nat n) r1)
          end
      end
  | _ => FIncomplete
  end.

(* ---- reference parser: the stream as a sequence of frames ---- *)
Inductive sres :=
| SOk (fs : list frame) (tail : list N)     (* tail = octets of a trailing incomplete frame *)
| SBad (e : perr) (before : list frame)
| SOutOfFuel.

(* every frame consumes at least 2 octets, so fuel > length bs always suffices (proved) *)
Fixpoint split_frames (rc : rcfg) (fuel : nat) (bs : list N) : sres :=
  match fuel with
  | O => SOutOfFuel
  | S fuel' =>
      match parse_frame rc bs with
      | FIncomplete => SOk [] bs
      | FBad e => SBad e []
      | FOk f rest =>
          match split_frames rc fuel' rest with
          | SOk fs tail => SOk (f :: fs) tail
          | SBad e fs => SBad e (f :: fs)
          | SOutOfFuel => SOutOfFuel
          end
      end
  end.

(* ---- reference parser: messages (5.4 fragmentation, 5.5 control frames) ---- *)
Inductive event :=
| EvMessage (is_binary : bool) (payload : list N)
| EvPing (payload : list N)
| EvPong (payload : list N)
| EvClose (payload : list N).

Record astate := mkAstate {
  a_open : option (bool * list N);   (* fragmented message in progress: (is_binary, payload so far) *)
  a_closed : bool
}.
Definition astate0 : astate := mkAstate None false.

Inductive ares :=
| AOk (st : astate) (evs : list event)
| ABad (e : perr).

Definition assemble_step (st : astate) (f : frame) : ares :=
  if a_closed st then ABad EFrameAfterClose
  else
    let op := f_opcode f in
    if op =? 0 then
      match a_open st with
      | None => ABad EUnexpectedContinuation
      | Some (b, acc) =>
          if f_fin f then AOk (mkAstate None false) [EvMessage b (acc ++ f_payload f)]
          else AOk (mkAstate (Some (b, acc ++ f_payload f)) false) []
      end
    else if (op =? 1) || (op =? 2) then
      match a_open st with
      | Some _ => ABad EExpectedContinuation
      | None =>
          if f_fin f then AOk st [EvMessage (op =? 2) (f_payload f)]
          else AOk (mkAstate (Some (op =? 2, f_payload f)) false) []
      end
    else if op =? 8 then AOk (mkAstate (a_open st) true) [EvClose (f_payload f)]
    else if op =? 9 then AOk st [EvPing (f_payload f)]
    else if op =? 10 then AOk st [EvPong (f_payload f)]
    else ABad EReservedOpcode.

Fixpoint assemble (st : astate) (fs : list frame) : ares :=
  match fs with
  | [] => AOk st []
  | f :: r =>
      match assemble_step st f with
      | ABad e => ABad e
      | AOk st1 e1 =>
          match assemble st1 r with
          | ABad e => ABad e
          | AOk st2 e2 => AOk st2 (e1 ++ e2)
          end
      end
  end.

Inductive verdict :=
| WellFormed (frames : list frame) (events : list event)
             (open_msg : option (bool * list N))   (* a fragmented message not yet finished *)
             (tail : list N)                       (* octets of a not yet complete frame *)
| Malformed (e : perr)
| VOutOfFuel.

Definition rfc_parse (rc : rcfg) (bs : list N) : verdict :=
  match split_frames rc (S (length bs)) bs with
  | SOutOfFuel => VOutOfFuel
  | SBad e _ => Malformed e
  | SOk fs tail =>
      match assemble astate0 fs with
      | ABad e => Malformed e
      | AOk st evs => WellFormed fs evs (a_open st) tail
      end
  end.

Definition messages_of (evs : list event) : list (list N * bool) :=
  flat_map (fun e => match e with EvMessage b p => [(p, b)] | _ => [] end) evs.
