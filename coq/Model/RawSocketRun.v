(* Executable entry points used by the C13 correspondence run (harness/props/c13.py). *)
From Coq Require Import NArith ZArith List Bool.
From AV Require Import Model.RawSocket Model.WsSubproto Gen.RawSocketConsts.
Import ListNotations.
Open Scope N_scope.

Fixpoint nl_eqb (a b : list N) : bool :=
  match a, b with
  | [], [] => true
  | x :: a', y :: b' => (x =? y) && nl_eqb a' b'
  | _, _ => false
  end.

Definition exn_code (e : exn) : N :=
  match e with
  | ETransportLost => 1 | EPayloadExceeded => 2 | ENotImplemented => 3 | EValueError => 4 | ESerialization => 5 | EOther => 6
  end.

(* canonical form of an event: (kind, data).  A write is summarised by its first 4 octets and its length (payloads
   are compared by the Python-side oracle); adjacent writes are merged on both sides. *)
Definition cev := (N * list N)%type.
Fixpoint merge_writes (evs : list ev) : list ev :=
  match evs with
  | Write a :: r => match merge_writes r with
                    | Write b :: r' => Write (a ++ b) :: r'
                    | r' => Write a :: r'
                    end
  | e :: r => e :: merge_writes r
  | [] => []
  end.
Definition canon_ev (e : ev) : cev :=
  match e with
  | Write d => (0, firstn 4 d ++ [blen d])
  | Abort => (1, [])
  | Lose => (2, [])
  | SessOpen => (3, [])
  | SessMsg id => (4, [id])
  | SessClose c => (5, [if c then 1 else 0])
  | Escaped e => (6, [exn_code e])
  | Raised e => (7, [exn_code e])
  end.
Definition canon (evs : list ev) : list cev := map canon_ev (merge_writes evs).
Fixpoint cevs_eqb (a b : list cev) : bool :=
  match a, b with
  | [], [] => true
  | (k, d) :: a', (k', d') :: b' => (k =? k') && nl_eqb d d' && cevs_eqb a' b'
  | _, _ => false
  end.

Definition mk_cfg (impl_ role_ : N) (sers : list N) (mx : N) (open_raises : bool) : cfg :=
  {| c_impl := if impl_ =? 0 then Tx else Aio; c_role := if role_ =? 0 then Server else Client;
     c_sers := sers; c_max := mx; c_open_raises := open_raises |}.

(* ---- 1. handshake sweep, run-length encoded over idx = 256 * o1 + o2 ---- *)
Definition segment (seg : N) (o1 o2 o3 o4 : N) : list (list N) :=
  match seg with
  | 0 => [[o1; o2; o3; o4]]
  | 1 => [[o1]; [o2; o3; o4]]
  | 2 => [[o1; o2]; [o3; o4]]
  | _ => [[o1]; [o2]; [o3]; [o4]]
  end.
(* outcome: (kind, serializer, max_send, octets written, escaped exception code);
   kind 0 attach, 1 refused by abort, 2 refused by close, 3 exception escaped, 4 nothing happened *)
Definition hs_outcome (c : cfg) (segs : list (list N)) : N * N * N * list N * N :=
  let '(s, evs) := conn_run c (conn_init []) (map IData segs) in
  let writes := concat (map (fun e => match e with Write d => d | _ => [] end) evs) in
  let esc := fold_left (fun acc e => match e with Escaped x => exn_code x | _ => acc end) evs 0 in
  let kind := if existsb (fun e => match e with SessOpen => true | _ => false end) evs then 0
              else if existsb (fun e => match e with Abort => true | _ => false end) evs then 1
              else if existsb (fun e => match e with Lose => true | _ => false end) evs then 2
              else if negb (esc =? 0) then 3 else 4 in
  let '(ser, ms) := match ph s with PEst ser ms _ => (ser, ms) | _ => (0, 0) end in
  (kind, ser, ms, writes, esc).

Definition hs_case := (N * N * list N * N * N * N * N * N * N * (N * N * N * list N * N))%type.
Definition hs_case_ok (k : hs_case) : bool :=
  let '(impl_, role_, sers, mx, o3, o4, seg, start, count, expected) := k in
  let '(ek, eser, ems, ew, eesc) := expected in
  let c := mk_cfg impl_ role_ sers mx false in
  snd (N.iter count
         (fun st : N * bool =>
            let '(idx, ok) := st in
            let '(kk, ser, ms, w, esc) := hs_outcome c (segment seg (idx / 256) (idx mod 256) o3 o4) in
            (idx + 1, ok && (kk =? ek) && (ser =? eser) && (ms =? ems) && nl_eqb w ew && (esc =? eesc)))
         (start, true)).

(* ---- 2. framing machines ---- *)
Definition fev_canon (e : fev) : cev :=
  match e with FFrame p => (0, p) | FLose => (1, []) | FEscaped x => (2, [exn_code x]) end.
(* (impl, maxlen, chunks, expected events, expected dead?, expected residual buffer) *)
Definition frame_case := (N * N * list (list N) * list cev * bool * list N)%type.
Definition frame_case_ok (k : frame_case) : bool :=
  let '(impl_, maxlen, chunks, eevs, edead, ebuf) := k in
  let feed := if impl_ =? 0 then tx_feed maxlen else aio_feed maxlen in
  let '(s, evs) := feed_all feed (FOpen [] None) chunks in
  cevs_eqb (map fev_canon evs) eevs &&
  match s with
  | FOpen u _ => negb edead && nl_eqb u ebuf
  | FDead => edead
  | FOutOfFuel => false
  end.

(* ---- 3. whole connection ---- *)
(* (impl, role, sers, max, onOpen raises, script, inputs, expected canonical events incl. connection-made writes) *)
Definition conn_case := (N * N * list N * N * bool * list fclass * list input * list cev)%type.
Definition conn_case_ok (k : conn_case) : bool :=
  let '(impl_, role_, sers, mx, oraises, sc, ins, expected) := k in
  let c := mk_cfg impl_ role_ sers mx oraises in
  cevs_eqb (canon (conn_made c ++ snd (conn_run c (conn_init sc) ins))) expected.

(* ---- 4. WebSocket mixin ---- *)
Definition wsev_canon (e : wsev) : cev :=
  match e with
  | WSessOpen => (3, [])
  | WSessMsg id => (4, [id])
  | WSessClose c => (5, [if c then 1 else 0])
  | WBailout code => (8, [code])
  | WSendMessage p b => (9, [if b then 1 else 0; blen p])
  | WSendClose code => (10, [code])
  | WRaised e => (7, [exn_code e])
  end.
Definition ws_case := (bool * list wsin * list cev)%type.
Definition ws_case_ok (k : ws_case) : bool :=
  let '(bin, ins, expected) := k in
  cevs_eqb (map wsev_canon (snd (ws_run bin false ins))) expected.

(* ---- 5. subprotocol selection ---- *)
(* int() restricted to what the generated cases use: non-empty ASCII digit strings *)
Definition run_pyint (s : str) : option Z :=
  match s with
  | [] => None
  | _ => fold_left (fun acc c => match acc with
                                 | Some v => if (48 <=? c) && (c <=? 57) then Some (10 * v + Z.of_N (c - 48))%Z else None
                                 | None => None
                                 end) s (Some 0%Z)
  end.
Definition opt_str_eqb (a b : option (str * str)) : bool :=
  match a, b with
  | None, None => true
  | Some (p, s), Some (p', s') => str_eqb p p' && str_eqb s s'
  | _, _ => false
  end.
(* server: (serializer ids of the server factory, the client's protocol list, expected (subprotocol, serializer id)) *)
Definition subproto_server_case := (list str * list str * option (str * str))%type.
Definition subproto_server_case_ok (k : subproto_server_case) : bool :=
  let '(keys, protos, expected) := k in opt_str_eqb (server_select run_pyint keys protos) expected.
(* client: (serializer ids of the client factory, response.protocol, expected: 0 refuse / 1 accept sid) *)
Definition subproto_client_case := (list str * option str * option str)%type.
Definition subproto_client_case_ok (k : subproto_client_case) : bool :=
  let '(ids, resp, expected) := k in
  match client_accept run_pyint ids resp, expected with
  | CAccept sid, Some sid' => str_eqb sid sid'
  | CRefuse, None => true
  | _, _ => false
  end.
(* binary flag table: (serializer id, expected BINARY) *)
Definition binary_case := (str * bool)%type.
Definition binary_case_ok (k : binary_case) : bool :=
  match binary_of (fst k) with Some b => Bool.eqb b (snd k) | None => false end.

(* ---- all case kinds in one type, so that one coqc run can check a mixed shard ---- *)
Inductive any_case :=
| AHs (k : hs_case) | AFrame (k : frame_case) | AConn (k : conn_case) | AWs (k : ws_case)
| ASrv (k : subproto_server_case) | ACl (k : subproto_client_case) | ABin (k : binary_case).
Definition any_case_ok (a : any_case) : bool :=
  match a with
  | AHs k => hs_case_ok k | AFrame k => frame_case_ok k | AConn k => conn_case_ok k | AWs k => ws_case_ok k
  | ASrv k => subproto_server_case_ok k | ACl k => subproto_client_case_ok k | ABin k => binary_case_ok k
  end.
