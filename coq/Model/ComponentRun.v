(* Executable entry points used by the C14 correspondence run (harness/props/c14.py): the model is run on the same
   script as the real Component and its observable behaviour is compared with what the driver logged. *)
From Coq Require Import List NArith ZArith QArith Bool.
From AV Require Import Model.Component.
Import ListNotations.
Open Scope Q_scope.

Definition opt_err_eqb (a b : option err) : bool :=
  match a, b with
  | None, None => true
  | Some x, Some y => err_eqb x y
  | _, _ => false
  end.

Definition sev_eqb (a b : sev) : bool :=
  match a, b with
  | SConnect, SConnect | SJoin, SJoin | SReady, SReady => true
  | SLeave x, SLeave y => (x =? y)%N
  | SDisconnect x, SDisconnect y => Bool.eqb x y
  | _, _ => false
  end.

Fixpoint list_eqb {A} (eq : A -> A -> bool) (a b : list A) : bool :=
  match a, b with
  | [], [] => true
  | x :: a', y :: b' => eq x y && list_eqb eq a' b'
  | _, _ => false
  end.

(* what is compared *)
Record observed := {
  ob_attempts : list (nat * Q);            (* transport index, seconds waited (virtual) before the attempt *)
  ob_dones : list (nat * option err);      (* start() future: attempts made before it fired, value class *)
  ob_stops : list (option err);            (* each stop() call: returned / raised *)
  ob_fails : list err;                     (* errors seen by 'connectfailure' listeners (and is_fatal), in order *)
  ob_escaped : list err;                   (* exceptions that escaped (compared as a multiset) *)
  ob_sessions : list (list sev);           (* per session created, in creation order: component listener calls *)
  ob_counters : list (N * N * N * bool)    (* final connect_attempts, connect_sucesses, connect_failures, failed *)
}.

Definition qmax0 (d : Q) : Q := if Qle_bool 0 d then d else 0.

Fixpoint attempts_of (l : list obs) : list (nat * Q) :=
  match l with
  | [] => []
  | OAttempt i d :: r => (i, qmax0 d) :: attempts_of r     (* asyncio.sleep(d <= 0) returns at once *)
  | _ :: r => attempts_of r
  end.

Fixpoint dones_of (l : list obs) (n : nat) : list (nat * option err) :=
  match l with
  | [] => []
  | OAttempt _ _ :: r => dones_of r (S n)
  | ODone v :: r => (n, v) :: dones_of r n
  | _ :: r => dones_of r n
  end.

Fixpoint stops_of (l : list obs) : list (option err) :=
  match l with [] => [] | OStop v :: r => v :: stops_of r | _ :: r => stops_of r end.
Fixpoint fails_of (l : list obs) : list err :=
  match l with [] => [] | OFail _ e :: r => e :: fails_of r | _ :: r => fails_of r end.
Fixpoint escaped_of (l : list obs) : list err :=
  match l with [] => [] | OEscaped e :: r => e :: escaped_of r | _ :: r => escaped_of r end.
Fixpoint sessions_of (l : list obs) : list nat :=
  match l with [] => [] | OSession k :: r => k :: sessions_of r | _ :: r => sessions_of r end.
Fixpoint notified_of (l : list obs) (k : nat) : list sev :=
  match l with
  | [] => []
  | ONotify k' ev :: r => if Nat.eqb k k' then ev :: notified_of r k else notified_of r k
  | _ :: r => notified_of r k
  end.

Definition count_err (e : err) (l : list err) : nat := length (filter (err_eqb e) l).
Definition same_multiset (a b : list err) : bool :=
  forallb (fun e => Nat.eqb (count_err e a) (count_err e b)) (a ++ b).

Definition attempt_eqb (a b : nat * Q) : bool := Nat.eqb (fst a) (fst b) && Qeq_bool (snd a) (snd b).
Definition done_eqb (a b : nat * option err) : bool := Nat.eqb (fst a) (fst b) && opt_err_eqb (snd a) (snd b).
Definition counter_eqb (a b : N * N * N * bool) : bool :=
  let '(a1, a2, a3, a4) := a in let '(b1, b2, b3, b4) := b in
  (a1 =? b1)%N && (a2 =? b2)%N && (a3 =? b3)%N && Bool.eqb a4 b4.

Definition observe (s : comp) (l : list obs) : observed :=
  {| ob_attempts := attempts_of l;
     ob_dones := dones_of l 0;
     ob_stops := stops_of l;
     ob_fails := fails_of l;
     ob_escaped := escaped_of l;
     ob_sessions := map (notified_of l) (sessions_of l);
     ob_counters := map (fun t => (attempts t, successes t, failures t, tfailed t)) (trs s) |}.

Definition observed_eqb (a b : observed) : bool :=
  list_eqb attempt_eqb (ob_attempts a) (ob_attempts b) &&
  list_eqb done_eqb (ob_dones a) (ob_dones b) &&
  list_eqb opt_err_eqb (ob_stops a) (ob_stops b) &&
  list_eqb err_eqb (ob_fails a) (ob_fails b) &&
  same_multiset (ob_escaped a) (ob_escaped b) &&
  list_eqb (list_eqb sev_eqb) (ob_sessions a) (ob_sessions b) &&
  list_eqb counter_eqb (ob_counters a) (ob_counters b).

(* one correspondence case: configuration, script (start() is implicit), scripted samples, what the real
   Component did *)
Definition comp_case := (config * list tcfg * list item * list oracle * observed)%type.

Definition comp_model (c : config) (ts : list tcfg) (its : list item) (q : list oracle) : observed :=
  let '(s0, ob0, q0) := run_q (init c ts) [EvStart] q in
  let '(s1, ob1, q1) := run_items s0 its q0 in
  let '(s2, ob2, _) := run_q s1 (wait_events s1) q1 in      (* the driver ends every script with a last wait *)
  observe s2 (ob0 ++ ob1 ++ ob2).

Definition comp_case_ok (c : comp_case) : bool :=
  let '(cf, ts, its, q, expected) := c in
  observed_eqb (comp_model cf ts its q) expected.
