(* Executable entry points for the C08 (identifier part) correspondence run (harness/props/c08uri.py).
   One case = a value and the 35 outcomes the real code produced on it (harness/impl/wamp_uri.py, same order). *)
From Coq Require Import List NArith ZArith Bool String Ascii.
From AV Require Import Base.Regex Gen.UriRegex Model.WampUri.
Import ListNotations.
Open Scope N_scope.

(* outcome codes: 0 returned, 1 InvalidUriError, 2 ProtocolError, 3 TypeError, 4 AttributeError (5 = anything else,
   implementation side only) *)
Definition code_res (r : vres) : N :=
  match r with
  | Ok => 0
  | Raise InvalidUriError => 1
  | Raise ProtocolError => 2
  | Raise TypeError => 3
  | Raise AttributeError => 4
  end.

(* <PATTERN>.match(v): 1 match, 0 no match, 3 TypeError *)
Definition code_match (r : bool + exn) : N :=
  match r with inl true => 1 | inl false => 0 | inr _ => 3 end.

Definition code_cat (c : option realm_category) : N :=
  match c with None => 0 | Some Standalone => 1 | Some Eth => 2 | Some Ens => 3 | Some ReverseEns => 4 end.

Definition b2n (b : bool) : N := if b then 1 else 0.

Definition bools : list bool := [false; true].

Definition uri_flag_combos : list (bool * bool * bool * bool) :=
  flat_map (fun st => flat_map (fun aec => flat_map (fun ale => map (fun an => (st, aec, ale, an)) bools) bools) bools) bools.

Definition outcomes (v : uval) : list N :=
  map (fun k => code_match (pmatch_val k v)) all_pat_names
  ++ map (fun f => let '(st, aec, ale, an) := f in code_res (check_or_raise_uri v st aec ale an)) uri_flag_combos
  ++ [code_res (check_or_raise_realm_name v true); code_res (check_or_raise_realm_name v false);
      code_cat (identify_realm_name_category v);
      code_res (check_or_raise_id v); code_res (check_or_raise_extra v); code_res (validate_kwargs v);
      b2n (is_valid_enc_algo v); b2n (is_valid_enc_serializer v)].

Fixpoint nlist_eqb (a b : list N) : bool :=
  match a, b with
  | [], [] => true
  | x :: a', y :: b' => (x =? y) && nlist_eqb a' b'
  | _, _ => false
  end.

(* the expected outcomes travel as ONE decimal numeral "1 d1 d2 ... d35" (a list literal per case is slow to parse) *)
Definition encode (l : list N) : N := fold_left (fun acc d => acc * 10 + d) l 1.

Definition uri_case := (uval * N)%type.
Definition uri_case_ok (c : uri_case) : bool := encode (outcomes (fst c)) =? snd c.

(* the grammar side, for the search that runs when a pattern theorem breaks: 1 where pattern k and the
   specification disagree on s *)
Definition spec_diff (s : list N) : list N :=
  map (fun k => b2n (negb (Bool.eqb (pmatch k s) (uri_spec k s)))) all_pat_names.

Definition spec_outcomes (s : list N) : list N := map (fun k => b2n (uri_spec k s)) all_pat_names.
Definition spec_case_ok (c : list N * list N) : bool := nlist_eqb (spec_outcomes (fst c)) (snd c).

(* enumeration inside Coq: all strings over an alphabet by increasing length, and the first (hence a shortest)
   string on which pattern k and the WAMP grammar disagree *)
Fixpoint strings_of_len (alpha : list N) (n : nat) : list (list N) :=
  match n with
  | O => [[]]
  | S n' => flat_map (fun c => map (cons c) (strings_of_len alpha n')) alpha
  end.
Definition strings_upto (alpha : list N) (n : nat) : list (list N) := flat_map (strings_of_len alpha) (seq 0 (S n)).
Definition first_diff (k : pat_name) (alpha : list N) (n : nat) : option (list N) :=
  find (fun s => negb (Bool.eqb (pmatch k s) (uri_spec k s))) (strings_upto alpha n).

(* ------------------------------------------------------------------------------------------------------------ *)
(* Bulk transport of string cases.  Coq elaborates list / numeral / string literals at roughly a millisecond per  *)
(* token, so the expected outcomes travel as a CLASS INDEX (two hex digits) into a table of the distinct outcome    *)
(* vectors (`table`, a few dozen numerals), and the exhaustively enumerated strings are rebuilt inside Coq from     *)
(* their index in itertools.product order.  Anything malformed or unknown makes the chunk fail.                     *)
(* ------------------------------------------------------------------------------------------------------------ *)
Definition hexval (c : N) : option N :=
  if (48 <=? c) && (c <=? 57) then Some (c - 48)
  else if (97 <=? c) && (c <=? 102) then Some (c - 87)
  else None.

Fixpoint index_of (table : list N) (v : N) (i : N) : N :=
  match table with
  | [] => 255
  | x :: r => if x =? v then i else index_of r v (N.succ i)
  end.
Definition class_of (table : list N) (s : list N) : N := index_of table (encode (outcomes (UStr s))) 0.

(* the k-th string of length len over alpha, in itertools.product order (first symbol most significant) *)
Fixpoint nth_string (alpha : list N) (len : nat) (k : N) : list N :=
  match len with
  | O => []
  | S l' => let p := N.of_nat (List.length alpha) ^ N.of_nat l' in
            nth (N.to_nat (k / p)) alpha 0 :: nth_string alpha l' (k mod p)
  end.

(* enumerated family: (length, first index, "hh hh hh ..." without blanks) *)
Record estate := { e_hi : option N; e_k : N; e_ok : bool }.
Definition estep (table alpha : list N) (len : nat) (st : estate) (a : ascii) : estate :=
  match hexval (N_of_ascii a) with
  | None => {| e_hi := None; e_k := e_k st; e_ok := false |}
  | Some d =>
    match e_hi st with
    | None => {| e_hi := Some d; e_k := e_k st; e_ok := e_ok st |}
    | Some h => {| e_hi := None; e_k := N.succ (e_k st);
                   e_ok := e_ok st && (class_of table (nth_string alpha len (e_k st)) =? h * 16 + d) |}
    end
  end.
Fixpoint efold (table alpha : list N) (len : nat) (st : estate) (s : string) : estate :=
  match s with
  | EmptyString => st
  | String a r => efold table alpha len (estep table alpha len st a) r
  end.
Definition enum_case := (nat * N * string)%type.
Definition enum_chunk_ok (table alpha : list N) (c : enum_case) : bool :=
  let '(len, start, lit) := c in
  let st := efold table alpha len {| e_hi := None; e_k := start; e_ok := true |} lit in
  e_ok st && match e_hi st with None => true | Some _ => false end.

(* explicit strings:  chunk ::= case*      case ::= (hex code point ",")* "=" h h ";"     e.g. "61,a,=07;" *)
Record dstate := { d_num : N; d_str : list N; d_out : option (list N); d_ok : bool }.
Definition dstep (table : list N) (st : dstate) (a : ascii) : dstate :=
  let c := N_of_ascii a in
  match d_out st with
  | None =>
      if c =? 44 then {| d_num := 0; d_str := d_num st :: d_str st; d_out := None; d_ok := d_ok st |}
      else if c =? 61 then {| d_num := 0; d_str := d_str st; d_out := Some []; d_ok := d_ok st && (d_num st =? 0) |}
      else match hexval c with
           | Some d => {| d_num := d_num st * 16 + d; d_str := d_str st; d_out := None; d_ok := d_ok st |}
           | None => {| d_num := 0; d_str := d_str st; d_out := None; d_ok := false |}
           end
  | Some ds =>
      if c =? 59 then
        {| d_num := 0; d_str := []; d_out := None;
           d_ok := d_ok st && match ds with
                              | [lo; hi] => class_of table (rev (d_str st)) =? hi * 16 + lo
                              | _ => false
                              end |}
      else match hexval c with
           | Some d => {| d_num := 0; d_str := d_str st; d_out := Some (d :: ds); d_ok := d_ok st |}
           | None => {| d_num := 0; d_str := d_str st; d_out := Some ds; d_ok := false |}
           end
  end.
Fixpoint dfold (table : list N) (st : dstate) (s : string) : dstate :=
  match s with
  | EmptyString => st
  | String a r => dfold table (dstep table st a) r
  end.
Definition uri_chunk_ok (table : list N) (s : string) : bool :=
  let st := dfold table {| d_num := 0; d_str := []; d_out := None; d_ok := true |} s in
  d_ok st && (d_num st =? 0) && match d_str st with [] => true | _ => false end
  && match d_out st with None => true | Some _ => false end.
