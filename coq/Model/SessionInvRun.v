(* Executable entry points used by the C10 correspondence run (harness/props/c10.py):
   a case = flavour, the transport's classification table, the exception registry, the history, and the
   outputs observed on the real ApplicationSession; inv_case_ok recomputes the outputs with the model. *)
From Coq Require Import NArith List Bool.
From AV Require Import Model.SessionInv.
Import ListNotations.
Open Scope N_scope.

(* send() described by what it does with a normal / un-serializable / oversized message
   (serialization comes first in every transport, so un-serializable wins over oversized) *)
Definition tbl := (sres * sres * sres)%type.
Definition classify_tbl (t : tbl) (m : wmsg) : sres :=
  let '(n, u, b) := t in
  if p_unser (m_payload m) then u else if p_big (m_payload m) then b else n.

Definition fbkind_eqb (a b : fbkind) : bool :=
  match a, b with
  | FbSuccessSer, FbSuccessSer | FbErrorSer, FbErrorSer | FbExceeded, FbExceeded => true
  | _, _ => false
  end.
Fixpoint payload_eqb (a b : payload) : bool :=
  match a, b with
  | PVal i u g, PVal i' u' g' => (i =? i') && eqb u u' && eqb g g'
  | PNone, PNone | PEmpty, PEmpty | PText, PText => true
  | PFallback k, PFallback k' => fbkind_eqb k k'
  | PSelf o p, PSelf o' p' => (o =? o') && payload_eqb p p'
  | _, _ => false
  end.
Definition uri_eqb (a b : uri) : bool :=
  match a, b with
  | UApp x, UApp y => x =? y
  | URuntime, URuntime | UInvalidPayload, UInvalidPayload | UPayloadExceeded, UPayloadExceeded | UTypeCheck, UTypeCheck => true
  | _, _ => false
  end.
Definition wmsg_eqb (a b : wmsg) : bool :=
  match a, b with
  | MYield r s p g, MYield r' s' p' g' => (r =? r') && eqb s s' && payload_eqb p p' && eqb g g'
  | MError r u p, MError r' u' p' => (r =? r') && uri_eqb u u' && payload_eqb p p'
  | _, _ => false
  end.
Definition xcls_eqb (a b : xcls) : bool :=
  match a, b with
  | XProtocolError, XProtocolError | XKeyError, XKeyError | XAttributeError, XAttributeError
  | XTypeError, XTypeError | XSerializationError, XSerializationError | XPayloadExceeded, XPayloadExceeded => true
  | XOther x, XOther y => x =? y
  | _, _ => false
  end.
Definition where_eqb (a b : where_) : bool :=
  match a, b with InOnMessage, InOnMessage | InCallback, InCallback => true | _, _ => false end.
Definition on_eqb (a b : option N) : bool :=
  match a, b with None, None => true | Some x, Some y => x =? y | _, _ => false end.
Definition ob_eqb (a b : option bool) : bool :=
  match a, b with None, None => true | Some x, Some y => eqb x y | _, _ => false end.
Definition idet_eqb (a b : idet) : bool :=
  let '(c, u, p) := a in let '(c', u', p') := b in on_eqb c c' && on_eqb u u' && on_eqb p p'.
Definition cdet_eqb (a b : cdet) : bool :=
  let '(c, u, p) := a in let '(c', u', p') := b in on_eqb c c' && on_eqb u u' && (p =? p').
Definition det_eqb (a b : option (cdet * bool)) : bool :=
  match a, b with
  | None, None => true
  | Some (c, p), Some (c', p') => cdet_eqb c c' && eqb p p'
  | _, _ => false
  end.
Definition out_eqb (a b : out) : bool :=
  match a, b with
  | OAccepted k r g a c p w, OAccepted k' r' g' a' c' p' w' =>
      (k =? k') && (r =? r') && (g =? g') && payload_eqb a a' && idet_eqb c c' && ob_eqb p p' && eqb w w'
  | OCalled k r g a d, OCalled k' r' g' a' d' => (k =? k') && (r =? r') && (g =? g') && payload_eqb a a' && det_eqb d d'
  | OSent m, OSent m' => wmsg_eqb m m'
  | ORaised w x, ORaised w' x' => where_eqb w w' && xcls_eqb x x'
  | OProgRaised k x, OProgRaised k' x' => (k =? k') && xcls_eqb x x'
  | _, _ => false
  end.
Fixpoint outs_eqb (a b : list out) : bool :=
  match a, b with
  | [], [] => true
  | x :: a', y :: b' => out_eqb x y && outs_eqb a' b'
  | _, _ => false
  end.

(* which send(): a scripted table (fake transport) or the model of one of the real transports *)
Inductive cspec := CTbl (t : tbl) | CWs | CRsTx | CRsAio.
Definition classify_of (c : cspec) : wmsg -> sres :=
  match c with
  | CTbl t => classify_tbl t
  | CWs => ws_send
  | CRsTx => rs_tx_send
  | CRsAio => rs_aio_send
  end.

Definition inv_case := (flavour * cspec * list (N * N) * list op * list out)%type.
Definition inv_model (c : inv_case) : list out :=
  let '(fl, t, ecls, ops, _) := c in snd (run (classify_of t) ecls fl init ops).
Definition inv_case_ok (c : inv_case) : bool :=
  let '(_, _, _, _, expected) := c in outs_eqb (inv_model c) expected.
