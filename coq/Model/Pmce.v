(* Model of WebSocket per-message compression (definitions only; proofs in Proofs/PmceProofs.v).
   Sources mirrored (each clause carries its anchor):
     src/autobahn/websocket/compress_deflate.py   Offer / OfferAccept / Response / ResponseAccept / PerMessageDeflate
     src/autobahn/websocket/compress_bzip2.py     the same five classes for permessage-bzip2
     src/autobahn/websocket/compress_brotli.py    the same five classes for permessage-brotli
     src/autobahn/websocket/compress_snappy.py    the same five classes for permessage-snappy (negotiation text-identical
                                                  to brotli; only the codec calls differ)
     src/autobahn/websocket/compress.py           PERMESSAGE_COMPRESSION_EXTENSION (generated: Gen/PmceConsts.installed)
     src/autobahn/websocket/protocol.py           server succeedHandshake (extension part), client processHandshake
                                                  (extension part), sendMessage / beginMessage.. (compression path),
                                                  processData RSV checks, onFrameBegin / onFrameData / onFrameEnd
   Conventions: Python exceptions are explicit ([Ok x | Raise e]); octets are N; window bits / levels are Z
   (0 is the code's own in-band marker for "not requested"); [None] overrides are [option].
   Not modelled (typing): the `type(x) != bool` / isinstance checks of the constructors - the model's arguments
   are typed; non-int numbers (9.0 `in` [9..15] is True in Python) are outside the model. *)
From Coq Require Import ZArith NArith List Bool String Ascii.
From AV Require Import Gen.PmceConsts.
Import ListNotations.
Open Scope Z_scope.

Definition bytes := list N.

Inductive on_what := OnNone | OnFinished.
Inductive exn :=
| EInvalidValue          (* ctor: "invalid value .. - permissible values .." *)
| EUnsupportedByClient   (* ctor OfferAccept: "feature unsupported by client" *)
| EPeerRequested         (* ctor: "client requested feature" / "client requested lower maximum value" /
                            "server requested feature" / "server requested lower maximum value" *)
| EMultipleParam         (* parse: "multiple occurrence of extension parameter" *)
| EIllegalValue          (* parse: "illegal extension parameter value" *)
| EIllegalParam          (* parse: "illegal extension parameter" *)
| EIndex                 (* parse: params[p][0] on an empty list (unreachable through _parseExtensionsHeader) *)
| ETypestate (w : on_what)  (* a codec method invoked on a missing (AttributeError on None) or finished
                               (brotli.error / ValueError / EOFError) library object *)
| ECodec.                (* the decompression library rejects the data *)

Inductive res (A : Type) := Ok (a : A) | Raise (e : exn).
Arguments Ok {A} a.
Arguments Raise {A} e.

Definition bind {A B} (r : res A) (f : A -> res B) : res B :=
  match r with Ok a => f a | Raise e => Raise e end.

Definition is_ok {A} (r : res A) : bool := match r with Ok _ => true | Raise _ => false end.
Definition obind {A B} (r : option A) (f : A -> option B) : option B :=
  match r with Some a => f a | None => None end.

(* ------------------------------------------------------------------------------------------------ *)
(** * Extension parameters as delivered by protocol.py: _parseExtensionsHeader *)

(* the parameter names the four extensions know; any other (lower-cased, stripped) name is [KOther] *)
Inductive pkey :=
| KClientMWB | KClientNCT | KServerMWB | KServerNCT       (* deflate (NCT also brotli / snappy) *)
| KClientMCL | KServerMCL                                 (* bzip2 *)
| KOther (s : string).

Definition key_string (k : pkey) : string :=
  match k with
  | KClientMWB => "client_max_window_bits"
  | KClientNCT => "client_no_context_takeover"
  | KServerMWB => "server_max_window_bits"
  | KServerNCT => "server_no_context_takeover"
  | KClientMCL => "client_max_compress_level"
  | KServerMCL => "server_max_compress_level"
  | KOther s => s
  end%string.

Definition key_of_string (s : string) : pkey :=
  if String.eqb s "client_max_window_bits" then KClientMWB
  else if String.eqb s "client_no_context_takeover" then KClientNCT
  else if String.eqb s "server_max_window_bits" then KServerMWB
  else if String.eqb s "server_no_context_takeover" then KServerNCT
  else if String.eqb s "client_max_compress_level" then KClientMCL
  else if String.eqb s "server_max_compress_level" then KServerMCL
  else KOther s.

Definition pkey_eqb (a b : pkey) : bool :=
  match a, b with
  | KClientMWB, KClientMWB | KClientNCT, KClientNCT | KServerMWB, KServerMWB | KServerNCT, KServerNCT
  | KClientMCL, KClientMCL | KServerMCL, KServerMCL => true
  | KOther s, KOther t => String.eqb s t
  | _, _ => false
  end.

(* a parameter value: `True` for a valueless parameter, otherwise the (unquoted) text after '=' *)
Inductive pval := VTrue | VStr (s : string).

(* params: the insertion-ordered dict  key -> [values in order of appearance] *)
Definition params := list (pkey * list pval).

(* one "; key" or "; key=value" token of an extension string *)
Definition token := (pkey * option string)%type.

(* protocol.py: _parseExtensionsHeader, the dict fill
     if key not in params: params[key] = [] ; params[key].append(value)
   (the splitting on ',' ';' '=', strip, lower and quote removal before it belong to the handshake model, C07) *)
Fixpoint params_add (ps : params) (k : pkey) (v : pval) : params :=
  match ps with
  | [] => [(k, [v])]
  | (k', vs) :: r => if pkey_eqb k' k then (k', vs ++ [v]) :: r else (k', vs) :: params_add r k v
  end.
Definition tok_val (o : option string) : pval := match o with None => VTrue | Some s => VStr s end.
Definition params_of_tokens (ts : list token) : params :=
  fold_left (fun ps t => params_add ps (fst t) (tok_val (snd t))) ts [].

(* f"{n}" of a Python int *)
Definition digit_char (d : N) : ascii := ascii_of_N (48 + d).
Fixpoint dec_digits (fuel : nat) (n : N) (acc : string) : string :=
  match fuel with
  | O => acc
  | S f => let acc' := String (digit_char (n mod 10)) acc in
           if (n / 10 =? 0)%N then acc' else dec_digits f (n / 10)%N acc'
  end.
Definition dec_N (n : N) : string := dec_digits (S (N.size_nat n)) n EmptyString.
Definition dec_string (z : Z) : string :=
  match z with
  | Z0 => "0"%string
  | Zpos p => dec_N (Npos p)
  | Zneg p => String "-"%char (dec_N (Npos p))
  end.

(* A concrete reading of Python's int(str) on ASCII input (used to RUN the model; the theorems take int() as an
   oracle [py_int] with the one law they need).  Accepts: optional ASCII whitespace around, optional sign,
   decimal digits with single underscores between digits ("+10", "010", "1_0", " 10 ").  Python additionally
   accepts non-ASCII decimal digits and whitespace: not modelled (declared in the evidence). *)
Definition is_space (c : ascii) : bool :=
  let n := N_of_ascii c in ((n =? 32) || ((9 <=? n) && (n <=? 13)))%N.
Definition digit_of (c : ascii) : option N :=
  let n := N_of_ascii c in if ((48 <=? n) && (n <=? 57))%N then Some (n - 48)%N else None.
Fixpoint lstrip (s : string) : string :=
  match s with String c r => if is_space c then lstrip r else s | EmptyString => s end.
(* digits (with single interior underscores) followed only by whitespace *)
Fixpoint only_space (s : string) : bool :=
  match s with EmptyString => true | String c r => is_space c && only_space r end.
Fixpoint int_digits (s : string) (acc : N) (prev_digit : bool) : option N :=
  match s with
  | EmptyString => if prev_digit then Some acc else None
  | String c r =>
      match digit_of c with
      | Some d => int_digits r (acc * 10 + d)%N true
      | None => if (N_of_ascii c =? 95)%N then (if prev_digit then int_digits r acc false else None)
                else if prev_digit && is_space c && only_space r then Some acc else None
      end
  end.
Definition ascii_int (s : string) : option Z :=
  match lstrip s with
  | String "+"%char r => option_map Z.of_N (int_digits r 0%N false)
  | String "-"%char r => option_map (fun n => - Z.of_N n) (int_digits r 0%N false)
  | r => option_map Z.of_N (int_digits r 0%N false)
  end.

Definition permissible (l : list Z) (z : Z) : bool := existsb (Z.eqb z) l.

(* int(val): val is `True` for a valueless parameter and int(True) = 1 *)
Definition int_of_pval (py_int : string -> option Z) (v : pval) : option Z :=
  match v with VTrue => Some 1 | VStr s => py_int s end.

(* ------------------------------------------------------------------------------------------------ *)
(** * permessage-deflate: the four parameter records (compress_deflate.py) *)

Record d_offer := { o_acc_nct : bool; o_acc_mwb : bool; o_req_nct : bool; o_req_mwb : Z }.

(* PerMessageDeflateOffer.__init__ *)
Definition d_offer_ctor (acc_nct acc_mwb req_nct : bool) (req_mwb : Z) : res d_offer :=
  if negb (req_mwb =? 0) && negb (permissible window_permissible req_mwb) then Raise EInvalidValue
  else Ok {| o_acc_nct := acc_nct; o_acc_mwb := acc_mwb; o_req_nct := req_nct; o_req_mwb := req_mwb |}.

(* PerMessageDeflateOffer.get_extension_string (parameters in source order) *)
Definition d_offer_string (o : d_offer) : list token :=
  (if o_acc_nct o then [(KClientNCT, None)] else []) ++
  (if o_acc_mwb o then [(KClientMWB, None)] else []) ++
  (if o_req_nct o then [(KServerNCT, None)] else []) ++
  (if negb (o_req_mwb o =? 0) then [(KServerMWB, Some (dec_string (o_req_mwb o)))] else []).

Record d_accept := {
  a_offer : d_offer; a_req_nct : bool; a_req_mwb : Z;
  a_nct : option bool; a_wbits : option Z; a_mem : option Z; a_maxmsg : option N }.

(* PerMessageDeflateOfferAccept.__init__, checks in source order *)
Definition d_accept_ctor (o : d_offer) (req_nct : bool) (req_mwb : Z) (nct : option bool) (wbits mem : option Z)
           (maxmsg : option N) : res d_accept :=
  if req_nct && negb (o_acc_nct o) then Raise EUnsupportedByClient
  else if negb (req_mwb =? 0) && negb (permissible window_permissible req_mwb) then Raise EInvalidValue
  else if negb (req_mwb =? 0) && negb (o_acc_mwb o) then Raise EUnsupportedByClient
  else if match nct with Some v => o_req_nct o && negb v | None => false end then Raise EPeerRequested
  else if match wbits with Some w => negb (permissible window_permissible w) | None => false end then Raise EInvalidValue
  else if match wbits with Some w => negb (o_req_mwb o =? 0) && (w >? o_req_mwb o) | None => false end
       then Raise EPeerRequested
  else if match mem with Some m => negb (permissible mem_permissible m) | None => false end then Raise EInvalidValue
  else Ok {| a_offer := o; a_req_nct := req_nct; a_req_mwb := req_mwb; a_nct := nct; a_wbits := wbits;
             a_mem := mem; a_maxmsg := maxmsg |}.

(* PerMessageDeflateOfferAccept.get_extension_string *)
Definition d_accept_string (a : d_accept) : list token :=
  (if o_req_nct (a_offer a) then [(KServerNCT, None)] else []) ++
  (if negb (o_req_mwb (a_offer a) =? 0) then [(KServerMWB, Some (dec_string (o_req_mwb (a_offer a))))] else []) ++
  (if a_req_nct a then [(KClientNCT, None)] else []) ++
  (if negb (a_req_mwb a =? 0) then [(KClientMWB, Some (dec_string (a_req_mwb a)))] else []).

Record d_response := { r_client_mwb : Z; r_client_nct : bool; r_server_mwb : Z; r_server_nct : bool }.

Record d_raccept := {
  ra_response : d_response; ra_nct : option bool; ra_wbits : option Z; ra_mem : option Z; ra_maxmsg : option N }.

(* PerMessageDeflateResponseAccept.__init__ *)
Definition d_raccept_ctor (r : d_response) (nct : option bool) (wbits mem : option Z) (maxmsg : option N)
  : res d_raccept :=
  if match nct with Some v => r_client_nct r && negb v | None => false end then Raise EPeerRequested
  else if match wbits with Some w => negb (permissible window_permissible w) | None => false end then Raise EInvalidValue
  else if match wbits with Some w => negb (r_client_mwb r =? 0) && (w >? r_client_mwb r) | None => false end
       then Raise EPeerRequested
  else if match mem with Some m => negb (permissible mem_permissible m) | None => false end then Raise EInvalidValue
  else Ok {| ra_response := r; ra_nct := nct; ra_wbits := wbits; ra_mem := mem; ra_maxmsg := maxmsg |}.

(* the negotiated settings object: PerMessageDeflate.__init__ *)
Record d_settings := {
  s_is_server : bool; s_server_nct : bool; s_client_nct : bool;
  s_server_mwb : Z; s_client_mwb : Z; s_mem : Z; s_maxmsg : option N }.

Definition d_pmce (is_server snct cnct : bool) (smwb cmwb : Z) (mem : option Z) (maxmsg : option N) : d_settings :=
  {| s_is_server := is_server; s_server_nct := snct; s_client_nct := cnct;
     s_server_mwb := if smwb =? 0 then default_window_bits else smwb;
     s_client_mwb := if cmwb =? 0 then default_window_bits else cmwb;
     (* mem_level if mem_level else DEFAULT_MEM_LEVEL : None and 0 are both falsy *)
     s_mem := match mem with Some m => if m =? 0 then default_mem_level else m | None => default_mem_level end;
     s_maxmsg := maxmsg |}.

(* PerMessageDeflate.create_from_offer_accept *)
Definition d_from_offer_accept (is_server : bool) (a : d_accept) : d_settings :=
  d_pmce is_server
         (match a_nct a with Some v => v | None => o_req_nct (a_offer a) end)
         (a_req_nct a)
         (match a_wbits a with Some w => w | None => o_req_mwb (a_offer a) end)
         (a_req_mwb a)
         (a_mem a) (a_maxmsg a).

(* PerMessageDeflate.create_from_response_accept *)
Definition d_from_response_accept (is_server : bool) (ra : d_raccept) : d_settings :=
  d_pmce is_server
         (r_server_nct (ra_response ra))
         (match ra_nct ra with Some v => v | None => r_client_nct (ra_response ra) end)
         (r_server_mwb (ra_response ra))
         (match ra_wbits ra with Some w => w | None => r_client_mwb (ra_response ra) end)
         (ra_mem ra) (ra_maxmsg ra).

(* which parameter each side uses: start_compress_message / start_decompress_message *)
Definition comp_window (s : d_settings) : Z := if s_is_server s then s_server_mwb s else s_client_mwb s.
Definition decomp_window (s : d_settings) : Z := if s_is_server s then s_client_mwb s else s_server_mwb s.
Definition comp_nct (s : d_settings) : bool := if s_is_server s then s_server_nct s else s_client_nct s.
Definition decomp_nct (s : d_settings) : bool := if s_is_server s then s_client_nct s else s_server_nct s.

(* ------------------------------------------------------------------------------------------------ *)
(** * bzip2 records (compress_bzip2.py) *)

Record b_offer := { bo_acc_mcl : bool; bo_req_mcl : Z }.
Definition b_offer_ctor (acc : bool) (req : Z) : res b_offer :=
  if negb (req =? 0) && negb (permissible level_permissible req) then Raise EInvalidValue
  else Ok {| bo_acc_mcl := acc; bo_req_mcl := req |}.
Definition b_offer_string (o : b_offer) : list token :=
  (if bo_acc_mcl o then [(KClientMCL, None)] else []) ++
  (if negb (bo_req_mcl o =? 0) then [(KServerMCL, Some (dec_string (bo_req_mcl o)))] else []).

Record b_accept := { ba_offer : b_offer; ba_req_mcl : Z; ba_level : option Z }.
Definition b_accept_ctor (o : b_offer) (req : Z) (level : option Z) : res b_accept :=
  if negb (req =? 0) && negb (permissible level_permissible req) then Raise EInvalidValue
  else if negb (req =? 0) && negb (bo_acc_mcl o) then Raise EUnsupportedByClient
  else if match level with Some l => negb (permissible level_permissible l) | None => false end then Raise EInvalidValue
  else if match level with Some l => negb (bo_req_mcl o =? 0) && (l >? bo_req_mcl o) | None => false end
       then Raise EPeerRequested
  else Ok {| ba_offer := o; ba_req_mcl := req; ba_level := level |}.
Definition b_accept_string (a : b_accept) : list token :=
  (if negb (bo_req_mcl (ba_offer a) =? 0) then [(KServerMCL, Some (dec_string (bo_req_mcl (ba_offer a))))] else []) ++
  (if negb (ba_req_mcl a =? 0) then [(KClientMCL, Some (dec_string (ba_req_mcl a)))] else []).

Record b_response := { br_client_mcl : Z; br_server_mcl : Z }.
Record b_raccept := { bra_response : b_response; bra_level : option Z }.
Definition b_raccept_ctor (r : b_response) (level : option Z) : res b_raccept :=
  if match level with Some l => negb (permissible level_permissible l) | None => false end then Raise EInvalidValue
  else if match level with Some l => negb (br_client_mcl r =? 0) && (l >? br_client_mcl r) | None => false end
       then Raise EPeerRequested
  else Ok {| bra_response := r; bra_level := level |}.

Record b_settings := { bs_is_server : bool; bs_server_mcl : Z; bs_client_mcl : Z }.
Definition b_pmce (is_server : bool) (s c : Z) : b_settings :=
  {| bs_is_server := is_server;
     bs_server_mcl := if s =? 0 then default_compress_level else s;
     bs_client_mcl := if c =? 0 then default_compress_level else c |}.
Definition b_from_offer_accept (is_server : bool) (a : b_accept) : b_settings :=
  b_pmce is_server (match ba_level a with Some l => l | None => bo_req_mcl (ba_offer a) end) (ba_req_mcl a).
Definition b_from_response_accept (is_server : bool) (ra : b_raccept) : b_settings :=
  b_pmce is_server (br_server_mcl (bra_response ra))
         (match bra_level ra with Some l => l | None => br_client_mcl (bra_response ra) end).

(* ------------------------------------------------------------------------------------------------ *)
(** * brotli / snappy records (compress_brotli.py, compress_snappy.py: only no_context_takeover) *)

Record n_offer := { no_acc_nct : bool; no_req_nct : bool }.
Definition n_offer_string (o : n_offer) : list token :=
  (if no_acc_nct o then [(KClientNCT, None)] else []) ++ (if no_req_nct o then [(KServerNCT, None)] else []).
Record n_accept := { na_offer : n_offer; na_req_nct : bool; na_nct : option bool }.
Definition n_accept_ctor (o : n_offer) (req_nct : bool) (nct : option bool) : res n_accept :=
  if req_nct && negb (no_acc_nct o) then Raise EUnsupportedByClient
  else if match nct with Some v => no_req_nct o && negb v | None => false end then Raise EPeerRequested
  else Ok {| na_offer := o; na_req_nct := req_nct; na_nct := nct |}.
Definition n_accept_string (a : n_accept) : list token :=
  (if no_req_nct (na_offer a) then [(KServerNCT, None)] else []) ++ (if na_req_nct a then [(KClientNCT, None)] else []).
Record n_response := { nr_client_nct : bool; nr_server_nct : bool }.
Record n_raccept := { nra_response : n_response; nra_nct : option bool }.
Definition n_raccept_ctor (r : n_response) (nct : option bool) : res n_raccept :=
  if match nct with Some v => nr_client_nct r && negb v | None => false end then Raise EPeerRequested
  else Ok {| nra_response := r; nra_nct := nct |}.
Record n_settings := { ns_is_server : bool; ns_server_nct : bool; ns_client_nct : bool }.
Definition n_from_offer_accept (is_server : bool) (a : n_accept) : n_settings :=
  {| ns_is_server := is_server;
     ns_server_nct := match na_nct a with Some v => v | None => no_req_nct (na_offer a) end;
     ns_client_nct := na_req_nct a |}.
Definition n_from_response_accept (is_server : bool) (ra : n_raccept) : n_settings :=
  {| ns_is_server := is_server;
     ns_server_nct := nr_server_nct (nra_response ra);
     ns_client_nct := match nra_nct ra with Some v => v | None => nr_client_nct (nra_response ra) end |}.
Definition n_comp_nct (s : n_settings) : bool := if ns_is_server s then ns_server_nct s else ns_client_nct s.
Definition n_decomp_nct (s : n_settings) : bool := if ns_is_server s then ns_client_nct s else ns_server_nct s.

(* ------------------------------------------------------------------------------------------------ *)
(** * parse(): Offer.parse and Response.parse of each extension, over the int() oracle *)

Section Parse.
  Variable py_int : string -> option Z.

  (* the common head of every loop body:
       if len(params[p]) > 1: raise ; val = params[p][0] *)
  Definition single (vs : list pval) : res pval :=
    match vs with
    | [] => Raise EIndex
    | [v] => Ok v
    | _ :: _ :: _ => Raise EMultipleParam
    end.

  Definition flag (v : pval) : res unit := match v with VTrue => Ok tt | VStr _ => Raise EIllegalValue end.

  (* try: val = int(val) except: raise ; if val not in <permissible>: raise *)
  Definition int_in (l : list Z) (v : pval) : res Z :=
    match int_of_pval py_int v with
    | None => Raise EIllegalValue
    | Some z => if permissible l z then Ok z else Raise EIllegalValue
    end.

  (* PerMessageDeflateOffer.parse : state (accept_max_window_bits, accept_no_context_takeover,
     request_max_window_bits, request_no_context_takeover), defaults (False, True, 0, False) *)
  Fixpoint d_offer_parse_loop (ps : params) (acc_mwb acc_nct : bool) (req_mwb : Z) (req_nct : bool)
    : res d_offer :=
    match ps with
    | [] => d_offer_ctor acc_nct acc_mwb req_nct req_mwb
    | (k, vs) :: r =>
        bind (single vs) (fun v =>
        match k with
        | KClientMWB =>
            match v with
            | VTrue => d_offer_parse_loop r true acc_nct req_mwb req_nct
            | VStr _ => bind (int_in window_permissible v) (fun _ => d_offer_parse_loop r true acc_nct req_mwb req_nct)
            end
        | KClientNCT => bind (flag v) (fun _ => d_offer_parse_loop r acc_mwb true req_mwb req_nct)
        | KServerMWB => bind (int_in window_permissible v) (fun z => d_offer_parse_loop r acc_mwb acc_nct z req_nct)
        | KServerNCT => bind (flag v) (fun _ => d_offer_parse_loop r acc_mwb acc_nct req_mwb true)
        | _ => Raise EIllegalParam
        end)
    end.
  Definition d_offer_parse (ps : params) : res d_offer := d_offer_parse_loop ps false true 0 false.

  (* PerMessageDeflateResponse.parse *)
  Fixpoint d_response_parse_loop (ps : params) (c_mwb : Z) (c_nct : bool) (s_mwb : Z) (s_nct : bool)
    : res d_response :=
    match ps with
    | [] => Ok {| r_client_mwb := c_mwb; r_client_nct := c_nct; r_server_mwb := s_mwb; r_server_nct := s_nct |}
    | (k, vs) :: r =>
        bind (single vs) (fun v =>
        match k with
        | KClientMWB => bind (int_in window_permissible v) (fun z => d_response_parse_loop r z c_nct s_mwb s_nct)
        | KClientNCT => bind (flag v) (fun _ => d_response_parse_loop r c_mwb true s_mwb s_nct)
        | KServerMWB => bind (int_in window_permissible v) (fun z => d_response_parse_loop r c_mwb c_nct z s_nct)
        | KServerNCT => bind (flag v) (fun _ => d_response_parse_loop r c_mwb c_nct s_mwb true)
        | _ => Raise EIllegalParam
        end)
    end.
  Definition d_response_parse (ps : params) : res d_response := d_response_parse_loop ps 0 false 0 false.

  (* PerMessageBzip2Offer.parse *)
  Fixpoint b_offer_parse_loop (ps : params) (acc : bool) (req : Z) : res b_offer :=
    match ps with
    | [] => b_offer_ctor acc req
    | (k, vs) :: r =>
        bind (single vs) (fun v =>
        match k with
        | KClientMCL => bind (flag v) (fun _ => b_offer_parse_loop r true req)
        | KServerMCL => bind (int_in level_permissible v) (fun z => b_offer_parse_loop r acc z)
        | _ => Raise EIllegalParam
        end)
    end.
  Definition b_offer_parse (ps : params) : res b_offer := b_offer_parse_loop ps false 0.

  (* PerMessageBzip2Response.parse *)
  Fixpoint b_response_parse_loop (ps : params) (c s : Z) : res b_response :=
    match ps with
    | [] => Ok {| br_client_mcl := c; br_server_mcl := s |}
    | (k, vs) :: r =>
        bind (single vs) (fun v =>
        match k with
        | KClientMCL => bind (int_in level_permissible v) (fun z => b_response_parse_loop r z s)
        | KServerMCL => bind (int_in level_permissible v) (fun z => b_response_parse_loop r c z)
        | _ => Raise EIllegalParam
        end)
    end.
  Definition b_response_parse (ps : params) : res b_response := b_response_parse_loop ps 0 0.

  (* PerMessageBrotliOffer.parse / PerMessageSnappyOffer.parse : defaults (False, False) *)
  Fixpoint n_offer_parse_loop (ps : params) (acc req : bool) : res n_offer :=
    match ps with
    | [] => Ok {| no_acc_nct := acc; no_req_nct := req |}
    | (k, vs) :: r =>
        bind (single vs) (fun v =>
        match k with
        | KClientNCT => bind (flag v) (fun _ => n_offer_parse_loop r true req)
        | KServerNCT => bind (flag v) (fun _ => n_offer_parse_loop r acc true)
        | _ => Raise EIllegalParam
        end)
    end.
  Definition n_offer_parse (ps : params) : res n_offer := n_offer_parse_loop ps false false.

  (* PerMessageBrotliResponse.parse / PerMessageSnappyResponse.parse *)
  Fixpoint n_response_parse_loop (ps : params) (c s : bool) : res n_response :=
    match ps with
    | [] => Ok {| nr_client_nct := c; nr_server_nct := s |}
    | (k, vs) :: r =>
        bind (single vs) (fun v =>
        match k with
        | KClientNCT => bind (flag v) (fun _ => n_response_parse_loop r true s)
        | KServerNCT => bind (flag v) (fun _ => n_response_parse_loop r c true)
        | _ => Raise EIllegalParam
        end)
    end.
  Definition n_response_parse (ps : params) : res n_response := n_response_parse_loop ps false false.

  (* ---------------------------------------------------------------------------------------------- *)
  (** ** the extension part of the two handshakes (protocol.py) *)

  Inductive any_offer := OfD (o : d_offer) | OfB (o : b_offer) | OfR (o : n_offer) | OfS (o : n_offer).
  Inductive any_accept := AcD (a : d_accept) | AcB (a : b_accept) | AcR (a : n_accept) | AcS (a : n_accept).
  Inductive any_response := ReD (r : d_response) | ReB (r : b_response) | ReR (r : n_response) | ReS (r : n_response).
  Inductive any_raccept := RaD (a : d_raccept) | RaB (a : b_raccept) | RaR (a : n_raccept) | RaS (a : n_raccept).
  Inductive any_settings := SeD (s : d_settings) | SeB (s : b_settings) | SeR (s : n_settings) | SeS (s : n_settings).

  Definition ext_eqb (a b : ext) : bool :=
    match a, b with XDeflate, XDeflate | XBzip2, XBzip2 | XBrotli, XBrotli | XSnappy, XSnappy => true | _, _ => false end.

  (* `extension in PERMESSAGE_COMPRESSION_EXTENSION` for a lower-cased name; [reg] = the registry (installed) *)
  Definition lookup_ext (reg : list ext) (name : string) : option ext :=
    find (fun x => String.eqb (ext_name x) name) reg.

  Definition parse_offer (x : ext) (ps : params) : res any_offer :=
    match x with
    | XDeflate => bind (d_offer_parse ps) (fun o => Ok (OfD o))
    | XBzip2 => bind (b_offer_parse ps) (fun o => Ok (OfB o))
    | XBrotli => bind (n_offer_parse ps) (fun o => Ok (OfR o))
    | XSnappy => bind (n_offer_parse ps) (fun o => Ok (OfS o))
    end.
  Definition parse_response (x : ext) (ps : params) : res any_response :=
    match x with
    | XDeflate => bind (d_response_parse ps) (fun o => Ok (ReD o))
    | XBzip2 => bind (b_response_parse ps) (fun o => Ok (ReB o))
    | XBrotli => bind (n_response_parse ps) (fun o => Ok (ReR o))
    | XSnappy => bind (n_response_parse ps) (fun o => Ok (ReS o))
    end.

  Definition accept_ext (a : any_accept) : ext :=
    match a with AcD _ => XDeflate | AcB _ => XBzip2 | AcR _ => XBrotli | AcS _ => XSnappy end.
  Definition accept_string (a : any_accept) : string * list token :=
    match a with
    | AcD a => (deflate_name, d_accept_string a)
    | AcB a => (bzip2_name, b_accept_string a)
    | AcR a => (brotli_name, n_accept_string a)
    | AcS a => (snappy_name, n_accept_string a)
    end.
  Definition offer_string (o : any_offer) : string * list token :=
    match o with
    | OfD o => (deflate_name, d_offer_string o)
    | OfB o => (bzip2_name, b_offer_string o)
    | OfR o => (brotli_name, n_offer_string o)
    | OfS o => (snappy_name, n_offer_string o)
    end.
  Definition from_offer_accept (is_server : bool) (a : any_accept) : any_settings :=
    match a with
    | AcD a => SeD (d_from_offer_accept is_server a)
    | AcB a => SeB (b_from_offer_accept is_server a)
    | AcR a => SeR (n_from_offer_accept is_server a)
    | AcS a => SeS (n_from_offer_accept is_server a)
    end.

  (* server: succeedHandshake, "handle WebSocket extensions" loop.
     unknown extension names are skipped; a parse error fails the handshake *)
  Fixpoint collect_offers (reg : list ext) (exts : list (string * params)) : res (list any_offer) :=
    match exts with
    | [] => Ok []
    | (name, ps) :: r =>
        match lookup_ext reg name with
        | None => collect_offers reg r
        | Some x => bind (parse_offer x ps) (fun o => bind (collect_offers reg r) (fun os => Ok (o :: os)))
        end
    end.

  Inductive server_outcome :=
  | SFail (e : exn)                                     (* failHandshake(str(e)) *)
  | SNoPmce                                             (* 101 without Sec-WebSocket-Extensions *)
  | SPmce (s : any_settings) (resp : string * list token).   (* _perMessageCompress, the response extension string *)

  (* [policy] = the application's perMessageCompressionAccept(offers) (not called when there is no offer) *)
  Definition server_negotiate (reg : list ext) (exts : list (string * params))
             (policy : list any_offer -> option any_accept) : server_outcome :=
    match collect_offers reg exts with
    | Raise e => SFail e
    | Ok [] => SNoPmce
    | Ok (o :: os) =>
        match policy (o :: os) with
        | None => SNoPmce
        | Some a => SPmce (from_offer_accept true a) (accept_string a)
        end
    end.

  Inductive client_fail :=
  | CUnknownExtension          (* 'server wants to use extension ".." we did not request, have not implemented ..' *)
  | CMultiplePmce              (* "multiple occurrence of a permessage-compress extension" *)
  | CParse (e : exn)           (* failHandshake(str(e)) from Response.parse *)
  | CDenied.                   (* "permessage-compress extension response from server denied by client" *)

  Inductive client_outcome :=
  | CFail (why : client_fail)
  | COpen (s : option any_settings)
  | CEscaped.  (* the policy returned an accept object of another extension's class: AttributeError out of
                  create_from_response_accept *)

  (* create_from_response_accept of the class registered for [x], applied to what the policy returned *)
  Definition from_response_accept (x : ext) (is_server : bool) (ra : any_raccept) : option any_settings :=
    match x, ra with
    | XDeflate, RaD a => Some (SeD (d_from_response_accept is_server a))
    | XBzip2, RaB a => Some (SeB (b_from_response_accept is_server a))
    | XBrotli, RaR a => Some (SeR (n_from_response_accept is_server a))
    | XSnappy, RaS a => Some (SeS (n_from_response_accept is_server a))
    | XBrotli, RaS a => Some (SeR (n_from_response_accept is_server a))   (* same attribute names: duck-typed *)
    | XSnappy, RaR a => Some (SeS (n_from_response_accept is_server a))
    | _, _ => None
    end.

  (* client: processHandshake, "process extensions selected by server" loop; [cur] = self._perMessageCompress *)
  Fixpoint client_loop (reg : list ext) (exts : list (string * params)) (cur : option any_settings)
           (policy : any_response -> option any_raccept) : client_outcome :=
    match exts with
    | [] => COpen cur
    | (name, ps) :: r =>
        match lookup_ext reg name with
        | None => CFail CUnknownExtension
        | Some x =>
            match cur with
            | Some _ => CFail CMultiplePmce
            | None =>
                match parse_response x ps with
                | Raise e => CFail (CParse e)
                | Ok resp =>
                    match policy resp with
                    | None => CFail CDenied
                    | Some ra =>
                        match from_response_accept x false ra with
                        | None => CEscaped
                        | Some s => client_loop reg r (Some s) policy
                        end
                    end
                end
            end
        end
    end.
  Definition client_process reg exts policy := client_loop reg exts None policy.
End Parse.

(* ------------------------------------------------------------------------------------------------ *)
(** * The compressor / decompressor handle typestate and the codec oracle *)

(* what a PerMessage* object does to its library handle at the end of a message *)
Inductive end_kind :=
| EndKeep      (* handle stays usable: zlib flush(Z_SYNC_FLUSH) / decompress(tail); snappy: nothing *)
| EndDrop      (* self._compressor = None / self._decompressor = None (bzip2; brotli since fix 444bd7d4) *)
| EndFinish.   (* the library object has ended its stream but stays referenced.  No shipped extension does this any
                  more: it is what permessage-brotli did before fix 444bd7d4 (Compressor.finish() / a Decompressor past
                  its last meta-block, kept and reused) - see [disc_brotli_before_fix] *)

Record discipline := {
  dc_comp_end : end_kind;
  dc_decomp_end : end_kind;
  dc_start_nct : bool;     (* start_*: `if handle is None or <no_context_takeover>` (false: `if handle is None`) *)
  dc_flush : bool;         (* end_compress_message calls the library flush/finish (false: snappy returns b"") *)
  dc_tail : bool;          (* deflate: end_compress strips the last 4 octets, end_decompress feeds 00 00 ff ff *)
  dc_empty_guard : bool    (* decompress_message_data: `if not data: return b""` before touching the library object
                              (bzip2 since fix 36836fb7) *)
}.
Definition disc_deflate := {| dc_comp_end := EndKeep; dc_decomp_end := EndKeep; dc_start_nct := true; dc_flush := true; dc_tail := true; dc_empty_guard := false |}.
Definition disc_bzip2 := {| dc_comp_end := EndDrop; dc_decomp_end := EndDrop; dc_start_nct := false; dc_flush := true; dc_tail := false; dc_empty_guard := true |}.
(* compress_brotli.py (444bd7d4): end_compress_message does finish() and `self._compressor = None`, end_decompress_message
   `self._decompressor = None`.  start_* still read `is None or <side>_no_context_takeover`, but the handle IS None at every
   message start: a fresh Compressor()/Decompressor() per message whatever was negotiated - brotli "context takeover"
   no longer exists at the codec level, the negotiated flags only travel in the header. *)
Definition disc_brotli := {| dc_comp_end := EndDrop; dc_decomp_end := EndDrop; dc_start_nct := true; dc_flush := true; dc_tail := false; dc_empty_guard := false |}.
Definition disc_snappy := {| dc_comp_end := EndKeep; dc_decomp_end := EndKeep; dc_start_nct := true; dc_flush := false; dc_tail := false; dc_empty_guard := false |}.
(* the two repaired disciplines as they were before the fixes (kept to state why the fixes were needed) *)
Definition disc_brotli_before_fix := {| dc_comp_end := EndFinish; dc_decomp_end := EndFinish; dc_start_nct := true; dc_flush := true; dc_tail := false; dc_empty_guard := false |}.
Definition disc_bzip2_before_fix := {| dc_comp_end := EndDrop; dc_decomp_end := EndDrop; dc_start_nct := false; dc_flush := true; dc_tail := false; dc_empty_guard := false |}.
Definition disc_of (x : ext) : discipline :=
  match x with XDeflate => disc_deflate | XBzip2 => disc_bzip2 | XBrotli => disc_brotli | XSnappy => disc_snappy end.

Definition tail4 : bytes := [0; 0; 255; 255]%N.

Inductive handle (S : Type) :=
| HNone                          (* attribute is None *)
| HLive (gen : N) (st : S)       (* the gen-th library object created by this PMCE object, in state st *)
| HFinished (gen : N).           (* that object has finished its stream; any further call raises *)
Arguments HNone {S}.
Arguments HLive {S} gen st.
Arguments HFinished {S} gen.

Section Codec.
  (* the compression library, abstractly *)
  Variables CS DS : Type.
  Variable c_new : Z -> Z -> CS.                       (* compressobj(.., -wbits, mem_level) / BZ2Compressor(level) / Compressor() *)
  Variable c_compress : CS -> bytes -> CS * bytes.      (* .compress / .process / .add_chunk *)
  Variable c_flush : CS -> CS * bytes.                  (* .flush(Z_SYNC_FLUSH) / .flush() / .finish() *)
  Variable d_new : Z -> DS.                             (* decompressobj(-wbits) / BZ2Decompressor() / Decompressor() *)
  Variable d_feed : DS -> bytes -> option (DS * bytes). (* .decompress / .process ; None = the library raises *)

  (* one side's PerMessage* object: the parameters it selects by role, and its two handles *)
  Record pmce := {
    p_disc : discipline;
    p_comp_w : Z; p_mem : Z; p_comp_nct : bool;       (* compressor parameters of this side *)
    p_decomp_w : Z; p_decomp_nct : bool;              (* decompressor parameters of this side *)
    p_comp : handle CS; p_decomp : handle DS;
    p_gen : N }.                                      (* library objects created so far (ghost) *)

  Definition pmce_init (d : discipline) (cw mem : Z) (cnct : bool) (dw : Z) (dnct : bool) : pmce :=
    {| p_disc := d; p_comp_w := cw; p_mem := mem; p_comp_nct := cnct; p_decomp_w := dw; p_decomp_nct := dnct;
       p_comp := HNone; p_decomp := HNone; p_gen := 0%N |}.

  Definition set_comp (p : pmce) (h : handle CS) (g : N) : pmce :=
    {| p_disc := p_disc p; p_comp_w := p_comp_w p; p_mem := p_mem p; p_comp_nct := p_comp_nct p;
       p_decomp_w := p_decomp_w p; p_decomp_nct := p_decomp_nct p; p_comp := h; p_decomp := p_decomp p; p_gen := g |}.
  Definition set_decomp (p : pmce) (h : handle DS) (g : N) : pmce :=
    {| p_disc := p_disc p; p_comp_w := p_comp_w p; p_mem := p_mem p; p_comp_nct := p_comp_nct p;
       p_decomp_w := p_decomp_w p; p_decomp_nct := p_decomp_nct p; p_comp := p_comp p; p_decomp := h; p_gen := g |}.

  Definition is_none {S} (h : handle S) : bool := match h with HNone => true | _ => false end.

  (* start_compress_message: `if self._compressor is None or <side>_no_context_takeover: self._compressor = new` *)
  Definition start_compress (p : pmce) : pmce :=
    if is_none (p_comp p) || (dc_start_nct (p_disc p) && p_comp_nct p)
    then set_comp p (HLive (p_gen p) (c_new (p_comp_w p) (p_mem p))) (p_gen p + 1)%N
    else p.

  (* compress_message_data *)
  Definition compress_data (p : pmce) (data : bytes) : res (pmce * bytes) :=
    match p_comp p with
    | HNone => Raise (ETypestate OnNone)
    | HFinished _ =>
        (* the finished library object is still there: brotli's Compressor.process(b"") after finish() returns b"",
           any data makes it raise "encoder failed" (checked against the installed library) *)
        match data with [] => Ok (p, []) | _ :: _ => Raise (ETypestate OnFinished) end
    | HLive g st => let '(st', out) := c_compress st data in Ok (set_comp p (HLive g st') (p_gen p), out)
    end.

  Definition strip4 (b : bytes) : bytes := firstn (List.length b - 4)%nat b.     (* data[:-4] *)

  (* end_compress_message *)
  Definition end_compress (p : pmce) : res (pmce * bytes) :=
    if negb (dc_flush (p_disc p)) then Ok (p, [])                        (* snappy: return b"" *)
    else match p_comp p with
         | HNone => Raise (ETypestate OnNone)
         | HFinished _ => Ok (p, [])         (* brotli: finish() on a finished encoder returns b"" *)
         | HLive g st =>
             let '(st', out) := c_flush st in
             let out' := if dc_tail (p_disc p) then strip4 out else out in
             let h := match dc_comp_end (p_disc p) with
                      | EndKeep => HLive g st' | EndDrop => HNone | EndFinish => HFinished g end in
             Ok (set_comp p h (p_gen p), out')
         end.

  (* start_decompress_message *)
  Definition start_decompress (p : pmce) : pmce :=
    if is_none (p_decomp p) || (dc_start_nct (p_disc p) && p_decomp_nct p)
    then set_decomp p (HLive (p_gen p) (d_new (p_decomp_w p))) (p_gen p + 1)%N
    else p.

  (* decompress_message_data *)
  Definition decompress_data (p : pmce) (data : bytes) : res (pmce * bytes) :=
    if dc_empty_guard (p_disc p) && match data with [] => true | _ => false end then Ok (p, [])   (* bzip2: `if not data: return b""` *)
    else
    match p_decomp p with
    | HNone => Raise (ETypestate OnNone)
    | HFinished _ =>
        (* (pre-fix brotli) Decompressor.process(b"") after the stream end returns b""; any data raises "decoder failed" *)
        match data with [] => Ok (p, []) | _ :: _ => Raise (ETypestate OnFinished) end
    | HLive g st =>
        match d_feed st data with
        | None => Raise ECodec
        | Some (st', out) => Ok (set_decomp p (HLive g st') (p_gen p), out)
        end
    end.

  (* end_decompress_message: deflate feeds the stripped tail and DISCARDS what comes out; bzip2 and brotli drop the
     handle; snappy `pass` *)
  Definition end_decompress (p : pmce) : res pmce :=
    if dc_tail (p_disc p)
    then match p_decomp p with
         | HNone => Raise (ETypestate OnNone)
         | HFinished _ => Raise (ETypestate OnFinished)
         | HLive g st =>
             match d_feed st tail4 with
             | None => Raise ECodec
             | Some (st', _) => Ok (set_decomp p (HLive g st') (p_gen p))
             end
         end
    else match dc_decomp_end (p_disc p), p_decomp p with
         | EndDrop, _ => Ok (set_decomp p HNone (p_gen p))
         | EndFinish, HLive g _ => Ok (set_decomp p (HFinished g) (p_gen p))
         | _, _ => Ok p
         end.

  (* ---------------------------------------------------------------------------------------------- *)
  (** ** message level: frames on the wire (header bits only; length encoding and masking are C01/C15) *)

  Record frame := { f_fin : bool; f_rsv : N; f_opcode : N; f_payload : bytes }.

  (* sendMessage: the fragmentation loop
       while not done: j = i + pfs ; if j > n: done = True; j = n ; sendFrame(first: opcode,rsv / later: 0,0) ; i += pfs
     [rest] = payload[i:]; the loop ends with the first slice shorter than pfs (possibly empty) *)
  Fixpoint frag_loop (fuel : nat) (pfs : nat) (first : bool) (opcode rsv : N) (rest : bytes) : list frame :=
    match fuel with
    | O => []
    | S f =>
        let op := if first then opcode else 0%N in
        let rs := if first then rsv else 0%N in
        if (List.length rest <? pfs)%nat
        then [{| f_fin := true; f_rsv := rs; f_opcode := op; f_payload := rest |}]
        else {| f_fin := false; f_rsv := rs; f_opcode := op; f_payload := firstn pfs rest |}
               :: frag_loop f pfs false opcode rsv (skipn pfs rest)
    end.

  Inductive send_err := SE (e : exn) | SEFragSize.   (* codec/typestate exception | "payload fragment size must be at least 1" *)

  (* sendMessage, "send unfragmented" / "send data message in fragments" (autoFragmentSize = 0) *)
  Definition fragment_message (opcode rsv : N) (frag : option Z) (pl : bytes) : list frame + send_err :=
    match frag with
    | None => inl [{| f_fin := true; f_rsv := rsv; f_opcode := opcode; f_payload := pl |}]
    | Some pfs =>
        if (Z.of_nat (List.length pl) <=? pfs) then inl [{| f_fin := true; f_rsv := rsv; f_opcode := opcode; f_payload := pl |}]
        else if pfs <? 1 then inr SEFragSize
        else inl (frag_loop (S (List.length pl)) (Z.to_nat pfs) true opcode rsv pl)
    end.

  (* sendMessage(payload, isBinary, fragmentSize, doNotCompress) on an OPEN connection with autoFragmentSize = 0.
     [pm] = self._perMessageCompress.  Returns the new PMCE state and the frames handed to sendFrame
     (the compressor has already run when the fragment size is rejected). *)
  Definition send_message (pm : option pmce) (payload : bytes) (is_binary : bool) (frag : option Z)
             (do_not_compress : bool) : option pmce * (list frame + send_err) :=
    let opcode := if is_binary then 2%N else 1%N in
    let step :=
      match pm with
      | Some p =>
          if do_not_compress then Ok (pm, false, payload)
          else let p0 := start_compress p in
               bind (compress_data p0 payload) (fun '(p1, out1) =>
               bind (end_compress p1) (fun '(p2, out2) => Ok (Some p2, true, out1 ++ out2)))
      | None => Ok (pm, false, payload)
      end in
    match step with
    | Raise e => (pm, inr (SE e))
    | Ok (pm', compressed, pl) => (pm', fragment_message opcode (if compressed then 4%N else 0%N) frag pl)
    end.

  (* streaming API: beginMessage(isBinary, doNotCompress); sendMessageFrame(piece) for each piece; endMessage().
     Each piece is compressed on its own call and becomes one frame (FIN clear); endMessage sends a final
     continuation frame carrying end_compress_message() (or b"") with FIN set. *)
  Fixpoint stream_frames (p : option pmce) (compressed : bool) (first : bool) (opcode : N) (pieces : list bytes)
    : res (option pmce * list frame) :=
    match pieces with
    | [] =>
        match p, compressed with
        | Some p0, true =>
            bind (end_compress p0) (fun '(p1, out) =>
              Ok (Some p1, [{| f_fin := true; f_rsv := 0; f_opcode := 0; f_payload := out |}]))
        | _, _ => Ok (p, [{| f_fin := true; f_rsv := 0; f_opcode := 0; f_payload := [] |}])
        end
    | x :: r =>
        let hdr pl := {| f_fin := false; f_rsv := if first && compressed then 4%N else 0%N;
                         f_opcode := if first then opcode else 0%N; f_payload := pl |} in
        match p, compressed with
        | Some p0, true =>
            bind (compress_data p0 x) (fun '(p1, out) =>
            bind (stream_frames (Some p1) compressed false opcode r) (fun '(p2, fs) => Ok (p2, hdr out :: fs)))
        | _, _ => bind (stream_frames p compressed false opcode r) (fun '(p2, fs) => Ok (p2, hdr x :: fs))
        end
    end.
  Definition send_stream (pm : option pmce) (pieces : list bytes) (is_binary do_not_compress : bool)
    : res (option pmce * list frame) :=
    let opcode := if is_binary then 2%N else 1%N in
    match pm with
    | Some p => if do_not_compress then stream_frames pm false true opcode pieces
                else stream_frames (Some (start_compress p)) true true opcode pieces
    | None => stream_frames pm false true opcode pieces
    end.

  (* ---------------------------------------------------------------------------------------------- *)
  (** ** receive side: the RSV checks of processData and onFrameBegin / onFrameData / onFrameEnd *)

  Inductive violation :=
  | VRsvNoExtension          (* "RSV = .. and no extension negotiated" *)
  | VCompressedControl       (* "received compressed control frame" *)
  | VCompressedContinuation  (* "received continuation data frame with compress bit set" *)
  | VContinuationOutside     (* "received continuation data frame outside fragmented message" *)
  | VNonContinuationInside   (* "received non-continuation data frame while inside fragmented message" *)
  | VOther.                  (* the remaining header checks (fragmented control frame, reserved opcodes, ..): C02 *)

  (* processData, header checks that read frame_rsv, in source order; [pmce_on] = self._perMessageCompress is not None.
     Result: every _protocol_violation call these checks make (with failByDrop only the first is reached). *)
  Definition rsv_checks (pmce_on inside_message : bool) (rsv opcode : N) : list violation :=
    (if negb (rsv =? 0)%N && negb (pmce_on && (rsv =? 4)%N) then [VRsvNoExtension] else []) ++
    (if (7 <? opcode)%N
     then (if pmce_on && (rsv =? 4)%N then [VCompressedControl] else [])
     else (if negb inside_message && (opcode =? 0)%N then [VContinuationOutside] else []) ++
          (if inside_message && negb (opcode =? 0)%N then [VNonContinuationInside] else []) ++
          (if pmce_on && (rsv =? 4)%N && inside_message then [VCompressedContinuation] else [])).

  Record rstate := {
    r_pmce : option pmce;
    r_inside : bool;              (* inside_message *)
    r_compressed : bool;          (* _isMessageCompressed *)
    r_binary : bool;              (* message_is_binary *)
    r_data : bytes }.             (* b"".join(message_data) so far *)
  Definition rstate_init (pm : option pmce) : rstate :=
    {| r_pmce := pm; r_inside := false; r_compressed := false; r_binary := false; r_data := [] |}.

  Inductive revent :=
  | Delivered (payload : bytes) (is_binary : bool)      (* onMessage *)
  | Violation (v : violation)                           (* _protocol_violation -> _fail_connection(1002) *)
  | Escaped (e : exn).                                  (* exception out of dataReceived *)

  (* one data frame whose payload arrives as [chunks] (one onFrameData call each; a frame with an empty payload
     gets exactly one call with b"").  Processing stops at the first violation / exception (failByDrop);
     what happens afterwards with failByDrop=False is the business of the C02 receive model. *)
  Fixpoint feed_chunks (p : pmce) (chunks : list bytes) : res (pmce * bytes) :=
    match chunks with
    | [] => Ok (p, [])
    | c :: r => bind (decompress_data p c) (fun '(p1, o1) =>
                bind (feed_chunks p1 r) (fun '(p2, o2) => Ok (p2, o1 ++ o2)))
    end.

  Definition recv_frame (st : rstate) (fin : bool) (rsv opcode : N) (chunks : list bytes)
    : rstate * list revent * bool (* continue? *) :=
    let pmce_on := match r_pmce st with Some _ => true | None => false end in
    match rsv_checks pmce_on (r_inside st) rsv opcode with
    | v :: _ => (st, [Violation v], false)
    | [] =>
        if (7 <? opcode)%N then (st, [], true)      (* control frames never touch the PMCE object *)
        else if (2 <? opcode)%N then (st, [Violation VOther], false)   (* reserved data opcode *)
        else
          (* onFrameBegin *)
          let begin :=
            if r_inside st then (r_pmce st, r_compressed st, r_binary st, r_data st)
            else match r_pmce st with
                 | Some p => if (rsv =? 4)%N then (Some (start_decompress p), true, (opcode =? 2)%N, [])
                             else (Some p, false, (opcode =? 2)%N, [])
                 | None => (None, false, (opcode =? 2)%N, [])
                 end in
          let '(pm, compressed, binary, data) := begin in
          (* onFrameData per chunk *)
          let fed :=
            match pm, compressed with
            | Some p, true => bind (feed_chunks p chunks) (fun '(p', out) => Ok (Some p', out))
            | _, _ => Ok (pm, List.concat chunks)
            end in
          match fed with
          | Raise e => (st, [Escaped e], false)
          | Ok (pm1, out) =>
              (* onFrameEnd *)
              if fin then
                let ended :=
                  match pm1, compressed with
                  | Some p, true => bind (end_decompress p) (fun p' => Ok (Some p'))
                  | _, _ => Ok pm1
                  end in
                match ended with
                | Raise e => (st, [Escaped e], false)
                | Ok pm2 =>
                    ({| r_pmce := pm2; r_inside := false; r_compressed := compressed; r_binary := binary; r_data := [] |},
                     [Delivered (data ++ out) binary], true)
                end
              else
                ({| r_pmce := pm1; r_inside := true; r_compressed := compressed; r_binary := binary;
                    r_data := data ++ out |}, [], true)
          end
    end.

  (* a received frame: header bits and the chunking of its payload *)
  Definition rframe := (bool * N * N * list bytes)%type.

  Fixpoint recv_frames (st : rstate) (fs : list rframe) : rstate * list revent :=
    match fs with
    | [] => (st, [])
    | (fin, rsv, opcode, chunks) :: r =>
        let '(st1, ev, cont) := recv_frame st fin rsv opcode chunks in
        if cont then let '(st2, ev2) := recv_frames st1 r in (st2, ev ++ ev2) else (st1, ev)
    end.

  (* ---------------------------------------------------------------------------------------------- *)
  (** ** message sequences (what the theorems quantify over) *)

  Inductive msg_spec :=
  | MWhole (payload : bytes) (is_binary : bool) (frag : option Z) (do_not_compress : bool)   (* sendMessage *)
  | MStream (pieces : list bytes) (is_binary : bool) (do_not_compress : bool).   (* beginMessage/sendMessageFrame*/endMessage *)

  Definition msg_payload (m : msg_spec) : bytes :=
    match m with MWhole p _ _ _ => p | MStream ps _ _ => List.concat ps end.
  Definition msg_binary (m : msg_spec) : bool := match m with MWhole _ b _ _ => b | MStream _ b _ => b end.
  (* arguments the API accepts without raising by itself *)
  Definition msg_wf (m : msg_spec) : Prop :=
    match m with
    | MWhole _ _ (Some pfs) _ => 1 <= pfs
    | MWhole _ _ None _ => True
    | MStream ps _ _ => ps <> []          (* endMessage after zero frames would emit a lone continuation frame *)
    end.

  Inductive send_result := Sent (pm : option pmce) (frames : list (list frame)) | SendRaised (e : send_err) (sent : list (list frame)).

  (* a sequence of sends on one connection; result: the frames of each message, in order *)
  Fixpoint send_msgs (pm : option pmce) (ms : list msg_spec) : send_result :=
    match ms with
    | [] => Sent pm []
    | m :: r =>
        let one :=
          match m with
          | MWhole pl b frag dnc => send_message pm pl b frag dnc
          | MStream ps b dnc =>
              match send_stream pm ps b dnc with
              | Ok (pm', fs) => (pm', inl fs)
              | Raise e => (pm, inr (SE e))
              end
          end in
        match one with
        | (_, inr e) => SendRaised e []
        | (pm', inl fs) =>
            match send_msgs pm' r with
            | Sent pm'' fss => Sent pm'' (fs :: fss)
            | SendRaised e fss => SendRaised e (fs :: fss)
            end
        end
    end.

  (* [rf] is frame [f] as received: same header bits, the payload cut into any chunks *)
  Definition chunked (f : frame) (rf : rframe) : Prop :=
    let '(fin, rsv, opcode, chunks) := rf in
    fin = f_fin f /\ rsv = f_rsv f /\ opcode = f_opcode f /\ List.concat chunks = f_payload f.

  (* compressing the pieces of one message: per-piece outputs, then the flush *)
  Fixpoint c_run_data (cs : CS) (xs : list bytes) : CS * list bytes :=
    match xs with
    | [] => (cs, [])
    | x :: r => let '(cs1, o) := c_compress cs x in let '(cs2, os) := c_run_data cs1 r in (cs2, o :: os)
    end.

  (* feeding a decompressor piece by piece *)
  Fixpoint feed_seq (ds : DS) (pieces : list bytes) : option (DS * bytes) :=
    match pieces with
    | [] => Some (ds, [])
    | c :: r => obind (d_feed ds c) (fun '(ds1, o1) => obind (feed_seq ds1 r) (fun '(ds2, o2) => Some (ds2, o1 ++ o2)))
    end.
  Definition nonempty (b : bytes) : bool := match b with [] => false | _ :: _ => true end.

  (* The assumed behaviour of the compression library ("stream law").  [R wd cs ds]: compressor state cs and
     decompressor state ds (created with window wd) are in step at a message boundary.
       feed_nil : feeding nothing yields nothing and changes nothing - demanded only where the wrapper passes empty
                  input on to the library (bz2 refuses EVERY call after end-of-stream; its wrapper guards since 36836fb7)
       new      : fresh compressor + fresh decompressor with compatible parameters are in step
       restart  : replacing the compressor by a fresh (compatible) one keeps a continuing decompressor in step
                  (a new deflate stream never refers back across its own start)
       msg      : if in step, then what compressing the pieces of a message and the end-of-message flush emit decodes,
                  fed in ANY segmentation into non-empty pieces, to the concatenated message pieces, and both ends are in
                  step again; for deflate the flush output ends with the empty stored block 00 00 ff ff, everything before
                  it already decodes to the whole message, and feeding the four octets afterwards is accepted.
                  (Segmentation independence is assumed of the compressor's own output only: nothing is said about
                  octets after the end of a stream.) *)
  Record codec_law (d : discipline) (compat : Z -> Z -> bool) (R : Z -> CS -> DS -> Prop) : Prop := {
    law_feed_nil : dc_empty_guard d = false -> forall ds, d_feed ds [] = Some (ds, []);
    law_new : forall wc mem wd, compat wc wd = true -> R wd (c_new wc mem) (d_new wd);
    law_restart : forall wd cs ds wc mem, R wd cs ds -> compat wc wd = true -> R wd (c_new wc mem) ds;
    law_msg : forall wd cs ds xs, R wd cs ds ->
        let '(cs1, outs) := c_run_data cs xs in
        let '(cs2, o2) := if dc_flush d then c_flush cs1 else (cs1, []) in
        if dc_tail d
        then exists b2 ds1 ds2 junk,
               o2 = b2 ++ tail4 /\
               (forall pieces, forallb nonempty pieces = true -> List.concat pieces = List.concat outs ++ b2 ->
                               feed_seq ds pieces = Some (ds1, List.concat xs)) /\
               d_feed ds1 tail4 = Some (ds2, junk) /\ R wd cs2 ds2
        else exists ds1,
               (forall pieces, forallb nonempty pieces = true -> List.concat pieces = List.concat outs ++ o2 ->
                               feed_seq ds pieces = Some (ds1, List.concat xs)) /\
               R wd cs2 ds1 }.

  (* which (extension, context-takeover) combinations keep every library call on a live object *)
  Definition end_safe (k : end_kind) (start_nct nct : bool) : bool :=
    match k with EndFinish => start_nct && nct | _ => true end.
  Definition typestate_safe (d : discipline) (comp_nct decomp_nct : bool) : bool :=
    end_safe (dc_comp_end d) (dc_start_nct d) comp_nct && end_safe (dc_decomp_end d) (dc_start_nct d) decomp_nct.

  Definition typestate_error_send (r : send_result) : Prop :=
    match r with SendRaised (SE (ETypestate _)) _ => True | _ => False end.
  Definition typestate_error_recv (evs : list revent) : Prop := exists w, In (Escaped (ETypestate w)) evs.
End Codec.

Arguments p_comp {CS DS} p.
Arguments p_decomp {CS DS} p.
Arguments p_disc {CS DS} p. Arguments p_comp_w {CS DS} p. Arguments p_mem {CS DS} p. Arguments p_comp_nct {CS DS} p.
Arguments p_decomp_w {CS DS} p. Arguments p_decomp_nct {CS DS} p. Arguments p_gen {CS DS} p.
Arguments r_pmce {CS DS} r. Arguments r_inside {CS DS} r. Arguments r_compressed {CS DS} r.
Arguments r_binary {CS DS} r. Arguments r_data {CS DS} r.
Arguments set_comp {CS DS} p h g. Arguments set_decomp {CS DS} p h g.

(* ------------------------------------------------------------------------------------------------ *)
(** * The identity codec (used to RUN the message-level model next to the real code: frame boundaries, RSV bits and
      delivered payloads are compared, compressed octets are not) *)
Definition id_c_new (_ _ : Z) : unit := tt.
Definition id_c_compress (_ : unit) (b : bytes) : unit * bytes := (tt, b).
Definition id_c_flush_tail (_ : unit) : unit * bytes := (tt, tail4).
Definition id_c_flush_none (_ : unit) : unit * bytes := (tt, []).
Definition id_d_new (_ : Z) : unit := tt.
Definition id_d_feed (_ : unit) (b : bytes) : option (unit * bytes) := Some (tt, b).

(* ------------------------------------------------------------------------------------------------ *)
(** * The deflate parameter lattice (enumerated from the GENERATED permissible sets; used by the sweep theorem) *)
Definition lat_bools : list bool := [true; false].
Definition lat_wz : list Z := 0 :: window_permissible.                       (* 0 = "not requested" *)
Definition lat_wopt : list (option Z) := None :: map Some window_permissible.  (* None = no override *)
Definition lat_bopt : list (option bool) := [None; Some true; Some false].
Definition lat_mopt : list (option Z) := None :: map Some mem_permissible.

Definition all_offers : list d_offer :=
  flat_map (fun an => flat_map (fun am => flat_map (fun rn =>
    map (fun rm => {| o_acc_nct := an; o_acc_mwb := am; o_req_nct := rn; o_req_mwb := rm |}) lat_wz)
    lat_bools) lat_bools) lat_bools.
(* every argument combination of PerMessageDeflateOfferAccept(offer, ..) over the lattice; mem_level, max_message_size = None *)
Definition all_accepts (o : d_offer) : list d_accept :=
  flat_map (fun rn => flat_map (fun rm => flat_map (fun nct =>
    map (fun wb => {| a_offer := o; a_req_nct := rn; a_req_mwb := rm; a_nct := nct; a_wbits := wb;
                      a_mem := None; a_maxmsg := None |}) lat_wopt)
    lat_bopt) lat_wz) lat_bools.
Definition all_raccepts (r : d_response) : list d_raccept :=
  flat_map (fun nct => map (fun wb => {| ra_response := r; ra_nct := nct; ra_wbits := wb; ra_mem := None;
                                         ra_maxmsg := None |}) lat_wopt) lat_bopt.

Definition d_offer_okb (o : d_offer) : bool :=
  is_ok (d_offer_ctor (o_acc_nct o) (o_acc_mwb o) (o_req_nct o) (o_req_mwb o)).
Definition d_accept_okb (a : d_accept) : bool :=
  is_ok (d_accept_ctor (a_offer a) (a_req_nct a) (a_req_mwb a) (a_nct a) (a_wbits a) (a_mem a) (a_maxmsg a)).
Definition d_raccept_okb (ra : d_raccept) : bool :=
  is_ok (d_raccept_ctor (ra_response ra) (ra_nct ra) (ra_wbits ra) (ra_mem ra) (ra_maxmsg ra)).

(* one direction: the compressor of [comp] feeds the decompressor of [decomp] *)
Definition direction_okb (comp decomp : d_settings) : bool :=
  (comp_window comp <=? decomp_window decomp) && implb (decomp_nct decomp) (comp_nct comp) &&
  permissible window_permissible (comp_window comp) && permissible window_permissible (decomp_window decomp) &&
  permissible mem_permissible (s_mem comp).

(* the whole pipeline for one lattice point, with the concrete ASCII int() *)
Definition lattice_point_ok (a : d_accept) (ra_args : d_response -> d_raccept) : bool :=
  match d_response_parse ascii_int (params_of_tokens (d_accept_string a)) with
  | Raise _ => false
  | Ok r =>
      let ra := ra_args r in
      negb (d_raccept_okb ra) ||
      (let s := d_from_offer_accept true a in
       let c := d_from_response_accept false ra in
       direction_okb s c && direction_okb c s)
  end.
Definition sweep_point (a : d_accept) (ra : d_raccept) : bool :=
  negb (d_raccept_okb ra) ||
  (let s := d_from_offer_accept true a in
   let c := d_from_response_accept false ra in
   direction_okb s c && direction_okb c s).
Definition sweep_accept (a : d_accept) : bool :=
  negb (d_accept_okb a) ||
  match d_response_parse ascii_int (params_of_tokens (d_accept_string a)) with
  | Raise _ => false
  | Ok r => forallb (sweep_point a) (all_raccepts r)
  end.
Definition sweep_offer (o : d_offer) : bool := negb (d_offer_okb o) || forallb sweep_accept (all_accepts o).
Definition lattice_sweep : bool := forallb sweep_offer all_offers.
(* how many lattice points are constructor-valid all the way (non-vacuity of the sweep) *)
Definition lattice_valid_points : N :=
  fold_left (fun n o => if d_offer_okb o then
    fold_left (fun n a => if d_accept_okb a then
      match d_response_parse ascii_int (params_of_tokens (d_accept_string a)) with
      | Raise _ => n
      | Ok r => fold_left (fun n ra => if d_raccept_okb ra then N.succ n else n) (all_raccepts r) n
      end else n) (all_accepts o) n else n) all_offers 0%N.
Definition lattice_points : N :=
  (N.of_nat (List.length all_offers) * N.of_nat (List.length (all_accepts {| o_acc_nct := true; o_acc_mwb := true; o_req_nct := false; o_req_mwb := 0 |}))
   * N.of_nat (List.length (all_raccepts {| r_client_mwb := 0; r_client_nct := false; r_server_mwb := 0; r_server_nct := false |})))%N.

(* ------------------------------------------------------------------------------------------------ *)
(** * From negotiated settings to the PMCE object: which parameter each side's compressor / decompressor gets
      (the `if self._is_server` selection in start_compress_message / start_decompress_message) *)
Definition pmce_of_deflate (CS DS : Type) (s : d_settings) : pmce CS DS :=
  pmce_init CS DS disc_deflate (comp_window s) (s_mem s) (comp_nct s) (decomp_window s) (decomp_nct s).
(* bzip2: BZ2Compressor(<own side>_max_compress_level), BZ2Decompressor(); no context-takeover parameter *)
Definition pmce_of_bzip2 (CS DS : Type) (s : b_settings) : pmce CS DS :=
  pmce_init CS DS disc_bzip2 (if bs_is_server s then bs_server_mcl s else bs_client_mcl s) 0 false 0 false.
Definition pmce_of_nct (CS DS : Type) (x : ext) (s : n_settings) : pmce CS DS :=
  pmce_init CS DS (disc_of x) 0 0 (n_comp_nct s) 0 (n_decomp_nct s).

(* ------------------------------------------------------------------------------------------------ *)
(** * An end-of-stream strict toy codec (shows what happens when the library violates [law_feed_nil]).
      flush() ends the stream with the marker 255; the decompressor object refuses EVERY call once it has seen the marker,
      even with no data - exactly bz2.BZ2Decompressor ("EOFError: End of stream already reached" for decompress(b"")) *)
Definition eos_c_flush (_ : unit) : unit * bytes := (tt, [255%N]).
Definition eos_d_new (_ : Z) : bool := false.
Definition eos_d_feed (eof : bool) (b : bytes) : option (bool * bytes) :=
  if eof then None else Some (existsb (N.eqb 255) b, filter (fun v => negb (v =? 255)%N) b).
