(* Model of the identifier validators of autobahn/wamp/message.py (C08, identifier part):
     check_or_raise_uri, check_or_raise_realm_name, identify_realm_name_category, check_or_raise_id,
     check_or_raise_extra, _validate_kwargs, is_valid_enc_algo, is_valid_enc_serializer
   over the regular expressions GENERATED from the source (Gen/UriRegex.v), plus the declarative grammars
   (written from the WAMP specification / the documented realm-name grammar, not from the regexes) that the
   patterns are compared with in Props/C08Uri.v.   Definitions only. *)
From Coq Require Import List NArith ZArith Bool.
From AV Require Import Base.Regex Gen.UriRegex.
Import ListNotations.
Open Scope N_scope.

(* ------------------------------------------------------------------------------------------------ *)
(* Values as the validators see them (what a deserializer can hand over)                             *)
(* ------------------------------------------------------------------------------------------------ *)
Inductive dkey := KStr (s : list N) | KOther.                 (* dict key: str, or anything else (bytes, int ..) *)

Inductive uval :=
| UNone
| UBool (b : bool)
| UInt (z : Z)
| UFloat                                                      (* any float; its value is never looked at *)
| UStr (s : list N)                                           (* code points *)
| UBytes
| UList
| UDict (keys : list dkey).

(* Python exceptions are explicit.  TypeError / AttributeError are what the unguarded primitive operations
   (pattern.match on a non-string, `<` between a non-number and an int, `.keys()` on a non-dict) raise; the
   validators are proved never to let them out (C08_uri_total). *)
Inductive exn := InvalidUriError | ProtocolError | TypeError | AttributeError.
Inductive vres := Ok | Raise (e : exn).

Definition is_none (v : uval) : bool := match v with UNone => true | _ => false end.
Definition type_is_str (v : uval) : bool := match v with UStr _ => true | _ => false end.
Definition type_is_int (v : uval) : bool := match v with UInt _ => true | _ => false end.   (* type(True) is bool *)
Definition type_is_dict (v : uval) : bool := match v with UDict _ => true | _ => false end.

(* pattern.match(value): a str pattern applied to anything but a str raises TypeError *)
Definition re_match (e : end_anchor) (r : regex) (v : uval) : bool + exn :=
  match v with
  | UStr s => inl (py_match e r s)
  | _ => inr TypeError
  end.

(* the eleven compiled patterns, by name *)
Inductive pat_name :=
| PRealmName | PRealmNameEth | PRealmNameEns | PRealmNameEnsReverse
| PStrictEmpty | PLooseEmpty | PStrictNonEmpty | PLooseNonEmpty | PStrictLastEmpty | PLooseLastEmpty
| PCustomAttribute.

Definition all_pat_names : list pat_name :=
  [PRealmName; PRealmNameEth; PRealmNameEns; PRealmNameEnsReverse; PStrictEmpty; PLooseEmpty;
   PStrictNonEmpty; PLooseNonEmpty; PStrictLastEmpty; PLooseLastEmpty; PCustomAttribute].

Definition pat_of (k : pat_name) : end_anchor * regex :=
  match k with
  | PRealmName => (end_realm_name, pat_realm_name)
  | PRealmNameEth => (end_realm_name_eth, pat_realm_name_eth)
  | PRealmNameEns => (end_realm_name_ens, pat_realm_name_ens)
  | PRealmNameEnsReverse => (end_realm_name_ens_reverse, pat_realm_name_ens_reverse)
  | PStrictEmpty => (end_strict_empty, pat_strict_empty)
  | PLooseEmpty => (end_loose_empty, pat_loose_empty)
  | PStrictNonEmpty => (end_strict_non_empty, pat_strict_non_empty)
  | PLooseNonEmpty => (end_loose_non_empty, pat_loose_non_empty)
  | PStrictLastEmpty => (end_strict_last_empty, pat_strict_last_empty)
  | PLooseLastEmpty => (end_loose_last_empty, pat_loose_last_empty)
  | PCustomAttribute => (end_custom_attribute, pat_custom_attribute)
  end.

(* <PATTERN>.match(s) is not None, for a str s *)
Definition pmatch (k : pat_name) (s : list N) : bool := py_match (fst (pat_of k)) (snd (pat_of k)) s.
Definition pmatch_val (k : pat_name) (v : uval) : bool + exn := re_match (fst (pat_of k)) (snd (pat_of k)) v.

(* ------------------------------------------------------------------------------------------------ *)
(* message.py: check_or_raise_uri                                                                   *)
(* ------------------------------------------------------------------------------------------------ *)
(* message.py: check_or_raise_uri, `if strict: ... else: ...` pattern selection *)
Definition select_uri_pat (strict allow_empty_components allow_last_empty : bool) : pat_name :=
  if strict then
    if allow_last_empty then PStrictLastEmpty
    else if allow_empty_components then PStrictEmpty
    else PStrictNonEmpty
  else
    if allow_last_empty then PLooseLastEmpty
    else if allow_empty_components then PLooseEmpty
    else PLooseNonEmpty.

Definition check_or_raise_uri (v : uval) (strict allow_empty_components allow_last_empty allow_none : bool) : vres :=
  (* if value is None: return None if allow_none else raise InvalidUriError *)
  if is_none v then (if allow_none then Ok else Raise InvalidUriError)
  else
  (* if type(value) != str: if not (value is None and allow_none): raise InvalidUriError *)
  if negb (type_is_str v) && negb (is_none v && allow_none) then Raise InvalidUriError
  else
  (* if not pat.match(value): raise InvalidUriError else return value *)
  match pmatch_val (select_uri_pat strict allow_empty_components allow_last_empty) v with
  | inl true => Ok
  | inl false => Raise InvalidUriError
  | inr e => Raise e
  end.

(* ------------------------------------------------------------------------------------------------ *)
(* message.py: check_or_raise_realm_name, identify_realm_name_category                              *)
(* ------------------------------------------------------------------------------------------------ *)
Definition check_or_raise_realm_name (v : uval) (allow_eth : bool) : vres :=
  if is_none v then Raise InvalidUriError
  else if negb (type_is_str v) then Raise InvalidUriError
  else if allow_eth then
    (* _URI_PAT_REALM_NAME.match(value) or _URI_PAT_REALM_NAME_ETH.match(value) *)
    match pmatch_val PRealmName v with
    | inr e => Raise e
    | inl true => Ok
    | inl false => match pmatch_val PRealmNameEth v with
                   | inr e => Raise e
                   | inl true => Ok
                   | inl false => Raise InvalidUriError
                   end
    end
  else
    match pmatch_val PRealmName v with
    | inr e => Raise e
    | inl true => Ok
    | inl false => Raise InvalidUriError
    end.

Inductive realm_category := Standalone | Eth | Ens | ReverseEns.

(* returns None (not a realm name) or the category; never raises for a str; non-str -> None *)
Definition identify_realm_name_category (v : uval) : option realm_category :=
  match v with
  | UStr s =>
    if pmatch PRealmName s then
      if pmatch PRealmNameEns s then Some Ens
      else if pmatch PRealmNameEnsReverse s then Some ReverseEns
      else Some Standalone
    else if pmatch PRealmNameEth s then Some Eth
    else None
  | _ => None
  end.

(* ------------------------------------------------------------------------------------------------ *)
(* message.py: check_or_raise_id  (bounds id_lo / id_hi are generated from the source)              *)
(* ------------------------------------------------------------------------------------------------ *)
(* `value < K` / `value > K` for the kinds of values: numbers compare, everything else raises TypeError *)
Definition py_num (v : uval) : option (option Z) :=           (* Some (Some z): int-like; Some None: float *)
  match v with
  | UInt z => Some (Some z)
  | UBool b => Some (Some (if b then 1 else 0)%Z)
  | UFloat => Some None
  | _ => None
  end.

Definition check_or_raise_id (v : uval) : vres :=
  (* if type(value) != int: raise ProtocolError *)
  if negb (type_is_int v) then Raise ProtocolError
  else match py_num v with
       | Some (Some z) => if (z <? id_lo)%Z || (z >? id_hi)%Z then Raise ProtocolError else Ok
       | _ => Raise TypeError
       end.

(* ------------------------------------------------------------------------------------------------ *)
(* message.py: check_or_raise_extra, _validate_kwargs                                               *)
(* ------------------------------------------------------------------------------------------------ *)
Definition key_is_str (k : dkey) : bool := match k with KStr _ => true | KOther => false end.

(* value.keys() *)
Definition py_keys (v : uval) : list dkey + exn :=
  match v with UDict ks => inl ks | _ => inr AttributeError end.

Definition check_or_raise_extra (v : uval) : vres :=
  if negb (type_is_dict v) then Raise ProtocolError
  else match py_keys v with
       | inr e => Raise e
       | inl ks => if forallb key_is_str ks then Ok else Raise ProtocolError
       end.

Definition validate_kwargs (v : uval) : vres :=
  if is_none v then Ok                                          (* `if kwargs is not None:` ... else falls off: None *)
  else if negb (type_is_dict v) then Raise ProtocolError
  else match py_keys v with
       | inr e => Raise e
       | inl ks => if forallb key_is_str ks then Ok else Raise ProtocolError
       end.

(* ------------------------------------------------------------------------------------------------ *)
(* message.py: is_valid_enc_algo / is_valid_enc_serializer (truthiness of the result)               *)
(* ------------------------------------------------------------------------------------------------ *)
Fixpoint str_eqb (a b : list N) : bool :=
  match a, b with
  | [], [] => true
  | x :: a', y :: b' => (x =? y) && str_eqb a' b'
  | _, _ => false
  end.

Definition is_valid_enc (standard : list (list N)) (v : uval) : bool :=
  match v with
  | UStr s => existsb (str_eqb s) standard || pmatch PCustomAttribute s
  | _ => false
  end.
Definition is_valid_enc_algo := is_valid_enc enc_standard_identifiers.
Definition is_valid_enc_serializer := is_valid_enc enc_standard_serializers.

(* ================================================================================================ *)
(* Declarative grammars (the specification side)                                                     *)
(* ================================================================================================ *)
(* WAMP: a URI is a sequence of components separated by '.'.
     loose : a component is a non-empty string without whitespace, '.' and '#'
     strict: a component is a non-empty string over [0-9a-z_]  (lower-case ASCII letters, ASCII digits, '_')
     pattern-based matching allows empty components; prefix matching allows the last component to be empty. *)
Definition dot : N := 46.

(* split at every '.'; always at least one component *)
Fixpoint split_dot (s : list N) : list (list N) :=
  match s with
  | [] => [[]]
  | c :: t => if c =? dot then [] :: split_dot t
              else match split_dot t with
                   | h :: r => (c :: h) :: r
                   | [] => [[c]]
                   end
  end.

Definition is_nil {A} (l : list A) : bool := match l with [] => true | _ => false end.

Section UriGrammar.
  Variable char_ok : N -> bool.                                   (* the component alphabet *)
  Definition comp_any (c : list N) : bool := forallb char_ok c.
  Definition comp_ne (c : list N) : bool := negb (is_nil c) && forallb char_ok c.
  (* no empty components *)
  Definition uri_non_empty (s : list N) : bool := forallb comp_ne (split_dot s).
  (* empty components allowed *)
  Definition uri_empty (s : list N) : bool := forallb comp_any (split_dot s).
  (* only the last component may be empty *)
  Definition uri_last_empty (s : list N) : bool :=
    forallb comp_ne (removelast (split_dot s)) && comp_any (last (split_dot s) []).
End UriGrammar.

Definition between (lo hi c : N) : bool := (lo <=? c) && (c <=? hi).
Definition ascii_digit (c : N) : bool := between 48 57 c.
Definition lower (c : N) : bool := between 97 122 c.
Definition upper (c : N) : bool := between 65 90 c.

(* whitespace: the Unicode White_Space property (25 code points) and the four ASCII information separators
   U+001C..U+001F (what Python's str.isspace / `\s` treats as whitespace) *)
Definition ws_ranges : list crange :=
  [(9, 13); (28, 32); (133, 133); (160, 160); (5760, 5760); (8192, 8202); (8232, 8233); (8239, 8239);
   (8287, 8287); (12288, 12288)].
Definition is_ws (c : N) : bool := in_ranges ws_ranges c.

(* [digit] is a parameter: the WAMP grammar has ascii_digit; Python's `\d` is every Unicode decimal digit *)
Definition strict_char (digit : N -> bool) (c : N) : bool := digit c || lower c || (c =? 95).
Definition loose_char (c : N) : bool := negb (is_ws c || (c =? 46) || (c =? 35)).

(* realm names (documented at the patterns in message.py; Autobahn/Crossbar.io convention):
     standalone : an ASCII letter followed by 2..254 characters of [A-Za-z0-9_\-@.]
     eth        : "0x" followed by exactly 40 hex digits
     ens        : 2..250 characters of [a-z0-9_\-@.] followed by ".eth";  reverse: "eth." followed by 2..250 of them *)
Definition realm_char (digit : N -> bool) (c : N) : bool :=
  upper c || lower c || digit c || (c =? 95) || (c =? 45) || (c =? 64) || (c =? 46).
Definition ens_char (digit : N -> bool) (c : N) : bool :=
  lower c || digit c || (c =? 95) || (c =? 45) || (c =? 64) || (c =? 46).
Definition hex_char (digit : N -> bool) (c : N) : bool := between 65 70 c || between 97 102 c || digit c.

Definition len_between (lo hi : nat) (l : list N) : bool := (lo <=? length l)%nat && (length l <=? hi)%nat.

Definition starts_with (pre s : list N) : bool := str_eqb (firstn (length pre) s) pre.
Definition ends_with (suf s : list N) : bool :=
  (length suf <=? length s)%nat && str_eqb (skipn (length s - length suf) s) suf.

Definition realm_name_spec (digit : N -> bool) (s : list N) : bool :=
  match s with
  | [] => false
  | c :: t => (upper c || lower c) && forallb (realm_char digit) t && len_between 2 254 t
  end.

Definition str_0x : list N := [48; 120].
Definition str_dot_eth : list N := [46; 101; 116; 104].
Definition str_eth_dot : list N := [101; 116; 104; 46].
Definition str_x_ : list N := [120; 95].

Definition realm_eth_spec (digit : N -> bool) (s : list N) : bool :=
  starts_with str_0x s && let t := skipn 2 s in forallb (hex_char digit) t && len_between 40 40 t.

Definition realm_ens_spec (digit : N -> bool) (s : list N) : bool :=
  ends_with str_dot_eth s && let t := firstn (length s - 4) s in forallb (ens_char digit) t && len_between 2 250 t.

Definition realm_ens_reverse_spec (digit : N -> bool) (s : list N) : bool :=
  starts_with str_eth_dot s && let t := skipn 4 s in forallb (ens_char digit) t && len_between 2 250 t.

(* custom attribute: "x_" alone, or "x_" + a lower-case letter + one or more of [0-9a-z_] *)
Definition custom_attribute_spec (digit : N -> bool) (s : list N) : bool :=
  starts_with str_x_ s &&
  match skipn 2 s with
  | [] => true
  | c :: t => lower c && negb (is_nil t) && forallb (strict_char digit) t
  end.

(* the grammar each pattern is meant to implement, parameterised by what counts as a digit *)
Definition grammar_of (digit : N -> bool) (k : pat_name) : list N -> bool :=
  match k with
  | PRealmName => realm_name_spec digit
  | PRealmNameEth => realm_eth_spec digit
  | PRealmNameEns => realm_ens_spec digit
  | PRealmNameEnsReverse => realm_ens_reverse_spec digit
  | PStrictEmpty => uri_empty (strict_char digit)
  | PLooseEmpty => uri_empty loose_char
  | PStrictNonEmpty => uri_non_empty (strict_char digit)
  | PLooseNonEmpty => uri_non_empty loose_char
  | PStrictLastEmpty => uri_last_empty (strict_char digit)
  | PLooseLastEmpty => uri_last_empty loose_char
  | PCustomAttribute => custom_attribute_spec digit
  end.

(* THE specification: ASCII digits *)
Definition uri_spec (k : pat_name) : list N -> bool := grammar_of ascii_digit k.
(* what Python's `\d` makes of it: every Unicode decimal digit (generated category) *)
Definition unicode_digit (c : N) : bool := in_ranges cat_digit c.
Definition uri_spec_unicode (k : pat_name) : list N -> bool := grammar_of unicode_digit k.

(* what a trailing `$` (instead of `\Z`) makes of a grammar g under pattern.match: g itself, or g on the string minus
   one final line feed *)
Definition dollar_closure (g : list N -> bool) (s : list N) : bool :=
  g s || match strip_final_nl s with Some s' => g s' | None => false end.

(* hypotheses of the partial theorems *)
Definition no_final_newline (s : list N) : bool := negb (ends_nl s).
Definition digits_ascii_only (s : list N) : bool := forallb (fun c => negb (unicode_digit c) || ascii_digit c) s.

(* the specification of the ID validator: exactly the ints (not bool, not float) in 0 .. 2^53 *)
Definition id_spec (v : uval) : bool :=
  match v with UInt z => (0 <=? z)%Z && (z <=? 2 ^ 53)%Z | _ => false end.
