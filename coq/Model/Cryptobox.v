(* Model of WAMP-cryptobox payload encryption and of the places where a session uses it (definitions only).
   Sources mirrored (autobahn/wamp):
     cryptobox.py  Key.__init__, KeyRing.set_key, _get_box, encode, decode
     protocol.py   every self._payload_codec.encode / decode call site:
                   publish, onMessage EVENT, call, onMessage INVOCATION (+ success() / YIELD, error() / ERROR via
                   _message_from_exception), onMessage RESULT, _exception_from_message
     message.py    payload / enc_algo / enc_serializer / enc_key of the payload-carrying messages
   NaCl's box is an ORACLE: [seal]/[open] keyed by the shared secret of a Box (Section variables; their assumed
   laws are Section hypotheses in Proofs/CryptoboxProofs.v).  JSON (serializer._dumps/_loads) is an oracle too.
   Application values are opaque (V), kwargs are association lists (Model/SessionErr.v). *)
From Coq Require Import List String Bool NArith.
From AV Require Import Model.SessionErr.
Import ListNotations.
Open Scope string_scope.

Definition sk := N.           (* a private key *)
Definition pk := N.           (* a public key *)
Definition secret := N.       (* what a Box(private, peer public) computes: the shared secret *)

Definition ENC_NO_PAYLOAD_CODEC := "wamp.error.no_payload_codec".
Definition ENC_TRUSTED_URI_MISMATCH := "wamp.error.encryption.trusted_uri_mismatch".
Definition ENC_DECRYPT_ERROR := "wamp.error.encryption.decrypt_error".

Definition opt_streqb (a b : option string) : bool :=
  match a, b with Some x, Some y => String.eqb x y | None, None => true | _, _ => false end.

Section Cryptobox.
  Variable V : Type.                     (* application values *)
  Variable P : Type.                     (* plaintexts: serialized envelopes *)
  Variable C : Type.                     (* ciphertexts: nonce + box *)
  Variable nonce : Type.
  Notation kw := (kw V).

  Variable pub : sk -> pk.                              (* PrivateKey.public_key *)
  Variable dh : sk -> pk -> secret.                     (* Box(private, public) *)
  Variable seal : secret -> nonce -> P -> C.            (* box.encrypt(plain, nonce) *)
  Variable open : secret -> C -> option P.              (* box.decrypt(cipher); None = CryptoError *)

  (* {"uri": uri, "args": args, "kwargs": kwargs} *)
  Definition envelope := (option string * option (list V) * option kw)%type.
  Variable dumps : envelope -> option P.                (* _json_dumps(payload).encode("utf8"); None = raises *)
  Variable loads : P -> option envelope.                (* _json_loads + payload.get x3; None = anything raises *)

  (* ---------------- cryptobox.py Key.__init__ ---------------- *)
  Record key := mkKey { originator_box : option secret; responder_box : option secret }.
  (* the four constructor arguments; public keys default to the private key's own *)
  Definition make_key (o_priv : option sk) (o_pub : option pk) (r_priv : option sk) (r_pub : option pk) : option key :=
    let opub := match o_priv with Some s => Some (pub s) | None => o_pub end in
    let rpub := match r_priv with Some s => Some (pub s) | None => r_pub end in
    match opub, rpub with
    | Some op, Some rp =>                                  (* PublicKey(None) raises otherwise *)
        let ob := match o_priv with Some s => Some (dh s rp) | None => None end in
        let rb := match r_priv with Some s => Some (dh s op) | None => None end in
        match ob, rb with
        | None, None => None                                (* "insufficient keys provided" *)
        | _, _ => Some (mkKey ob rb)
        end
    | _, _ => None
    end.

  (* ---------------- cryptobox.py KeyRing ---------------- *)
  Record keyring := mkRing { kr_trie : list (string * key); kr_default : option key }.
  Definition empty_ring : keyring := mkRing [] None.

  (* set_key(uri, key) *)
  Definition set_key (r : keyring) (uri : string) (k : option key) : keyring :=
    if String.eqb uri "" then mkRing (kr_trie r) k
    else match k with
         | None => mkRing (adel String.eqb uri (kr_trie r)) (kr_default r)
         | Some k' => mkRing (aset String.eqb uri k' (kr_trie r)) (kr_default r)
         end.

  (* pytrie StringTrie.longest_prefix_value: the value stored under the longest key that is a (character-wise)
     prefix of uri *)
  Fixpoint longest_prefix (uri : string) (t : list (string * key)) (best : option (string * key)) : option (string * key) :=
    match t with
    | [] => best
    | (p, k) :: r =>
        let better := match best with
                      | None => true
                      | Some (bp, _) => Nat.ltb (String.length bp) (String.length p)
                      end in
        longest_prefix uri r (if String.prefix p uri && better then Some (p, k) else best)
    end.

  (* _get_box(is_originating, uri): None = no key at all; Some None = key found but no box for this role *)
  Definition lookup_key (r : keyring) (uri : string) : option key :=
    match longest_prefix uri (kr_trie r) None with
    | Some (_, k) => Some k
    | None => kr_default r
    end.
  Definition get_box (r : keyring) (is_originating : bool) (uri : string) : option secret :=
    match lookup_key r uri with
    | Some k => if is_originating then originator_box k else responder_box k
    | None => None
    end.

  (* ---------------- the keyring is a MUTABLE object: histories ---------------- *)
  (* One step in the life of a KeyRing: a set_key call, or a USE — any computation that only reads the ring
     (_get_box / encode / decode, hence every publish, call, EVENT, INVOCATION, YIELD, RESULT, ERROR of the session
     that owns it).  As coded a use has no effect on the ring (no cache, no memo): the next step sees exactly the
     ring produced by the set_key calls so far. *)
  Inductive kstep (X : Type) := KSet (uri : string) (k : option key) | KUse (f : keyring -> X).
  Arguments KSet {X}. Arguments KUse {X}.
  Fixpoint run_history {X : Type} (r : keyring) (steps : list (kstep X)) : keyring * list X :=
    match steps with
    | [] => (r, [])
    | KSet u k :: rest => run_history (set_key r u k) rest
    | KUse f :: rest => let '(r', xs) := run_history r rest in (r', f r :: xs)
    end.
  (* the set_key calls of a history, in order *)
  Fixpoint sets_of {X : Type} (steps : list (kstep X)) : list (string * option key) :=
    match steps with
    | [] => []
    | KSet u k :: rest => (u, k) :: sets_of rest
    | KUse _ :: rest => sets_of rest
    end.
  Definition apply_sets (r : keyring) (sets : list (string * option key)) : keyring :=
    fold_left (fun acc '(u, k) => set_key acc u k) sets r.
  (* what the history says about one prefix: the key of the LAST set_key for it (None: never set, or removed) *)
  Definition binding (sets : list (string * option key)) (p : string) : option key :=
    fold_left (fun acc '(u, k) => if String.eqb u p then k else acc) sets None.

  (* types.py EncodedPayload *)
  Record encoded := mkEnc { e_payload : C; e_algo : string; e_serializer : option string; e_key : option string }.

  Inductive cbexc := AssertionError | NoKey | CryptoError | UnknownSerializer | JsonError | EncodeError.

  (* KeyRing.encode: Ok None = "the payload travels unencrypted (normal)" *)
  Definition encode (r : keyring) (is_originating : bool) (uri : string) (a : option (list V)) (k : option kw) (n : nonce)
    : option (option encoded) (* None = raises *) :=
    match get_box r is_originating uri with
    | None => Some None
    | Some s => match dumps (Some uri, a, k) with
                | Some p => Some (Some (mkEnc (seal s n p) "cryptobox" (Some "json") None))
                | None => None
                end
    end.

  (* KeyRing.decode *)
  Inductive dres := DOk (e : envelope) | DRaise (x : cbexc).
  Definition decode (r : keyring) (is_originating : bool) (uri : string) (e : encoded) : dres :=
    if negb (String.eqb (e_algo e) "cryptobox") then DRaise AssertionError
    else match get_box r is_originating uri with
         | None => DRaise NoKey
         | Some s =>
             match open s (e_payload e) with
             | None => DRaise CryptoError
             | Some p =>
                 if negb (match e_serializer e with Some x => String.eqb x "json" | None => false end)
                 then DRaise UnknownSerializer
                 else match loads p with Some env => DOk env | None => DRaise JsonError end
             end
         end.

  (* ---------------- the payload part of a message ---------------- *)
  Inductive body :=
  | Plain (a : option (list V)) (k : option kw)               (* args / kwargs fields *)
  | Encoded (e : encoded).                                    (* payload + enc_algo + enc_serializer + enc_key, no args/kwargs *)

  (* ---------------- sending side ---------------- *)
  Inductive sent := Sent (b : body) | SendRaises.            (* SendRaises: encode raised, nothing goes out *)

  (* protocol.py publish / call: encode(True, uri, args, kwargs); an exception propagates to the application *)
  Definition originate (codec : option keyring) (uri : string) (a : list V) (k : kw) (n : nonce) : sent :=
    match codec with
    | None => Sent (Plain (Some a) (Some k))
    | Some r => match encode r true uri (Some a) (Some k) n with
                | None => SendRaises
                | Some None => Sent (Plain (Some a) (Some k))
                | Some (Some e) => Sent (Encoded e)
                end
    end.

  (* protocol.py INVOCATION success(): the YIELD.  Encrypted only if the INVOCATION was (msg.enc_algo); without a codec
     or WHEN ENCODE RAISES a warning is logged and the result goes out in the clear *)
  Definition yield_body (codec : option keyring) (inv_encrypted : bool) (proc : string) (a : list V) (k : option kw) (n : nonce) : body :=
    if inv_encrypted then
      match codec with
      | None => Plain (Some a) k
      | Some r => match encode r false proc (Some a) k n with
                  | Some (Some e) => Encoded e
                  | Some None => Plain (Some a) k
                  | None => Plain (Some a) k              (* except Exception: log.warn("failed to encrypt ...") *)
                  end
      end
    else Plain (Some a) k.

  (* protocol.py INVOCATION progress(): a progressive YIELD.  Unlike success() nothing is swallowed: without a codec
     ("trying to send encrypted payload, but no keyring active") or when encode raises, the exception reaches the
     endpoint that called details.progress(...) *)
  Definition progress_body (codec : option keyring) (inv_encrypted : bool) (proc : string) (a : list V) (k : kw) (n : nonce) : sent :=
    if inv_encrypted then
      match codec with
      | None => SendRaises
      | Some r => match encode r false proc (Some a) (Some k) n with
                  | Some (Some e) => Sent (Encoded e)
                  | Some None => Sent (Plain (Some a) (Some k))
                  | None => SendRaises
                  end
      end
    else Sent (Plain (Some a) (Some k)).

  (* protocol.py _message_from_exception with a codec: encode(False, error, args, kwargs) — keyed by the ERROR URI,
     whether or not the invocation was encrypted; an exception propagates (no ERROR is sent) *)
  Definition error_body (codec : option keyring) (error : string) (a : option (list V)) (k : option kw) (n : nonce) : sent :=
    match codec with
    | None => Sent (Plain a k)
    | Some r => match encode r false error a k n with
                | None => SendRaises
                | Some None => Sent (Plain a k)
                | Some (Some e) => Sent (Encoded e)
                end
    end.

  (* ---------------- receiving side ---------------- *)
  (* the common pattern  if msg.enc_algo: (no codec | decode raises | URI differs | ok) *)
  Inductive recv :=
  | RPayload (a : option (list V)) (k : option kw)            (* application payload to hand on *)
  | RNoCodec
  | RDecryptError (x : cbexc)
  | RUriMismatch (inner : option string).

  Definition receive (codec : option keyring) (is_originating : bool) (uri : string) (b : body) : recv :=
    match b with
    | Plain a k => RPayload a k                                (* msg.enc_algo unset *)
    | Encoded e =>
        match codec with
        | None => RNoCodec
        | Some r =>
            match decode r is_originating uri e with
            | DRaise x => RDecryptError x
            | DOk (u, a, k) =>
                if opt_streqb u (Some uri) then RPayload a k else RUriMismatch u
            end
        end
    end.

  (* protocol.py onMessage EVENT (per subscription handler): topic = msg.topic or subscription.topic *)
  Inductive event_out := HandlerInvoked (a : list V) (k : kw) | EventIgnored (why : recv).
  Definition on_event (codec : option keyring) (topic : string) (b : body) : event_out :=
    match receive codec false topic b with
    | RPayload a k => HandlerInvoked (or_nil a) (or_nil k)
    | r => EventIgnored r
    end.

  (* the same branch with the whole handler loop:
       for subscription in list(self._subscriptions[msg.subscription]):
           if not subscription.active: continue
           topic = msg.topic or subscription.topic
           if msg.enc_algo: decode AGAIN for this handler; no codec / decode raises / topic differs -> return
           invoke handler (details_arg only adds an EventDetails keyword)
     `return` leaves onMessage: no later handler of the subscription is invoked either.  Result: the handler
     invocations in order (handler id, args, kwargs). *)
  Record ehandler := mkHandler { h_id : N; h_active : bool; h_topic : string (* subscription.topic *) }.
  Definition event_topic (msg_topic : option string) (h : ehandler) : string :=
    match msg_topic with Some t => t | None => h_topic h end.
  Fixpoint dispatch_event (codec : option keyring) (msg_topic : option string) (b : body) (hs : list ehandler)
    : list (N * list V * kw) :=
    match hs with
    | [] => []
    | h :: rest =>
        if negb (h_active h) then dispatch_event codec msg_topic b rest
        else match receive codec false (event_topic msg_topic h) b with
             | RPayload a k => (h_id h, or_nil a, or_nil k) :: dispatch_event codec msg_topic b rest
             | _ => []
             end
    end.

  (* the ApplicationError built for the three failure cases *)
  Definition enc_error_uri (r : recv) : string :=
    match r with
    | RNoCodec => ENC_NO_PAYLOAD_CODEC
    | RDecryptError _ => ENC_DECRYPT_ERROR
    | RUriMismatch _ => ENC_TRUSTED_URI_MISMATCH
    | RPayload _ _ => ""
    end.

  (* protocol.py onMessage INVOCATION: proc = msg.procedure or registration.procedure.
     On failure the endpoint is NOT invoked; the reply is _message_from_exception(INVOCATION, request, enc_err):
     ERROR with the encryption error URI and one text argument, itself passed through the codec *)
  Variable note : recv -> V.       (* the log text used as the error's single argument *)
  Inductive invocation_out :=
  | EndpointInvoked (a : list V) (k : kw) (encrypted : bool)
  | ErrorReply (error : string) (s : sent).
  Definition on_invocation (codec : option keyring) (proc : string) (b : body) (n : nonce) : invocation_out :=
    match receive codec false proc b with
    | RPayload a k => EndpointInvoked (or_nil a) (or_nil k) (match b with Encoded _ => true | Plain _ _ => false end)
    | r => ErrorReply (enc_error_uri r) (error_body codec (enc_error_uri r) (Some [note r]) (Some []) n)
    end.

  (* which URI the callee binds an INVOCATION's ciphertext to.
     protocol.py register() / _register(): the optional prefix= argument is prepended BEFORE the RegisterRequest is
     created, so REGISTER.procedure and Registration.procedure are the same full URI — for a plain function, for a
     function + prefix, for every @wamp.register-decorated method of an object, with or without prefix.
     onMessage INVOCATION: proc = msg.procedure or registration.procedure (the router sends the `procedure` detail
     only for pattern-based registrations). *)
  Definition register_uris (prefix : option string) (procedure : string) : string * string :=
    let full := match prefix with Some p => String.append p procedure | None => procedure end in
    (full, full).                   (* (REGISTER.procedure on the wire, Registration.procedure kept by the session) *)
  Definition invocation_proc (detail : option string) (registration_procedure : string) : string :=
    match detail with Some d => d | None => registration_procedure end.
  Definition on_invocation_registered (codec : option keyring) (prefix : option string) (procedure : string)
             (detail : option string) (b : body) (n : nonce) : invocation_out :=
    on_invocation codec (invocation_proc detail (snd (register_uris prefix procedure))) b n.

  (* protocol.py onMessage RESULT: proc = call_request.procedure *)
  Inductive result_out :=
  | Resolved (a : list V) (k : kw)
  | ProgressDelivered (a : list V) (k : kw)
  | RejectedWith (error : string)                  (* txaio.reject(on_reply, ApplicationError(error, text)) *)
  | ProgressNotDelivered (error : string).        (* onUserError(enc_err, "could not deliver progressive call result ...") *)
  Definition on_result (codec : option keyring) (proc : string) (progress : bool) (b : body) : result_out :=
    match receive codec true proc b with
    | RPayload a k => if progress then ProgressDelivered (or_nil a) (or_nil k) else Resolved (or_nil a) (or_nil k)
    | r => if progress then ProgressNotDelivered (enc_error_uri r) else RejectedWith (enc_error_uri r)
    end.

  (* protocol.py _exception_from_message, the codec part: either an encryption error to return at once, or the
     (args, kwargs) that the rest of the function (Model/SessionErr.v exception_from_message) works on *)
  Inductive error_in := ErrPayload (a : option (list V)) (k : option kw) | ErrEnc (error : string).
  Definition on_error_codec (codec : option keyring) (error : string) (b : body) : error_in :=
    match receive codec true error b with
    | RPayload a k => ErrPayload a k
    | r => ErrEnc (enc_error_uri r)
    end.

  (* protocol.py _exception_from_message, WHOLE function with a codec: an encryption error is returned AT ONCE
     (`if enc_err: return enc_err`) — before the registry of exception classes is consulted and without the detail
     attributes being assigned; otherwise the decrypted args/kwargs replace msg.args/msg.kwargs and the rest of the
     function (Model/SessionErr.v exception_from_message: registered class or generic fallback) runs on them *)
  Variable MV : Type.
  Variable enc_note : string -> V.          (* the log text, single argument of the encryption error *)
  (* ApplicationError(ENC_..., log_msg, enc_algo=msg.enc_algo) *)
  Definition enc_exn (u : string) : cexn V MV :=
    mkCexn CLS_ApplicationError (Some u) [enc_note u] (Some []) true
           (map (fun n => (n, FromKw None)) RESERVED) [].
  Definition exception_from_message_codec
             (construct : cls -> shape -> list V -> kw -> ctor_result V MV) (caller_hook : hook) (reg : registry)
             (codec : option keyring) (rtype req : N) (error : string) (b : body) (meta : string -> option MV)
    : res (cexn V MV) * bool :=
    match on_error_codec codec error b with
    | ErrEnc u => (Ok (enc_exn u), false)
    | ErrPayload a k => exception_from_message construct caller_hook reg (mkErr rtype req error a k meta)
    end.
End Cryptobox.

Arguments HandlerInvoked {V}. Arguments EventIgnored {V}. Arguments EndpointInvoked {V C}. Arguments ErrorReply {V C}.
Arguments Resolved {V}. Arguments ProgressDelivered {V}. Arguments RejectedWith {V}. Arguments ProgressNotDelivered {V}.
Arguments ErrEnc {V}. Arguments ErrPayload {V}. Arguments Sent {V C}. Arguments SendRaises {V C}.
Arguments RPayload {V}. Arguments RNoCodec {V}. Arguments RDecryptError {V}. Arguments RUriMismatch {V}.
Arguments enc_error_uri {V}. Arguments mkEnc {C}. Arguments e_payload {C}. Arguments e_algo {C}.
Arguments e_serializer {C}. Arguments e_key {C}. Arguments Encoded {V C}. Arguments Plain {V C}.
Arguments DOk {V}. Arguments DRaise {V}.
Arguments KSet {X}. Arguments KUse {X}.
