(* Model of the callee side of autobahn.wamp.protocol.ApplicationSession (definitions only):
   INVOCATION dispatch, the success / error / progress closures, INTERRUPT, REGISTERED / UNREGISTERED,
   transport loss -- the projection of the session class that property C10 talks about.

   Sources mirrored (src/autobahn/wamp/protocol.py unless said otherwise):
     onMessage, branch message.Invocation      lookup, CallDetails, progress closure, txaio.as_future, add_callbacks
     success(res) / error(err)                 del self._invocations[..], YIELD / ERROR, the two except clauses
     _message_from_exception                   error URI and payload of the ERROR reply
     onMessage, branch message.Interrupt       txaio.cancel(invoked.on_reply)
     onMessage, branches Registered/Unregistered
     onClose                                   self._transport = None ; self._session_id = None
   txaio 26.6.1 (tx.py / aio.py): as_future, add_callbacks, cancel -- the two flavours differ observably:
     Tx  : add_callbacks = Deferred.addCallbacks: runs at once on a fired Deferred; a failure of `success` is NOT
           routed to `error` (same addCallbacks level) and ends as "Unhandled error in Deferred".
     Aio : add_callbacks = add_done_callback: callbacks run on a later loop iteration (op OTurn);
           `done` wraps BOTH f.result() and callback(res) in one try, so an exception raised by `success` makes
           `error` run as well; `async def` endpoints become Tasks whose body starts on the next iteration.

   The transport's send() is the Section variable [classify]: what send(msg) does with each message
   (Sent | raises SerializationError | raises PayloadExceededError | raises something else).  [ecls] is the
   exception-class -> error-URI registry filled by ApplicationSession.define. *)
From Coq Require Import NArith List Bool.
Import ListNotations.
Open Scope N_scope.

Inductive flavour := Tx | Aio.

(* ---------- application payloads (abstract tokens) ----------
   PVal id unser big : application data; [unser] = contains an object no serializer accepts,
                       [big] = its serialization exceeds the transport's size limit
   PNone             : Python None as the single result            PEmpty : no args / kwargs at all
   PText             : a short text made by the library or the interpreter (str(exception))
   PFallback k       : the text of the fallback ERROR built in success() / error(): a fixed sentence naming the
                       procedure plus str(e) of the transport's exception -- it does not contain the payload
                       (since /repo 0d005651; before, success() embedded repr(reply.args) and the fallback of an
                       oversized result was oversized itself).  success() and error() use the same sentence for
                       the size-limit case. *)
Inductive fbkind := FbSuccessSer | FbErrorSer | FbExceeded.
Inductive payload :=
| PVal (id : N) (unser big : bool)
| PNone
| PEmpty
| PText
| PFallback (k : fbkind)
| PSelf (obj : N) (p : payload).    (* positional arguments (obj,) + p: the instance given to session.register(obj),
                                       prepended as `self` -- an opaque identity, see r_obj *)

Definition p_unser (p : payload) : bool := match p with PVal _ u _ => u | _ => false end.
Definition p_big (p : payload) : bool := match p with PVal _ _ b => b | _ => false end.

(* ---------- messages the callee sends for an invocation ---------- *)
Inductive uri := UApp (u : N) | URuntime | UInvalidPayload | UPayloadExceeded | UTypeCheck.
Inductive wmsg :=
| MYield (req : N) (single : bool) (p : payload) (progress : bool)   (* single: args=[value] ; else args/kwargs=p *)
| MError (req : N) (u : uri) (p : payload).                          (* ERROR, request_type = INVOCATION *)
Definition m_payload (m : wmsg) : payload := match m with MYield _ _ p _ => p | MError _ _ p => p end.
Definition m_req (m : wmsg) : N := match m with MYield r _ _ _ => r | MError r _ _ => r end.

(* ---------- exceptions that escape library code ---------- *)
Inductive xcls := XProtocolError | XKeyError | XAttributeError | XTypeError
                | XSerializationError | XPayloadExceeded | XOther (c : N).
Inductive sres := Sent | SerErr | Exceeded | OtherExn (x : xcls).
Definition xcls_of (r : sres) : xcls :=
  match r with SerErr => XSerializationError | Exceeded => XPayloadExceeded | OtherExn x => x | Sent => XOther 0 end.

(* ---------- user code: what an endpoint does on one call ---------- *)
Inductive retval := RPlain (p : payload) | RCallResult (p : payload).   (* `return v` / `return CallResult(..)` *)
Inductive exn :=
| EApp (u : N) (p : payload)        (* ApplicationError(uri, *args, **kwargs) *)
| EOther (cls : N) (p : payload)    (* any other exception class, args = p; URI looked up in [ecls] *)
| ECancelled                        (* CancelledError made by txaio.cancel *)
| ETypeCheck                        (* TypeCheckError(ApplicationError) raised by the type_check wrapper: wamp.error.type_check_error *)
| EInternal.                        (* exception raised inside the endpoint by library/interpreter code,
                                       e.g. details.progress(...) failing, or details.progress being None *)
Inductive result := ROk (r : retval) | RErr (e : exn).
Inductive fin := FReturn (r : retval) | FRaise (e : exn) | FPending.     (* FPending: returns a Deferred/Future, or awaits one *)
Record behaviour := { b_pre : list payload;      (* progressive results emitted (details.progress) before finishing *)
                      b_fin : fin }.
(* how the INVOCATION's arguments relate to the endpoint's signature (a fact about user code + Python's call rules):
   SigOk        they bind (whatever the signature kind: fixed, *args, **kwargs, keyword-only, defaults) and match the
                type hints;
   SigShort     they do not bind (e.g. too few parameters): the call itself raises TypeError;
   SigIllTyped  they bind but contradict a type hint (only looked at when registered with check_types=True) *)
Inductive sigkind := SigOk | SigShort | SigIllTyped.
Record regd := { r_details : bool;               (* RegisterOptions(details_arg=...) given *)
                 r_coro : bool;                  (* registered callable is an `async def` *)
                 r_check : bool;                 (* register(..., check_types=True): fn = self.type_check(fn) *)
                 r_sig : sigkind;
                 r_obj : option N }.             (* Endpoint.obj: the instance whose decorated method this is (identity
                                                    only: the code asks `endpoint.obj is not None`, never its truth value) *)
(* protocol.py type_check(): `async def _type_check( *args, **kwargs)`: inspect.getcallargs(func, *args, **kwargs)
   (TypeError if they do not bind), isinstance checks against func.__annotations__ (TypeCheckError), then
   `return await txaio.as_future(func, *args, **kwargs)` -- the identity on well-typed calls.  Without the wrapper
   an unbindable call raises the same TypeError from the call itself (caught by txaio.as_future).
   gate_of d = the exception that replaces the endpoint call, if any. *)
Definition gate_of (d : regd) : option exn :=
  match r_sig d with
  | SigOk => None
  | SigShort => Some EInternal
  | SigIllTyped => if r_check d then Some ETypeCheck else None
  end.
(* the wrapper is a coroutine function: with asyncio the call becomes a Task like any `async def` endpoint *)
Definition is_coro (d : regd) : bool := r_coro d || r_check d.
(* ... unless the call of the (unwrapped) `async def` itself fails to bind its arguments: that TypeError is raised by
   `fun( *args, **kwargs)` inside txaio.as_future, before any coroutine object exists *)
Definition defers (d : regd) : bool :=
  is_coro d && (r_check d || match gate_of d with None => true | Some _ => false end).

(* `if endpoint.obj is not None: invoke_args = (endpoint.obj,)` ... `invoke_args + tuple(msg.args)` *)
Definition with_self (d : regd) (args : payload) : payload :=
  match r_obj d with Some o => PSelf o args | None => args end.

(* session.register(obj, options=call_opts, prefix=..): every @wamp.register-decorated method of obj's class, in
   inspect.getmembers order, is registered with `regopts = pat.options or options`: the method's OWN decorator options
   if it has any (a RegisterOptions object is always truthy, also one without details_arg), else the call-level ones;
   no method's options influence another's.  own / call_opts: None = no options object, Some b = options with
   (b = true) or without a details argument.  A history with an object registration is the history with these
   ORegister ops in its place. *)
Definition resolve_details (call_opts own : option bool) : bool :=
  match own with Some b => b | None => match call_opts with Some b => b | None => false end end.

(* ---------- INVOCATION.Details as the callee path reads them: every option may be ABSENT ----------
   caller / caller_authid (Some 0 = the empty string) / procedure: copied into CallDetails as they are, except
   `proc = msg.procedure or registration.procedure`; receive_progress is tri-state (absent / false / true) and the
   code tests its truthiness (`if msg.receive_progress:`); timeout is parsed and not looked at by the callee path. *)
Definition idet := (option N * option N * option N)%type.   (* caller, caller_authid, procedure *)
Definition cdet := (option N * option N * N)%type.          (* CallDetails: caller, caller_authid, procedure *)
Definition eff_details (reg : N) (i : idet) : cdet :=
  let '(c, a, p) := i in (c, a, match p with Some q => q | None => reg end).   (* registration.procedure ~ reg *)
Definition rp_on (rp : option bool) : bool := match rp with Some true => true | _ => false end.

(* ---------- histories ---------- *)
Inductive op :=
| ORegister (reg : N) (d : regd)            (* session.register(...) + REGISTERED(reg) from the router *)
| OUnregister (reg : N)                     (* registration.unregister() + UNREGISTERED *)
| OInvocation (req reg : N) (args : payload) (caller : idet) (rp : option bool) (b : behaviour)
                                            (* INVOCATION received; caller = its Details, rp = receive_progress
                                               (None = absent); b = what the endpoint will do *)
| OInterrupt (req : N)                      (* INTERRUPT received *)
| OResolve (k : N) (r : result)             (* user code resolves / fails the pending result of call k *)
| OProgress (k : N) (p : payload)           (* user code calls the details.progress of call k (at any time) *)
| OLose                                     (* transport lost: onClose *)
| OTurn.                                    (* one run of the event loop's ready queue (asyncio; no-op on Twisted) *)

Definition reg_object (obj : N) (call_opts : option bool) (methods : list (N * option bool * bool)) : list op :=
  map (fun m => let '(reg, own, coro) := m in
                ORegister reg {| r_details := resolve_details call_opts own; r_coro := coro; r_check := false;
                                 r_sig := SigOk; r_obj := Some obj |}) methods.

Inductive where_ := InOnMessage | InCallback.   (* raised out of onMessage / out of a future callback (Twisted:
                                                   "Unhandled error in Deferred"; asyncio: loop exception handler) *)
Inductive out :=
| OAccepted (k req reg : N) (args : payload) (caller : idet) (rp : option bool) (wants : bool)
      (* ghost: entered into _invocations; args = the positional/keyword arguments the endpoint is to get
         (the registered instance first, if any: with_self), caller/rp = the INVOCATION's details, wants = details_arg set *)
| OCalled (k req reg : N) (args : payload) (det : option (cdet * bool))   (* endpoint body entered; det = CallDetails
                                                                          (caller, progress is callable) if asked *)
| OSent (m : wmsg)
| ORaised (w : where_) (x : xcls)
| OProgRaised (k : N) (x : xcls).          (* exception delivered to user code by details.progress(...) *)

(* ---------- state ---------- *)
Inductive cstate :=
| CPending                          (* endpoint returned a pending Deferred/Future (Tx: also a suspended coroutine) *)
| CFresh (b : behaviour) (mc : bool)   (* Aio Task created, body not started; mc = Task._must_cancel *)
| CWaiting                          (* Aio Task suspended on the endpoint's inner future *)
| CWaking (mc : bool)               (* Aio: inner future done, Task wake-up queued *)
| CDone                             (* on_reply has a result (its callbacks ran or are queued) *)
| CNever.                           (* Aio Task cancelled before its body ran: done, and user code never saw the call *)
Record call := { c_req : N; c_reg : N; c_args : payload; c_det : option (cdet * bool); c_clos : bool; c_st : cstate;
                 c_gate : option exn }.     (* Some e: the endpoint body is not entered, the call raises e (see gate_of) *)
Inductive qitem := QCb (k : N) (r : result) | QStep (k : N) | QWake (k : N) (r : result).
Record st := { regs : list (N * regd);       (* self._registrations *)
               invs : list (N * N);          (* self._invocations : request id -> call index *)
               calls : list (N * call);      (* every endpoint call so far (closures keep msg / progress alive) *)
               up : bool;                    (* self._transport is not None *)
               joined : bool;                (* self._session_id is not None *)
               queue : list qitem;           (* asyncio ready queue (callbacks of interest only) *)
               nextk : N }.
Definition init : st := {| regs := []; invs := []; calls := []; up := true; joined := true; queue := []; nextk := 0 |}.

Fixpoint alookup {A} (k : N) (l : list (N * A)) : option A :=
  match l with [] => None | (k', v) :: r => if k =? k' then Some v else alookup k r end.
Fixpoint aremove {A} (k : N) (l : list (N * A)) : list (N * A) :=
  match l with [] => [] | (k', v) :: r => if k =? k' then aremove k r else (k', v) :: aremove k r end.
Definition aset {A} (k : N) (v : A) (l : list (N * A)) : list (N * A) := (k, v) :: aremove k l.
Definition amem {A} (k : N) (l : list (N * A)) : bool := match alookup k l with Some _ => true | None => false end.

Definition set_regs (s : st) v := {| regs := v; invs := invs s; calls := calls s; up := up s; joined := joined s; queue := queue s; nextk := nextk s |}.
Definition set_invs (s : st) v := {| regs := regs s; invs := v; calls := calls s; up := up s; joined := joined s; queue := queue s; nextk := nextk s |}.
Definition set_calls (s : st) v := {| regs := regs s; invs := invs s; calls := v; up := up s; joined := joined s; queue := queue s; nextk := nextk s |}.
Definition set_queue (s : st) v := {| regs := regs s; invs := invs s; calls := calls s; up := up s; joined := joined s; queue := v; nextk := nextk s |}.
Definition set_cst (k : N) (cs : cstate) (s : st) : st :=
  match alookup k (calls s) with
  | None => s
  | Some c => set_calls s (aset k {| c_req := c_req c; c_reg := c_reg c; c_args := c_args c; c_det := c_det c;
                                     c_clos := c_clos c; c_st := cs; c_gate := c_gate c |} (calls s))
  end.
Definition cst_of (s : st) (k : N) : option cstate := option_map c_st (alookup k (calls s)).

Section Session.
Variable classify : wmsg -> sres.     (* the transport's send(), per message *)
Variable ecls : list (N * N).         (* self._ecls_to_uri_pat : exception class -> URI *)

(* _message_from_exception: ApplicationError -> exc.error; registered class -> its URI; else runtime_error.
   args = list(exc.args), kwargs = exc.kwargs.  CancelledError has no args and is not registered. *)
Definition uri_of (e : exn) : uri :=
  match e with
  | EApp u _ => UApp u
  | EOther c _ => match alookup c ecls with Some u => UApp u | None => URuntime end
  | ECancelled => URuntime
  | ETypeCheck => UTypeCheck
  | EInternal => URuntime
  end.
Definition epayload (e : exn) : payload :=
  match e with EApp _ p => p | EOther _ p => p | ECancelled => PEmpty | EInternal => PText | ETypeCheck => PText end.

(* success(): reply = Yield(request, args=[res])  |  Yield(request, args=res.results, kwargs=res.kwresults) *)
Definition yield_of (req : N) (r : retval) : wmsg :=
  match r with RPlain p => MYield req true p false | RCallResult p => MYield req false p false end.
Definition rpayload (r : retval) : payload := match r with RPlain p => p | RCallResult p => p end.

(* try: send(reply)  except SerializationError: send(fb_ser)  except PayloadExceededError: send(fb_exc)
   -> what reached the wire, and the exception (if any) that leaves the closure *)
Definition send_with_fallback (m fb_ser fb_exc : wmsg) : list out * option xcls :=
  match classify m with
  | Sent => ([OSent m], None)
  | SerErr => match classify fb_ser with Sent => ([OSent fb_ser], None) | r => ([], Some (xcls_of r)) end
  | Exceeded => match classify fb_exc with Sent => ([OSent fb_exc], None) | r => ([], Some (xcls_of r)) end
  | OtherExn x => ([], Some x)
  end.

(* error(err): del self._invocations[msg.request]; onUserError (guarded); reply = _message_from_exception(...);
   self._transport.send(reply) with the two fallbacks.  No `self._transport is None` check here. *)
Definition run_error (s : st) (req : N) (e : exn) : st * list out :=
  match alookup req (invs s) with
  | None => (s, [ORaised InCallback XKeyError])
  | Some _ =>
    let s1 := set_invs s (aremove req (invs s)) in
    if up s then
      let '(o, x) := send_with_fallback (MError req (uri_of e) (epayload e))
                       (MError req UInvalidPayload (PFallback FbErrorSer))
                       (MError req UPayloadExceeded (PFallback FbExceeded)) in
      (s1, o ++ match x with None => [] | Some x => [ORaised InCallback x] end)
    else (s1, [ORaised InCallback XAttributeError])        (* None.send *)
  end.

(* success(res): del self._invocations[msg.request]; build YIELD; `if self._transport is None: return`;
   send with the two fallbacks.  An exception leaving success(): Tx -> unhandled in the Deferred;
   Aio -> txaio's done() calls errback(create_failure()), i.e. error() runs too. *)
Definition run_success (fl : flavour) (s : st) (req : N) (r : retval) : st * list out :=
  match alookup req (invs s) with
  | None => match fl with
            | Tx => (s, [ORaised InCallback XKeyError])
            | Aio => run_error s req EInternal
            end
  | Some _ =>
    let s1 := set_invs s (aremove req (invs s)) in
    if up s then
      let '(o, x) := send_with_fallback (yield_of req r)
                       (MError req UInvalidPayload (PFallback FbSuccessSer))
                       (MError req UPayloadExceeded (PFallback FbExceeded)) in
      match x with
      | None => (s1, o)
      | Some x => match fl with
                  | Tx => (s1, o ++ [ORaised InCallback x])
                  | Aio => let '(s2, o2) := run_error s1 req EInternal in (s2, o ++ o2)
                  end
      end
    else (s1, [])
  end.

(* the (success, error) pair added to on_reply of call k runs with the future's result *)
Definition run_cb (fl : flavour) (s : st) (k : N) (r : result) : st * list out :=
  match alookup k (calls s) with
  | None => (s, [])
  | Some c => match r with ROk v => run_success fl s (c_req c) v | RErr e => run_error s (c_req c) e end
  end.

(* on_reply of call k gets its result: Tx runs the callbacks now, Aio queues them *)
Definition complete (fl : flavour) (s : st) (k : N) (r : result) : st * list out :=
  let s1 := set_cst k CDone s in
  match fl with
  | Tx => run_cb fl s1 k r
  | Aio => (set_queue s1 (queue s1 ++ [QCb k r]), [])
  end.

(* the progress closure: self._transport.send(Yield(msg.request, args, kwargs, progress=True)) -- no guard at all *)
Definition progress_call (s : st) (req : N) (p : payload) : list out * option xcls :=
  if up s then
    match classify (MYield req false p true) with
    | Sent => ([OSent (MYield req false p true)], None)
    | r => ([], Some (xcls_of r))
    end
  else ([], Some XAttributeError).

(* the endpoint emits its progressive results; false = it got an exception (which it does not catch) *)
Fixpoint run_pre (s : st) (k req : N) (clos : bool) (pre : list payload) : list out * bool :=
  match pre with
  | [] => ([], true)
  | p :: rest =>
    if clos then
      match progress_call s req p with
      | (o, None) => let '(o', ok) := run_pre s k req clos rest in (o ++ o', ok)
      | (o, Some x) => (o ++ [OProgRaised k x], false)
      end
    else ([], false)          (* details.progress is None, or no details at all: TypeError / AttributeError *)
  end.

(* the endpoint body up to its first suspension; None = still pending *)
Definition run_body (s : st) (k : N) (c : call) (b : behaviour) : list out * option result :=
  match c_gate c with
  | Some e => ([], Some (RErr e))             (* the arguments do not bind / fail the type check: body not entered *)
  | None =>
    let '(o, ok) := run_pre s k (c_req c) (c_clos c) (b_pre b) in
    (OCalled k (c_req c) (c_reg c) (c_args c) (c_det c) :: o,
     if ok then match b_fin b with FReturn r => Some (ROk r) | FRaise e => Some (RErr e) | FPending => None end
     else Some (RErr EInternal))
  end.

Definition run_item (s : st) (q : qitem) : st * list out :=
  match q with
  | QCb k r => run_cb Aio s k r
  | QStep k =>                                  (* Task.__step of a fresh task *)
    match alookup k (calls s) with
    | Some c =>
      match c_st c with
      | CFresh b true =>                          (* CancelledError thrown into the unstarted coroutine *)
        let '(s', o) := complete Aio s k (RErr ECancelled) in (set_cst k CNever s', o)
      | CFresh b false =>
        let '(o, r) := run_body s k c b in
        match r with
        | None => (set_cst k CWaiting s, o)
        | Some r => let '(s', o') := complete Aio s k r in (s', o ++ o')
        end
      | _ => (s, [])
      end
    | None => (s, [])
    end
  | QWake k r =>                                (* Task.__wakeup: the coroutine resumes and finishes *)
    match cst_of s k with
    | Some (CWaking mc) => complete Aio s k (if mc then RErr ECancelled else r)
    | _ => (s, [])
    end
  end.
Fixpoint run_items (s : st) (q : list qitem) : st * list out :=
  match q with
  | [] => (s, [])
  | i :: r => let '(s1, o1) := run_item s i in let '(s2, o2) := run_items s1 r in (s2, o1 ++ o2)
  end.
(* BaseEventLoop: FIFO until empty.  QStep/QWake enqueue at most a QCb, QCb enqueues nothing: 3 rounds suffice *)
Definition round (s : st) : st * list out := run_items (set_queue s []) (queue s).
Definition turn (s : st) : st * list out :=
  let '(s1, o1) := round s in let '(s2, o2) := round s1 in let '(s3, o3) := round s2 in (s3, o1 ++ o2 ++ o3).

Definition step (fl : flavour) (s : st) (o : op) : st * list out :=
  match o with
  | ORegister reg d =>
    (* register(): TransportLost if no transport (API error, nothing observable here).
       Registered branch: existing id -> ProtocolError *)
    if negb (joined s) then (s, [])
    else if amem reg (regs s) then (s, [ORaised InOnMessage XProtocolError])
    else (set_regs s (aset reg d (regs s)), [])
  | OUnregister reg =>
    if joined s && amem reg (regs s) then (set_regs s (aremove reg (regs s)), []) else (s, [])
  | OInvocation req reg args caller rp b =>
    if negb (joined s) then (s, [ORaised InOnMessage XProtocolError])          (* session not established *)
    else if amem req (invs s) then (s, [ORaised InOnMessage XProtocolError])   (* already invoked *)
    else match alookup reg (regs s) with
    | None => (s, [ORaised InOnMessage XProtocolError])                        (* non-registered registration ID *)
    | Some d =>
      let k := nextk s in
      let clos := r_details d && rp_on rp in                     (* `if endpoint.details_arg: if msg.receive_progress:` *)
      let det := if r_details d then Some (eff_details reg caller, clos) else None in
      let cargs := with_self d args in
      let mk cs := {| c_req := req; c_reg := reg; c_args := cargs; c_det := det; c_clos := clos; c_st := cs;
                      c_gate := gate_of d |} in
      let acc := OAccepted k req reg cargs caller rp (r_details d) in
      let enter cs (s0 : st) := {| regs := regs s0; invs := aset req k (invs s0); calls := aset k (mk cs) (calls s0);
                                   up := up s0; joined := joined s0; queue := queue s0; nextk := k + 1 |} in
      match fl, defers d with
      | Aio, true =>                                        (* loop.create_task(coro): body runs on the next iteration *)
        let s1 := enter (CFresh b false) s in
        (set_queue s1 (queue s1 ++ [QStep k]), [acc])
      | _, _ =>
        let '(o, r) := run_body s k (mk CPending) b in      (* as_future(endpoint.fn, *args, **kwargs) *)
        let s1 := enter CPending s in                       (* self._invocations[msg.request] = InvocationRequest(..) *)
        match r with
        | None => (s1, acc :: o)
        | Some r => let '(s2, o2) := complete fl s1 k r in (s2, acc :: o ++ o2)   (* add_callbacks(on_reply, ..) *)
        end
      end
    end
  | OInterrupt req =>
    if negb (joined s) then (s, [ORaised InOnMessage XProtocolError])
    else match alookup req (invs s) with
    | None => (s, [])                                       (* "INTERRUPT received for non-pending invocation": ignored *)
    | Some k =>
      match cst_of s k with                                  (* txaio.cancel(invoked.on_reply) *)
      | Some CPending => complete fl s k (RErr ECancelled)
      | Some (CFresh b _) => (set_cst k (CFresh b true) s, [])
      | Some CWaiting => (let s1 := set_cst k (CWaking false) s in set_queue s1 (queue s1 ++ [QWake k (RErr ECancelled)]), [])
      | Some (CWaking _) => (set_cst k (CWaking true) s, [])
      | _ => (s, [])                                        (* future already done: cancel() is a no-op *)
      end
    end
  | OResolve k r =>
    match cst_of s k with
    | Some CPending => complete fl s k r
    | Some CWaiting => (let s1 := set_cst k (CWaking false) s in set_queue s1 (queue s1 ++ [QWake k r]), [])
    | _ => (s, [])                                          (* nothing to resolve (AlreadyCalled / InvalidState on the user's side) *)
    end
  | OProgress k p =>
    match alookup k (calls s) with
    | Some c =>
      match c_st c with
      | CFresh _ _ => (s, [])                               (* the body has not received its CallDetails yet *)
      | CNever => (s, [])                                   (* ... and never will *)
      | _ => match c_gate c with
             | Some _ => (s, [])                            (* the arguments never reached the body: nobody holds its details *)
             | None =>
               if c_clos c then
                 match progress_call s (c_req c) p with
                 | (o, None) => (s, o)
                 | (o, Some x) => (s, o ++ [OProgRaised k x])
                 end
               else (s, [])                                 (* no callable progress: nothing can be sent *)
             end
      end
    | None => (s, [])
    end
  | OLose => ({| regs := regs s; invs := invs s; calls := calls s; up := false; joined := false;
                 queue := queue s; nextk := nextk s |}, [])
  | OTurn => match fl with Tx => (s, []) | Aio => turn s end
  end.

Fixpoint run (fl : flavour) (s : st) (ops : list op) : st * list out :=
  match ops with
  | [] => (s, [])
  | o :: r => let '(s1, o1) := step fl s o in let '(s2, o2) := run fl s1 r in (s2, o1 ++ o2)
  end.

End Session.

(* ---------- what "the transport classifies correctly" means (hypothesis of the positive theorem) ---------- *)
Definition classify_ok (classify : wmsg -> sres) : Prop :=
  forall m, classify m = if p_unser (m_payload m) then SerErr else if p_big (m_payload m) then Exceeded else Sent.

(* ---------- the real transports' send(), as far as classification goes ----------
   The serialized length of a message and whether the serializer accepts it are the serializer's business:
   oracles [msize], [munser].  [limit] is the configured / negotiated maximum. *)
Section Sized.
Variable msize : wmsg -> N.
Variable munser : wmsg -> bool.
(* wamp/websocket.py WampWebSocketProtocol.send: serialize under `except Exception -> raise SerializationError`;
   websocket/protocol.py sendMessage: `if 0 < self.maxMessagePayloadSize < payload_len: raise PayloadExceededError` *)
Definition ws_send_at (limit : N) (m : wmsg) : sres :=
  if munser m then SerErr else if (0 <? limit) && (limit <? msize m) then Exceeded else Sent.
(* twisted/rawsocket.py WampRawSocketProtocol.send: serialize under `except Exception -> raise SerializationError`
   (4bb5bcbc; before: `except SerializationError` only); `if 0 < self._max_len_send < payload_len: raise PayloadExceededError` *)
Definition rs_tx_send_at (limit : N) (m : wmsg) : sres :=
  if munser m then SerErr else if (0 <? limit) && (limit <? msize m) then Exceeded else Sent.
(* asyncio/rawsocket.py WampRawSocketMixinGeneral.send: serialize under `except Exception -> raise SerializationError`;
   `if payload_len > self.max_length_send: raise PayloadExceededError` (ad1f12fb; before: sendString's
   ValueError("Data too big") came through) *)
Definition rs_aio_send_at (limit : N) (m : wmsg) : sres :=
  if munser m then SerErr else if limit <? msize m then Exceeded else Sent.
End Sized.
(* the payload tokens' flags as a size: a message "of size 2" against the limit 1 is oversized, "of size 1" is not --
   a message exactly as long as the limit is sent *)
Definition flag_size (m : wmsg) : N := if p_big (m_payload m) then 2 else 1.
Definition flag_unser (m : wmsg) : bool := p_unser (m_payload m).
Definition ws_send : wmsg -> sres := ws_send_at flag_size flag_unser 1.
Definition rs_tx_send : wmsg -> sres := rs_tx_send_at flag_size flag_unser 1.
Definition rs_aio_send : wmsg -> sres := rs_aio_send_at flag_size flag_unser 1.

(* transports that do NOT classify correctly -- the two send() implementations as they were before the repairs;
   kept to show that the hypothesis [classify_ok] of C10_one_terminal is needed (and as regression documentation) *)
Definition XValueError : xcls := XOther 1.
Definition leaky_unser_send (ser_exn : xcls) (m : wmsg) : sres :=     (* `except SerializationError` only *)
  if p_unser (m_payload m) then OtherExn ser_exn else if p_big (m_payload m) then Exceeded else Sent.
Definition leaky_big_send (m : wmsg) : sres :=                        (* size check left to sendString *)
  if p_unser (m_payload m) then SerErr else if p_big (m_payload m) then OtherExn XValueError else Sent.

(* ---------- observations on output lists (used by the property statements) ---------- *)
Definition is_terminal (req : N) (o : out) : bool :=
  match o with
  | OSent (MYield r _ _ false) => r =? req
  | OSent (MError r _ _) => r =? req
  | _ => false
  end.
Definition is_accepted (req : N) (o : out) : bool :=
  match o with OAccepted _ r _ _ _ _ _ => r =? req | _ => false end.
Definition is_progressive (req : N) (o : out) : bool :=
  match o with OSent (MYield r _ _ true) => r =? req | _ => false end.
Definition is_called (k : N) (o : out) : bool :=
  match o with OCalled k' _ _ _ _ => k' =? k | _ => false end.
Definition count (f : out -> bool) (l : list out) : nat := length (filter f l).
Definition terminals (req : N) (l : list out) : nat := count (is_terminal req) l.
Definition accepted (req : N) (l : list out) : nat := count (is_accepted req) l.
Definition active (req : N) (s : st) : nat := if amem req (invs s) then 1%nat else 0%nat.

(* hypotheses on histories *)
Definition is_lose (o : op) : bool := match o with OLose => true | _ => false end.
Definition stays_up (ops : list op) : Prop := forallb (fun o => negb (is_lose o)) ops = true.
