(* Executable entry points used by the C09 correspondence run and search (harness/props/c09.py). *)
From Coq Require Import NArith ZArith List Bool.
From AV Require Import Model.Utf8 Gen.Utf8TablePy Gen.Utf8TableC Gen.Utf8Unrolled.
Import ListNotations.
Open Scope N_scope.

Definition vresult_eqb (a b : vresult) : bool :=
  let '(a1, a2, a3, a4) := a in let '(b1, b2, b3, b4) := b in
  Bool.eqb a1 b1 && Bool.eqb a2 b2 && (a3 =? b3) && (a4 =? b4).

Fixpoint results_eqb (a b : list vresult) : bool :=
  match a, b with
  | [], [] => true
  | x :: a', y :: b' => vresult_eqb x y && results_eqb a' b'
  | _, _ => false
  end.

(* impl codes: 0 = pure Python Utf8Validator; 1..4 = NVX Utf8Validator after nvx_utf8vld_set_impl(k);
   5 = NVX Utf8Validator as constructed (nvx_utf8vld_new) *)
Definition model_results (impl : N) (chunks : list (list N)) : list vresult :=
  if impl =? 0 then snd (feed (py_validate dfa_py) py_reset chunks)
  else let v0 := c_new c_impl_default in
       let v := if impl =? 5 then v0 else c_set_impl c_impl_default v0 impl in
       snd (feed (nvx_validate dfa_c unrolled_tbl) v chunks).

(* a case = (implementation, chunks fed one validate() call each, the 4-tuples the real code returned) *)
Definition utf8_case := (N * list (list N) * list vresult)%type.
Definition utf8_case_ok (c : utf8_case) : bool :=
  let '(impl, chunks, expected) := c in results_eqb (model_results impl chunks) expected.

(* search support: the cells (state, octet) where a step function differs from the RFC machine *)
Definition seqN (n : nat) : list N := map N.of_nat (seq 0 n).
Definition diff_cells (step : N -> N -> N) : list (N * N * N * N) :=
  flat_map (fun s => flat_map (fun b => if step s b =? rfc_step s b then [] else [(s, b, step s b, rfc_step s b)])
                              (seqN 256)) (seqN 9).
Definition diff_cells_py := diff_cells (dfa_step dfa_py).
Definition diff_cells_c := diff_cells (dfa_step dfa_c).
Definition diff_cells_unrolled := diff_cells (unrolled_step unrolled_tbl).
