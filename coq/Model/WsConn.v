(* Model of the WebSocket connection-level state machine: closing handshake, close bookkeeping and timers.
   DEFINITIONS ONLY (proofs: Proofs/WsConnProofs*.v; property statements: Props/C05.v, Props/C17.v).

   Sources mirrored (statement group by statement group, anchors in comments):
     src/autobahn/websocket/protocol.py   WebSocketProtocol._connectionMade/_connectionLost, onCloseFrame,
         sendCloseFrame, sendClose, _fail_connection, _protocol_violation, _invalid_payload, dropConnection,
         on{Open,Close}HandshakeTimeout, onServerConnectionDropTimeout, onAutoPingTimeout, _sendAutoPing,
         _cancelAutoPingTimeoutCall, processControlFrame (close/ping/pong), onFrameEnd (restart on traffic),
         onMessageEnd, sendMessage/sendPing/sendPong guards, succeedHandshake / client processHandshake tail,
         failHandshake (both roles)
     src/autobahn/util.py                 encode_truncate
     txaio/_common.py                     _BatchedTimer.call_later/_notify_bucket/_remove_call
   Incoming traffic is modelled at the level of already parsed events (the octet level is Model/WsRecv.v).
   Time is N milliseconds.  Python exceptions raised to API callers are explicit outputs (Raised).
   The model follows the code as repaired by ba5bad9e (client arms the server-drop timer after answering the peer's
   close), d34a3b8b (an invalid close frame is not dispatched) and 86f33b05 (onAutoPingTimeout checks the state).
   Ghost fields (not in the code, not compared by the correspondence run): gone, closingSince, lastPeerClose.

   Environment assumptions built into [step] (they are facts about Twisted/asyncio, not about autobahn):
     - connectionLost / connection_lost is delivered at most once ([gone]); after it no octets are delivered;
     - opening-handshake octets are only interpreted in CONNECTING, frames only after it: an event that is not
       applicable in the current state is a no-op (the correspondence driver skips it on the real code too). *)
From Coq Require Import NArith List Bool.
From AV Require Import Gen.WsConnConsts.
Import ListNotations.
Open Scope N_scope.

(* ------------------------------------------------------------------------------------------------ *)
(* UTF-8 well-formedness, written from RFC 3629 section 4 (UTF8-octets = *( UTF8-char )):
     UTF8-1 = %x00-7F                          UTF8-2 = %xC2-DF UTF8-tail
     UTF8-3 = %xE0 %xA0-BF UTF8-tail / %xE1-EC 2( UTF8-tail ) / %xED %x80-9F UTF8-tail / %xEE-EF 2( UTF8-tail )
     UTF8-4 = %xF0 %x90-BF 2( UTF8-tail ) / %xF1-F3 3( UTF8-tail ) / %xF4 %x80-8F 2( UTF8-tail )
     UTF8-tail = %x80-BF *)
Definition inr (lo hi b : N) : bool := (lo <=? b) && (b <=? hi).
Definition utail (b : N) : bool := inr 0x80 0xBF b.
Definition lead2 (b1 : N) : bool := inr 0xC2 0xDF b1.
Definition ok3 (b1 b2 : N) : bool :=
  ((b1 =? 0xE0) && inr 0xA0 0xBF b2) || (inr 0xE1 0xEC b1 && utail b2) ||
  ((b1 =? 0xED) && inr 0x80 0x9F b2) || (inr 0xEE 0xEF b1 && utail b2).
Definition ok4 (b1 b2 : N) : bool :=
  ((b1 =? 0xF0) && inr 0x90 0xBF b2) || (inr 0xF1 0xF3 b1 && utail b2) || ((b1 =? 0xF4) && inr 0x80 0x8F b2).

(* number of octets of the well-formed character encoding at the head of [bs]; 0 if there is none *)
Definition char_len (bs : list N) : nat :=
  match bs with
  | [] => 0
  | b1 :: r1 =>
    if b1 <=? 0x7F then 1 else
    match r1 with
    | [] => 0
    | b2 :: r2 =>
      if lead2 b1 && utail b2 then 2 else
      match r2 with
      | [] => 0
      | b3 :: r3 =>
        if ok3 b1 b2 && utail b3 then 3 else
        match r3 with
        | [] => 0
        | b4 :: _ => if ok4 b1 b2 && utail b3 && utail b4 then 4 else 0
        end
      end
    end
  end%nat.

(* fuel = number of octets always suffices (every character consumes at least one octet) *)
Fixpoint wf_fuel (fuel : nat) (bs : list N) : bool :=
  match bs with
  | [] => true
  | _ :: _ =>
    match fuel with
    | O => false
    | S f => match char_len bs with
             | O => false
             | k => wf_fuel f (skipn k bs)
             end
    end
  end.
Definition wf_utf8 (bs : list N) : bool := wf_fuel (length bs) bs.

(* longest prefix consisting of complete well-formed characters *)
Fixpoint take_chars (fuel : nat) (bs : list N) : list N :=
  match fuel with
  | O => []
  | S f => match char_len bs with
           | O => []
           | k => firstn k bs ++ take_chars f (skipn k bs)
           end
  end.

(* util.py: encode_truncate(text, limit) on the UTF-8 octets [s] of [text]:
     s = text.encode(); if len(s) > limit: s = s[:limit]; text = s.decode("utf8", "ignore"); s = text.encode()
   For well-formed [s] the cut prefix consists of complete characters followed by at most one incomplete
   character, which decode(errors="ignore") drops; that is [take_chars].  (For ill-formed input CPython's
   "ignore" would also drop octets in the middle; Python str.encode never produces such input.) *)
Definition encode_truncate (s : list N) (limit : nat) : list N :=
  if Nat.leb (length s) limit then s else take_chars limit (firstn limit s).

Definition truncate_opt (r : option (list N)) : option (list N) :=
  match r with None => None | Some s => Some (encode_truncate s 123) end.

(* ------------------------------------------------------------------------------------------------ *)
(* configuration, state, outputs *)
Inductive role := Server | Client.
Inductive wstate := CONNECTING | OPEN | CLOSING | CLOSED.

Record cfg := mkCfg {
  c_role : role;
  failByDrop : bool;
  echoCloseCodeReason : bool;
  openHandshakeTimeout : N;          (* ms; 0 = off  (code: "> 0") *)
  closeHandshakeTimeout : N;
  serverConnectionDropTimeout : N;   (* client only *)
  autoPingInterval : N;              (* ms; 0 = off  (code: truthiness) *)
  autoPingTimeout : N;
  autoPingSize : N;
  autoPingRestartOnAnyTraffic : bool;
  t_start : N;                       (* virtual time of connectionMade *)
  c_proxy : bool                     (* client only: factory.proxy is set (explicit HTTP proxy, CONNECT first) *)
}.

(* class of wasNotCleanReason *)
Inductive nreason :=
| RNone              (* None *)
| RPeerDropped       (* "peer dropped the TCP connection without previous WebSocket closing handshake" *)
| ROpenTO            (* "WebSocket opening handshake timeout (peer did not finish the opening handshake in time)" *)
| RCloseTO           (* "WebSocket closing handshake timeout (peer did not finish the closing handshake in time)" *)
| RDropTO            (* "WebSocket closing handshake timeout (server did not drop TCP connection in time)" *)
| RPingTO            (* "WebSocket ping timeout (peer did not respond with pong in time)" *)
| RIDropped          (* "I dropped the WebSocket TCP connection: ..." (failByDrop) *)
| RHandshake.        (* failHandshake(reason) *)

Inductive tkind := TOpenHS | TCloseHS | TServerDrop | TAutoPing | TAutoPingTO.

(* one underlying delayed call of the reactor / event loop: a bucket of the batched timer (te_key = Some
   real_time) or a plain txaio.call_later (te_key = None).  The list [timers] is kept in creation order, which
   is the order in which Twisted's Clock and the asyncio loop run calls scheduled for the same time. *)
Record tentry := mkT { te_time : N; te_key : option N; te_calls : list (tkind * N) }.

Inductive corigin := OApi | OFail | OReply.
Inductive exn := ExDisconnected | ExException.

Inductive oev :=
| WHttp                                   (* opening-handshake octets (request / response / HTTP error) *)
| WData                                   (* a complete data frame (text, binary or continuation) *)
| WHdr                                    (* beginMessageFrame: the header of a streaming data frame *)
| WPayload (n : N)                        (* sendMessageFrameData: n payload octets of it *)
| WPing (auto : option N)                 (* ping frame; Some seq = automatic ping number seq *)
| WPong
| WClose (o : corigin) (code : option N) (reason : option (list N))
| Lose | Abort                            (* transport.loseConnection / abortConnection *)
| CbOpen | CbMessage | CbPing | CbPong
| CbClose (clean : bool) (code : option N) (reason : option (list N)) (cls : nreason)
| IsOpen | IsClosed                       (* the is_open / is_closed futures resolve *)
| Raised (e : exn).                       (* exception raised to the caller of an API method *)

Definition out := (N * oev)%type.           (* stamped with the virtual time *)

(* payload of a close frame as handed to onCloseFrame by processControlFrame:
   None = empty payload; Some (code, None) = two octets; Some (code, Some reason) = more than two octets.
   PC1 = a close frame with a 1-octet payload (rejected at the header, then seen as empty by onCloseFrame).
   The ghost field lastPeerClose records the last close frame that reached onCloseFrame. *)
Inductive peer_close := PC (body : option (N * option (list N))) | PC1.

(* streaming send API: SEND_STATE_GROUND / MESSAGE_BEGIN / INSIDE_MESSAGE.  (INSIDE_MESSAGE_FRAME only arises through
   beginMessageFrame + sendMessageFrameData used separately: implementation-side oracle family only) *)
Inductive sstate := SGround | SBegin | SInside.

Record cstate := mkS {
  st : wstate;
  now : N;
  gone : bool;
  closedByMe : bool;
  failedByMe : bool;
  droppedByMe : bool;
  wasClean : bool;
  ncr : nreason;
  localCode : option N;
  localReason : option (list N);
  remoteCode : option N;
  remoteReason : option (list N);
  wasOpenTO : bool;
  wasCloseTO : bool;
  wasDropTO : bool;
  hOpen : option N;
  hClose : option N;
  hDrop : option N;
  hPing : option N;
  hPingTO : option N;
  nextId : N;
  timers : list tentry;
  pingPending : option N;
  pingSeq : N;
  closingSince : option N;
  lastPeerClose : option peer_close;
  proxyPending : bool;
  sst : sstate;
  inMsg : bool;
  rxPartial : bool
}.

Definition set_st (v : wstate) (s : cstate) : cstate :=
  mkS v (now s) (gone s) (closedByMe s) (failedByMe s) (droppedByMe s) (wasClean s) (ncr s) (localCode s) (localReason s) (remoteCode s) (remoteReason s) (wasOpenTO s) (wasCloseTO s) (wasDropTO s) (hOpen s) (hClose s) (hDrop s) (hPing s) (hPingTO s) (nextId s) (timers s) (pingPending s) (pingSeq s) (closingSince s) (lastPeerClose s) (proxyPending s) (sst s) (inMsg s) (rxPartial s).
Definition set_now (v : N) (s : cstate) : cstate :=
  mkS (st s) v (gone s) (closedByMe s) (failedByMe s) (droppedByMe s) (wasClean s) (ncr s) (localCode s) (localReason s) (remoteCode s) (remoteReason s) (wasOpenTO s) (wasCloseTO s) (wasDropTO s) (hOpen s) (hClose s) (hDrop s) (hPing s) (hPingTO s) (nextId s) (timers s) (pingPending s) (pingSeq s) (closingSince s) (lastPeerClose s) (proxyPending s) (sst s) (inMsg s) (rxPartial s).
Definition set_gone (v : bool) (s : cstate) : cstate :=
  mkS (st s) (now s) v (closedByMe s) (failedByMe s) (droppedByMe s) (wasClean s) (ncr s) (localCode s) (localReason s) (remoteCode s) (remoteReason s) (wasOpenTO s) (wasCloseTO s) (wasDropTO s) (hOpen s) (hClose s) (hDrop s) (hPing s) (hPingTO s) (nextId s) (timers s) (pingPending s) (pingSeq s) (closingSince s) (lastPeerClose s) (proxyPending s) (sst s) (inMsg s) (rxPartial s).
Definition set_closedByMe (v : bool) (s : cstate) : cstate :=
  mkS (st s) (now s) (gone s) v (failedByMe s) (droppedByMe s) (wasClean s) (ncr s) (localCode s) (localReason s) (remoteCode s) (remoteReason s) (wasOpenTO s) (wasCloseTO s) (wasDropTO s) (hOpen s) (hClose s) (hDrop s) (hPing s) (hPingTO s) (nextId s) (timers s) (pingPending s) (pingSeq s) (closingSince s) (lastPeerClose s) (proxyPending s) (sst s) (inMsg s) (rxPartial s).
Definition set_failedByMe (v : bool) (s : cstate) : cstate :=
  mkS (st s) (now s) (gone s) (closedByMe s) v (droppedByMe s) (wasClean s) (ncr s) (localCode s) (localReason s) (remoteCode s) (remoteReason s) (wasOpenTO s) (wasCloseTO s) (wasDropTO s) (hOpen s) (hClose s) (hDrop s) (hPing s) (hPingTO s) (nextId s) (timers s) (pingPending s) (pingSeq s) (closingSince s) (lastPeerClose s) (proxyPending s) (sst s) (inMsg s) (rxPartial s).
Definition set_droppedByMe (v : bool) (s : cstate) : cstate :=
  mkS (st s) (now s) (gone s) (closedByMe s) (failedByMe s) v (wasClean s) (ncr s) (localCode s) (localReason s) (remoteCode s) (remoteReason s) (wasOpenTO s) (wasCloseTO s) (wasDropTO s) (hOpen s) (hClose s) (hDrop s) (hPing s) (hPingTO s) (nextId s) (timers s) (pingPending s) (pingSeq s) (closingSince s) (lastPeerClose s) (proxyPending s) (sst s) (inMsg s) (rxPartial s).
Definition set_wasClean (v : bool) (s : cstate) : cstate :=
  mkS (st s) (now s) (gone s) (closedByMe s) (failedByMe s) (droppedByMe s) v (ncr s) (localCode s) (localReason s) (remoteCode s) (remoteReason s) (wasOpenTO s) (wasCloseTO s) (wasDropTO s) (hOpen s) (hClose s) (hDrop s) (hPing s) (hPingTO s) (nextId s) (timers s) (pingPending s) (pingSeq s) (closingSince s) (lastPeerClose s) (proxyPending s) (sst s) (inMsg s) (rxPartial s).
Definition set_ncr (v : nreason) (s : cstate) : cstate :=
  mkS (st s) (now s) (gone s) (closedByMe s) (failedByMe s) (droppedByMe s) (wasClean s) v (localCode s) (localReason s) (remoteCode s) (remoteReason s) (wasOpenTO s) (wasCloseTO s) (wasDropTO s) (hOpen s) (hClose s) (hDrop s) (hPing s) (hPingTO s) (nextId s) (timers s) (pingPending s) (pingSeq s) (closingSince s) (lastPeerClose s) (proxyPending s) (sst s) (inMsg s) (rxPartial s).
Definition set_localCode (v : option N) (s : cstate) : cstate :=
  mkS (st s) (now s) (gone s) (closedByMe s) (failedByMe s) (droppedByMe s) (wasClean s) (ncr s) v (localReason s) (remoteCode s) (remoteReason s) (wasOpenTO s) (wasCloseTO s) (wasDropTO s) (hOpen s) (hClose s) (hDrop s) (hPing s) (hPingTO s) (nextId s) (timers s) (pingPending s) (pingSeq s) (closingSince s) (lastPeerClose s) (proxyPending s) (sst s) (inMsg s) (rxPartial s).
Definition set_localReason (v : option (list N)) (s : cstate) : cstate :=
  mkS (st s) (now s) (gone s) (closedByMe s) (failedByMe s) (droppedByMe s) (wasClean s) (ncr s) (localCode s) v (remoteCode s) (remoteReason s) (wasOpenTO s) (wasCloseTO s) (wasDropTO s) (hOpen s) (hClose s) (hDrop s) (hPing s) (hPingTO s) (nextId s) (timers s) (pingPending s) (pingSeq s) (closingSince s) (lastPeerClose s) (proxyPending s) (sst s) (inMsg s) (rxPartial s).
Definition set_remoteCode (v : option N) (s : cstate) : cstate :=
  mkS (st s) (now s) (gone s) (closedByMe s) (failedByMe s) (droppedByMe s) (wasClean s) (ncr s) (localCode s) (localReason s) v (remoteReason s) (wasOpenTO s) (wasCloseTO s) (wasDropTO s) (hOpen s) (hClose s) (hDrop s) (hPing s) (hPingTO s) (nextId s) (timers s) (pingPending s) (pingSeq s) (closingSince s) (lastPeerClose s) (proxyPending s) (sst s) (inMsg s) (rxPartial s).
Definition set_remoteReason (v : option (list N)) (s : cstate) : cstate :=
  mkS (st s) (now s) (gone s) (closedByMe s) (failedByMe s) (droppedByMe s) (wasClean s) (ncr s) (localCode s) (localReason s) (remoteCode s) v (wasOpenTO s) (wasCloseTO s) (wasDropTO s) (hOpen s) (hClose s) (hDrop s) (hPing s) (hPingTO s) (nextId s) (timers s) (pingPending s) (pingSeq s) (closingSince s) (lastPeerClose s) (proxyPending s) (sst s) (inMsg s) (rxPartial s).
Definition set_wasOpenTO (v : bool) (s : cstate) : cstate :=
  mkS (st s) (now s) (gone s) (closedByMe s) (failedByMe s) (droppedByMe s) (wasClean s) (ncr s) (localCode s) (localReason s) (remoteCode s) (remoteReason s) v (wasCloseTO s) (wasDropTO s) (hOpen s) (hClose s) (hDrop s) (hPing s) (hPingTO s) (nextId s) (timers s) (pingPending s) (pingSeq s) (closingSince s) (lastPeerClose s) (proxyPending s) (sst s) (inMsg s) (rxPartial s).
Definition set_wasCloseTO (v : bool) (s : cstate) : cstate :=
  mkS (st s) (now s) (gone s) (closedByMe s) (failedByMe s) (droppedByMe s) (wasClean s) (ncr s) (localCode s) (localReason s) (remoteCode s) (remoteReason s) (wasOpenTO s) v (wasDropTO s) (hOpen s) (hClose s) (hDrop s) (hPing s) (hPingTO s) (nextId s) (timers s) (pingPending s) (pingSeq s) (closingSince s) (lastPeerClose s) (proxyPending s) (sst s) (inMsg s) (rxPartial s).
Definition set_wasDropTO (v : bool) (s : cstate) : cstate :=
  mkS (st s) (now s) (gone s) (closedByMe s) (failedByMe s) (droppedByMe s) (wasClean s) (ncr s) (localCode s) (localReason s) (remoteCode s) (remoteReason s) (wasOpenTO s) (wasCloseTO s) v (hOpen s) (hClose s) (hDrop s) (hPing s) (hPingTO s) (nextId s) (timers s) (pingPending s) (pingSeq s) (closingSince s) (lastPeerClose s) (proxyPending s) (sst s) (inMsg s) (rxPartial s).
Definition set_hOpen (v : option N) (s : cstate) : cstate :=
  mkS (st s) (now s) (gone s) (closedByMe s) (failedByMe s) (droppedByMe s) (wasClean s) (ncr s) (localCode s) (localReason s) (remoteCode s) (remoteReason s) (wasOpenTO s) (wasCloseTO s) (wasDropTO s) v (hClose s) (hDrop s) (hPing s) (hPingTO s) (nextId s) (timers s) (pingPending s) (pingSeq s) (closingSince s) (lastPeerClose s) (proxyPending s) (sst s) (inMsg s) (rxPartial s).
Definition set_hClose (v : option N) (s : cstate) : cstate :=
  mkS (st s) (now s) (gone s) (closedByMe s) (failedByMe s) (droppedByMe s) (wasClean s) (ncr s) (localCode s) (localReason s) (remoteCode s) (remoteReason s) (wasOpenTO s) (wasCloseTO s) (wasDropTO s) (hOpen s) v (hDrop s) (hPing s) (hPingTO s) (nextId s) (timers s) (pingPending s) (pingSeq s) (closingSince s) (lastPeerClose s) (proxyPending s) (sst s) (inMsg s) (rxPartial s).
Definition set_hDrop (v : option N) (s : cstate) : cstate :=
  mkS (st s) (now s) (gone s) (closedByMe s) (failedByMe s) (droppedByMe s) (wasClean s) (ncr s) (localCode s) (localReason s) (remoteCode s) (remoteReason s) (wasOpenTO s) (wasCloseTO s) (wasDropTO s) (hOpen s) (hClose s) v (hPing s) (hPingTO s) (nextId s) (timers s) (pingPending s) (pingSeq s) (closingSince s) (lastPeerClose s) (proxyPending s) (sst s) (inMsg s) (rxPartial s).
Definition set_hPing (v : option N) (s : cstate) : cstate :=
  mkS (st s) (now s) (gone s) (closedByMe s) (failedByMe s) (droppedByMe s) (wasClean s) (ncr s) (localCode s) (localReason s) (remoteCode s) (remoteReason s) (wasOpenTO s) (wasCloseTO s) (wasDropTO s) (hOpen s) (hClose s) (hDrop s) v (hPingTO s) (nextId s) (timers s) (pingPending s) (pingSeq s) (closingSince s) (lastPeerClose s) (proxyPending s) (sst s) (inMsg s) (rxPartial s).
Definition set_hPingTO (v : option N) (s : cstate) : cstate :=
  mkS (st s) (now s) (gone s) (closedByMe s) (failedByMe s) (droppedByMe s) (wasClean s) (ncr s) (localCode s) (localReason s) (remoteCode s) (remoteReason s) (wasOpenTO s) (wasCloseTO s) (wasDropTO s) (hOpen s) (hClose s) (hDrop s) (hPing s) v (nextId s) (timers s) (pingPending s) (pingSeq s) (closingSince s) (lastPeerClose s) (proxyPending s) (sst s) (inMsg s) (rxPartial s).
Definition set_nextId (v : N) (s : cstate) : cstate :=
  mkS (st s) (now s) (gone s) (closedByMe s) (failedByMe s) (droppedByMe s) (wasClean s) (ncr s) (localCode s) (localReason s) (remoteCode s) (remoteReason s) (wasOpenTO s) (wasCloseTO s) (wasDropTO s) (hOpen s) (hClose s) (hDrop s) (hPing s) (hPingTO s) v (timers s) (pingPending s) (pingSeq s) (closingSince s) (lastPeerClose s) (proxyPending s) (sst s) (inMsg s) (rxPartial s).
Definition set_timers (v : list tentry) (s : cstate) : cstate :=
  mkS (st s) (now s) (gone s) (closedByMe s) (failedByMe s) (droppedByMe s) (wasClean s) (ncr s) (localCode s) (localReason s) (remoteCode s) (remoteReason s) (wasOpenTO s) (wasCloseTO s) (wasDropTO s) (hOpen s) (hClose s) (hDrop s) (hPing s) (hPingTO s) (nextId s) v (pingPending s) (pingSeq s) (closingSince s) (lastPeerClose s) (proxyPending s) (sst s) (inMsg s) (rxPartial s).
Definition set_pingPending (v : option N) (s : cstate) : cstate :=
  mkS (st s) (now s) (gone s) (closedByMe s) (failedByMe s) (droppedByMe s) (wasClean s) (ncr s) (localCode s) (localReason s) (remoteCode s) (remoteReason s) (wasOpenTO s) (wasCloseTO s) (wasDropTO s) (hOpen s) (hClose s) (hDrop s) (hPing s) (hPingTO s) (nextId s) (timers s) v (pingSeq s) (closingSince s) (lastPeerClose s) (proxyPending s) (sst s) (inMsg s) (rxPartial s).
Definition set_pingSeq (v : N) (s : cstate) : cstate :=
  mkS (st s) (now s) (gone s) (closedByMe s) (failedByMe s) (droppedByMe s) (wasClean s) (ncr s) (localCode s) (localReason s) (remoteCode s) (remoteReason s) (wasOpenTO s) (wasCloseTO s) (wasDropTO s) (hOpen s) (hClose s) (hDrop s) (hPing s) (hPingTO s) (nextId s) (timers s) (pingPending s) v (closingSince s) (lastPeerClose s) (proxyPending s) (sst s) (inMsg s) (rxPartial s).
Definition set_closingSince (v : option N) (s : cstate) : cstate :=
  mkS (st s) (now s) (gone s) (closedByMe s) (failedByMe s) (droppedByMe s) (wasClean s) (ncr s) (localCode s) (localReason s) (remoteCode s) (remoteReason s) (wasOpenTO s) (wasCloseTO s) (wasDropTO s) (hOpen s) (hClose s) (hDrop s) (hPing s) (hPingTO s) (nextId s) (timers s) (pingPending s) (pingSeq s) v (lastPeerClose s) (proxyPending s) (sst s) (inMsg s) (rxPartial s).
Definition set_lastPeerClose (v : option peer_close) (s : cstate) : cstate :=
  mkS (st s) (now s) (gone s) (closedByMe s) (failedByMe s) (droppedByMe s) (wasClean s) (ncr s) (localCode s) (localReason s) (remoteCode s) (remoteReason s) (wasOpenTO s) (wasCloseTO s) (wasDropTO s) (hOpen s) (hClose s) (hDrop s) (hPing s) (hPingTO s) (nextId s) (timers s) (pingPending s) (pingSeq s) (closingSince s) v (proxyPending s) (sst s) (inMsg s) (rxPartial s).
Definition set_proxyPending (v : bool) (s : cstate) : cstate :=
  mkS (st s) (now s) (gone s) (closedByMe s) (failedByMe s) (droppedByMe s) (wasClean s) (ncr s) (localCode s) (localReason s) (remoteCode s) (remoteReason s) (wasOpenTO s) (wasCloseTO s) (wasDropTO s) (hOpen s) (hClose s) (hDrop s) (hPing s) (hPingTO s) (nextId s) (timers s) (pingPending s) (pingSeq s) (closingSince s) (lastPeerClose s) v (sst s) (inMsg s) (rxPartial s).
Definition set_sst (v : sstate) (s : cstate) : cstate :=
  mkS (st s) (now s) (gone s) (closedByMe s) (failedByMe s) (droppedByMe s) (wasClean s) (ncr s) (localCode s) (localReason s) (remoteCode s) (remoteReason s) (wasOpenTO s) (wasCloseTO s) (wasDropTO s) (hOpen s) (hClose s) (hDrop s) (hPing s) (hPingTO s) (nextId s) (timers s) (pingPending s) (pingSeq s) (closingSince s) (lastPeerClose s) (proxyPending s) v (inMsg s) (rxPartial s).
Definition set_inMsg (v : bool) (s : cstate) : cstate :=
  mkS (st s) (now s) (gone s) (closedByMe s) (failedByMe s) (droppedByMe s) (wasClean s) (ncr s) (localCode s) (localReason s) (remoteCode s) (remoteReason s) (wasOpenTO s) (wasCloseTO s) (wasDropTO s) (hOpen s) (hClose s) (hDrop s) (hPing s) (hPingTO s) (nextId s) (timers s) (pingPending s) (pingSeq s) (closingSince s) (lastPeerClose s) (proxyPending s) (sst s) v (rxPartial s).
Definition set_rxPartial (v : bool) (s : cstate) : cstate :=
  mkS (st s) (now s) (gone s) (closedByMe s) (failedByMe s) (droppedByMe s) (wasClean s) (ncr s) (localCode s) (localReason s) (remoteCode s) (remoteReason s) (wasOpenTO s) (wasCloseTO s) (wasDropTO s) (hOpen s) (hClose s) (hDrop s) (hPing s) (hPingTO s) (nextId s) (timers s) (pingPending s) (pingSeq s) (closingSince s) (lastPeerClose s) (proxyPending s) (sst s) (inMsg s) v.

(* ---------- a small writer/state monad: every handler is a function cstate -> cstate * outputs ---------- *)
Definition M := cstate -> cstate * list out.
Definition ret : M := fun s => (s, []).
Definition seqM (a b : M) : M := fun s => let '(s1, o1) := a s in let '(s2, o2) := b s1 in (s2, o1 ++ o2).
Notation "a ;; b" := (seqM a b) (at level 61, right associativity).
Definition upd (f : cstate -> cstate) : M := fun s => (f s, []).
Definition say (o : oev) : M := fun s => (s, [(now s, o)]).
(* [say o ;; upd f] as one atomic action (output, then state change) *)
Definition emit_and (o : oev) (f : cstate -> cstate) : M := fun s => (f s, [(now s, o)]).
Definition whenM (b : bool) (a : M) : M := if b then a else ret.
Definition ifS (g : cstate -> bool) (a b : M) : M := fun s => if g s then a s else b s.
Definition bindS (f : cstate -> M) : M := fun s => f s s.

Definition wstate_eqb (a b : wstate) : bool :=
  match a, b with CONNECTING, CONNECTING | OPEN, OPEN | CLOSING, CLOSING | CLOSED, CLOSED => true | _, _ => false end.
Definition is_server (c : cfg) : bool := match c_role c with Server => true | Client => false end.
Definition isSome {A} (o : option A) : bool := match o with Some _ => true | None => false end.
Definition in_state (w : wstate) (s : cstate) : bool := wstate_eqb (st s) w.

(* ---------- timers ---------- *)
(* txaio _BatchedTimer.call_later:  real_time = int(now + delay) * 1000;  real_time -= int(real_time % bucket) *)
Definition quant (x : N) : N := let rt := (x / 1000) * 1000 in rt - (rt mod bucket_ms).

Definition slot_of (k : tkind) (s : cstate) : option N :=
  match k with TOpenHS => hOpen s | TCloseHS => hClose s | TServerDrop => hDrop s
             | TAutoPing => hPing s | TAutoPingTO => hPingTO s end.
Definition set_slot (k : tkind) (v : option N) (s : cstate) : cstate :=
  match k with TOpenHS => set_hOpen v s | TCloseHS => set_hClose v s | TServerDrop => set_hDrop v s
             | TAutoPing => set_hPing v s | TAutoPingTO => set_hPingTO v s end.

Definition key_is (rt : N) (e : tentry) : bool :=
  match te_key e with Some k => k =? rt | None => false end.

(* self._buckets[real_time][1].append(call)  /  new bucket with delay max(0, real_time/1000 - now) *)
Fixpoint bucket_add (rt tnow : N) (call : tkind * N) (l : list tentry) : list tentry :=
  match l with
  | [] => [mkT (N.max tnow rt) (Some rt) [call]]
  | e :: r => if key_is rt e then mkT (te_time e) (te_key e) (te_calls e ++ [call]) :: r
              else e :: bucket_add rt tnow call r
  end.

Definition arm_batched (k : tkind) (delay : N) : M := fun s =>
  let id := nextId s in
  let s1 := set_timers (bucket_add (quant (now s + delay)) (now s) (k, id) (timers s)) s in
  (set_slot k (Some id) (set_nextId (id + 1) s1), []).

(* txaio.call_later(delay, f): exact *)
Definition arm_exact (k : tkind) (delay : N) : M := fun s =>
  let id := nextId s in
  let s1 := set_timers (timers s ++ [mkT (now s + delay) None [(k, id)]]) s in
  (set_slot k (Some id) (set_nextId (id + 1) s1), []).

(* _BatchedCall.cancel -> _remove_call: remove the call; an emptied bucket is deleted and its delayed call
   cancelled.  A call whose bucket is already gone (fired) is silently ignored. *)
Definition tkind_eqb (a b : tkind) : bool :=
  match a, b with
  | TOpenHS, TOpenHS | TCloseHS, TCloseHS | TServerDrop, TServerDrop | TAutoPing, TAutoPing | TAutoPingTO, TAutoPingTO => true
  | _, _ => false
  end.
(* the handle kept in slot k is the call object (k, id) *)
Definition call_is (k : tkind) (id : N) (c : tkind * N) : bool := tkind_eqb (fst c) k && (snd c =? id).
Fixpoint remove_call (k : tkind) (id : N) (l : list tentry) : list tentry :=
  match l with
  | [] => []
  | e :: r =>
    if existsb (call_is k id) (te_calls e)
    then (let cs := filter (fun c => negb (call_is k id c)) (te_calls e) in
          match cs with [] => r | _ => mkT (te_time e) (te_key e) cs :: r end)
    else e :: remove_call k id r
  end.

(* "if self.xCall is not None: self.xCall.cancel(); self.xCall = None" *)
Definition cancel_slot (k : tkind) : M := fun s =>
  match slot_of k s with
  | None => (s, [])
  | Some id => (set_slot k None (set_timers (remove_call k id (timers s)) s), [])
  end.

(* ---------- protocol.py: dropConnection ---------- *)
Definition drop_connection (abort : bool) : M :=
  ifS (in_state CLOSED) ret
      (upd (fun s => set_st CLOSED (set_droppedByMe true s)) ;; say IsClosed ;; say (if abort then Abort else Lose)).

(* ---------- protocol.py: sendCloseFrame ---------- *)
Definition send_close_frame (c : cfg) (o : corigin) (code : option N) (reason : option (list N)) (isReply : bool) : M :=
  bindS (fun s0 =>
  match st s0 with
  | CLOSING | CLOSED => ret                                  (* "ignoring sendCloseFrame since ..." *)
  | CONNECTING => say (Raised ExException)                   (* "cannot close a connection not yet connected" *)
  | OPEN =>
    emit_and (WClose o code reason)                        (* sendFrame(opcode=8, ...), then "update state" *)
             (fun s => set_closingSince (Some (now s)) (set_localReason reason (set_localCode code
                       (set_closedByMe (negb isReply) (set_st CLOSING s))))) ;;
    whenM (negb isReply && (0 <? closeHandshakeTimeout c)) (arm_batched TCloseHS (closeHandshakeTimeout c))
  end).

(* ---------- protocol.py: _fail_connection ---------- *)
Definition fail_connection (c : cfg) (code : N) (txt : list N) : M :=
  ifS (in_state CLOSED) ret
      (upd (set_failedByMe true) ;;
       (if failByDrop c
        then upd (fun s => set_ncr RIDropped (set_wasClean false s)) ;; drop_connection true
        else ifS (in_state CLOSING) (drop_connection false)
                 (send_close_frame c OFail (Some code) (Some (encode_truncate txt 123)) false))).

(* ---------- protocol.py: onCloseFrame ---------- *)
(* "code < 1000 or (1000 <= code <= 2999 and code not in CLOSE_STATUS_CODES_ALLOWED) or code >= 5000": the test is taken
   from the source by the translator (evaluated for every 16-bit code) as the list of accepted intervals *)
Definition in_range (cd : N) (r : N * N) : bool := (fst r <=? cd) && (cd <=? snd r).
Definition close_code_invalid (code : N) : bool := negb (existsb (in_range code) close_code_valid_ranges).

Definition on_close_dispatch (c : cfg) : M :=
  bindS (fun s0 =>
  match st s0 with
  | CLOSING =>                                    (* the peer's reply to our close frame *)
    cancel_slot TCloseHS ;; upd (set_wasClean true) ;;
    (if is_server c then drop_connection true
     else whenM (0 <? serverConnectionDropTimeout c) (arm_exact TServerDrop (serverConnectionDropTimeout c)))
  | OPEN =>                                       (* the peer initiates: reply *)
    upd (set_wasClean true) ;;
    (if echoCloseCodeReason c
     then bindS (fun s1 => send_close_frame c OReply (remoteCode s1) (truncate_opt (remoteReason s1)) true)
     else send_close_frame c OReply (Some code_normal) None true) ;;
    (if is_server c then drop_connection false                 (* server: drop the TCP at once *)
     else whenM (0 <? serverConnectionDropTimeout c)            (* client: the server should; if not, we do *)
                (arm_exact TServerDrop (serverConnectionDropTimeout c)))
  | CLOSED => upd (set_wasClean false)
  | CONNECTING => ret                             (* "logic error": unreachable, frames are not parsed in CONNECTING *)
  end).

Definition body_code (b : option (N * option (list N))) : option N :=
  match b with Some (cd, _) => Some cd | None => None end.
Definition body_reason (b : option (N * option (list N))) : option (list N) :=
  match b with Some (_, r) => r | None => None end.

(* the reason part.  An ill-formed reason fails the connection and the frame is not taken for a close
   (both outcomes of _invalid_payload end onCloseFrame: "return True" / "return False") *)
Definition on_close_reason (c : cfg) (reasonRaw : option (list N)) (txt : list N) : M :=
  match reasonRaw with
  | Some r =>
    if wf_utf8 r then upd (set_remoteReason (Some r)) ;; on_close_dispatch c
    else fail_connection c code_invalid_payload txt
  | None => on_close_dispatch c
  end.

Definition on_close_frame (c : cfg) (body : option (N * option (list N))) (txt : list N) : M :=
  upd (fun s => set_remoteReason None (set_remoteCode None s)) ;;
  match body_code body with
  | Some cd =>
    if close_code_invalid cd
    then fail_connection c code_protocol_error txt      (* "return True" / "return False": no state dispatch *)
    else upd (set_remoteCode (Some cd)) ;; on_close_reason c (body_reason body) txt
  | None => on_close_reason c (body_reason body) txt
  end.

(* ---------- auto ping ---------- *)
(* protocol.py: _cancelAutoPingTimeoutCall *)
Definition cancel_auto_ping_timeout (c : cfg) : M :=
  cancel_slot TAutoPingTO ;; upd (set_pingPending None) ;; cancel_slot TAutoPing ;;
  whenM (0 <? autoPingInterval c) (arm_batched TAutoPing (autoPingInterval c)).

(* protocol.py: onFrameEnd, data frame: "if self.autoPingTimeoutCall and self.autoPingRestartOnAnyTraffic" *)
Definition restart_on_traffic (c : cfg) : M :=
  ifS (fun s => isSome (hPingTO s) && autoPingRestartOnAnyTraffic c) (cancel_auto_ping_timeout c) ret.

(* protocol.py: processControlFrame, opcode 10 *)
Definition on_pong (c : cfg) (matching : bool) : M :=
  ifS (fun s => isSome (pingPending s) && matching)
      (cancel_slot TAutoPingTO ;; upd (set_pingPending None) ;;
       whenM (0 <? autoPingInterval c) (arm_batched TAutoPing (autoPingInterval c)))
      ret ;;
  say CbPong.

(* protocol.py: sendPing / sendPong / sendMessage state guards *)
Definition send_ping (auto : option N) : M := ifS (in_state OPEN) (say (WPing auto)) ret.
Definition send_pong : M := ifS (in_state OPEN) (say WPong) ret.
Definition send_message : M := ifS (in_state OPEN) (say WData) (say (Raised ExDisconnected)).

(* protocol.py: _sendAutoPing *)
Definition send_auto_ping (c : cfg) : M :=
  upd (fun s => let seq := pingSeq s + 1 in set_pingPending (Some seq) (set_pingSeq seq (set_hPing None s))) ;;
  bindS (fun s => send_ping (pingPending s)) ;;
  whenM (0 <? autoPingTimeout c) (arm_batched TAutoPingTO (autoPingTimeout c)).

(* ---------- timeout handlers ---------- *)
Definition on_timer (c : cfg) (k : tkind) : M :=
  match k with
  | TServerDrop =>                               (* onServerConnectionDropTimeout *)
    upd (set_hDrop None) ;;
    ifS (in_state CLOSED) ret
        (upd (fun s => set_wasDropTO true (set_ncr RDropTO (set_wasClean false s))) ;; drop_connection true)
  | TOpenHS =>                                   (* onOpenHandshakeTimeout *)
    upd (set_hOpen None) ;;
    ifS (in_state CONNECTING)
        (upd (fun s => set_wasOpenTO true (set_ncr ROpenTO (set_wasClean false s))) ;; drop_connection true)
        ret
  | TCloseHS =>                                  (* onCloseHandshakeTimeout *)
    upd (set_hClose None) ;;
    ifS (in_state CLOSED) ret
        (upd (fun s => set_wasCloseTO true (set_ncr RCloseTO (set_wasClean false s))) ;; drop_connection true)
  | TAutoPingTO =>                               (* onAutoPingTimeout *)
    upd (set_hPingTO None) ;;
    ifS (in_state CLOSED) ret
        (upd (fun s => set_ncr RPingTO (set_wasClean false s)) ;; drop_connection true)
  | TAutoPing => send_auto_ping c
  end.

Fixpoint run_calls (c : cfg) (calls : list (tkind * N)) : M :=
  match calls with
  | [] => ret
  | (k, _) :: r => on_timer c k ;; run_calls c r
  end.

(* earliest scheduled time *)
Fixpoint min_time (l : list tentry) : option N :=
  match l with
  | [] => None
  | e :: r => match min_time r with None => Some (te_time e) | Some m => Some (N.min (te_time e) m) end
  end.
(* first entry (creation order) scheduled for time [m] *)
Fixpoint pop_at (m : N) (l : list tentry) : option (tentry * list tentry) :=
  match l with
  | [] => None
  | e :: r => if te_time e =? m then Some (e, r)
              else match pop_at m r with Some (x, r') => Some (x, e :: r') | None => None end
  end.
Definition pick_due (t : N) (l : list tentry) : option (tentry * list tentry) :=
  match min_time l with
  | Some m => if m <=? t then pop_at m l else None
  | None => None
  end.

(* how many loop iterations one Tick can need: every handler arms at most one new call, and only
   _sendAutoPing arms one (an auto-ping timeout, whose handler arms nothing) *)
Definition call_weight (c : tkind * N) : nat := match fst c with TAutoPing => 2 | _ => 1 end.
Definition entry_weight (e : tentry) : nat := S (fold_right (fun c a => call_weight c + a)%nat O (te_calls e)).
Definition timers_weight (l : list tentry) : nat := fold_right (fun e a => entry_weight e + a)%nat O l.

(* the reactor runs the due delayed calls in order of time; the virtual clock stands at the call's time *)
Fixpoint fire_loop (fuel : nat) (c : cfg) (t : N) : M :=
  match fuel with
  | O => ret
  | S f =>
    bindS (fun s =>
    match pick_due t (timers s) with
    | None => ret
    | Some (e, rest) =>
      upd (fun s => set_now (N.max (now s) (te_time e)) (set_timers rest s)) ;;
      run_calls c (te_calls e) ;; fire_loop f c t
    end)
  end.

Definition tick (c : cfg) (t : N) : M :=
  bindS (fun s => fire_loop (timers_weight (timers s)) c t) ;; upd (fun s => set_now (N.max (now s) t) s).

(* ---------- transport lost: protocol.py _connectionLost ---------- *)
Definition conn_lost (c : cfg) : M :=
  (if is_server c then ret else cancel_slot TServerDrop) ;;
  cancel_slot TAutoPing ;; cancel_slot TAutoPingTO ;; cancel_slot TOpenHS ;;
  ifS (in_state CLOSED) ret (upd (set_st CLOSED) ;; say IsClosed) ;;
  (* _onClose(...); [gone] (model only) records that the framework has delivered connectionLost *)
  ifS wasClean
      (bindS (fun s => emit_and (CbClose true (remoteCode s) (remoteReason s) RNone) (set_gone true)))
      (ifS (fun s => negb (droppedByMe s) && match ncr s with RNone => true | _ => false end)
           (upd (set_ncr RPeerDropped)) ret ;;
       bindS (fun s => emit_and (CbClose false (Some code_abnormal_close) None (ncr s)) (set_gone true))).

(* ---------- events ---------- *)
Inductive event :=
| EHandshake                                   (* the peer's valid opening handshake arrives *)
| EBadHandshake                                (* the peer's opening handshake is invalid: failHandshake *)
| EConnectRaises (txt : list N)                (* the peer's valid opening handshake arrives and the application's onConnect
                                                  raises (any exception, ConnectionDeny included); txt = str of the failure *)
| EProxyOk                                     (* client with factory.proxy: the proxy answers the CONNECT with 2xx *)
| EProxyBad                                    (* ... with anything else: failProxyConnect *)
| ESendClose (code : option N) (reason : option (list N))    (* API sendClose(code, reason); reason = UTF-8 octets of the str *)
| ESendMessage | ESendPing | ESendPong
| ESendPrepared                                (* sendPreparedMessage (no compression): guarded like sendMessage since 6b5401d8 *)
| EBeginMessage | ESendFrame | EEndMessage     (* streaming API: beginMessage(); sendMessageFrame(2 octets); endMessage() *)
| EPeerClose (body : option (N * option (list N))) (txt : list N)
                                               (* close frame; [txt] = text of the internal failure reason should
                                                  the frame be rejected *)
| EPeerClose1 (txt : list N)                   (* close frame with a 1-octet payload *)
| EPeerData                                    (* complete unfragmented binary message *)
| EPeerFrag (cont fin : bool)                  (* one data frame of a fragmented message: continuation? final? *)
| EPeerHead                                    (* header and part of the payload of an unfragmented binary message ... *)
| EPeerTail                                    (* ... and the rest of it *)
| EPeerPing
| EPeerPong (matching : bool)                  (* payload equal / not equal to the pending auto-ping payload *)
| EPeerViolation (txt : list N)                (* control frame with reserved opcode 0xB, empty payload *)
| EPeerInvalid (txt : list N)                  (* complete text message with payload FF (invalid UTF-8) *)
| ETick (t : N)                                (* the reactor runs until virtual time t *)
| EPeerDrop (clean : bool)                     (* connectionLost not caused by us *)
| EOwnDrop.                                    (* connectionLost after our loseConnection/abortConnection *)

(* protocol.py: sendClose *)
Definition api_code_ok (code : N) : bool := (code =? 1000) || ((3000 <=? code) && (code <=? 4999)).
Definition send_close (c : cfg) (code : option N) (reason : option (list N)) : M :=
  if match code with Some cd => negb (api_code_ok cd) | None => false end
  then say (Raised ExException)                              (* "invalid close code" *)
  else if isSome reason && negb (isSome code)
  then say (Raised ExException)                              (* "close reason without close code" *)
  else send_close_frame c OApi code (truncate_opt reason) false.

(* server: succeedHandshake tail; client: processHandshake tail *)
Definition handshake_ok (c : cfg) : M :=
  whenM (is_server c) (say WHttp) ;;
  upd (set_st OPEN) ;; cancel_slot TOpenHS ;;
  whenM (0 <? autoPingInterval c) (arm_batched TAutoPing (autoPingInterval c)) ;;
  say CbOpen ;; say IsOpen.

(* failHandshake: server sends an HTTP error and closes, client aborts *)
Definition handshake_bad (c : cfg) : M :=
  upd (set_ncr RHandshake) ;;
  (if is_server c then say WHttp ;; drop_connection false else drop_connection true).

(* onConnect raises.  Server (processHandshake: forward_error): failHandshake, an HTTP error response and the drop.
   Client (processHandshake: on_connect_failed): the connection is already OPEN (state set, opening-handshake timer
   cancelled, auto ping armed; onOpen is never called) and is failed with the close code found at that call site *)
Definition client_connect_raises (c : cfg) (txt : list N) : M :=
  upd (set_st OPEN) ;; cancel_slot TOpenHS ;;
  whenM (0 <? autoPingInterval c) (arm_batched TAutoPing (autoPingInterval c)) ;;
  fail_connection c code_onconnect_failed txt.
Definition handshake_connect_raises (c : cfg) (txt : list N) : M :=
  if is_server c then handshake_bad c else client_connect_raises c txt.

(* protocol.py: onFrameEnd of a data frame: "if self.autoPingTimeoutCall and self.autoPingRestartOnAnyTraffic" for EVERY
   data frame, final or not; a final one ends the message: onMessageEnd delivers it unless failedByMe *)
Definition data_frame_end (c : cfg) (fin : bool) : M :=
  restart_on_traffic c ;;
  (if fin then ifS failedByMe ret (say CbMessage) ;; upd (set_inMsg false) else upd (set_inMsg true)).

(* protocol.py: beginMessage / sendMessageFrame (= beginMessageFrame + sendMessageFrameData) / endMessage: all return
   silently unless OPEN; beginMessage and beginMessageFrame raise in the wrong send_state, endMessage has no such check *)
Definition begin_message : M :=
  ifS (in_state OPEN)
      (bindS (fun s => match sst s with SGround => upd (set_sst SBegin) | _ => say (Raised ExException) end)) ret.
Definition send_message_frame : M :=
  ifS (in_state OPEN)
      (bindS (fun s => match sst s with
                       | SGround => ret   (* API misuse (raises Exception, or AttributeError before the first
                                             beginMessage): not offered by the correspondence driver *)
                       | _ => say WHdr ;; say (WPayload 2) ;; upd (set_sst SInside)
                       end)) ret.
Definition end_message : M :=
  ifS (in_state OPEN)
      (bindS (fun s => match sst s with
                       | SGround => ret   (* API misuse, not offered by the driver (see send_message_frame) *)
                       | _ => say WData ;; upd (set_sst SGround)
                       end)) ret.

Definition frames_flow (s : cstate) : bool :=     (* consumeData processes frames in OPEN and CLOSING only *)
  negb (gone s) && (wstate_eqb (st s) OPEN || wstate_eqb (st s) CLOSING).
(* STATE_PROXY_CONNECTING is modelled as CONNECTING with [proxyPending] set: the two states differ only in what
   consumeData does with incoming octets (processProxyConnect / processHandshake); every other test in the code treats
   them alike (onOpenHandshakeTimeout, sendCloseFrame, _dataReceived, _send) *)
(* a frame header + part of its payload has been read (current_frame set, payload incomplete): whatever octets come
   next belong to that frame.  A new message may only start outside a fragmented one (inside_message). *)
Definition frames_ready (s : cstate) : bool := frames_flow s && negb (rxPartial s).
Definition msg_start (s : cstate) : bool := frames_ready s && negb (inMsg s).

Definition connecting (s : cstate) : bool := negb (gone s) && wstate_eqb (st s) CONNECTING && negb (proxyPending s).
Definition proxy_connecting (s : cstate) : bool := negb (gone s) && wstate_eqb (st s) CONNECTING && proxyPending s.

Definition handle (c : cfg) (e : event) : M :=
  match e with
  | EHandshake => ifS connecting (handshake_ok c) ret
  | EBadHandshake => ifS connecting (handshake_bad c) ret
  | EConnectRaises txt => ifS connecting (handshake_connect_raises c txt) ret
  (* processProxyConnect: state = STATE_CONNECTING; startHandshake() writes the opening-handshake request.  The
     opening-handshake timer armed by _connectionMade keeps running *)
  | EProxyOk => ifS proxy_connecting (upd (set_proxyPending false) ;; say WHttp) ret
  | EProxyBad => ifS proxy_connecting (drop_connection true) ret            (* failProxyConnect *)
  | ESendClose code reason => send_close c code reason
  | ESendMessage => send_message
  | ESendPrepared => send_message             (* "if self.state != STATE_OPEN: raise Disconnected"; else one data frame *)
  | ESendPing => send_ping None
  | ESendPong => send_pong
  | EBeginMessage => begin_message
  | ESendFrame => send_message_frame
  | EEndMessage => end_message
  | EPeerClose body txt =>
    ifS frames_ready (upd (set_lastPeerClose (Some (PC body))) ;; on_close_frame c body txt) ret
  | EPeerClose1 txt =>
    ifS frames_ready
        (fail_connection c code_protocol_error txt ;;          (* header check in processData *)
         (* consumeData: "while self.processData() and self.state != STATE_CLOSED": the payload is only
            processed (-> onCloseFrame(None, None)) if the violation did not already close the connection *)
         (if failByDrop c then ret
          else ifS (in_state CLOSED) ret (upd (set_lastPeerClose (Some PC1)) ;; on_close_frame c None txt)))
        ret
  | EPeerData => ifS msg_start (data_frame_end c true) ret
  | EPeerFrag cont fin =>
    ifS (fun s => frames_ready s && Bool.eqb cont (inMsg s)) (data_frame_end c fin) ret
  | EPeerHead => ifS msg_start (upd (fun s => set_inMsg true (set_rxPartial true s))) ret     (* onFrameBegin: inside_message = True *)
  | EPeerTail => ifS (fun s => frames_flow s && rxPartial s) (upd (set_rxPartial false) ;; data_frame_end c true) ret
  | EPeerPing => ifS frames_ready (say CbPing ;; send_pong) ret
  | EPeerPong m => ifS frames_ready (on_pong c m) ret
  | EPeerViolation txt => ifS frames_ready (fail_connection c code_protocol_error txt) ret
  | EPeerInvalid txt =>
    ifS msg_start
        (fail_connection c code_invalid_payload txt ;;                       (* onFrameData *)
         (if failByDrop c then ret
          else restart_on_traffic c ;; fail_connection c code_invalid_payload txt))   (* onFrameEnd *)
        ret
  | ETick t => tick c t
  | EPeerDrop _ => ifS gone ret (conn_lost c)
  | EOwnDrop => ifS (fun s => negb (gone s) && droppedByMe s) (conn_lost c) ret
  end.

Definition step (c : cfg) (s : cstate) (e : event) : cstate * list out := handle c e s.

(* protocol.py: _connectionMade *)
Definition init0 (c : cfg) : cstate :=
  mkS CONNECTING (t_start c) false false false false false RNone None None None None false false false
      None None None None None 0 [] None 0 None None (negb (is_server c) && c_proxy c) SGround false false.
Definition init (c : cfg) : cstate :=
  fst (whenM (0 <? openHandshakeTimeout c) (arm_batched TOpenHS (openHandshakeTimeout c)) (init0 c)).
(* client _connectionMade: startHandshake writes the opening-handshake request (startProxyConnect: the CONNECT request) *)
Definition init_out (c : cfg) : list out := if is_server c then [] else [(t_start c, WHttp)].

Definition run_from (c : cfg) (s : cstate) (log : list out) (evs : list event) : cstate * list out :=
  fold_left (fun '(s, log) e => let '(s', o) := step c s e in (s', log ++ o)) evs (s, log).
Definition run (c : cfg) (evs : list event) : cstate * list out := run_from c (init c) (init_out c) evs.
