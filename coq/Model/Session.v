(* Model of the request/reply and life-cycle projection of autobahn.wamp.protocol.ApplicationSession
   (definitions only).  Sources mirrored (tree under test, src/autobahn/):
     wamp/protocol.py   ApplicationSession.__init__, onOpen, onConnect, join, disconnect, onMessage (both halves),
                        onClose, onLeave, onDisconnect, _errback_outstanding_requests, leave, publish, subscribe,
                        _unsubscribe, call (+ canceller), register, _unregister
     wamp/request.py    the *Request records, Subscription.unsubscribe, Registration.unregister
     util.py            IdGenerator                (constants regenerated: Gen/WampTypeCodes.v)
     wamp/types.py      PublishOptions/CallOptions/SubscribeOptions/RegisterOptions.message_attr
   txaio continuation semantics are a parameter ([flavour]): Twisted runs callbacks synchronously and chains,
   asyncio defers every callback to the next loop iteration ([Turn]) and fans out.
   Other projections of the same class live in SessionInv.v / SessionSub.v / SessionErr.v (other owners);
   here EVENT / INVOCATION / INTERRUPT are only interleaved noise.

   Conventions: ids, URIs, payload items are abstract [N]; a future is identified by a fresh [N] taken when
   txaio.create_future() is called; [done] and [issued] are ghost ledgers (never read by the code paths except
   through [is_done] = txaio.is_called).  Exceptions are explicit outputs. *)
From Coq Require Import NArith List Bool.
From AV Require Import Gen.WampTypeCodes.
Import ListNotations.
Open Scope N_scope.

(* ------------------------------------------------------------------------------------------------------------ *)
(* vocabulary                                                                                                   *)
(* ------------------------------------------------------------------------------------------------------------ *)

Inductive flavour := Tx | Aio.

Inductive kind := KPublish | KSubscribe | KUnsubscribe | KCall | KRegister | KUnregister.

Definition kind_eqb (a b : kind) : bool :=
  match a, b with
  | KPublish, KPublish | KSubscribe, KSubscribe | KUnsubscribe, KUnsubscribe
  | KCall, KCall | KRegister, KRegister | KUnregister, KUnregister => true
  | _, _ => false
  end.

(* protocol.py _errback_outstanding_requests: all_requests = [publish, subscribe, unsubscribe, call, register, unregister] *)
Definition all_kinds : list kind := [KPublish; KSubscribe; KUnsubscribe; KCall; KRegister; KUnregister].

(* message.<Class>.MESSAGE_TYPE of the request message of each kind (generated constants) *)
Definition kind_code (k : kind) : N :=
  match k with
  | KPublish => T_PUBLISH | KSubscribe => T_SUBSCRIBE | KUnsubscribe => T_UNSUBSCRIBE
  | KCall => T_CALL | KRegister => T_REGISTER | KUnregister => T_UNREGISTER
  end.

(* protocol.py onMessage, Error branch: the if/elif cascade on msg.request_type, in source order *)
Definition kind_of_code (c : N) : option kind :=
  if c =? T_CALL then Some KCall
  else if c =? T_PUBLISH then Some KPublish
  else if c =? T_SUBSCRIBE then Some KSubscribe
  else if c =? T_UNSUBSCRIBE then Some KUnsubscribe
  else if c =? T_REGISTER then Some KRegister
  else if c =? T_UNREGISTER then Some KUnregister
  else None.

(* close / abort reasons (URIs) *)
Inductive reason :=
| RsNormal            (* "wamp.close.normal"  (message.Goodbye.DEFAULT_REASON, leave() default) *)
| RsTransportLost     (* CloseDetails.REASON_TRANSPORT_LOST *)
| RsCannotAuth        (* "wamp.error.cannot_authenticate" *)
| RsUser (n : N).     (* any other URI *)

(* application payload of an incoming message: msg.args / msg.kwargs, each possibly absent (None) *)
Record payload := { p_args : option (list N); p_kw : option (list (N * N)) }.

Definition args_truthy (a : option (list N)) : bool := match a with Some (_ :: _) => true | _ => false end.
Definition kw_truthy (k : option (list (N * N))) : bool := match k with Some (_ :: _) => true | _ => false end.
Definition args_or_empty (a : option (list N)) : list N := match a with Some l => l | None => [] end.
Definition kw_or_empty (k : option (list (N * N))) : list (N * N) := match k with Some l => l | None => [] end.

(* what a request future can complete with *)
Inductive value :=
| VNone                                            (* None *)
| VSingle (v : N)                                  (* msg.args[0] *)
| VCallResult (a : list N) (kw : list (N * N))     (* types.CallResult( *args, **kwargs ) *)
| VPublication (pubid : N)
| VSubscription (subid : N)
| VRegistration (regid : N)
| VZero                                            (* UNSUBSCRIBED: txaio.resolve(on_reply, 0) *)
| VCount (n : N).                                  (* _unsubscribe with handlers left: create_future_success(scount) *)

Inductive err :=
| EApp (uri : N) (p : payload)     (* _exception_from_message(ERROR): error URI + args + kwargs *)
| ELeave (r : reason)              (* onLeave: ApplicationError(details.reason, details.message) *)
| ETransportLost                   (* onDisconnect: exception.TransportLost() *)
| ECancelled.                      (* user cancelled the future (CancelledError) *)

Inductive result := ROk (v : value) | RErr (e : err).

(* options as far as they reach the wire or the reply handling *)
Record call_opts := { co_timeout : option N; co_progress : bool; co_details : bool }.
Record pub_opts  := { po_ack : option bool; po_exclude_me : option bool }.
Record sub_opts  := { so_match : option N; so_get_retained : option bool }.
Record reg_opts  := { ro_match : option N; ro_invoke : option N }.

(* messages handed to ITransport.send(): the attributes of the message object that the API call determines *)
Inductive wmsg :=
| MHello
| MAuthenticate
| MAbort (r : reason)
| MGoodbye (r : reason)
| MPublish (id uri : N) (a : list N) (kw : list (N * N)) (ack excl : option bool)
| MSubscribe (id uri : N) (mt : N) (retained : option bool)     (* mt: 0 exact (default), 1 prefix, 2 wildcard *)
| MUnsubscribe (id subid : N)
| MCall (id uri : N) (a : list N) (kw : list (N * N)) (timeout : option N) (receive_progress : bool)
| MCancel (id : N)
| MRegister (id uri : N) (mt inv : N)                            (* inv: 0 single (default), 1 first, 2 last, 3 roundrobin, 4 random *)
| MUnregister (id regid : N)
| MYield (req : N).

Inductive exn :=
| XProtocolError | XTransportLost | XTypeError | XAttributeError
| XKeyError
| XSerializationError | XPayloadExceeded      (* what ITransport.send() may raise besides TransportLost *)
| XException          (* plain Exception: "subscription no longer active", "session already joined", ... *)
| XNoObject.          (* harness-level: the Subscription/Registration object named by the op does not exist *)

Inductive cb :=
| CbConnect | CbWelcome | CbChallenge
| CbJoin (details_session : N)
| CbLeave (r : reason) (session_id_seen : option N)      (* self._session_id as visible inside onLeave *)
| CbDisconnect.

Inductive out :=
| Sent (m : wmsg)                       (* transport.send(m) returned *)
| SendFailed (m : wmsg)                 (* transport.send(m) raised TransportLost (transport already closed) *)
| Dropped (m : wmsg)                    (* lenient transport after close(): send() returned, message goes nowhere *)
| Completed (f : N) (r : result)        (* the user's callback/errback on future f runs *)
| Progress (f : N) (detailed : bool) (a : list N) (kw : list (N * N))     (* on_progress of call future f *)
| Called (c : cb)
| UserError                             (* onUserError ran (an error of user code was swallowed) *)
| Raised (e : exn)                      (* exception leaving onMessage / onOpen / onClose (ESCAPED) *)
| ApiReturned (f : option N)            (* API call returned: a pending/done future, or no future *)
| ApiRaised (e : exn)                   (* API call raised *)
| LoopError (e : exn)                   (* asyncio: exception delivered to the loop's exception handler *)
| TransportClose                        (* transport.close() *)
| TransportAbort.                       (* transport.abort()  (never produced: ApplicationSession does not abort) *)

(* ------------------------------------------------------------------------------------------------------------ *)
(* user code and environment: behaviours of the overridable callbacks, kind of transport                        *)
(* ------------------------------------------------------------------------------------------------------------ *)

Inductive connect_beh := CnJoin | CnRaise.             (* onConnect: default (self.join(realm)) | raises *)
Inductive welcome_beh := WlNone | WlDeny | WlRaise.    (* onWelcome: returns None | returns a str | raises *)
Inductive chal_beh := ChSig | ChNone | ChRaise.        (* onChallenge: returns str | returns None | raises (default) *)

Record ucfg := {
  u_connect : connect_beh;
  u_welcome : welcome_beh;
  u_challenge : chal_beh;
  u_join_raises : bool;
  u_leave_super : bool;      (* the user's onLeave reaches ApplicationSession.onLeave *)
  u_leave_raises : bool;     (* ... and raises (after super if u_leave_super, instead of it otherwise) *)
  u_disc_super : bool;       (* same for onDisconnect *)
  u_disc_raises : bool;
  t_lenient : bool           (* what transport.send() does after transport.close() and before the connection is lost:
                                true  = still accepted, the message goes nowhere (RawSocket transports: isOpen() stays
                                        true, the write lands on a closing socket);
                                false = raises (WebSocket transport: Disconnected from sendMessage in CLOSING state;
                                        harness transport: TransportLost) *)
}.

(* ------------------------------------------------------------------------------------------------------------ *)
(* state                                                                                                        *)
(* ------------------------------------------------------------------------------------------------------------ *)

(* ---- operations ---- *)
Inductive op :=
(* transport events *)
| OOpen                                   (* ITransportHandler.onOpen(transport) *)
| OLost (clean : bool)                    (* ITransportHandler.onClose(wasClean) *)
| OTurn                                   (* asyncio: one loop iteration (runs the callbacks queued before it) *)
(* user API *)
| ACall (uri : N) (a : list N) (kw : list (N * N)) (o : option call_opts)
| APublish (uri : N) (a : list N) (kw : list (N * N)) (o : option pub_opts)
| ASubscribe (uri : N) (o : option sub_opts)
| ARegister (uri : N) (o : option reg_opts)
| AUnsubscribe (h : N)                    (* Subscription.unsubscribe() of the object produced by future h *)
| AUnregister (h : N)                     (* Registration.unregister() *)
| ACancel (f : N)                         (* txaio.cancel(f) *)
| ALeave (r : option reason)
| ADisconnect
| AFail (e : exn) (a : op)             (* the API call a (one of the six request calls) is made while the transport's
                                          send() raises e for the request message (unserializable / oversized
                                          payload, transport gone): nothing is sent, the session stays up *)
| AReact (f : N) (o : op)              (* the user attaches a callback/errback to future f that, when it fires,
                                          issues the API call o (the retry idiom); o: call / publish / subscribe /
                                          register / unregister *)
(* router messages handed to onMessage *)
| RWelcome (sidv : N)
| RAbort (r : reason)
| RChallenge
| RGoodbye (r : reason)
| RPublished (rq pubid : N)
| RSubscribed (rq subid : N)
| RUnsubscribed (rq : N)
| RResult (rq : N) (progress : bool) (p : payload)
| RRegistered (rq regid : N)
| RUnregistered (rq : N) (regid : option N)
| RError (rtype rq uri : N) (p : payload)
| REvent (subid : N)
| RInvocation (rq regid : N)
| RInterrupt (rq : N)
| ROther.                                 (* any other message class (HELLO, AUTHENTICATE, CALL, YIELD, ...) *)


(* request.py: PublishRequest / SubscribeRequest / UnsubscribeRequest / CallRequest / RegisterRequest /
   UnregisterRequest, with the table they live in *)
Record req := {
  r_kind : kind;
  r_id : N;                      (* request_id *)
  r_fut : N;                     (* on_reply *)
  r_opts : option call_opts;     (* CallRequest.options (None for the other kinds) *)
  r_target : N                   (* topic / procedure URI; subscription_id / registration_id for un-requests *)
}.

Inductive leaf :=
| LUserDone (f : N) (r : result)     (* the user's done-callback on a request future *)
| LJoin                              (* lambda _: txaio.as_future(self.onJoin, self._session_details) *)
| LLeaveK (raised : bool)            (* continuation of as_future(self.onLeave): fire 'leave' | _swallow_error *)
| LLeaveDisconnect                   (* onLeave: disconnect(_): if self._transport: self.disconnect() *)
| LCancelSend (id : N)               (* call(): canceller(d) -> send CANCEL *)
| LYield (rq : N).                   (* INVOCATION: success(res) *)

Inductive thunk :=
| TLeaf (l : leaf)
| TConnect                           (* onOpen: lambda _: txaio.as_future(self.onConnect) *)
| TWelcomeK (o : welcome_beh) (sidv : N)
| TChallengeK (o : chal_beh)
| TDiscK (raised : bool).            (* onClose: continuation of as_future(self.onDisconnect): the final sweep *)

Record sess := {
  opened : bool;                 (* ghost: onOpen happened *)
  transport : bool;              (* self._transport is not None *)
  topen : bool;                  (* transport.close() not yet called, transport not lost *)
  sid : option N;                (* self._session_id *)
  sdetails : option N;           (* self._session_details.session *)
  goodbye_sent : bool;           (* self._goodbye_sent *)
  next_id : N;                   (* self._request_id_gen._next *)
  pend : list req;               (* the six *_reqs dicts: one association list keyed by (kind, id), insertion order *)
  subs : list (N * list N);      (* self._subscriptions: subscription id -> Subscription objects (named by the future
                                    of their subscribe request) *)
  regs : list (N * N);           (* self._registrations: registration id -> Registration object *)
  invs : list N;                 (* self._invocations keys *)
  queue : list thunk;            (* asyncio: callbacks scheduled with call_soon *)
  next_fut : N;                  (* ghost: next future identity *)
  done : list (N * result);      (* ghost ledger: futures that have a result, in completion order *)
  issued : list (N * (kind * N)); (* ghost ledger: future -> (kind, request id) it was created for *)
  lost : list N;                 (* ghost ledger: futures whose request record was dropped without completing them *)
  reacts : list (N * op);        (* user code: future -> API call its callback/errback issues when it fires *)
  failnext : option exn          (* transport: send() of the next request message raises this (set only inside AFail) *)
}.

Definition init : sess :=
  {| opened := false; transport := false; topen := false; sid := None; sdetails := None; goodbye_sent := false;
     next_id := IDGEN_START; pend := []; subs := []; regs := []; invs := []; queue := []; next_fut := 0;
     done := []; issued := []; lost := []; reacts := []; failnext := None |}.

(* field updates *)
Definition set_conn (s : sess) (o t tp : bool) : sess :=
  {| opened := o; transport := t; topen := tp; sid := sid s; sdetails := sdetails s; goodbye_sent := goodbye_sent s;
     next_id := next_id s; pend := pend s; subs := subs s; regs := regs s; invs := invs s; queue := queue s;
     next_fut := next_fut s; done := done s; issued := issued s; lost := lost s; reacts := reacts s; failnext := failnext s |}.
Definition set_sid (s : sess) (v : option N) : sess :=
  {| opened := opened s; transport := transport s; topen := topen s; sid := v; sdetails := sdetails s;
     goodbye_sent := goodbye_sent s; next_id := next_id s; pend := pend s; subs := subs s; regs := regs s;
     invs := invs s; queue := queue s; next_fut := next_fut s; done := done s; issued := issued s; lost := lost s; reacts := reacts s; failnext := failnext s |}.
Definition set_sdetails (s : sess) (v : option N) : sess :=
  {| opened := opened s; transport := transport s; topen := topen s; sid := sid s; sdetails := v;
     goodbye_sent := goodbye_sent s; next_id := next_id s; pend := pend s; subs := subs s; regs := regs s;
     invs := invs s; queue := queue s; next_fut := next_fut s; done := done s; issued := issued s; lost := lost s; reacts := reacts s; failnext := failnext s |}.
Definition set_goodbye (s : sess) (v : bool) : sess :=
  {| opened := opened s; transport := transport s; topen := topen s; sid := sid s; sdetails := sdetails s;
     goodbye_sent := v; next_id := next_id s; pend := pend s; subs := subs s; regs := regs s;
     invs := invs s; queue := queue s; next_fut := next_fut s; done := done s; issued := issued s; lost := lost s; reacts := reacts s; failnext := failnext s |}.
(* join(): the per-session state starts afresh: closing-handshake flag down, request ids from 1 again *)
Definition set_join (s : sess) : sess :=
  {| opened := opened s; transport := transport s; topen := topen s; sid := sid s; sdetails := sdetails s;
     goodbye_sent := false; next_id := 0; pend := pend s; subs := subs s; regs := regs s;
     invs := invs s; queue := queue s; next_fut := next_fut s; done := done s; issued := issued s; lost := lost s; reacts := reacts s; failnext := failnext s |}.
Definition set_pend (s : sess) (v : list req) : sess :=
  {| opened := opened s; transport := transport s; topen := topen s; sid := sid s; sdetails := sdetails s;
     goodbye_sent := goodbye_sent s; next_id := next_id s; pend := v; subs := subs s; regs := regs s;
     invs := invs s; queue := queue s; next_fut := next_fut s; done := done s; issued := issued s; lost := lost s; reacts := reacts s; failnext := failnext s |}.
Definition set_subs (s : sess) (v : list (N * list N)) : sess :=
  {| opened := opened s; transport := transport s; topen := topen s; sid := sid s; sdetails := sdetails s;
     goodbye_sent := goodbye_sent s; next_id := next_id s; pend := pend s; subs := v; regs := regs s;
     invs := invs s; queue := queue s; next_fut := next_fut s; done := done s; issued := issued s; lost := lost s; reacts := reacts s; failnext := failnext s |}.
Definition set_regs (s : sess) (v : list (N * N)) : sess :=
  {| opened := opened s; transport := transport s; topen := topen s; sid := sid s; sdetails := sdetails s;
     goodbye_sent := goodbye_sent s; next_id := next_id s; pend := pend s; subs := subs s; regs := v;
     invs := invs s; queue := queue s; next_fut := next_fut s; done := done s; issued := issued s; lost := lost s; reacts := reacts s; failnext := failnext s |}.
Definition set_invs (s : sess) (v : list N) : sess :=
  {| opened := opened s; transport := transport s; topen := topen s; sid := sid s; sdetails := sdetails s;
     goodbye_sent := goodbye_sent s; next_id := next_id s; pend := pend s; subs := subs s; regs := regs s;
     invs := v; queue := queue s; next_fut := next_fut s; done := done s; issued := issued s; lost := lost s; reacts := reacts s; failnext := failnext s |}.
Definition set_queue (s : sess) (v : list thunk) : sess :=
  {| opened := opened s; transport := transport s; topen := topen s; sid := sid s; sdetails := sdetails s;
     goodbye_sent := goodbye_sent s; next_id := next_id s; pend := pend s; subs := subs s; regs := regs s;
     invs := invs s; queue := v; next_fut := next_fut s; done := done s; issued := issued s; lost := lost s; reacts := reacts s; failnext := failnext s |}.
Definition set_done (s : sess) (v : list (N * result)) : sess :=
  {| opened := opened s; transport := transport s; topen := topen s; sid := sid s; sdetails := sdetails s;
     goodbye_sent := goodbye_sent s; next_id := next_id s; pend := pend s; subs := subs s; regs := regs s;
     invs := invs s; queue := queue s; next_fut := next_fut s; done := v; issued := issued s; lost := lost s; reacts := reacts s; failnext := failnext s |}.
(* a new request: next request id consumed, new future, recorded in the table and in the ghost ledgers *)
Definition set_newreq (s : sess) (nid : N) (p : list req) (nf : N) (iss : list (N * (kind * N))) (lst : list N) : sess :=
  {| opened := opened s; transport := transport s; topen := topen s; sid := sid s; sdetails := sdetails s;
     goodbye_sent := goodbye_sent s; next_id := nid; pend := p; subs := subs s; regs := regs s;
     invs := invs s; queue := queue s; next_fut := nf; done := done s; issued := iss; lost := lst; reacts := reacts s; failnext := failnext s |}.
Definition set_lost (s : sess) (v : list N) : sess :=
  {| opened := opened s; transport := transport s; topen := topen s; sid := sid s; sdetails := sdetails s;
     goodbye_sent := goodbye_sent s; next_id := next_id s; pend := pend s; subs := subs s; regs := regs s;
     invs := invs s; queue := queue s; next_fut := next_fut s; done := done s; issued := issued s; lost := v; reacts := reacts s; failnext := failnext s |}.
Definition set_reacts (s : sess) (v : list (N * op)) : sess :=
  {| opened := opened s; transport := transport s; topen := topen s; sid := sid s; sdetails := sdetails s;
     goodbye_sent := goodbye_sent s; next_id := next_id s; pend := pend s; subs := subs s; regs := regs s;
     invs := invs s; queue := queue s; next_fut := next_fut s; done := done s; issued := issued s; lost := lost s;
     reacts := v; failnext := failnext s |}.
Definition set_failnext (s : sess) (v : option exn) : sess :=
  {| opened := opened s; transport := transport s; topen := topen s; sid := sid s; sdetails := sdetails s;
     goodbye_sent := goodbye_sent s; next_id := next_id s; pend := pend s; subs := subs s; regs := regs s;
     invs := invs s; queue := queue s; next_fut := next_fut s; done := done s; issued := issued s; lost := lost s;
     reacts := reacts s; failnext := v |}.
Definition enqueue (s : sess) (t : thunk) : sess := set_queue s (queue s ++ [t]).

(* Python truthiness of self._session_id  (`if self._session_id:` -- the id 0 is falsy) *)
Definition sid_truthy (s : sess) : bool := match sid s with Some n => negb (n =? 0) | None => false end.

(* util.py IdGenerator.next *)
Definition idgen_next (n : N) : N := let n' := n + 1 in if IDGEN_BOUND <? n' then IDGEN_WRAP else n'.

(* ---- the request tables ---- *)
Definition req_is (k : kind) (i : N) (r : req) : bool := kind_eqb (r_kind r) k && (r_id r =? i).

Fixpoint find_req (k : kind) (i : N) (l : list req) : option req :=
  match l with
  | [] => None
  | r :: t => if req_is k i r then Some r else find_req k i t
  end.

(* dict.pop(id) / del dict[id] *)
Fixpoint remove_req (k : kind) (i : N) (l : list req) : list req :=
  match l with
  | [] => []
  | r :: t => if req_is k i r then t else r :: remove_req k i t
  end.

(* dict[id] = r : replaces the value of an existing key in place, otherwise appends *)
Fixpoint put_req (r : req) (l : list req) : list req :=
  match l with
  | [] => [r]
  | x :: t => if req_is (r_kind r) (r_id r) x then r :: t else x :: put_req r t
  end.

Definition table (k : kind) (l : list req) : list req := filter (fun r => kind_eqb (r_kind r) k) l.

(* call()/publish() whose send failed: `del self._*_reqs[request_id]`; the future is garbage, nobody ever saw it
   (ghost: it is taken out of the ledger again) *)
Definition drop_request (s : sess) (k : kind) (id f : N) : sess :=
  {| opened := opened s; transport := transport s; topen := topen s; sid := sid s; sdetails := sdetails s;
     goodbye_sent := goodbye_sent s; next_id := next_id s; pend := remove_req k id (pend s); subs := subs s;
     regs := regs s; invs := invs s; queue := queue s; next_fut := next_fut s; done := done s;
     issued := filter (fun e => negb (fst e =? f)) (issued s); lost := lost s; reacts := reacts s; failnext := failnext s |}.


(* ---- subscriptions / registrations ---- *)
Fixpoint assoc {A} (i : N) (l : list (N * A)) : option A :=
  match l with [] => None | (j, v) :: t => if j =? i then Some v else assoc i t end.
Fixpoint assoc_remove {A} (i : N) (l : list (N * A)) : list (N * A) :=
  match l with [] => [] | (j, v) :: t => if j =? i then t else (j, v) :: assoc_remove i t end.
Fixpoint assoc_set {A} (i : N) (v : A) (l : list (N * A)) : list (N * A) :=
  match l with [] => [(i, v)] | (j, w) :: t => if j =? i then (j, v) :: t else (j, w) :: assoc_set i v t end.
Definition memN (x : N) (l : list N) : bool := existsb (fun y => y =? x) l.
Fixpoint remove1 (x : N) (l : list N) : list N :=
  match l with [] => [] | y :: t => if y =? x then t else y :: remove1 x t end.

(* ---- ghost ledger ---- *)
Definition is_done (s : sess) (f : N) : bool := existsb (fun d => fst d =? f) (done s).   (* txaio.is_called *)
Definition result_of (s : sess) (f : N) : option result := assoc f (done s).

(* ------------------------------------------------------------------------------------------------------------ *)
(* primitive actions                                                                                            *)
(* ------------------------------------------------------------------------------------------------------------ *)

(* self._transport.send(m) with self._transport not None: outputs, and whether it returned (true) or raised *)
Definition send (cfg : ucfg) (s : sess) (m : wmsg) : list out * bool :=
  if topen s then ([Sent m], true)
  else if t_lenient cfg && transport s then ([Dropped m], true)
  else ([SendFailed m], false).

(* self._transport.send(m) for a REQUEST message: may additionally fail because the transport cannot take this
   message (SerializationError, PayloadExceededError) or is gone (TransportLost) although the session is up *)
Definition send_req (cfg : ucfg) (s : sess) (m : wmsg) : list out * bool :=
  match failnext s with Some _ => ([SendFailed m], false) | None => send cfg s m end.
(* the exception a failing send() raises *)
Definition send_exn (s : sess) : exn := match failnext s with Some e => e | None => XTransportLost end.

(* ---- the request API calls that need no object look-up through a completed future's callbacks ---- *)
(* new request of kind k: ids and future allocated, request recorded (record-before-send) *)
Definition new_request (s : sess) (k : kind) (o : option call_opts) (target : N) : sess * N * N :=
  let id := idgen_next (next_id s) in
  let f := next_fut s in
  let r := {| r_kind := k; r_id := id; r_fut := f; r_opts := o; r_target := target |} in
  (* dict[id] = request: after the generator wrapped, a still-pending request with the same id is overwritten and
     its future is never completed (ghost: recorded as lost) *)
  let lst := match find_req k id (pend s) with Some old => lost s ++ [r_fut old] | None => lost s end in
  (set_newreq s id (put_req r (pend s)) (f + 1) (issued s ++ [(f, (k, id))]) lst, id, f).

(* publish() without acknowledge: an id is consumed, no future *)
Definition new_id_only (s : sess) : sess * N :=
  let id := idgen_next (next_id s) in
  (set_newreq s id (pend s) (next_fut s) (issued s) (lost s), id).

(* message.Subscribe / message.Register: match=None -> MATCH_EXACT, invoke=None -> INVOKE_SINGLE *)
Definition opt_default (o : option N) : N := match o with Some v => v | None => 0 end.

Definition po_wants_ack (o : option pub_opts) : bool :=
  match o with Some p => match po_ack p with Some true => true | _ => false end | None => false end.

Definition sub_id_of (s : sess) (h : N) : option N :=
  match result_of s h with Some (ROk (VSubscription i)) => Some i | _ => None end.
Definition reg_id_of (s : sess) (h : N) : option N :=
  match result_of s h with Some (ROk (VRegistration i)) => Some i | _ => None end.


Definition isNoneB {A} (o : option A) : bool := match o with None => true | Some _ => false end.
Definition is_react_op (o : op) : bool :=
  match o with ACall _ _ _ _ | APublish _ _ _ _ | ASubscribe _ _ | ARegister _ _ | AUnregister _ => true | _ => false end.

(* protocol.py call() / publish() / subscribe() / register() / _unregister(): guard; id; request recorded; send.
   call/publish delete the record again when send() raises, the others leave it. *)
Definition api_step (cfg : ucfg) (s : sess) (o : op) : sess * list out :=
  match o with
  | ACall uri a kw o =>
      if negb (transport s) then (s, [ApiRaised XTransportLost])
      else
        let '(s1, id, f) := new_request s KCall o uri in
        let m := MCall id uri a kw (match o with Some c => co_timeout c | None => None end)
                       (match o with Some c => co_progress c | None => false end) in
        let '(o1, ok) := send_req cfg s1 m in
        if ok then (s1, o1 ++ [ApiReturned (Some f)])
        else (drop_request s1 KCall id f, o1 ++ [ApiRaised (send_exn s1)])
  | APublish uri a kw o =>
      if negb (transport s) then (s, [ApiRaised XTransportLost])
      else
        let ack := match o with Some p => po_ack p | None => None end in
        let excl := match o with Some p => po_exclude_me p | None => None end in
        if po_wants_ack o then
          let '(s1, id, f) := new_request s KPublish None uri in
          let '(o1, ok) := send_req cfg s1 (MPublish id uri a kw ack excl) in
          if ok then (s1, o1 ++ [ApiReturned (Some f)])
          else (drop_request s1 KPublish id f, o1 ++ [ApiRaised (send_exn s1)])
        else
          let '(s1, id) := new_id_only s in
          let '(o1, ok) := send_req cfg s1 (MPublish id uri a kw ack excl) in
          (s1, o1 ++ [if ok then ApiReturned None else ApiRaised (send_exn s1)])
  | ASubscribe uri o =>
      (* subscribe(): guard; _subscribe: id; SubscribeRequest recorded; send (a failing send takes the record back) *)
      if negb (transport s) then (s, [ApiRaised XTransportLost])
      else
        let '(s1, id, f) := new_request s KSubscribe None uri in
        let '(o1, ok) := send_req cfg s1 (MSubscribe id uri (match o with Some c => opt_default (so_match c) | None => 0 end)
                                                 (match o with Some c => so_get_retained c | None => None end)) in
        if ok then (s1, o1 ++ [ApiReturned (Some f)])
        else (drop_request s1 KSubscribe id f, o1 ++ [ApiRaised (send_exn s1)])
  | ARegister uri o =>
      if negb (transport s) then (s, [ApiRaised XTransportLost])
      else
        let '(s1, id, f) := new_request s KRegister None uri in
        let '(o1, ok) := send_req cfg s1 (MRegister id uri (match o with Some c => opt_default (ro_match c) | None => 0 end)
                                                (match o with Some c => opt_default (ro_invoke c) | None => 0 end)) in
        if ok then (s1, o1 ++ [ApiReturned (Some f)])
        else (drop_request s1 KRegister id f, o1 ++ [ApiRaised (send_exn s1)])
  | AUnregister h =>
      match reg_id_of s h with
      | None => (s, [ApiRaised XNoObject])
      | Some regid =>
          match assoc regid (regs s) with
          | None => (s, [ApiRaised XException])                        (* "registration no longer active" *)
          | Some h' =>
              if negb (h' =? h) then (s, [ApiRaised XException])
              else if negb (transport s) then (s, [ApiRaised XTransportLost])
              else
                let '(s1, id, f) := new_request s KUnregister None regid in
                let '(o1, ok) := send_req cfg s1 (MUnregister id regid) in
                if ok then (s1, o1 ++ [ApiReturned (Some f)])
                else (drop_request s1 KUnregister id f, o1 ++ [ApiRaised (send_exn s1)])
          end
      end
  | _ => (s, [])
  end.

(* the user's callbacks on future f run: the logging callback (observation [Completed]), then -- if the user attached
   one ([AReact]) -- the callback that re-enters the API *)
Definition react (cfg : ucfg) (s : sess) (f : N) : sess * list out :=
  match assoc f (reacts s) with Some o => api_step cfg s o | None => (s, []) end.

(* txaio.resolve / txaio.reject on a request future, behind the `txaio.is_called` guard every call site has.
   Twisted: the user's callbacks run now, synchronously, inside whatever the session is doing (a callback that
   issues a request re-enters the session here); asyncio: they are scheduled. *)
Definition complete (fl : flavour) (cfg : ucfg) (s : sess) (f : N) (r : result) : sess * list out :=
  if is_done s f then (s, [])
  else let s1 := set_done s (done s ++ [(f, r)]) in
       match fl with
       | Tx => let '(s2, o2) := react cfg s1 f in (s2, Completed f r :: o2)
       | Aio => (enqueue s1 (TLeaf (LUserDone f r)), [])
       end.

(* continuations that schedule nothing further *)
Definition run_leaf (fl : flavour) (cfg : ucfg) (s : sess) (l : leaf) : sess * list out :=
  match l with
  | LUserDone f r => let '(s2, o2) := react cfg s f in (s2, Completed f r :: o2)
  | LJoin =>
      (* protocol.py Welcome/success: onJoin(self._session_details); a failure reaches the "While firing onJoin"
         errback only on Twisted (chained); on asyncio nobody looks at the failed future *)
      match sdetails s with
      | Some v => (s, Called (CbJoin v) :: (if u_join_raises cfg then match fl with Tx => [UserError] | Aio => [] end else []))
      | None => (s, [])
      end
  | LLeaveK raised => (s, if raised then [UserError] else [])
  | LLeaveDisconnect =>
      (* protocol.py onLeave: disconnect(_): if self._transport: self.disconnect() -> self._transport.close() *)
      if transport s then (set_conn s (opened s) (transport s) false, [TransportClose]) else (s, [])
  | LCancelSend id =>
      (* call(): canceller(d): self._transport.send(message.Cancel(request_id)) *)
      if transport s then
        let '(o, ok) := send cfg s (MCancel id) in (s, o ++ (if ok then [] else [LoopError XTransportLost]))
      else (s, [LoopError XAttributeError])
  | LYield rq =>
      (* INVOCATION success(res): del self._invocations[request]; if self._transport is None: return; send YIELD *)
      let s1 := set_invs s (remove1 rq (invs s)) in
      if transport s then
        let '(o, ok) := send cfg s1 (MYield rq) in
        (* asyncio: success() raised (TransportLost) after deleting the invocation; txaio then calls error(err),
           whose `del self._invocations[msg.request]` raises KeyError into the loop *)
        (s1, o ++ (if ok then [] else match fl with Tx => [] | Aio => [LoopError XKeyError] end))
      else (s1, [])
  end.

Definition defer_leaf (fl : flavour) (cfg : ucfg) (s : sess) (l : leaf) : sess * list out :=
  match fl with Tx => run_leaf fl cfg s l | Aio => (enqueue s (TLeaf l), []) end.

(* protocol.py _errback_outstanding_requests(exc): requests table by table in the fixed order, each table in
   insertion order; tables cleared first; each future rejected unless already called *)
Fixpoint errback_list (fl : flavour) (cfg : ucfg) (s : sess) (e : err) (l : list req) : sess * list out :=
  match l with
  | [] => (s, [])
  | r :: t => let '(s1, o1) := complete fl cfg s (r_fut r) (RErr e) in
              let '(s2, o2) := errback_list fl cfg s1 e t in (s2, o1 ++ o2)
  end.
Definition outstanding (l : list req) : list req := flat_map (fun k => table k l) all_kinds.
Definition errback_all (fl : flavour) (cfg : ucfg) (s : sess) (e : err) : sess * list out :=
  errback_list fl cfg (set_pend s []) e (outstanding (pend s)).

(* txaio.as_future(self.onLeave, details): the user's onLeave runs now; result: did it raise *)
Definition do_onLeave (fl : flavour) (cfg : ucfg) (s : sess) (rs : reason) : sess * list out * bool :=
  let o0 := [Called (CbLeave rs (sid s))] in
  if u_leave_super cfg then
    (* protocol.py onLeave: exc = ApplicationError(details.reason, ...); d = _errback_outstanding_requests(exc);
       add_callbacks(d, disconnect, disconnect) *)
    let '(s1, o1) := errback_all fl cfg s (ELeave rs) in
    let '(s2, o2) := defer_leaf fl cfg s1 LLeaveDisconnect in
    (s2, o0 ++ o1 ++ o2, u_leave_raises cfg)
  else (s, o0, u_leave_raises cfg).

(* txaio.as_future(self.onDisconnect) *)
Definition do_onDisconnect (fl : flavour) (cfg : ucfg) (s : sess) : sess * list out * bool :=
  let o0 := [Called CbDisconnect] in
  if u_disc_super cfg then
    (* protocol.py onDisconnect: self._errback_outstanding_requests(exception.TransportLost()) *)
    let '(s1, o1) := errback_all fl cfg s ETransportLost in (s1, o0 ++ o1, u_disc_raises cfg)
  else (s, o0, u_disc_raises cfg).

(* the abort path shared by "onChallenge failed": onUserError, send ABORT, onLeave, continuation *)
Definition challenge_failed (fl : flavour) (cfg : ucfg) (s : sess) : sess * list out :=
  if transport s then
    let '(o1, ok) := send cfg s (MAbort RsCannotAuth) in
    if ok then
      let '(s2, o2, raised) := do_onLeave fl cfg s RsCannotAuth in
      let '(s3, o3) := defer_leaf fl cfg s2 (LLeaveK raised) in
      (s3, UserError :: o1 ++ o2 ++ o3)
    else (s, UserError :: o1 ++ match fl with Tx => [] | Aio => [LoopError XTransportLost] end)
  else (s, UserError :: match fl with Tx => [] | Aio => [LoopError XAttributeError] end).

Definition run_thunk (fl : flavour) (cfg : ucfg) (s : sess) (t : thunk) : sess * list out :=
  match t with
  | TLeaf l => run_leaf fl cfg s l
  | TConnect =>
      (* protocol.py onOpen: as_future(self.onConnect); onConnect -> join(realm) -> HELLO.
         An exception of onConnect / join is not observed by anybody (no errback after it). *)
      match u_connect cfg with
      | CnRaise => (s, [Called CbConnect])
      | CnJoin =>
          if sid_truthy s then (s, [Called CbConnect])                 (* join: "session already joined" *)
          else if negb (transport s) then (s, [Called CbConnect])      (* join: "no transport set for session" *)
          else let s1 := set_join s in      (* self._goodbye_sent = False; self._request_id_gen = IdGenerator() *)
               let '(o, _) := send cfg s1 MHello in (s1, Called CbConnect :: o)
      end
  | TWelcomeK o sidv =>
      match o with
      | WlRaise =>
          (* error(e): send ABORT; _swallow_error *)
          if transport s then
            let '(o1, ok) := send cfg s (MAbort RsCannotAuth) in
            (s, o1 ++ (if ok then [UserError] else match fl with Tx => [] | Aio => [LoopError XTransportLost] end))
          else (s, match fl with Tx => [] | Aio => [LoopError XAttributeError] end)
      | WlDeny =>
          (* success(res), res is not None: send ABORT; return.  asyncio: an exception inside success() is handed
             to error(e), which sends again *)
          if transport s then
            let '(o1, ok) := send cfg s (MAbort RsCannotAuth) in
            (s, o1 ++ (if ok then [] else match fl with
                                          | Tx => []
                                          | Aio => SendFailed (MAbort RsCannotAuth) :: [LoopError XTransportLost]
                                          end))
          else (s, match fl with Tx => [] | Aio => [LoopError XAttributeError] end)
      | WlNone =>
          (* success(None): self._session_id = msg.session; SessionDetails(... self._transport._serializer ...);
             fire 'join'; onJoin; fire 'ready' *)
          let s1 := set_sid s (Some sidv) in
          if transport s then
            let s2 := set_sdetails s1 (Some sidv) in
            defer_leaf fl cfg s2 LJoin
          else
            (* self._transport is None (asyncio, transport lost meanwhile): AttributeError inside success();
               error(e) then fails the same way *)
            (s1, match fl with Tx => [] | Aio => [LoopError XAttributeError] end)
      end
  | TChallengeK o =>
      match o with
      | ChSig =>
          if transport s then
            let '(o1, ok) := send cfg s MAuthenticate in
            if ok then (s, o1)
            else match fl with
                 | Tx => (s, o1)
                 | Aio => let '(s2, o2) := challenge_failed fl cfg s in (s2, o1 ++ o2)
                 end
          else match fl with Tx => (s, []) | Aio => challenge_failed fl cfg s end
      | ChNone =>
          (* success(None) raises Exception("... did not return a signature").  Twisted: addCallbacks(success,
             error) does not route it to error; asyncio: txaio's done() calls the errback *)
          match fl with Tx => (s, []) | Aio => challenge_failed fl cfg s end
      | ChRaise => challenge_failed fl cfg s
      end
  | TDiscK raised =>
      (* onClose success(arg) / _error(e): self._errback_outstanding_requests(TransportLost()) whatever the user's
         onLeave / onDisconnect did (a0cad4f0); then fire 'disconnect' / _swallow_error *)
      let '(s1, o1) := errback_all fl cfg s ETransportLost in
      (s1, o1 ++ (if raised then [UserError] else []))
  end.

Definition defer (fl : flavour) (cfg : ucfg) (s : sess) (t : thunk) : sess * list out :=
  match fl with Tx => run_thunk fl cfg s t | Aio => (enqueue s t, []) end.

(* ------------------------------------------------------------------------------------------------------------ *)
(* operations                                                                                                   *)
(* ------------------------------------------------------------------------------------------------------------ *)

(* CALL reply content: protocol.py Result branch, "process final call result" *)
Definition call_details (o : option call_opts) : bool := match o with Some c => co_details c | None => false end.
Definition result_value (details : bool) (p : payload) : value :=
  if kw_truthy (p_kw p) || details then
    VCallResult (if args_truthy (p_args p) then args_or_empty (p_args p) else []) (kw_or_empty (p_kw p))
  else match p_args p with
       | Some [x] => VSingle x
       | Some (x :: y :: l) => VCallResult (x :: y :: l) []
       | _ => VNone
       end.

(* a reply keyed (k, rq): `if msg.request in table: request = table.pop(msg.request); if is_called: return; ...`
   else ProtocolError *)
Definition pop_reply (s : sess) (k : kind) (rq : N) (found : req -> sess -> sess * list out) : sess * list out :=
  match find_req k rq (pend s) with
  | None => (s, [Raised XProtocolError])
  | Some r => let s1 := set_pend s (remove_req k rq (pend s)) in
              if is_done s1 (r_fut r) then (s1, []) else found r s1
  end.

(* ---- established session: protocol.py onMessage, else-branch ---- *)
Definition on_message_established (fl : flavour) (cfg : ucfg) (s : sess) (o : op) : sess * list out :=
  match o with
  | RGoodbye rs =>
      (* if not self._goodbye_sent: send GOODBYE reply;  self._session_id = None;  onLeave;  continuation *)
      let '(o1, ok) := if goodbye_sent s then ([], true) else send cfg s (MGoodbye RsNormal) in
      if ok then
        let s1 := set_sid s None in
        let '(s2, o2, raised) := do_onLeave fl cfg s1 rs in
        let '(s3, o3) := defer_leaf fl cfg s2 (LLeaveK raised) in
        (s3, o1 ++ o2 ++ o3)
      else (s, o1 ++ [Raised XTransportLost])
  | REvent subid =>
      match assoc subid (subs s) with
      | Some _ => (s, [])                                   (* handlers run (SessionSub.v); nothing sent *)
      | None => (s, [Raised XProtocolError])
      end
  | RPublished rq pubid =>
      pop_reply s KPublish rq (fun r s1 => complete fl cfg s1 (r_fut r) (ROk (VPublication pubid)))
  | RSubscribed rq subid =>
      pop_reply s KSubscribe rq (fun r s1 =>
        let cur := match assoc subid (subs s1) with Some l => l | None => [] end in
        let s2 := set_subs s1 (assoc_set subid (cur ++ [r_fut r]) (subs s1)) in
        complete fl cfg s2 (r_fut r) (ROk (VSubscription subid)))
  | RUnsubscribed rq =>
      pop_reply s KUnsubscribe rq (fun r s1 =>
        let s2 := set_subs s1 (assoc_remove (r_target r) (subs s1)) in
        complete fl cfg s2 (r_fut r) (ROk VZero))
  | RResult rq progress p =>
      match find_req KCall rq (pend s) with
      | None => (s, [Raised XProtocolError])
      | Some r =>
          if progress then
            (* progressive result: the request stays.
               `if call_request.options and call_request.options.on_progress:` -- otherwise skipped silently;
               kw = msg.kwargs or dict(); args = msg.args or tuple();
               details: on_progress(CallResult( *args, ..., **kw )), else on_progress( *args, **kw ) *)
            match r_opts r with
            | None => (s, [])
            | Some c =>
                if co_progress c
                then (s, [Progress (r_fut r) (co_details c) (args_or_empty (p_args p)) (kw_or_empty (p_kw p))])
                else (s, [])
            end
          else
            let s1 := set_pend s (remove_req KCall rq (pend s)) in
            if is_done s1 (r_fut r) then (s1, [])
            else complete fl cfg s1 (r_fut r) (ROk (result_value (call_details (r_opts r)) p))
      end
  | RInvocation rq regid =>
      if memN rq (invs s) then (s, [Raised XProtocolError])
      else match assoc regid (regs s) with
           | None => (s, [Raised XProtocolError])
           | Some _ => defer_leaf fl cfg (set_invs s (invs s ++ [rq])) (LYield rq)
           end
  | RInterrupt _ => (s, [])
  | RRegistered rq regid =>
      pop_reply s KRegister rq (fun r s1 =>
        match assoc regid (regs s1) with
        | None => complete fl cfg (set_regs s1 (regs s1 ++ [(regid, r_fut r)])) (r_fut r) (ROk (VRegistration regid))
        | Some _ => (set_lost s1 (lost s1 ++ [r_fut r]), [Raised XProtocolError])
                                                            (* already popped: the future is never completed *)
        end)
  | RUnregistered rq regid =>
      if rq =? 0 then
        match regid with
        | Some g => match assoc g (regs s) with Some _ => (s, []) | None => (s, [Raised XProtocolError]) end
        | None => (s, [Raised XProtocolError])
        end
      else
        pop_reply s KUnregister rq (fun r s1 =>
          let s2 := set_regs s1 (assoc_remove (r_target r) (regs s1)) in
          complete fl cfg s2 (r_fut r) (ROk VNone))
  | RError rtype rq uri p =>
      match kind_of_code rtype with
      | None => (s, [Raised XProtocolError])
      | Some k =>
          match find_req k rq (pend s) with
          | None => (s, [Raised XProtocolError])
          | Some r => complete fl cfg (set_pend s (remove_req k rq (pend s))) (r_fut r) (RErr (EApp uri p))
          end
      end
  | _ => (s, [Raised XProtocolError])     (* Unexpected message (WELCOME / ABORT / CHALLENGE / anything else) *)
  end.

(* ---- no session yet / any more: protocol.py onMessage, `if self._session_id is None` ---- *)
Definition on_message_unjoined (fl : flavour) (cfg : ucfg) (s : sess) (o : op) : sess * list out :=
  match o with
  | RWelcome sidv =>
      (* d = as_future(self.onWelcome, msg); add_callbacks(d, success, error) *)
      let '(s1, o1) := defer fl cfg s (TWelcomeK (u_welcome cfg) sidv) in (s1, Called CbWelcome :: o1)
  | RAbort rs =>
      let '(s1, o1, raised) := do_onLeave fl cfg s rs in
      let '(s2, o2) := defer_leaf fl cfg s1 (LLeaveK raised) in (s2, o1 ++ o2)
  | RChallenge =>
      let '(s1, o1) := defer fl cfg s (TChallengeK (u_challenge cfg)) in (s1, Called CbChallenge :: o1)
  | _ => (s, [Raised XProtocolError])
  end.

Definition is_router_msg (o : op) : bool :=
  match o with
  | RWelcome _ | RAbort _ | RChallenge | RGoodbye _ | RPublished _ _ | RSubscribed _ _ | RUnsubscribed _
  | RResult _ _ _ | RRegistered _ _ | RUnregistered _ _ | RError _ _ _ _ | REvent _ | RInvocation _ _
  | RInterrupt _ | ROther => true
  | _ => false
  end.

(* one asyncio loop iteration: the callbacks that were ready at its start, in order *)
Fixpoint run_queue (fl : flavour) (cfg : ucfg) (s : sess) (q : list thunk) : sess * list out :=
  match q with
  | [] => (s, [])
  | t :: r => let '(s1, o1) := run_thunk fl cfg s t in
              let '(s2, o2) := run_queue fl cfg s1 r in (s2, o1 ++ o2)
  end.

Definition is_fail_op (o : op) : bool :=
  match o with
  | ACall _ _ _ _ | APublish _ _ _ _ | ASubscribe _ _ | ARegister _ _ | AUnsubscribe _ | AUnregister _ => true
  | _ => false
  end.

(* request.py Subscription.unsubscribe -> protocol.py _unsubscribe *)
Definition unsub_step (fl : flavour) (cfg : ucfg) (s : sess) (h : N) : sess * list out :=
      match sub_id_of s h with
      | None => (s, [ApiRaised XNoObject])
      | Some subid =>
          let cur := match assoc subid (subs s) with Some l => l | None => [] end in
          if negb (memN h cur) then (s, [ApiRaised XException])        (* "subscription no longer active" *)
          else if negb (transport s) then (s, [ApiRaised XTransportLost])
          else
            let rest := remove1 h cur in
            let s0 := set_subs s (assoc_set subid rest (subs s)) in
            match rest with
            | [] =>
                let '(s1, id, f) := new_request s0 KUnsubscribe None subid in
                let '(o1, ok) := send_req cfg s1 (MUnsubscribe id subid) in
                if ok then (s1, o1 ++ [ApiReturned (Some f)])
                else (drop_request s1 KUnsubscribe id f, o1 ++ [ApiRaised (send_exn s1)])
            | _ :: _ =>
                (* txaio.create_future_success(scount): a future that already has its result *)
                let f := next_fut s0 in
                let s1 := set_newreq s0 (next_id s0) (pend s0) (f + 1) (issued s0) (lost s0) in
                let '(s2, o2) := complete fl cfg s1 f (ROk (VCount (N.of_nat (length rest)))) in
                (s2, ApiReturned (Some f) :: o2)
            end
      end.

Definition step (fl : flavour) (cfg : ucfg) (s : sess) (o : op) : sess * list out :=
  match o with
  | OOpen =>
      (* protocol.py onOpen: self._transport = transport; fire 'connect'; onConnect.  A session object may be given
         a transport again after it lost the previous one (WampWebSocket*/WampRawSocket* factories wrap a session
         instance as `lambda: session`): a history is a sequence of lives of one object; everything that is not
         reset explicitly -- here or in join() -- carries over *)
      if transport s then (s, []) else defer fl cfg (set_conn s true true true) TConnect
  | OLost _ =>
      (* protocol.py onClose.  Transports call it once (they drop their session reference) *)
      if negb (transport s) then (s, [])
      else
        let s0 := set_conn s (opened s) false false in
        let '(s3, o3) :=
          if sid_truthy s0 then
            let '(s1, o1, raised) := do_onLeave fl cfg s0 RsTransportLost in
            let '(s2, o2) := defer_leaf fl cfg s1 (LLeaveK raised) in
            (set_sid s2 None, o1 ++ o2)
          else (s0, []) in
        let '(s4, o4, raised) := do_onDisconnect fl cfg s3 in
        let '(s5, o5) := defer fl cfg s4 (TDiscK raised) in
        (s5, o3 ++ o4 ++ o5)
  | OTurn =>
      match fl with
      | Tx => (s, [])
      | Aio => run_queue fl cfg (set_queue s []) (queue s)
      end
  | ACall _ _ _ _ | APublish _ _ _ _ | ASubscribe _ _ | ARegister _ _ | AUnregister _ => api_step cfg s o
  | AUnsubscribe h => unsub_step fl cfg s h
  | ACancel f =>
      (* txaio.cancel(f) on a future returned by an API call.  Only call() installs a canceller. *)
      if is_done s f then (s, [ApiReturned None])
      else
        match assoc f (issued s) with
        | None => (s, [ApiRaised XNoObject])
        | Some (k, id) =>
            match fl with
            | Tx =>
                (* Deferred.cancel: canceller(self) first (its exception propagates), then errback(CancelledError) *)
                match k with
                | KCall =>
                    if transport s then
                      let '(o1, ok) := send cfg s (MCancel id) in
                      if ok then let '(s1, o2) := complete fl cfg s f (RErr ECancelled) in (s1, o1 ++ o2 ++ [ApiReturned None])
                      else (s, o1 ++ [ApiRaised XTransportLost])
                    else (s, [ApiRaised XAttributeError])
                | _ => let '(s1, o2) := complete fl cfg s f (RErr ECancelled) in (s1, o2 ++ [ApiReturned None])
                end
            | Aio =>
                (* Future.cancel(): done now; the canceller hook and the user's callback are scheduled *)
                let s1 := set_done s (done s ++ [(f, RErr ECancelled)]) in
                let s2 := match k with KCall => enqueue s1 (TLeaf (LCancelSend id)) | _ => s1 end in
                (enqueue s2 (TLeaf (LUserDone f (RErr ECancelled))), [ApiReturned None])
            end
        end
  | ALeave r =>
      (* protocol.py leave() *)
      if negb (sid_truthy s) then (s, [ApiReturned None])
      else if goodbye_sent s then (s, [ApiReturned None])
      else if negb (transport s) then (s, [ApiRaised XAttributeError])
      else
        let '(o1, ok) := send cfg s (MGoodbye (match r with Some x => x | None => RsNormal end)) in
        if ok then (set_goodbye s true, o1 ++ [ApiReturned None]) else (s, o1 ++ [ApiRaised XTransportLost])
  | AFail e a =>
      if is_fail_op a then
        let s0 := set_failnext s (Some e) in
        let '(s1, o1) := match a with AUnsubscribe h => unsub_step fl cfg s0 h | _ => api_step cfg s0 a end in
        (set_failnext s1 None, o1)
      else (s, [])
  | AReact f o' =>
      (* user code: txaio.add_callbacks(f, cb, cb) with cb = lambda _: session.<api>(...) on a future that has no
         result yet and no such callback so far *)
      if is_react_op o' && negb (is_done s f) && isNoneB (assoc f (reacts s))
      then (set_reacts s (reacts s ++ [(f, o')]), []) else (s, [])
  | ADisconnect =>
      (* protocol.py disconnect(): if self._transport: self._transport.close() *)
      if transport s then (set_conn s (opened s) true false, [TransportClose; ApiReturned None])
      else (s, [ApiReturned None])
  | _ =>
      (* router messages: transports deliver them only while attached (wamp/websocket.py onClose: self._session =
         None; rawsocket likewise) *)
      if negb (transport s) then (s, [])
      else match sid s with
           | None => on_message_unjoined fl cfg s o
           | Some _ => on_message_established fl cfg s o
           end
  end.

(* histories *)
Fixpoint run (fl : flavour) (cfg : ucfg) (s : sess) (ops : list op) : sess * list (list out) :=
  match ops with
  | [] => (s, [])
  | o :: r => let '(s1, o1) := step fl cfg s o in
              let '(s2, tr) := run fl cfg s1 r in (s2, o1 :: tr)
  end.

Definition final (fl : flavour) (cfg : ucfg) (ops : list op) : sess := fst (run fl cfg init ops).
Definition trace (fl : flavour) (cfg : ucfg) (ops : list op) : list out := concat (snd (run fl cfg init ops)).

Definition default_cfg : ucfg :=
  {| u_connect := CnJoin; u_welcome := WlNone; u_challenge := ChRaise; u_join_raises := false;
     u_leave_super := true; u_leave_raises := false; u_disc_super := true; u_disc_raises := false;
     t_lenient := false |}.
