(* The 25 WAMP message schemas, the envelope dispatch of Serializer.unserialize, batching framing and
   the serializer BINARY flags (definitions only).
   Sources: src/autobahn/wamp/message.py (classes Hello ... Yield), src/autobahn/wamp/serializer.py. *)
From Coq Require Import NArith ZArith List Bool String.
From AV Require Import Model.WampValue Model.WampSchema.
Import ListNotations.
Open Scope string_scope.
Open Scope Z_scope.

(* ---------- option constructors ---------- *)
Definition opt (key attr : string) (k : okind) (mc : mcond) (c : ckind) : ospec :=
  {| o_key := key; o_attr := attr; o_kind := k; o_default := VNull; o_mc := mc; o_reqif := None; o_ctor := c |}.
Definition o_nn (key : string) (k : okind) : ospec := opt key key k MNotNone CNone.     (* `if self.x is not None` *)
Definition o_tr (key : string) (k : okind) : ospec := opt key key k MTruthy CNone.      (* `if self.x` *)
Definition o_enum (key : string) (l : list string) (dflt : string) : ospec :=          (* match / invoke *)
  {| o_key := key; o_attr := key; o_kind := OEnum l; o_default := VStr (s2l dflt); o_mc := MNeqDefault;
     o_reqif := None; o_ctor := CNone |}.
Definition o_fwd : ospec := opt "forward_for" "forward_for" OFwd MNotNone CFwd.
Definition o_req (key attr : string) (k : okind) (mc : mcond) (j : nat) : ospec :=
  {| o_key := key; o_attr := attr; o_kind := k; o_default := VNull; o_mc := mc; o_reqif := Some j; o_ctor := CNone |}.
Definition o_get (key : string) (mc : mcond) (c : ckind) : ospec := opt key key OAny mc c.   (* details.get(key) *)

Definition uri (attr : string) : slot := SField attr (PUri LooseNonEmpty false).
Definition idf (attr : string) : slot := SField attr PId.

Definition plain (name : string) (t : Z) (slots : list slot) (opts : list ospec) : schema :=
  {| s_name := name; s_type := t; s_slots := slots; s_opts := opts; s_optdict_optional := false;
     s_payload := None; s_special := SpNone; s_combo := false |}.
Definition with_payload (name : string) (t : Z) (slots : list slot) (opts : list ospec) (str_payload publish : bool) : schema :=
  {| s_name := name; s_type := t; s_slots := slots; s_opts := opts; s_optdict_optional := false;
     s_payload := Some {| pc_str_payload := str_payload; pc_publish := publish |};
     s_special := SpNone; s_combo := false |}.
Definition optional_dict (name : string) (t : Z) (slots : list slot) (opts : list ospec) (combo : bool) : schema :=
  {| s_name := name; s_type := t; s_slots := slots; s_opts := opts; s_optdict_optional := true;
     s_payload := None; s_special := SpNone; s_combo := combo |}.

(* ---------- message.py: the classes, in source order ---------- *)
(* Hello.parse / Hello.marshal   [HELLO, Realm|uri, Details|dict] *)
Definition Hello : schema :=
  {| s_name := "Hello"; s_type := 1;
     s_slots := [SField "realm" (PUri LooseNonEmpty true); SOpts];
     s_opts := [o_nn "authmethods" OListStr; o_nn "authid" OStr; o_nn "authrole" OStr; o_nn "authextra" ODictT;
                o_nn "resumable" OBool;
                opt "resume-session" "resume_session" OInt MNotNone CNone;
                (* `if "resume-token" in details: ... elif resume_session: raise ProtocolError` *)
                o_req "resume-token" "resume_token" OStr MNotNone 5];
     s_optdict_optional := false; s_payload := None; s_special := SpHello; s_combo := false |}.

(* Welcome.parse: six details.get() without validation, then resumed/resumable/resume_token, roles, custom.
   Welcome.marshal: every option under `if self.x:` (authmethod too, since fix a9cc81d8) *)
Definition Welcome : schema :=
  {| s_name := "Welcome"; s_type := 2;
     s_slots := [idf "session"; SOpts];
     s_opts := [o_get "realm" MTruthy CStr; o_get "authid" MTruthy CStr; o_get "authrole" MTruthy CStr;
                o_get "authmethod" MTruthy CStr; o_get "authprovider" MTruthy CStr;
                o_get "authextra" MTruthy CDict;
                o_tr "resumed" OBool; o_tr "resumable" OBool;
                (* `if "resume_token" in details: ... elif resumable: raise ProtocolError` *)
                o_req "resume_token" "resume_token" OStr MTruthy 7];
     s_optdict_optional := false; s_payload := None; s_special := SpWelcome; s_combo := false |}.

Definition Abort : schema := plain "Abort" 3 [SOpts; uri "reason"] [o_tr "message" OStr].
Definition Challenge : schema := plain "Challenge" 4 [SField "method" PStr; SField "extra" PExtra] [].
Definition Authenticate : schema := plain "Authenticate" 5 [SField "signature" PStr; SField "extra" PExtra] [].
Definition Goodbye : schema := plain "Goodbye" 6 [SOpts; uri "reason"] [o_tr "message" OStr; o_tr "resumable" OBool].

Definition Error : schema :=
  with_payload "Error" 8 [SField "request_type" PReqType; idf "request"; SOpts; uri "error"]
    [o_nn "callee" OInt; o_nn "callee_authid" OStr; o_nn "callee_authrole" OStr; o_fwd] false false.

Definition Publish : schema :=
  with_payload "Publish" 16 [idf "request"; SOpts; uri "topic"]
    [o_nn "acknowledge" OBool; o_nn "exclude_me" OBool; o_nn "exclude" OListInt; o_nn "exclude_authid" OListStr;
     o_nn "exclude_authrole" OListStr; o_nn "eligible" OListInt; o_nn "eligible_authid" OListStr;
     o_nn "eligible_authrole" OListStr; o_nn "retain" OBool; o_nn "transaction_hash" OStr; o_fwd] true true.

Definition Published : schema := plain "Published" 17 [idf "request"; idf "publication"] [].

Definition Subscribe : schema :=
  plain "Subscribe" 32 [idf "request"; SOpts; SField "topic" (PUri LooseEmpty false)]
    [o_enum "match" match_kinds "exact"; o_nn "get_retained" OBool; o_fwd].

Definition Subscribed : schema := plain "Subscribed" 33 [idf "request"; idf "subscription"] [].

(* Unsubscribe.marshal: `if self.forward_for: options = {"forward_for": ...}; 4 elements else 3` *)
Definition Unsubscribe : schema :=
  optional_dict "Unsubscribe" 34 [idf "request"; idf "subscription"; SOpts]
    [opt "forward_for" "forward_for" OFwd MTruthy CFwd] false.

Definition Unsubscribed : schema :=
  optional_dict "Unsubscribed" 35 [idf "request"; SOpts]
    [o_nn "subscription" OInt; o_nn "reason" (OUri LooseNonEmpty)] true.

Definition Event : schema :=
  with_payload "Event" 36 [idf "subscription"; idf "publication"; SOpts]
    [o_nn "publisher" OInt; o_nn "publisher_authid" OStr; o_nn "publisher_authrole" OStr; o_nn "topic" OStr;
     o_nn "retained" OBool; o_nn "transaction_hash" OStr; o_nn "x_acknowledged_delivery" OBool; o_fwd] false false.

Definition EventReceived : schema := plain "EventReceived" 337 [idf "publication"] [].

Definition Call : schema :=
  with_payload "Call" 48 [idf "request"; SOpts; uri "procedure"]
    [o_nn "timeout" (OIntGe 0); o_nn "receive_progress" OBool; o_nn "transaction_hash" OStr; o_nn "caller" OInt;
     o_nn "caller_authid" OStr; o_nn "caller_authrole" OStr; o_fwd] true false.

Definition Cancel : schema :=
  plain "Cancel" 49 [idf "request"; SOpts] [o_nn "mode" (OEnum ["skip"; "killnowait"; "kill"]); o_fwd].

Definition Result : schema :=
  with_payload "Result" 50 [idf "request"; SOpts]
    [o_nn "progress" OBool; o_nn "callee" OInt; o_nn "callee_authid" OStr; o_nn "callee_authrole" OStr; o_fwd]
    true false.

Definition Register : schema :=
  plain "Register" 64 [idf "request"; SOpts; SField "procedure" PUriMatch]
    [o_enum "match" match_kinds "exact";
     o_enum "invoke" ["single"; "first"; "last"; "roundrobin"; "random"] "single";
     o_tr "concurrency" (OIntGe 1); o_nn "force_reregister" OBoolEq; o_fwd].

Definition Registered : schema := plain "Registered" 65 [idf "request"; idf "registration"] [].

(* Unregister.__init__ has no forward_for assertions at all (parse validates the entries since fix ea2362f8) *)
Definition Unregister : schema :=
  optional_dict "Unregister" 66 [idf "request"; idf "registration"; SOpts]
    [opt "forward_for" "forward_for" OFwd MTruthy CNone] false.

Definition Unregistered : schema :=
  optional_dict "Unregistered" 67 [idf "request"; SOpts]
    [o_nn "registration" OInt; o_nn "reason" (OUri LooseNonEmpty)] true.

Definition Invocation : schema :=
  with_payload "Invocation" 68 [idf "request"; idf "registration"; SOpts]
    [o_nn "timeout" (OIntGe 0); o_nn "receive_progress" OBool; o_nn "caller" OInt; o_nn "caller_authid" OStr;
     o_nn "caller_authrole" OStr; o_nn "procedure" OStr; o_nn "transaction_hash" OStr; o_fwd] false false.

Definition Interrupt : schema :=
  plain "Interrupt" 69 [idf "request"; SOpts]
    [o_nn "mode" (OEnum ["kill"; "killnowait"]); o_nn "reason" (OUri LooseNonEmpty); o_fwd].

Definition Yield : schema :=
  with_payload "Yield" 70 [idf "request"; SOpts]
    [o_nn "progress" OBool; o_nn "callee" OInt; o_nn "callee_authid" OStr; o_nn "callee_authrole" OStr; o_fwd]
    false false.

(* serializer.py: Serializer.MESSAGE_TYPE_MAP *)
Definition schemas : list schema :=
  [Hello; Welcome; Abort; Challenge; Authenticate; Goodbye; Error; Publish; Published; Subscribe; Subscribed;
   Unsubscribe; Unsubscribed; Event; EventReceived; Call; Cancel; Result; Register; Registered; Unregister;
   Unregistered; Invocation; Interrupt; Yield].

Fixpoint find_schema (l : list schema) (t : Z) : option schema :=
  match l with
  | [] => None
  | s :: r => if Z.eqb t (s_type s) then Some s else find_schema r t
  end.

Fixpoint find_schema_by_name (l : list schema) (n : string) : option schema :=
  match l with
  | [] => None
  | s :: r => if String.eqb n (s_name s) then Some s else find_schema_by_name r n
  end.

(* ---------- serializer.py: Serializer.unserialize, the loop over raw_msgs ---------- *)
Section Envelope.
  Variable uri_ok : uri_fl -> str -> bool.
  Variable custom_ok : str -> bool.

  Definition unserialize1 (raw : value) : res (Z * msg) :=
    match raw with
    | VList l =>                                              (* `type(raw_msg) != list` *)
        match l with
        | [] => Raise ProtocolError                           (* missing message type *)
        | VInt t :: _ =>
            match find_schema schemas t with
            | None => Raise ProtocolError                     (* invalid WAMP message type *)
            | Some s => match parse uri_ok custom_ok s l with
                        | Ok m => Ok (t, m)
                        | Raise e => Raise e                  (* Klass.parse(raw_msg) is NOT wrapped *)
                        end
            end
        | _ :: _ => Raise ProtocolError                       (* `type(message_type) != int` *)
        end
    | _ => Raise ProtocolError
    end.

  Fixpoint unserialize_all (raws : list value) : res (list (Z * msg)) :=
    match raws with
    | [] => Ok []
    | r :: rest =>
        match unserialize1 r with
        | Raise e => Raise e
        | Ok x => match unserialize_all rest with
                  | Raise e => Raise e
                  | Ok xs => Ok (x :: xs)
                  end
        end
    end.
End Envelope.

(* ---------- serializer flags ---------- *)
Inductive ser := SJson | SMsgPack | SCbor | SUbjson | SFlatbuffers.
(* <X>ObjectSerializer.BINARY *)
Definition ser_binary (s : ser) : bool := match s with SJson => false | _ => true end.
(* what serialize() hands to the transport: JSON is `str.encode("utf8")` text, the others packed octets *)
Definition produces_text (s : ser) : bool := match s with SJson => true | _ => false end.
(* Serializer.serialize returns (data, self._serializer.BINARY) *)
Definition serialize_flag (s : ser) : bool := ser_binary s.
(* Serializer.unserialize(payload, isBinary): `if isBinary is not None and isBinary != BINARY: raise ProtocolError` *)
Definition flag_check (s : ser) (isBinary : option bool) : chk :=
  match isBinary with
  | Some b => require (Bool.eqb b (ser_binary s)) ProtocolError
  | None => None
  end.
Definition ser_name (s : ser) : string :=
  match s with SJson => "json" | SMsgPack => "msgpack" | SCbor => "cbor" | SUbjson => "ubjson"
             | SFlatbuffers => "flatbuffers" end.
Definition all_sers : list ser := [SJson; SMsgPack; SCbor; SUbjson; SFlatbuffers].

Section Unserialize.
  Variable uri_ok : uri_fl -> str -> bool.
  Variable custom_ok : str -> bool.
  (* [decoded] = result of the object serializer (json/msgpack/cbor2 + batching): None if it raised
     anything (Serializer.unserialize wraps every exception of that stage into ProtocolError) *)
  Definition unserialize_model (s : ser) (isBinary : option bool) (decoded : option (list value))
    : res (list (Z * msg)) :=
    match flag_check s isBinary with
    | Some e => Raise e
    | None => match decoded with
              | None => Raise ProtocolError
              | Some raws => unserialize_all uri_ok custom_ok raws
              end
    end.
End Unserialize.

(* ---------- a serializer object over time ----------
   Serializer.unserialize reads nothing that an earlier call wrote (the statistics counters are write-only for
   it), and the object serializers are meant to be functions of the octets they are handed: [decode].  A call
   history on one object -- or on several objects of one process -- is therefore answered call by call.  The C03
   correspondence run on histories is what ties this to the code (e.g. a shared streaming decoder would break it). *)
Section History.
  Variable uri_ok : uri_fl -> str -> bool.
  Variable custom_ok : str -> bool.
  Variable decode : ser -> list N -> option (list value).
  Definition unserialize_octets (s : ser) (isBinary : option bool) (p : list N) : res (list (Z * msg)) :=
    unserialize_model uri_ok custom_ok s isBinary (decode s p).
  (* one call = (serializer, isBinary, octets) *)
  Definition run_history (calls : list (ser * option bool * list N)) : list (res (list (Z * msg))) :=
    map (fun c => unserialize_octets (fst (fst c)) (snd (fst c)) (snd c)) calls.
End History.

(* ---------- batching ---------- *)
Open Scope N_scope.
(* JsonObjectSerializer: serialize appends b"\x18"; unserialize: payload.split(b"\x18")[:-1], error if empty *)
Definition sep : N := 24.
Definition batch_json (l : list (list N)) : list N := List.concat (map (fun c => c ++ [sep])%list l).
Fixpoint split_sep (p : list N) : list (list N) :=
  match p with
  | [] => [[]]
  | b :: r =>
      let parts := split_sep r in
      if b =? sep then [] :: parts
      else match parts with c :: cs => (b :: c) :: cs | [] => [[b]] end
  end.
Inductive bres := BOk (l : list (list N)) | BErr | BOutOfFuel.
Definition unbatch_json (p : list N) : bres :=
  let chunks := removelast (split_sep p) in
  match chunks with [] => BErr | _ => BOk chunks end.

(* MsgPack/CBOR/UBJSON ObjectSerializer: struct.pack("!L", len(data)) + data ; the `while i < N` loop *)
Definition lenN (l : list N) : N := N.of_nat (List.length l).
Definition be32 (n : N) : list N :=
  [(n / 16777216) mod 256; (n / 65536) mod 256; (n / 256) mod 256; n mod 256].
Definition de32 (a b c d : N) : N := ((a * 256 + b) * 256 + c) * 256 + d.
Definition batch32 (l : list (list N)) : list N := List.concat (map (fun c => be32 (lenN c) ++ c)%list l).
Fixpoint unbatch32_fuel (fuel : nat) (p : list N) : bres :=
  match p with
  | [] => BOk []                                       (* `while i < N` exits, `i != N` false *)
  | _ =>
      match fuel with
      | O => BOutOfFuel
      | S f =>
          match p with
          | a :: b :: c :: d :: rest =>
              let l := de32 a b c d in
              if lenN rest <? l then BErr              (* batch format error [2] *)
              else match unbatch32_fuel f (skipn (N.to_nat l) rest) with
                   | BOk r => BOk (firstn (N.to_nat l) rest :: r)
                   | e => e
                   end
          | _ => BErr                                  (* batch format error [1] *)
          end
      end
  end.
Definition unbatch32 (p : list N) : bres := unbatch32_fuel (S (List.length p)) p.
