(* Executable entry points used by the C05 / C17 correspondence runs (harness/props/c05.py, c17.py):
   the model is run step by step over an event list and compared, after every step, with the canonical
   observation taken from the real implementation by harness/impl/ws_conn.py. *)
From Coq Require Import NArith List Bool.
From AV Require Import Model.WsConn.
Import ListNotations.
Open Scope N_scope.

Fixpoint list_eqb {A} (eqb : A -> A -> bool) (a b : list A) : bool :=
  match a, b with
  | [], [] => true
  | x :: a', y :: b' => eqb x y && list_eqb eqb a' b'
  | _, _ => false
  end.
Definition opt_eqb {A} (eqb : A -> A -> bool) (a b : option A) : bool :=
  match a, b with None, None => true | Some x, Some y => eqb x y | _, _ => false end.
Definition nreason_eqb (a b : nreason) : bool :=
  match a, b with
  | RNone, RNone | RPeerDropped, RPeerDropped | ROpenTO, ROpenTO | RCloseTO, RCloseTO | RDropTO, RDropTO
  | RPingTO, RPingTO | RIDropped, RIDropped | RHandshake, RHandshake => true
  | _, _ => false
  end.
Definition exn_eqb (a b : exn) : bool :=
  match a, b with ExDisconnected, ExDisconnected | ExException, ExException => true | _, _ => false end.

(* equality of outputs as far as the harness can observe them: the origin tag of a close frame is a ghost *)
Definition oev_eqb (a b : oev) : bool :=
  match a, b with
  | WPayload x, WPayload y => x =? y
  | WHttp, WHttp | WData, WData | WHdr, WHdr | WPong, WPong | Lose, Lose | Abort, Abort
  | CbOpen, CbOpen | CbMessage, CbMessage | CbPing, CbPing | CbPong, CbPong | IsOpen, IsOpen | IsClosed, IsClosed => true
  | WPing x, WPing y => opt_eqb N.eqb x y
  | WClose _ c r, WClose _ c' r' => opt_eqb N.eqb c c' && opt_eqb (list_eqb N.eqb) r r'
  | CbClose w c r k, CbClose w' c' r' k' =>
      Bool.eqb w w' && opt_eqb N.eqb c c' && opt_eqb (list_eqb N.eqb) r r' && nreason_eqb k k'
  | Raised e, Raised e' => exn_eqb e e'
  | _, _ => false
  end.
Definition out_eqb (a b : out) : bool := (fst a =? fst b) && oev_eqb (snd a) (snd b).

Definition is_future (o : out) : bool := match snd o with IsOpen | IsClosed => true | _ => false end.
Definition is_isclosed (o : out) : bool := match snd o with IsClosed => true | _ => false end.

(* would the driver deliver this event in this state?  (mirror of the guards of [step]) *)
Definition applicable (s : cstate) (e : event) : bool :=
  match e with
  | EHandshake | EBadHandshake | EConnectRaises _ => connecting s
  | EProxyOk | EProxyBad => proxy_connecting s
  | ESendFrame | EEndMessage => negb (wstate_eqb (st s) OPEN && match sst s with SGround => true | _ => false end)
  | ESendClose _ _ | ESendMessage | ESendPrepared | ESendPing | ESendPong | EBeginMessage | ETick _ => true
  | EPeerDrop _ => negb (gone s)
  | EOwnDrop => negb (gone s) && droppedByMe s
  (* frames are read in OPEN/CLOSING; in CLOSED (transport not yet gone) octets are still delivered and ignored *)
  | EPeerData | EPeerInvalid _ =>
      negb (gone s) && negb (wstate_eqb (st s) CONNECTING) && (if frames_flow s then negb (rxPartial s) && negb (inMsg s) else true)
  | EPeerHead => msg_start s
  | EPeerFrag cont _ => frames_ready s && Bool.eqb cont (inMsg s)
  | EPeerTail => frames_flow s && rxPartial s
  | _ => negb (gone s) && negb (wstate_eqb (st s) CONNECTING) && (if frames_flow s then negb (rxPartial s) else true)
  end.

Record obs := mkObs {
  o_applied : bool;
  o_out : list out;                 (* without the future resolutions, in order *)
  o_isopen : N; o_isclosed : N;     (* number of is_open / is_closed resolutions in this step *)
  o_state : wstate; o_now : N;
  o_timers : list N;                (* absolute times of the pending reactor calls, ascending *)
  o_flags : list bool;              (* closedByMe failedByMe droppedByMe wasClean wasOpenTO wasCloseTO wasDropTO pingPending proxyPending inMsg rxPartial sendstate<>GROUND sendstate=INSIDE_MESSAGE *)
  o_ncr : nreason;
  o_localCode : option N; o_remoteCode : option N;
  o_pingSeq : N
}.

Fixpoint insert_sorted (x : N) (l : list N) : list N :=
  match l with [] => [x] | y :: r => if x <=? y then x :: l else y :: insert_sorted x r end.
Definition sort_times (l : list N) : list N := fold_right insert_sorted [] l.

Definition observe (applied : bool) (s : cstate) (o : list out) : obs :=
  mkObs applied (filter (fun x => negb (is_future x)) o)
        (N.of_nat (length (filter (fun x => is_future x && negb (is_isclosed x)) o)))
        (N.of_nat (length (filter is_isclosed o)))
        (st s) (now s) (sort_times (map te_time (timers s)))
        [closedByMe s; failedByMe s; droppedByMe s; wasClean s; wasOpenTO s; wasCloseTO s; wasDropTO s;
         isSome (pingPending s); proxyPending s && wstate_eqb (st s) CONNECTING;
         inMsg s && negb (wstate_eqb (st s) CLOSED); rxPartial s && negb (wstate_eqb (st s) CLOSED);
         match sst s with SGround => false | _ => true end; match sst s with SInside => true | _ => false end]
        (ncr s) (localCode s) (remoteCode s) (pingSeq s).

Definition obs_eqb (a b : obs) : bool :=
  Bool.eqb (o_applied a) (o_applied b) && list_eqb out_eqb (o_out a) (o_out b)
  && (o_isopen a =? o_isopen b) && (o_isclosed a =? o_isclosed b)
  && wstate_eqb (o_state a) (o_state b) && (o_now a =? o_now b)
  && list_eqb N.eqb (o_timers a) (o_timers b) && list_eqb Bool.eqb (o_flags a) (o_flags b)
  && nreason_eqb (o_ncr a) (o_ncr b)
  && opt_eqb N.eqb (o_localCode a) (o_localCode b) && opt_eqb N.eqb (o_remoteCode a) (o_remoteCode b)
  && (o_pingSeq a =? o_pingSeq b).

(* a case: configuration, the observation after connectionMade, then (event, observation after it) pairs *)
Definition conn_case := (cfg * obs * list (event * obs))%type.

Fixpoint first_bad (c : cfg) (s : cstate) (i : N) (l : list (event * obs)) : option N :=
  match l with
  | [] => None
  | (e, exp) :: r =>
    let '(s', o) := step c s e in
    if obs_eqb (observe (applicable s e) s' o) exp then first_bad c s' (i + 1) r else Some i
  end.

(* index of the first step whose observation differs (0 = the state after connectionMade, i = event i) *)
Definition conn_case_first_bad (k : conn_case) : option N :=
  let '(c, o0, l) := k in
  if obs_eqb (observe true (init c) (init_out c)) o0 then first_bad c (init c) 1 l else Some 0.
Definition conn_case_ok (k : conn_case) : bool :=
  match conn_case_first_bad k with None => true | Some _ => false end.

(* the model's own observations, for replays and diagnostics *)
Fixpoint trace (c : cfg) (s : cstate) (l : list event) : list obs :=
  match l with
  | [] => []
  | e :: r => let '(s', o) := step c s e in observe (applicable s e) s' o :: trace c s' r
  end.
Definition conn_trace (c : cfg) (l : list event) : list obs := observe true (init c) (init_out c) :: trace c (init c) l.
