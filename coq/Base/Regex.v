(* Regular expressions over code points (N), denotational semantics [lang], and a Brzozowski-derivative
   matcher with smart constructors [matches], proved equivalent: [matches_correct].
   Character classes are lists of inclusive ranges with a negation flag (linear scan over N).
   Also: the bounded-repeat / sequence / branch builders used by the regex translator
   (translators/regex2coq.py) with their characterising lemmas, and Python's [pattern.match] rule for
   a pattern of the form  ^ body $   or   ^ body \Z   ([py_match]). *)
From Coq Require Import List NArith Bool Lia.
Import ListNotations.
Open Scope N_scope.

(* ---------- character classes ---------- *)
Definition crange := (N * N)%type.
Definition in_range (c : N) (r : crange) : bool := (fst r <=? c) && (c <=? snd r).
Definition in_ranges (rs : list crange) (c : N) : bool := existsb (in_range c) rs.
Definition cls_mem (neg : bool) (rs : list crange) (c : N) : bool := xorb neg (in_ranges rs c).

Lemma in_ranges_app : forall a b c, in_ranges (a ++ b) c = in_ranges a c || in_ranges b c.
Proof. intros. unfold in_ranges. apply existsb_app. Qed.

(* ---------- syntax and denotation ---------- *)
Inductive regex : Type :=
| Emp
| Eps
| Chr (neg : bool) (rs : list crange)
| Cat (a b : regex)
| Alt (a b : regex)
| Star (a : regex).

Fixpoint lang (r : regex) (s : list N) : Prop :=
  match r with
  | Emp => False
  | Eps => s = []
  | Chr n rs => exists c, s = [c] /\ cls_mem n rs c = true
  | Cat a b => exists s1 s2, s = s1 ++ s2 /\ lang a s1 /\ lang b s2
  | Alt a b => lang a s \/ lang b s
  | Star a => exists ss, s = concat ss /\ Forall (lang a) ss
  end.

(* ---------- matcher ---------- *)
Fixpoint nullable (r : regex) : bool :=
  match r with
  | Emp => false
  | Eps => true
  | Chr _ _ => false
  | Cat a b => nullable a && nullable b
  | Alt a b => nullable a || nullable b
  | Star _ => true
  end.

Fixpoint ranges_eqb (a b : list crange) : bool :=
  match a, b with
  | [], [] => true
  | x :: a', y :: b' => (fst x =? fst y) && (snd x =? snd y) && ranges_eqb a' b'
  | _, _ => false
  end.

Fixpoint regex_eqb (a b : regex) : bool :=
  match a, b with
  | Emp, Emp => true
  | Eps, Eps => true
  | Chr n1 r1, Chr n2 r2 => Bool.eqb n1 n2 && ranges_eqb r1 r2
  | Cat a1 a2, Cat b1 b2 => regex_eqb a1 b1 && regex_eqb a2 b2
  | Alt a1 a2, Alt b1 b2 => regex_eqb a1 b1 && regex_eqb a2 b2
  | Star a1, Star b1 => regex_eqb a1 b1
  | _, _ => false
  end.

(* smart constructors: Emp/Eps absorption; Alt is kept right-nested, without Emp and without duplicates *)
Definition mkCat (a b : regex) : regex :=
  match a with
  | Emp => Emp
  | Eps => b
  | _ => match b with Emp => Emp | Eps => a | _ => Cat a b end
  end.

Fixpoint alt_mem (x r : regex) : bool :=
  match r with
  | Alt a b => regex_eqb x a || alt_mem x b
  | _ => regex_eqb x r
  end.

Definition alt_ins (x r : regex) : regex :=
  match x with
  | Emp => r
  | _ => match r with
         | Emp => x
         | _ => if alt_mem x r then r else Alt x r
         end
  end.

Fixpoint mkAlt (a b : regex) : regex :=
  match a with
  | Alt a1 a2 => alt_ins a1 (mkAlt a2 b)
  | _ => alt_ins a b
  end.

Fixpoint deriv (c : N) (r : regex) : regex :=
  match r with
  | Emp => Emp
  | Eps => Emp
  | Chr n rs => if cls_mem n rs c then Eps else Emp
  | Cat a b => if nullable a then mkAlt (mkCat (deriv c a) b) (deriv c b) else mkCat (deriv c a) b
  | Alt a b => mkAlt (deriv c a) (deriv c b)
  | Star a => mkCat (deriv c a) (Star a)
  end.

Definition derivs (r : regex) (s : list N) : regex := fold_left (fun r c => deriv c r) s r.
Definition matches (r : regex) (s : list N) : bool := nullable (derivs r s).

(* ---------- correctness ---------- *)
Lemma ranges_eqb_eq : forall a b, ranges_eqb a b = true -> a = b.
Proof.
  induction a as [|[x1 y1] a IH]; destruct b as [|[x2 y2] b]; simpl; intros H; try discriminate; auto.
  apply andb_true_iff in H. destruct H as [H H3]. apply andb_true_iff in H. destruct H as [H1 H2].
  apply N.eqb_eq in H1. apply N.eqb_eq in H2. subst. f_equal. auto.
Qed.

Lemma regex_eqb_eq : forall a b, regex_eqb a b = true -> a = b.
Proof.
  induction a; destruct b; simpl; intros H; try discriminate; auto.
  - apply andb_true_iff in H. destruct H as [H1 H2]. apply Bool.eqb_prop in H1. apply ranges_eqb_eq in H2. subst. auto.
  - apply andb_true_iff in H. destruct H as [H1 H2]. f_equal; auto.
  - apply andb_true_iff in H. destruct H as [H1 H2]. f_equal; auto.
  - f_equal; auto.
Qed.

Lemma nullable_correct : forall r, nullable r = true <-> lang r [].
Proof.
  induction r; simpl.
  - split; [discriminate | tauto].
  - split; auto.
  - split; [discriminate |]. intros [c [H _]]. discriminate.
  - rewrite andb_true_iff, IHr1, IHr2. split.
    + intros [H1 H2]. exists [], []. auto.
    + intros [s1 [s2 [H [H1 H2]]]]. symmetry in H. apply app_eq_nil in H. destruct H; subst. auto.
  - rewrite orb_true_iff, IHr1, IHr2. tauto.
  - split; auto. intros _. exists []. split; auto.
Qed.

Lemma lang_mkCat : forall a b s, lang (mkCat a b) s <-> lang (Cat a b) s.
Proof.
  intros a b s.
  assert (HE : forall x, lang (Cat x Emp) s <-> False).
  { intros x. simpl. split; [|tauto]. intros [s1 [s2 [_ [_ H]]]]. exact H. }
  assert (HP : forall x, lang (Cat x Eps) s <-> lang x s).
  { intros x. simpl. split.
    - intros [s1 [s2 [H [H1 H2]]]]. subst. rewrite app_nil_r. auto.
    - intros H. exists s, []. rewrite app_nil_r. auto. }
  destruct a.
  - simpl. split; [tauto|]. intros [s1 [s2 [_ [H _]]]]. exact H.
  - simpl. split.
    + intros H. exists [], s. auto.
    + intros [s1 [s2 [H [H1 H2]]]]. subst. auto.
  - destruct b; try reflexivity; [rewrite HE | rewrite HP]; simpl; tauto.
  - destruct b; try reflexivity; [rewrite HE | rewrite HP]; simpl; tauto.
  - destruct b; try reflexivity; [rewrite HE | rewrite HP]; simpl; tauto.
  - destruct b; try reflexivity; [rewrite HE | rewrite HP]; simpl; tauto.
Qed.

Lemma alt_mem_lang : forall x r s, alt_mem x r = true -> lang x s -> lang r s.
Proof.
  intros x r. induction r; simpl; intros s H Hx;
    try (apply regex_eqb_eq in H; subst; exact Hx).
  apply orb_true_iff in H. destruct H as [H | H].
  - apply regex_eqb_eq in H. subst. left. exact Hx.
  - right. apply IHr2; auto.
Qed.

Lemma lang_alt_ins : forall x r s, lang (alt_ins x r) s <-> lang x s \/ lang r s.
Proof.
  intros x r s.
  assert (G : forall x', lang (match r with Emp => x' | _ => if alt_mem x' r then r else Alt x' r end) s
                         <-> lang x' s \/ lang r s).
  { intros x'. destruct r; try (simpl; tauto);
      (destruct (alt_mem x' _) eqn:E;
       [ split; [intros H; right; exact H | intros [H | H]; [eapply alt_mem_lang; eauto | exact H]]
       | simpl; tauto ]). }
  destruct x; try apply G. simpl. tauto.
Qed.

Lemma lang_mkAlt : forall a b s, lang (mkAlt a b) s <-> lang a s \/ lang b s.
Proof.
  induction a as [| | neg rs | c1 IHc1 c2 IHc2 | a1 IHa1 a2 IHa2 | a0 IHa0]; intros b s; try exact (lang_alt_ins _ b s).
  change (mkAlt (Alt a1 a2) b) with (alt_ins a1 (mkAlt a2 b)). rewrite lang_alt_ins, IHa2. simpl. tauto.
Qed.

Lemma star_cons_inv : forall a c s ss, Forall (lang a) ss -> c :: s = concat ss ->
  exists s1 s2, s = s1 ++ s2 /\ lang a (c :: s1) /\ lang (Star a) s2.
Proof.
  intros a c s ss HF. induction HF as [|x ss Hx HF IH]; simpl; intros E.
  - discriminate.
  - destruct x as [|c' x'].
    + simpl in E. auto.
    + simpl in E. injection E as E1 E2. subst. exists x', (concat ss). split; auto. split; auto.
      exists ss. auto.
Qed.

Lemma deriv_correct : forall r c s, lang (deriv c r) s <-> lang r (c :: s).
Proof.
  induction r; intros c s; simpl deriv.
  - simpl. tauto.
  - simpl. split; [tauto | discriminate].
  - destruct (cls_mem neg rs c) eqn:E; simpl.
    + split.
      * intros ->. exists c. auto.
      * intros [c' [H _]]. injection H as _ H. auto.
    + split; [tauto|]. intros [c' [H H']]. injection H as H1 H2. subst. congruence.
  - assert (A : lang (mkCat (deriv c r1) r2) s <-> exists s1 s2, s = s1 ++ s2 /\ lang r1 (c :: s1) /\ lang r2 s2).
    { rewrite lang_mkCat. simpl. split; intros [s1 [s2 [H [H1 H2]]]]; exists s1, s2; rewrite IHr1 in *; auto. }
    destruct (nullable r1) eqn:En.
    + rewrite lang_mkAlt, A, IHr2. simpl. split.
      * intros [[s1 [s2 [H [H1 H2]]]] | H].
        -- exists (c :: s1), s2. subst. auto.
        -- exists [], (c :: s). apply nullable_correct in En. auto.
      * intros [s1 [s2 [H [H1 H2]]]]. destruct s1 as [|c' s1].
        -- simpl in H. subst. right. auto.
        -- simpl in H. injection H as H3 H4. subst. left. exists s1, s2. auto.
    + rewrite A. simpl. split.
      * intros [s1 [s2 [H [H1 H2]]]]. exists (c :: s1), s2. subst. auto.
      * intros [s1 [s2 [H [H1 H2]]]]. destruct s1 as [|c' s1].
        -- apply nullable_correct in H1. congruence.
        -- simpl in H. injection H as H3 H4. subst. exists s1, s2. auto.
  - rewrite lang_mkAlt, IHr1, IHr2. simpl. tauto.
  - rewrite lang_mkCat. split.
    + intros [s1 [s2 [H [H1 [ss [H2 H3]]]]]]. apply IHr in H1. exists ((c :: s1) :: ss). subst. simpl. auto.
    + intros [ss [H HF]]. destruct (star_cons_inv _ _ _ _ HF H) as [s1 [s2 [E [H1 H2]]]].
      exists s1, s2. rewrite IHr. auto.
Qed.

Theorem matches_correct : forall r s, matches r s = true <-> lang r s.
Proof.
  intros r s. revert r. unfold matches, derivs. induction s as [|c s IH]; intros r; simpl.
  - apply nullable_correct.
  - rewrite IH. apply deriv_correct.
Qed.

Lemma matches_iff_eq : forall r s (b : bool), (lang r s <-> b = true) -> matches r s = b.
Proof.
  intros r s b H. destruct b.
  - apply matches_correct, H. auto.
  - destruct (matches r s) eqn:E; auto. apply matches_correct in E. apply H in E. discriminate.
Qed.

(* ---------- builders used by the translator ---------- *)
Fixpoint seq_re (l : list regex) : regex :=
  match l with [] => Eps | a :: r => Cat a (seq_re r) end.

Fixpoint alt_re (l : list regex) : regex :=
  match l with [] => Emp | a :: r => Alt a (alt_re r) end.

(* up to k further copies *)
Fixpoint rep_max (k : nat) (r : regex) : regex :=
  match k with O => Eps | S k' => Alt Eps (Cat r (rep_max k' r)) end.

Fixpoint rep_min (m : nat) (r tail : regex) : regex :=
  match m with O => tail | S m' => Cat r (rep_min m' r tail) end.

(* r{m,n} (mx = Some n, m <= n) and r{m,} (mx = None) *)
Definition rep (m : nat) (mx : option nat) (r : regex) : regex :=
  rep_min m r (match mx with None => Star r | Some n => rep_max (n - m) r end).

Definition lit (c : N) : regex := Chr false [(c, c)].

Lemma lang_lit : forall c s, lang (lit c) s <-> s = [c].
Proof.
  intros c s. unfold lit. simpl. unfold cls_mem, in_ranges, in_range. simpl. split.
  - intros [c' [H1 H2]]. subst. f_equal. revert H2.
    destruct (N.leb_spec c c'), (N.leb_spec c' c); simpl; intros; try discriminate; lia.
  - intros ->. exists c. split; auto. rewrite N.leb_refl. auto.
Qed.

Lemma lang_seq_cons : forall a l s, lang (seq_re (a :: l)) s <-> exists s1 s2, s = s1 ++ s2 /\ lang a s1 /\ lang (seq_re l) s2.
Proof. intros. simpl. tauto. Qed.

Lemma lang_seq_nil : forall s, lang (seq_re []) s <-> s = [].
Proof. intros. simpl. tauto. Qed.

Lemma lang_rep_max : forall r k s, lang (rep_max k r) s <->
  exists ss, s = concat ss /\ Forall (lang r) ss /\ (length ss <= k)%nat.
Proof.
  intros r k. induction k as [|k IH]; intros s; simpl.
  - split.
    + intros ->. exists []. simpl. auto.
    + intros [ss [H [_ HL]]]. destruct ss; [auto | simpl in HL; lia].
  - split.
    + intros [-> | [s1 [s2 [H [H1 H2]]]]].
      * exists []. simpl. split; auto. split; auto. lia.
      * apply IH in H2. destruct H2 as [ss [E [HF HL]]]. exists (s1 :: ss). subst. simpl.
        split; auto. split; auto. lia.
    + intros [ss [H [HF HL]]]. destruct ss as [|x ss].
      * left. auto.
      * right. inversion HF; subst. exists x, (concat ss). split; auto. split; auto.
        apply IH. exists ss. simpl in HL. split; auto. split; auto. lia.
Qed.

Lemma lang_rep_min : forall r tail m s, lang (rep_min m r tail) s <->
  exists ss s2, s = concat ss ++ s2 /\ Forall (lang r) ss /\ length ss = m /\ lang tail s2.
Proof.
  intros r tail m. induction m as [|m IH]; intros s; simpl.
  - split.
    + intros H. exists [], s. simpl. auto.
    + intros [ss [s2 [H [_ [HL H2]]]]]. destruct ss; [|discriminate]. simpl in H. subst. auto.
  - split.
    + intros [s1 [s2 [H [H1 H2]]]]. apply IH in H2. destruct H2 as [ss [s3 [E [HF [HL H3]]]]].
      exists (s1 :: ss), s3. subst. simpl. rewrite app_assoc. auto.
    + intros [ss [s2 [H [HF [HL H2]]]]]. destruct ss as [|x ss]; [discriminate|].
      inversion HF; subst. exists x, (concat ss ++ s2). simpl. rewrite app_assoc. split; auto. split; auto.
      apply IH. exists ss, s2. simpl in HL. auto.
Qed.

Lemma lang_rep : forall r m mx s,
  (match mx with Some n => (m <= n)%nat | None => True end) ->
  (lang (rep m mx r) s <->
   exists ss, s = concat ss /\ Forall (lang r) ss /\ (m <= length ss)%nat /\
              match mx with Some n => (length ss <= n)%nat | None => True end).
Proof.
  intros r m mx s Hmn. unfold rep. rewrite lang_rep_min. split.
  - intros [ss [s2 [H [HF [HL H2]]]]]. destruct mx as [n|].
    + apply lang_rep_max in H2. destruct H2 as [ss2 [E [HF2 HL2]]].
      exists (ss ++ ss2). subst. rewrite concat_app, app_length. split; auto. split.
      * apply Forall_app. auto.
      * lia.
    + simpl in H2. destruct H2 as [ss2 [E HF2]]. exists (ss ++ ss2). subst.
      rewrite concat_app, app_length. split; auto. split.
      * apply Forall_app. auto.
      * lia.
  - intros [ss [H [HF [HL HU]]]].
    exists (firstn m ss), (concat (skipn m ss)).
    rewrite <- concat_app, firstn_skipn. split; auto.
    assert (HF1 : Forall (lang r) (firstn m ss)).
    { rewrite <- (firstn_skipn m ss) in HF. apply Forall_app in HF. tauto. }
    assert (HF2 : Forall (lang r) (skipn m ss)).
    { rewrite <- (firstn_skipn m ss) in HF. apply Forall_app in HF. tauto. }
    split; auto. split.
    + apply firstn_length_le. auto.
    + destruct mx as [n|].
      * apply lang_rep_max. exists (skipn m ss). split; auto. split; auto. rewrite skipn_length. lia.
      * simpl. exists (skipn m ss). auto.
Qed.

(* repeats of a single character class *)
Lemma chr_pieces : forall n rs ss, Forall (lang (Chr n rs)) ss ->
  forallb (cls_mem n rs) (concat ss) = true /\ length (concat ss) = length ss.
Proof.
  intros n rs ss H. induction H as [|x ss Hx HF IH]; simpl; auto.
  destruct Hx as [c [-> Hc]]. simpl. rewrite Hc. destruct IH as [IH1 IH2]. rewrite IH1, IH2. auto.
Qed.

Lemma chr_unpieces : forall n rs s, forallb (cls_mem n rs) s = true ->
  Forall (lang (Chr n rs)) (map (fun c => [c]) s) /\ concat (map (fun c => [c]) s) = s
  /\ length (map (fun c => [c]) s) = length s.
Proof.
  intros n rs s. induction s as [|c s IH]; simpl; intros H.
  - auto.
  - apply andb_true_iff in H. destruct H as [Hc H]. destruct (IH H) as [A [B C]].
    split; [constructor; auto; exists c; auto|]. rewrite B, C. auto.
Qed.

Lemma lang_rep_chr : forall n rs m mx s,
  (match mx with Some k => (m <= k)%nat | None => True end) ->
  (lang (rep m mx (Chr n rs)) s <->
   forallb (cls_mem n rs) s = true /\ (m <= length s)%nat /\
   match mx with Some k => (length s <= k)%nat | None => True end).
Proof.
  intros n rs m mx s Hmn. rewrite lang_rep by exact Hmn. split.
  - intros [ss [H [HF [HL HU]]]]. apply chr_pieces in HF. destruct HF as [A B]. subst. rewrite B. auto.
  - intros [H [HL HU]]. apply chr_unpieces in H. destruct H as [A [B C]].
    exists (map (fun c => [c]) s). rewrite B, C. auto.
Qed.

(* ---------- Python's  re.compile("^" body "$" | "^" body "\Z").match(s)  ---------- *)
Inductive end_anchor := EndZ | EndDollar.

(* Some s' iff s = s' ++ "\n" *)
Fixpoint strip_final_nl (s : list N) : option (list N) :=
  match s with
  | [] => None
  | c :: t => match t with
              | [] => if c =? 10 then Some [] else None
              | _ => option_map (cons c) (strip_final_nl t)
              end
  end.

(* sre: AT_END (non-MULTILINE `$`) succeeds at the end of the string and also just before a newline that is
   the last character; AT_END_STRING (`\Z`) only at the end. [match] anchors at position 0 and needs no more
   than a prefix, so with a trailing anchor the body has to match the whole string or the string minus its
   final newline. The patterns contain no possessive/atomic/lookaround construct (the translator rejects
   them), hence backtracking finds a match iff one exists in the language sense. *)
Definition py_match (e : end_anchor) (r : regex) (s : list N) : bool :=
  matches r s ||
  match e with
  | EndZ => false
  | EndDollar => match strip_final_nl s with Some s' => matches r s' | None => false end
  end.

Lemma strip_final_nl_app : forall s', strip_final_nl (s' ++ [10]) = Some s'.
Proof.
  induction s' as [|x s'' IH]; simpl; auto.
  destruct (s'' ++ [10]) eqn:E; [destruct s''; discriminate|]. rewrite IH. auto.
Qed.

Lemma strip_final_nl_spec : forall s s', strip_final_nl s = Some s' <-> s = s' ++ [10].
Proof.
  intros s s'. split.
  - revert s'. induction s as [|c t IH]; intros s'; simpl; [discriminate|].
    destruct t as [|d t'].
    + destruct (N.eqb_spec c 10); [|discriminate]. intros H. injection H as <-. subst. auto.
    + destruct (strip_final_nl (d :: t')) as [u|] eqn:E; simpl; [|discriminate].
      intros H. injection H as <-. simpl. f_equal. apply IH. auto.
  - intros ->. apply strip_final_nl_app.
Qed.

Definition ends_nl (s : list N) : bool := match strip_final_nl s with Some _ => true | None => false end.
