(* C06 — WAMP sessions end cleanly on every path and leave nothing pending.
   Property statements only; model: Model/Session.v (life-cycle projection of
   autobahn.wamp.protocol.ApplicationSession), proofs: Proofs/SessionProofs.v.
   [cfg] ranges over the behaviours of the user's callbacks (return / raise, reaching the default implementation or
   not) and the two transport behaviours after close() (send raises / send still accepted); histories [ops] are arbitrary (any router, any schedule).
   Trace-level statements are proved for the Twisted continuation semantics, and for asyncio histories in which the
   loop runs to quiescence between any two events ([settle]); for arbitrary asyncio schedules they are FALSE of the
   faithful model and are refuted below with replayable witnesses. *)
From Coq Require Import NArith List Bool.
From AV Require Import Gen.WampTypeCodes Model.Session Proofs.SessionProofs Proofs.SessionAioProofs.
Import ListNotations.
Open Scope N_scope.

(* ---- order: connect <= join <= leave <= disconnect ---- *)
(* One session object lives through a SEQUENCE of transport connections (an [OOpen] on an object that lost its
   transport starts the next life; nothing but what onOpen / join() reset explicitly is fresh there).
   Twisted, every history of lives: the sequence of life-cycle callbacks (and GOODBYEs sent) is a word of the
   automaton [mstep]; in each life: connect first and only once; join only while no session is established; leave
   ends an established session or reports an abort while none is established; GOODBYE is sent only on an established
   session; disconnect at most once, and after it nothing but the connect of the next life.
   Hypothesis [lives_ok]: the router hands out session id 0 only to an object that is not connected again afterwards
   (histories with one connection satisfy it whatever the router does: [C06_order_single_life]). *)
Theorem C06_order : forall cfg ops, lives_ok ops = true ->
  mrun MFresh (levs (trace Tx cfg ops)) = Some (mon (final Tx cfg ops)).
Proof. exact tx_order. Qed.
Print Assumptions C06_order.

Theorem C06_order_single_life : forall ops, existsb is_open ops = false -> lives_ok ops = true.
Proof. exact lives_ok_single. Qed.
Print Assumptions C06_order_single_life.

(* FALSE without the hypothesis: session id 0 is never forgotten; in its next life the object does not join and takes
   the router's GOODBYE for a session it does not have there *)
Theorem C06_order_refuted_session_id_zero_next_life :
  exists cfg ops, mrun MFresh (levs (trace Tx cfg ops)) = None.
Proof. exact tx_order_refuted_session_id_zero_next_life. Qed.
Print Assumptions C06_order_refuted_session_id_zero_next_life.

(* one connect per life: a connect is the very first event or follows a disconnect immediately *)
Theorem C06_order_connect_starts_life : forall a b m m',
  mrun m (a ++ LvConnect :: b) = Some m' -> a = [] \/ exists a', a = a' ++ [LvDisconnect].
Proof. exact automaton_connect_starts_life. Qed.
Print Assumptions C06_order_connect_starts_life.

(* one disconnect per life, nothing after it but the next life *)
Theorem C06_order_disconnect_ends_life : forall m a b m',
  mrun m (a ++ LvDisconnect :: b) = Some m' -> b = [] \/ exists b', b = LvConnect :: b'.
Proof. exact automaton_disconnect_ends_life. Qed.
Print Assumptions C06_order_disconnect_ends_life.

Theorem C06_order_join_leave_alternate : forall m m' a b c,
  mrun m (a ++ LvJoin :: b ++ LvJoin :: c) = Some m' -> In LvLeave b \/ In LvDisconnect b.
Proof. exact automaton_join_needs_leave. Qed.
Print Assumptions C06_order_join_leave_alternate.

(* "each at most once per transport connection" is FALSE for a router that breaks the state machine once: after the
   session was closed the pre-session gate accepts a second WELCOME (the session id is None again) *)
Theorem C06_join_once_refuted_welcome_after_goodbye :
  exists cfg ops a b c, levs (trace Tx cfg ops) = a ++ LvJoin :: b ++ LvJoin :: c.
Proof.
  exists default_cfg, [OOpen; RWelcome 1; RGoodbye RsNormal; RWelcome 2], [LvConnect], [LvGoodbye; LvLeave], [].
  vm_compute. reflexivity.
Qed.
Print Assumptions C06_join_once_refuted_welcome_after_goodbye.

(* asyncio: the automaton is violated by a router that follows the state machine, because the continuation of
   WELCOME runs one loop iteration later: onJoin after onLeave and onDisconnect *)
Theorem C06_order_refuted_asyncio :
  exists cfg ops, mrun MFresh (levs (trace Aio cfg ops)) = None.
Proof. exists default_cfg, [OOpen; OTurn; RWelcome 1; OTurn; OLost false; OTurn]. vm_compute. reflexivity. Qed.
Print Assumptions C06_order_refuted_asyncio.

(* asyncio, lives: WELCOME and the loss of the transport in one loop iteration: the continuation of WELCOME runs on the
   dead object and sets the session id; nothing clears it, so in its next life the object never says HELLO *)
Theorem C06_session_id_after_disconnect_refuted_asyncio :
  exists cfg ops, transport (final Aio cfg ops) = false /\ sid (final Aio cfg ops) = Some 1234
    /\ ~ In (Sent MHello) (trace Aio cfg (ops ++ [OOpen; OTurn; OTurn])).
Proof.
  exists default_cfg, [OOpen; RWelcome 1234; OLost true; OTurn]. vm_compute. repeat split.
  intro H; repeat (destruct H as [H|H]; try discriminate H); contradiction.
Qed.
Print Assumptions C06_session_id_after_disconnect_refuted_asyncio.

(* asyncio, PARTIAL: if the event loop runs until nothing is scheduled after every event (two iterations always
   suffice: [settle] inserts them), the life-cycle events of ANY history are exactly those of Twisted on the same
   history (a missing signature from onChallenge counts as a raising onChallenge: asyncio routes the exception of the
   success callback to the errback, [aio_cfg]); nothing is left scheduled.  What is missing for arbitrary schedules
   is exactly what the refutations around this theorem exhibit. *)
Theorem C06_asyncio_settled_lifecycle : forall cfg ops,
  levs (trace Aio cfg (settle ops)) = levs (trace Tx (aio_cfg cfg) ops)
  /\ queue (final Aio cfg (settle ops)) = [].
Proof. exact aio_settled_lifecycle. Qed.
Print Assumptions C06_asyncio_settled_lifecycle.

(* one event plus two loop iterations, from a state with nothing scheduled: exactly the Twisted step *)
Theorem C06_asyncio_settled_step : forall cfg s o, queue s = [] ->
  let r := macro cfg s o in
  levs (snd r) = spec_levs (aio_cfg cfg) s o /\ lcore (fst r) = spec_lcore (aio_cfg cfg) s o
  /\ topen (fst r) = spec_topen (aio_cfg cfg) s o /\ queue (fst r) = [].
Proof. exact aio_macro_spec. Qed.
Print Assumptions C06_asyncio_settled_step.

Theorem C06_order_partial_asyncio_settled : forall cfg ops, lives_ok ops = true ->
  exists m, mrun MFresh (levs (trace Aio cfg (settle ops))) = Some m.
Proof. exact aio_settled_order. Qed.
Print Assumptions C06_order_partial_asyncio_settled.

Theorem C06_goodbye_once_partial_asyncio_settled : forall cfg ops,
  grun false (levs (trace Aio cfg (settle ops))) <> None.
Proof. exact aio_settled_goodbye_once. Qed.
Print Assumptions C06_goodbye_once_partial_asyncio_settled.

(* asyncio (DESIGN F-C06-1): WELCOME immediately followed by GOODBYE in one loop iteration: the GOODBYE is rejected as
   "session is not yet established", the session then joins and never leaves *)
Theorem C06_welcome_goodbye_refuted_asyncio :
  exists cfg ops,
    In (Raised XProtocolError) (trace Aio cfg ops) /\ In (Called (CbJoin 1)) (trace Aio cfg ops)
    /\ ~ In LvLeave (levs (trace Aio cfg ops)) /\ sid (final Aio cfg ops) = Some 1.
Proof.
  exists default_cfg, [OOpen; OTurn; RWelcome 1; RGoodbye RsNormal; OTurn; OTurn; OTurn].
  vm_compute. repeat split; auto 10. intro H; repeat (destruct H as [H|H]; try discriminate H); contradiction.
Qed.
Print Assumptions C06_welcome_goodbye_refuted_asyncio.

(* Twisted: WELCOME establishes the session at once *)
Theorem C06_welcome_establishes_tx : forall cfg s v,
  transport s = true -> sid s = None -> u_welcome cfg = WlNone ->
  sid (fst (step Tx cfg s (RWelcome v))) = Some v.
Proof.
  intros cfg s v Ht Hs Hw. destruct (tx_step_spec cfg s (RWelcome v)) as [_ B].
  assert (H : sid (fst (step Tx cfg s (RWelcome v))) = snd (fst (spec_lcore cfg s (RWelcome v)))) by (rewrite <- B; reflexivity).
  rewrite H. unfold spec_lcore. rewrite Ht, Hs, Hw. reflexivity.
Qed.
Print Assumptions C06_welcome_establishes_tx.

(* ---- leave fires exactly when ... ---- *)
Theorem C06_leave_iff : forall cfg s o,
  In LvLeave (levs (snd (step Tx cfg s o))) <-> leave_cond cfg s o.
Proof. exact tx_leave_iff. Qed.
Print Assumptions C06_leave_iff.

Theorem C06_session_end_fires_leave : forall cfg s o,
  sid s <> None -> sid (fst (step Tx cfg s o)) = None -> In LvLeave (levs (snd (step Tx cfg s o))).
Proof. exact tx_session_end_leaves. Qed.
Print Assumptions C06_session_end_fires_leave.

(* exact life-cycle effect of every step (Twisted): which callbacks / GOODBYE, which (opened, transport, session id,
   goodbye flag) afterwards *)
Theorem C06_step_lifecycle : forall cfg s o,
  levs (snd (step Tx cfg s o)) = spec_levs cfg s o /\ lcore (fst (step Tx cfg s o)) = spec_lcore cfg s o.
Proof. exact tx_step_spec. Qed.
Print Assumptions C06_step_lifecycle.

(* FALSE at full strength: a router may hand out session id 0 (message.Welcome.parse admits it); the code tests the
   id for truth, so that session joins, cannot be left, and its transport loss fires no onLeave *)
Theorem C06_leave_iff_refuted_session_id_zero :
  exists cfg ops, In LvJoin (levs (trace Tx cfg ops)) /\ transport (final Tx cfg ops) = false
                  /\ ~ In LvLeave (levs (trace Tx cfg ops)).
Proof.
  exists default_cfg, [OOpen; RWelcome 0; ALeave None; OLost false]. vm_compute. repeat split; auto.
  intro H; repeat (destruct H as [H|H]; try discriminate H); contradiction.
Qed.
Print Assumptions C06_leave_iff_refuted_session_id_zero.

(* ---- phase gate ---- *)
Theorem C06_phase_gate_pre : forall fl cfg s o,
  transport s = true -> sid s = None -> is_router_msg o = true -> is_handshake o = false ->
  step fl cfg s o = (s, [Raised XProtocolError]).
Proof. exact phase_gate_pre. Qed.
Print Assumptions C06_phase_gate_pre.

Theorem C06_phase_gate_post : forall fl cfg s o v,
  transport s = true -> sid s = Some v -> (is_handshake o = true \/ o = ROther) ->
  step fl cfg s o = (s, [Raised XProtocolError]).
Proof. exact phase_gate_post. Qed.
Print Assumptions C06_phase_gate_post.

(* ---- GOODBYE ---- *)
(* Twisted, every history: between two joins (and before the first) at most one GOODBYE is sent *)
Theorem C06_goodbye_once : forall cfg ops, grun false (levs (trace Tx cfg ops)) <> None.
Proof. exact tx_goodbye_once. Qed.
Print Assumptions C06_goodbye_once.

(* a peer's GOODBYE on an established session is answered exactly when the closing flag is not set; the session id
   is forgotten before onLeave runs; with the default onLeave every request that was pending has a result
   afterwards, only the leave error was handed out, and whatever is in the tables now was issued by callbacks during
   the sweep (fresh futures; nothing at all on asyncio, where callbacks run later) *)
Theorem C06_goodbye_reply_iff_not_initiated : forall fl cfg s v rs,
  transport s = true -> sid s = Some v -> (goodbye_sent s = true \/ topen s = true) ->
  let '(s', outs) := step fl cfg s (RGoodbye rs) in
  sid s' = None
  /\ (goodbye_sent s = false -> exists t, outs = Sent (MGoodbye RsNormal) :: Called (CbLeave rs None) :: t)
  /\ (goodbye_sent s = true -> exists t, outs = Called (CbLeave rs None) :: t)
  /\ (u_leave_super cfg = true ->
        (forall r, In r (pend s) -> is_done s' (r_fut r) = true)
        /\ (forall r', In r' (pend s') -> next_fut s <= r_fut r')
        /\ (fl = Aio -> pend s' = [])
        /\ forall x y, In (x, y) (done s') -> In (x, y) (done s) \/ y = RErr (ELeave rs)).
Proof. exact goodbye_ends. Qed.
Print Assumptions C06_goodbye_reply_iff_not_initiated.

(* ... and the closing flag is set by a leave() that handed GOODBYE to the transport, by nothing else; it is cleared
   by join() -- i.e. at the start of every life whose onConnect joins -- and by nothing else *)
Theorem C06_goodbye_flag_is_initiated : forall cfg s o,
  goodbye_sent (fst (step Tx cfg s o)) =
  match o with
  | OOpen => if transport s then goodbye_sent s
             else match u_connect cfg with CnJoin => if sid_truthy s then goodbye_sent s else false | CnRaise => goodbye_sent s end
  | ALeave _ => goodbye_sent s || (sid_truthy s && transport s && send_ok cfg s)
  | _ => goodbye_sent s
  end.
Proof. exact tx_goodbye_flag. Qed.
Print Assumptions C06_goodbye_flag_is_initiated.

(* every life can be left: whatever happened in earlier lives (in particular: a GOODBYE was sent there), an object
   without transport and session id that is connected again (onConnect joins), is welcomed and calls leave() sends
   GOODBYE *)
Theorem C06_leave_in_every_life : forall cfg s v r, transport s = false -> sid s = None ->
  u_connect cfg = CnJoin -> u_welcome cfg = WlNone -> v <> 0 ->
  levs (concat (snd (run Tx cfg s [OOpen; RWelcome v; ALeave r]))) = [LvConnect; LvJoin; LvGoodbye].
Proof. exact tx_leave_in_every_life. Qed.
Print Assumptions C06_leave_in_every_life.

(* ---- nothing pending ---- *)
(* Re-entrancy covered: user callbacks / errbacks attached to request futures ([AReact]) that issue call / publish /
   subscribe / register / unregister when they fire -- on Twisted synchronously inside the sweep (or inside the
   reply / cancel that completes the future), on asyncio one loop iteration later.  Not covered (assumptions):
   callbacks that call unsubscribe(), leave(), disconnect() or cancel, callbacks attached to already completed
   futures, and life-cycle callbacks (onJoin, onLeave, ...) that re-enter the API. *)

(* _errback_outstanding_requests(exc) *)
Theorem C06_sweep : forall fl cfg s e,
  let s' := fst (errback_all fl cfg s e) in
  (forall r, In r (pend s) -> is_done s' (r_fut r) = true)
  /\ (forall r', In r' (pend s') -> next_fut s <= r_fut r')
  /\ (transport s = false \/ fl = Aio -> pend s' = [])
  /\ (forall x y, In (x, y) (done s') -> In (x, y) (done s) \/ y = RErr e)
  /\ (forall x y, In (x, y) (done s) -> In (x, y) (done s'))
  /\ lcore s' = lcore s /\ next_fut s <= next_fut s'.
Proof. exact errback_all_spec. Qed.
Print Assumptions C06_sweep.

(* the default onLeave: every request pending before has a result; the tables hold at most requests issued by
   re-entering callbacks during the sweep -- none without a transport, none on asyncio; only the leave error is
   handed out *)
Theorem C06_nothing_pending_after_leave : forall fl cfg s rs,
  u_leave_super cfg = true ->
  let s' := fst (fst (do_onLeave fl cfg s rs)) in
  (forall r, In r (pend s) -> is_done s' (r_fut r) = true)
  /\ (forall r', In r' (pend s') -> next_fut s <= r_fut r')
  /\ (transport s = false \/ fl = Aio -> pend s' = [])
  /\ (forall x y, In (x, y) (done s') -> In (x, y) (done s) \/ y = RErr (ELeave rs))
  /\ lcore s' = lcore s.
Proof. exact onLeave_clears. Qed.
Print Assumptions C06_nothing_pending_after_leave.

(* transport loss (onClose): the tables are EMPTY afterwards whatever the callbacks do (without a transport every
   request they try to issue is refused), every request pending before has a result.  Twisted: for EVERY
   configuration of the user's callbacks -- onClose sweeps once more after onDisconnect, whether or not onLeave /
   onDisconnect call the base class (a0cad4f0); asyncio: at once with the default onDisconnect, otherwise one loop
   iteration later (next theorem) *)
Theorem C06_nothing_pending_after_transport_loss : forall fl cfg s clean,
  transport s = true -> (fl = Tx \/ u_disc_super cfg = true) ->
  let s' := fst (step fl cfg s (OLost clean)) in
  transport s' = false /\ pend s' = []
  /\ (forall r, In r (pend s) -> is_done s' (r_fut r) = true)
  /\ forall x y, In (x, y) (done s') -> In (x, y) (done s) \/ y = RErr (ELeave RsTransportLost) \/ y = RErr ETransportLost.
Proof. exact lost_clears. Qed.
Print Assumptions C06_nothing_pending_after_transport_loss.

(* asyncio, every configuration: the final sweep is the continuation of onDisconnect and runs in the next loop
   iteration: from a settled loop, the loss followed by one iteration leaves the tables empty *)
Theorem C06_nothing_pending_after_transport_loss_asyncio : forall cfg s clean, queue s = [] -> transport s = true ->
  let s1 := fst (step Aio cfg s (OLost clean)) in
  let s2 := fst (step Aio cfg s1 OTurn) in
  transport s2 = false /\ pend s2 = [].
Proof. exact aio_lost_clears. Qed.
Print Assumptions C06_nothing_pending_after_transport_loss_asyncio.

(* Twisted, every history, every configuration: an object without a transport has empty request tables.  In
   particular every life of a session object starts with empty tables *)
Theorem C06_no_transport_nothing_pending : forall cfg ops,
  transport (final Tx cfg ops) = false -> pend (final Tx cfg ops) = [].
Proof. exact tx_no_transport_no_pending. Qed.
Print Assumptions C06_no_transport_nothing_pending.

(* asyncio: that iteration is a window.  An object that is given its next transport in the SAME loop iteration in
   which it lost the previous one and issues a request before the loop runs again has that request failed with
   TransportLost by the deferred sweep of the previous life *)
Theorem C06_asyncio_deferred_sweep_hits_next_life :
  exists cfg ops, transport (final Aio cfg ops) = true /\ In (Completed 0 (RErr ETransportLost)) (trace Aio cfg ops).
Proof.
  exists default_cfg, [OOpen; OTurn; OLost false; OOpen; ACall 1 [] [] None; OTurn; OTurn]. vm_compute. split; auto 12.
Qed.
Print Assumptions C06_asyncio_deferred_sweep_hits_next_life.

(* every future ever created for a request -- by the user directly or by a re-entering callback -- is, in every
   reachable state, pending in a table, completed, or on the ghost list of futures whose record was dropped (the two
   ways: duplicate REGISTERED id, id wrap-around); together with the previous theorem: once the transport is gone,
   completed or on that list *)
Theorem C06_every_future_accounted : forall fl cfg ops f x,
  In (f, x) (issued (final fl cfg ops)) ->
  (exists r, In r (pend (final fl cfg ops)) /\ r_fut r = f) \/ is_done (final fl cfg ops) f = true
  \/ In f (lost (final fl cfg ops)).
Proof. exact issued_accounted. Qed.
Print Assumptions C06_every_future_accounted.

(* FALSE at full strength ("every future created so far has completed"): the duplicate-REGISTERED future *)
Theorem C06_nothing_pending_refuted_lost_future :
  exists fl cfg ops f x, In (f, x) (issued (final fl cfg ops)) /\ transport (final fl cfg ops) = false
                         /\ pend (final fl cfg ops) = [] /\ is_done (final fl cfg ops) f = false.
Proof.
  exists Tx, default_cfg,
    [OOpen; RWelcome 1; ARegister 1 None; ARegister 2 None; RRegistered 1 55; RRegistered 2 55; OLost false], 1, (KRegister, 2).
  vm_compute. repeat split; auto.
Qed.
Print Assumptions C06_nothing_pending_refuted_lost_future.

(* regression example (before a0cad4f0: join() restarts the request ids but the tables kept the records of the previous
   life when the user's onDisconnect did not call the default; call #1 of the second session overwrote the record of
   call #1 of the first, whose future never completed): now both futures have results *)
Theorem C06_stale_record_example :
  let cfg := {| u_connect := CnJoin; u_welcome := WlNone; u_challenge := ChRaise; u_join_raises := false;
                u_leave_super := true; u_leave_raises := false; u_disc_super := false; u_disc_raises := false;
                t_lenient := false |} in
  let ops := [OOpen; ACall 1 [] [] None; OLost true; OOpen; RWelcome 2; ACall 3 [] [] None; OLost false] in
  pend (final Tx cfg ops) = [] /\ is_done (final Tx cfg ops) 0 = true /\ is_done (final Tx cfg ops) 1 = true.
Proof. vm_compute. repeat split. Qed.
Print Assumptions C06_stale_record_example.

(* ---- API calls after the end ---- *)
Theorem C06_api_after_end : forall fl cfg s o,
  transport s = false -> is_request_api o = true -> step fl cfg s o = (s, [ApiRaised XTransportLost]).
Proof. exact api_after_lost. Qed.
Print Assumptions C06_api_after_end.

(* unsubscribe() / unregister() on the objects of the lost connection: whatever the tables hold (several handlers on
   the subscription, other registrations, pending requests), the call raises and changes nothing *)
Theorem C06_api_after_end_objects : forall fl cfg s h,
  transport s = false ->
  (exists e, step fl cfg s (AUnsubscribe h) = (s, [ApiRaised e])) /\
  (exists e, step fl cfg s (AUnregister h) = (s, [ApiRaised e])).
Proof. exact api_after_lost_objects. Qed.
Print Assumptions C06_api_after_end_objects.

Theorem C06_api_after_close : forall fl cfg s uri a kw o,
  transport s = true -> topen s = false -> t_lenient cfg = false -> failnext s = None ->
  exists s' m, step fl cfg s (ACall uri a kw o) = (s', [SendFailed m; ApiRaised XTransportLost])
               /\ (forall r, In r (pend s') -> In r (pend s)) /\ done s' = done s.
Proof. exact api_after_close. Qed.
Print Assumptions C06_api_after_close.

(* FALSE at full strength: between the end of the session and the loss of the connection a transport that still
   accepts send() after close() (RawSocket: isOpen() stays true) lets call() return a pending future *)
Theorem C06_api_after_end_refuted_closing_transport :
  exists cfg ops f, sid (final Tx cfg ops) = None /\ In LvLeave (levs (trace Tx cfg ops))
                    /\ In (ApiReturned (Some f)) (trace Tx cfg ops) /\ is_done (final Tx cfg ops) f = false.
Proof.
  exists {| u_connect := CnJoin; u_welcome := WlNone; u_challenge := ChRaise; u_join_raises := false;
            u_leave_super := true; u_leave_raises := false; u_disc_super := true; u_disc_raises := false;
            t_lenient := true |}, [OOpen; RWelcome 1; RGoodbye RsNormal; ACall 1 [] [] None], 0.
  vm_compute. repeat split; auto 12.
Qed.
Print Assumptions C06_api_after_end_refuted_closing_transport.

(* ---- non-vacuity ---- *)
(* one pending request of each kind, then the transport is lost: six errors, empty tables, on both flavours *)
Definition one_of_each : list op :=
  [OOpen; OTurn; RWelcome 7; OTurn; OTurn; ASubscribe 1 None; ARegister 2 None; RSubscribed 1 77; RRegistered 2 55; OTurn;
   AUnsubscribe 0; AUnregister 1; ACall 3 [1] [] None;
   APublish 4 [] [] (Some {| po_ack := Some true; po_exclude_me := None |}); ASubscribe 5 None; ARegister 6 None].

Example C06_witness_one_of_each_tx :
  map (fun k => length (table k (pend (final Tx default_cfg one_of_each)))) all_kinds = [1; 1; 1; 1; 1; 1]%nat
  /\ let s' := final Tx default_cfg (one_of_each ++ [OLost false]) in
     pend s' = [] /\ transport s' = false /\ length (done s') = 8%nat
     /\ levs (trace Tx default_cfg (one_of_each ++ [OLost false])) = [LvConnect; LvJoin; LvLeave; LvDisconnect].
Proof. vm_compute. repeat split; reflexivity. Qed.

Example C06_witness_one_of_each_aio :
  let s' := final Aio default_cfg (one_of_each ++ [OLost false; OTurn; OTurn]) in
  pend s' = [] /\ queue s' = [] /\ length (done s') = 8%nat
  /\ levs (trace Aio default_cfg (one_of_each ++ [OLost false; OTurn; OTurn])) = [LvConnect; LvJoin; LvLeave; LvDisconnect].
Proof. vm_compute. repeat split; reflexivity. Qed.

(* the conversation that breaks asyncio when unsettled (WELCOME, GOODBYE) is fine when settled *)
Example C06_witness_asyncio_settled :
  levs (trace Aio default_cfg (settle [OOpen; RWelcome 1; RGoodbye RsNormal; OLost true]))
    = [LvConnect; LvJoin; LvGoodbye; LvLeave; LvDisconnect].
Proof. vm_compute. reflexivity. Qed.

(* the retry idiom on the leave path (Twisted): the errback of a pending call issues a call again while the GOODBYE
   sweep runs; the new request sits in the table after onLeave and is failed when the transport goes *)
Example C06_witness_reentrant_errback :
  let ops := [OOpen; RWelcome 7; ACall 1 [] [] None; AReact 0 (ACall 1 [] [] None); RGoodbye RsNormal] in
  map r_fut (pend (final Tx default_cfg ops)) = [1] /\ is_done (final Tx default_cfg ops) 0 = true
  /\ pend (final Tx default_cfg (ops ++ [OLost true])) = []
  /\ done (final Tx default_cfg (ops ++ [OLost true])) = [(0, RErr (ELeave RsNormal)); (1, RErr ETransportLost)].
Proof. vm_compute. repeat split; reflexivity. Qed.

(* the closing handshake in both directions (Twisted) *)
Example C06_witness_goodbye_both_ways :
  levs (trace Tx default_cfg [OOpen; RWelcome 7; ALeave None; RGoodbye RsNormal; OLost true])
    = [LvConnect; LvJoin; LvGoodbye; LvLeave; LvDisconnect]
  /\ levs (trace Tx default_cfg [OOpen; RWelcome 7; RGoodbye (RsUser 3); ALeave None; OLost true])
    = [LvConnect; LvJoin; LvGoodbye; LvLeave; LvDisconnect].
Proof. vm_compute. split; reflexivity. Qed.
