(* C13 — WAMP transports attach a session only after valid negotiation and fail closed.
   Property statements only; proofs live in Proofs/RawSocketProofs.v, models in Model/RawSocket.v and
   Model/WsSubproto.v, constants regenerated from the tree under test in Gen/RawSocketConsts.v. *)
From Coq Require Import NArith ZArith List Bool.
From AV Require Import Model.RawSocket Model.WsSubproto Gen.RawSocketConsts Proofs.RawSocketProofs.
Import ListNotations.
Open Scope N_scope.

(* ============ RawSocket: the 4-octet opening handshake ============ *)

(* general lemma: for every configuration and ALL octet values the decision of each implementation/role equals the
   arithmetic table hs_spec (magic 0x7F; serializer = low nibble; max send length = 2^(9 + high nibble); reply) *)
Theorem C13_rs_handshake_table : forall c o1 o2 o3 o4, hs_decide c o1 o2 o3 o4 = hs_spec c o1 o2 o3 o4.
Proof. exact hs_decide_spec. Qed.
Print Assumptions C13_rs_handshake_table.

(* the same as a 2^16-case sweep over octets 1-2 x representative reserved octets x 8 configurations *)
Theorem C13_rs_handshake_sweep : forall c o1 o2 o3 o4,
  In c rep_cfgs -> o1 < 256 -> o2 < 256 -> In (o3, o4) rep_reserved ->
  hs_decide c o1 o2 o3 o4 = hs_spec c o1 o2 o3 o4.
Proof. exact hs_sweep_lifted. Qed.
Print Assumptions C13_rs_handshake_sweep.

(* asyncio: attach <-> magic, supported serializer, reserved octets zero *)
Theorem C13_rs_handshake_aio_server : forall sup lexp o1 o2 o3 o4,
  attaches (aio_server_hs sup lexp o1 o2 o3 o4) <-> (o1 = 127 /\ In (o2 mod 16) sup /\ o3 = 0 /\ o4 = 0).
Proof. exact aio_server_attach_iff. Qed.
Print Assumptions C13_rs_handshake_aio_server.

Theorem C13_rs_handshake_aio_client : forall own o1 o2 o3 o4,
  attaches (aio_client_hs own o1 o2 o3 o4) <-> (o1 = 127 /\ o2 mod 16 = own /\ own <> 0 /\ o3 = 0 /\ o4 = 0).
Proof. exact aio_client_attach_iff. Qed.
Print Assumptions C13_rs_handshake_aio_client.

(* Twisted (after the repair of F-C13-2): the same full statement, reserved octets included *)
Theorem C13_rs_handshake_tx_server : forall sup rexp o1 o2 o3 o4,
  attaches (tx_server_hs sup rexp o1 o2 o3 o4) <-> (o1 = 127 /\ In (o2 mod 16) sup /\ o3 = 0 /\ o4 = 0).
Proof. exact tx_server_attach_iff. Qed.
Print Assumptions C13_rs_handshake_tx_server.

Theorem C13_rs_handshake_tx_client : forall own o1 o2 o3 o4,
  attaches (tx_client_hs own o1 o2 o3 o4) <-> (o1 = 127 /\ o2 mod 16 = own /\ o3 = 0 /\ o4 = 0).
Proof. exact tx_client_attach_iff. Qed.
Print Assumptions C13_rs_handshake_tx_client.

(* negotiated values: serializer, maximum send length 2^(9 + high nibble) in 512 .. 2^24; no attach without magic *)
Theorem C13_rs_negotiated : forall c o1 o2 o3 o4 ser ms reply,
  hs_decide c o1 o2 o3 o4 = HsAttach ser ms reply ->
  ser = o2 mod 16 /\ ms = 2 ^ (9 + o2 / 16) /\ o1 = 127 /\ (o2 < 256 -> 512 <= ms <= 16777216).
Proof. exact attach_values. Qed.
Print Assumptions C13_rs_negotiated.

(* every other handshake is refused without an exception escaping: true of three of the four decision functions *)
Theorem C13_rs_refused_without_escape_tx_server : forall sup rexp o1 o2 o3 o4,
  attaches (tx_server_hs sup rexp o1 o2 o3 o4) \/ tx_server_hs sup rexp o1 o2 o3 o4 = HsRefuse true [].
Proof. exact tx_server_no_escape. Qed.
Print Assumptions C13_rs_refused_without_escape_tx_server.

Theorem C13_rs_refused_without_escape_tx_client : forall own o1 o2 o3 o4,
  attaches (tx_client_hs own o1 o2 o3 o4) \/ tx_client_hs own o1 o2 o3 o4 = HsRefuse true [].
Proof. exact tx_client_no_escape. Qed.
Print Assumptions C13_rs_refused_without_escape_tx_client.

Theorem C13_rs_refused_without_escape_aio_client : forall own o1 o2 o3 o4,
  attaches (aio_client_hs own o1 o2 o3 o4) \/ aio_client_hs own o1 o2 o3 o4 = HsRefuse false [].
Proof. exact aio_client_no_escape. Qed.
Print Assumptions C13_rs_refused_without_escape_aio_client.

(* asyncio server (after the repair of F-C13-1): refusal by transport.close(), either silently (bad magic / reserved
   octets) or after the error reply 7F 10 00 00 (serializer unsupported) - never an escaping exception *)
Theorem C13_rs_refused_without_escape_aio_server : forall sup lexp o1 o2 o3 o4,
  attaches (aio_server_hs sup lexp o1 o2 o3 o4) \/
  (exists reply, aio_server_hs sup lexp o1 o2 o3 o4 = HsRefuse false reply /\
                 (reply = [] \/ (reply = [127; 16; 0; 0] /\ o1 = 127 /\ o3 = 0 /\ o4 = 0 /\ ~ In (o2 mod 16) sup))).
Proof. exact aio_server_no_escape. Qed.
Print Assumptions C13_rs_refused_without_escape_aio_server.

(* ============ RawSocket: length-prefixed framing ============ *)

(* segmentation independence of both receive-buffer machines: events AND final state *)
Theorem C13_rs_segmentation_tx : forall m s segs,
  tx_wf m s -> feed_all (tx_feed m) s segs = tx_feed m s (concat segs).
Proof. exact tx_feed_all. Qed.
Print Assumptions C13_rs_segmentation_tx.

Theorem C13_rs_segmentation_aio : forall m segs s,
  aio_wf m s -> feed_all (aio_feed m) s segs = aio_feed m s (concat segs).
Proof. exact aio_feed_all. Qed.
Print Assumptions C13_rs_segmentation_aio.

(* the hypothesis is an invariant of the machines: it holds initially and after every feed *)
Theorem C13_rs_wf_tx : forall m, tx_wf m (FOpen [] None) /\ forall s d, tx_wf m s -> tx_wf m (fst (tx_feed m s d)).
Proof. intros m. split; [exact (tx_wf_init m)|exact (tx_feed_wf m)]. Qed.
Print Assumptions C13_rs_wf_tx.

Theorem C13_rs_wf_aio : forall m, aio_wf m (FOpen [] None) /\ forall s d, aio_wf m s -> aio_wf m (fst (aio_feed m s d)).
Proof. intros m. split; [exact (aio_wf_init m)|exact (aio_feed_wf m)]. Qed.
Print Assumptions C13_rs_wf_aio.

(* the whole connection (handshake octets included): any segmentation gives the same session calls, transport calls,
   written octets, escapes and final state as one read *)
Theorem C13_rs_segmentation : forall c segs s,
  conn_wf c s -> conn_run c s (map IData segs) = conn_data c s (concat segs).
Proof. exact conn_run_segs. Qed.
Print Assumptions C13_rs_segmentation.

Theorem C13_rs_conn_wf : forall c sc,
  conn_wf c (conn_init sc) /\ forall s d, conn_wf c s -> conn_wf c (fst (conn_data c s d)).
Proof. intros c sc. split; [exact (conn_wf_init c sc)|exact (conn_data_wf c)]. Qed.
Print Assumptions C13_rs_conn_wf.

(* frames written by the send side are decoded identically and in order *)
Theorem C13_rs_roundtrip_tx : forall m ps tail,
  m < 4294967296 -> (forall p, In p ps -> blen p <= m) ->
  tx_feed m (FOpen [] None) (concat (map encode_frame ps) ++ tail) =
    let '(s, evs) := tx_feed m (FOpen [] None) tail in (s, map FFrame ps ++ evs).
Proof. exact tx_roundtrip. Qed.
Print Assumptions C13_rs_roundtrip_tx.

(* asyncio: only below 2^24 ... *)
Theorem C13_rs_roundtrip_aio_partial : forall m ps tail,
  (forall p, In p ps -> blen p <= m /\ blen p < 16777216) ->
  aio_feed m (FOpen [] None) (concat (map encode_frame ps) ++ tail) =
    let '(s, evs) := aio_feed m (FOpen [] None) tail in (s, map FFrame ps ++ evs).
Proof. exact aio_roundtrip. Qed.
Print Assumptions C13_rs_roundtrip_aio_partial.

(* ... a payload of exactly 2^24 octets is accepted by both send sides when the peer announced 2^24 (the default),
   goes out as 01 00 00 00 ..., and the asyncio receiver takes it for an empty PING: NotImplementedError escapes *)
Theorem C13_rs_roundtrip_aio_refuted :
  exists p, blen p = 16777216 /\
            aio_send true 16777216 (SerOk p) = Sent (encode_frame p) /\
            tx_send true 16777216 (SerOk p) = Sent (encode_frame p) /\
            (forall m tail, aio_feed m (FOpen [] None) (encode_frame p ++ tail) = (FDead, [FEscaped ENotImplemented])).
Proof. exact boundary_2p24_witness. Qed.
Print Assumptions C13_rs_roundtrip_aio_refuted.

(* send limit: a payload longer than the peer's announced maximum is never written, the sender gets an error *)
Theorem C13_send_limit_tx : forall ms p, 0 < ms -> ms < blen p -> tx_send true ms (SerOk p) = SendRaise EPayloadExceeded.
Proof. exact tx_send_limit. Qed.
Print Assumptions C13_send_limit_tx.
Theorem C13_send_limit_aio : forall ms p, ms < blen p -> aio_send true ms (SerOk p) = SendRaise EPayloadExceeded.
Proof. exact aio_send_limit. Qed.
Print Assumptions C13_send_limit_aio.
Theorem C13_send_within_limit : forall ms p, blen p <= ms -> ms <= 16777216 ->
  tx_send true ms (SerOk p) = Sent (encode_frame p) /\ aio_send true ms (SerOk p) = Sent (encode_frame p).
Proof. intros ms p H1 H2. split; [exact (tx_send_ok ms p H1 H2)|exact (aio_send_ok ms p H1 H2)]. Qed.
Print Assumptions C13_send_within_limit.
Theorem C13_send_detached : forall ms so,
  tx_send false ms so = SendRaise ETransportLost /\ aio_send false ms so = SendRaise ETransportLost.
Proof. intros ms so. split; reflexivity. Qed.
Print Assumptions C13_send_detached.

(* receive limit: decided on the four header octets, before any payload octet is buffered *)
Theorem C13_recv_limit_tx : forall m n tail, m < n -> n < 4294967296 ->
  tx_feed m (FOpen [] None) (enc32 n ++ tail) = (FDead, [FEscaped EPayloadExceeded]).
Proof. exact tx_recv_limit. Qed.
Print Assumptions C13_recv_limit_tx.
Theorem C13_recv_limit_aio : forall m n tail, m < n -> n < 16777216 ->
  aio_feed m (FOpen [] None) (enc32 n ++ tail) = (FDead, [FLose]).
Proof. exact aio_recv_limit. Qed.
Print Assumptions C13_recv_limit_aio.

(* announced = enforced.  The Twisted expressions are translated from the source text on every run
   (gen_tx_{server,client}_recv_limit = what is assigned to self.MAX_LENGTH, gen_tx_{server,client}_announce_nibble = the
   high nibble written into handshake octet 2, both as functions of the configured maxMessagePayloadSize m); asyncio: the
   values RawSocketProtocol.__init__ sets.  For EVERY configured size (not only powers of two) each role enforces exactly
   2^(9 + the nibble it announces), which is never below the configured size. *)
Theorem C13_rs_announced_is_enforced : forall m, 512 <= m <= 16777216 ->
  gen_tx_server_recv_limit m = 2 ^ (9 + gen_tx_server_announce_nibble m) /\
  gen_tx_client_recv_limit m = 2 ^ (9 + gen_tx_client_announce_nibble m) /\
  gen_tx_server_announce_nibble m <= 15 /\ gen_tx_client_announce_nibble m <= 15 /\
  m <= gen_tx_server_recv_limit m /\ m <= gen_tx_client_recv_limit m /\
  gen_aio_default_max_length = 2 ^ (9 + gen_aio_default_length_exp).
Proof. exact announced_is_enforced. Qed.
Print Assumptions C13_rs_announced_is_enforced.

(* the handshake octets of the connection model carry exactly those nibbles *)
Theorem C13_rs_model_announces_source_nibble : forall c,
  gen_tx_server_announce_nibble (c_max c) = tx_rexp c - 9 /\ gen_tx_client_announce_nibble (c_max c) = tx_rexp c - 9 /\
  aio_lexp = gen_aio_default_length_exp /\
  conn_made {| c_impl := Tx; c_role := Client; c_sers := c_sers c; c_max := c_max c; c_open_raises := c_open_raises c |} =
    [Write [127; octet2 (gen_tx_client_announce_nibble (c_max c)) (own_ser c); 0; 0]] /\
  conn_made {| c_impl := Aio; c_role := Client; c_sers := c_sers c; c_max := c_max c; c_open_raises := c_open_raises c |} =
    [Write [127; octet2 gen_aio_default_length_exp (own_ser c); 0; 0]].
Proof. exact model_announces_source_nibble. Qed.
Print Assumptions C13_rs_model_announces_source_nibble.

(* all four implementation x role combinations of the connection machine: the limit in force on incoming frames is
   2^(9 + announced nibble); a frame up to that size is delivered, one octet more is refused on its header *)
Theorem C13_rs_recv_limit_is_announced : forall c,
  512 <= c_max c <= 16777216 -> (c_impl c = Aio -> c_max c = gen_aio_default_max_length) ->
  recv_max c = 2 ^ (9 + announced_nibble c) /\ announced_nibble c <= 15.
Proof. exact recv_limit_is_announced. Qed.
Print Assumptions C13_rs_recv_limit_is_announced.

Theorem C13_rs_announced_boundary : forall c,
  (forall p, blen p <= recv_max c -> blen p < 16777216 -> recv_max c < 4294967296 ->
     frame_feed c (FOpen [] None) (encode_frame p) = (FOpen [] None, [FFrame p])) /\
  (forall n tail, 512 <= c_max c <= 16777216 -> (c_impl c = Aio -> c_max c = gen_aio_default_max_length) ->
     recv_max c < n -> n < 16777216 ->
     snd (frame_feed c (FOpen [] None) (enc32 n ++ tail)) =
       match c_impl c with Tx => [FEscaped EPayloadExceeded] | Aio => [FLose] end).
Proof. intros c. split; [exact (within_announced_accepted c)|exact (over_announced_rejected c)]. Qed.
Print Assumptions C13_rs_announced_boundary.

(* ============ WebSocket: subprotocol negotiation ============ *)

(* the server picks the FIRST entry of the client's list it can speak (for any client list, any int()) *)
Theorem C13_subproto_server_first : forall pyint keys protos,
  match server_select pyint keys protos with
  | Some (p, sid) =>
      exists pre post, protos = pre ++ p :: post /\ (forall q, In q pre -> ~ acceptable pyint keys q) /\
                       parse_subproto pyint p = Some (2%Z, sid) /\ In sid keys
  | None => forall q, In q protos -> ~ acceptable pyint keys q
  end.
Proof. exact server_select_first. Qed.
Print Assumptions C13_subproto_server_first.

(* autobahn client against autobahn server: chosen = first of the client's serializers the server has; the client
   accepts exactly that one, both sides index their factory with the same serializer id; nothing shared -> refusal *)
Theorem C13_subproto : forall pyint, pyint s_2 = Some 2%Z -> forall srv_ids cl_ids,
  match server_select pyint srv_ids (client_protocols cl_ids) with
  | Some (p, sid) =>
      client_accept pyint cl_ids (Some p) = CAccept sid /\ In sid srv_ids /\ In sid cl_ids /\
      p = mk_proto sid /\
      exists pre post, cl_ids = pre ++ sid :: post /\ forall x, In x pre -> ~ In x srv_ids
  | None => (forall x, In x cl_ids -> ~ In x srv_ids) /\ client_accept pyint cl_ids None = CRefuse
  end.
Proof. exact subproto_end_to_end. Qed.
Print Assumptions C13_subproto.

Theorem C13_subproto_client_sound : forall pyint, pyint s_2 = Some 2%Z -> forall cl_ids resp,
  client_accept pyint cl_ids resp <> CKeyError /\
  forall sid, client_accept pyint cl_ids resp = CAccept sid -> In sid cl_ids /\ resp = Some (mk_proto sid).
Proof.
  intros pyint H cl_ids resp. split; [exact (client_no_keyerror pyint H cl_ids resp)|].
  intros sid. exact (client_accept_sound pyint H cl_ids resp sid).
Qed.
Print Assumptions C13_subproto_client_sound.

(* matching text/binary framing: what one end sends with its serializer's flag the other end (same flag) accepts;
   a frame of the other type is a protocol error *)
Theorem C13_subproto_framing : forall bin p ms,
  ws_step bin true (WSend (SerOk p)) = (true, [WSendMessage p bin]) /\
  ws_on_message bin true bin (Batch ms) = ws_deliver true ms /\
  ws_on_message bin true (negb bin) (Batch ms) = [WBailout gen_close_protocol_error].
Proof.
  intros bin p ms. split; [reflexivity|]. split; [exact (ws_message_ok bin ms)|].
  apply ws_wrong_type. destruct bin; discriminate.
Qed.
Print Assumptions C13_subproto_framing.

(* ============ error mapping ============ *)

(* WebSocket leg: wrong frame type / undecodable payload / ProtocolError from the session -> 1002; any other
   exception -> 1011; messages before the failing one are delivered, none after it *)
Theorem C13_error_mapping_ws : forall bin,
  gen_close_protocol_error = 1002 /\ gen_close_internal_error = 1011 /\
  (forall att b fc, b <> bin -> ws_on_message bin att b fc = [WBailout 1002]) /\
  (forall att, ws_on_message bin att bin Undecodable = [WBailout 1002]) /\
  (forall ms, all_ok ms -> ws_on_message bin true bin (Batch ms) = map (fun m => WSessMsg (fst m)) ms) /\
  (forall pre id r post, all_ok pre -> r <> ROk ->
     ws_on_message bin true bin (Batch (pre ++ (id, r) :: post)) =
       map (fun m => WSessMsg (fst m)) pre ++ [WSessMsg id; WBailout (match r with RProto => 1002 | _ => 1011 end)]).
Proof.
  intros bin. split; [reflexivity|]. split; [reflexivity|]. split; [exact (ws_wrong_type bin)|].
  split; [exact (ws_undecodable bin)|]. split.
  - intros ms H. rewrite ws_message_ok. now apply ws_deliver_all_ok.
  - intros pre id r post H Hr. rewrite ws_message_ok. exact (ws_deliver_first_bad pre id r post H Hr).
Qed.
Print Assumptions C13_error_mapping_ws.

(* RawSocket leg: undecodable payload or any exception from the session -> abort (Twisted: a CancelledError only
   drops the rest of the batch); stringReceived itself never lets an exception escape *)
Theorem C13_error_mapping_rs : forall i,
  string_received i Undecodable = [Abort] /\
  (forall ms, all_ok ms -> string_received i (Batch ms) = map (fun m => SessMsg (fst m)) ms) /\
  (forall pre id r post, all_ok pre -> r <> ROk ->
     string_received i (Batch (pre ++ (id, r) :: post)) =
       map (fun m => SessMsg (fst m)) pre ++ SessMsg id :: match r, i with RCancel, Tx => [] | _, _ => [Abort] end) /\
  (forall fc, no_escape (string_received i fc)).
Proof.
  intros i. split; [reflexivity|]. split; [exact (deliver_all_ok i)|]. split; [exact (deliver_first_bad i)|].
  exact (string_received_no_escape i).
Qed.
Print Assumptions C13_error_mapping_rs.

(* a payload that DECODES but is not a WAMP message (not a list, empty list, first element not an integer - boolean, float,
   string, null, ... -, unknown or negative code, fields the class rejects) is a protocol violation on every transport:
   WebSocket 1002 and nothing delivered, RawSocket abort.  The envelope spec is written from the message format. *)
Theorem C13_protocol_violation_closes : forall r id re,
  envelope_ok r = false ->
  (forall bin att, ws_on_message bin att bin (classify r id re) = [WBailout 1002]) /\
  (forall i, string_received i (classify r id re) = [Abort]).
Proof. exact violation_closes. Qed.
Print Assumptions C13_protocol_violation_closes.

Theorem C13_envelope_accepts_only_integer_codes : forall r, envelope_ok r = true ->
  exists z, r = RMsg (TInt z) true /\ (0 <= z)%Z /\ In (Z.to_N z) gen_wamp_type_codes.
Proof. exact envelope_ok_inv. Qed.
Print Assumptions C13_envelope_accepts_only_integer_codes.

Theorem C13_envelope_rejects : 
  (forall b ok, envelope_ok (RMsg (TBool b) ok) = false) /\ (forall ok, envelope_ok (RMsg TFloat ok) = false) /\
  (forall ok, envelope_ok (RMsg TStr ok) = false) /\ (forall ok, envelope_ok (RMsg TNull ok) = false) /\
  (forall ok, envelope_ok (RMsg TBytes ok) = false) /\ (forall ok, envelope_ok (RMsg TList ok) = false) /\
  (forall ok, envelope_ok (RMsg TDict ok) = false) /\ envelope_ok RNotList = false /\ envelope_ok REmptyList = false /\
  (forall z ok, (z < 0)%Z -> envelope_ok (RMsg (TInt z) ok) = false) /\
  (forall z ok, ~ In (Z.to_N z) gen_wamp_type_codes -> envelope_ok (RMsg (TInt z) ok) = false).
Proof. exact non_integer_codes_rejected. Qed.
Print Assumptions C13_envelope_rejects.

(* the only exceptions that can leave dataReceived / data_received of a RawSocket connection: both at the framing level
   (Twisted: lengthLimitExceeded raises; asyncio: PING/PONG frame -> ping()/pong() not implemented); none from a handshake *)
Theorem C13_rs_escapes : forall c s d e,
  In (Escaped e) (snd (conn_data c s d)) ->
  (c_impl c = Tx /\ e = EPayloadExceeded) \/ (c_impl c = Aio /\ e = ENotImplemented).
Proof. exact conn_data_escapes. Qed.
Print Assumptions C13_rs_escapes.

(* ============ the session is told exactly once ============ *)

(* RawSocket: after ANY sequence of reads, losses, sends, close()/abort() calls: onOpen at most once and first,
   onMessage only between onOpen and onClose, onClose at most once *)
Theorem C13_told_once : forall c sc ins,
  let evs := snd (conn_run c (conn_init sc) ins) in
  obs_run ONone evs <> OBad /\ (count_close evs <= 1)%nat /\ (count_close evs = 1%nat <-> obs_run ONone evs = OTold).
Proof. exact told_once. Qed.
Print Assumptions C13_told_once.

(* ... and exactly once if the transport is ever reported lost after a session was attached, never otherwise *)
Theorem C13_told_after_loss : forall c sc ins clean,
  In (ILost clean) ins ->
  let evs := snd (conn_run c (conn_init sc) ins) in
  (In SessOpen evs -> count_close evs = 1%nat) /\ (~ In SessOpen evs -> count_close evs = 0%nat).
Proof. exact told_after_loss. Qed.
Print Assumptions C13_told_after_loss.

(* WebSocket: the engine calls onOpen once; whatever follows (messages, closes, API calls, repeated onClose) *)
Theorem C13_told_once_ws : forall bin raises post,
  forallb (fun i => negb (is_wopen i)) post = true ->
  let evs := snd (ws_run bin false (WOpen raises :: post)) in
  wobs_run ONone evs <> OBad /\ (count_wclose evs <= 1)%nat /\
  (existsb is_wclose_in post = true -> count_wclose evs = 1%nat).
Proof. exact ws_told_once. Qed.
Print Assumptions C13_told_once_ws.

(* asyncio WebSocket adapter (drain end read from the source): whatever mixture of reads and loop iterations - several
   segments per iteration (burst) or one - the engine is handed the segments in arrival order, i.e. the same octet stream *)
Theorem C13_ws_adapter_order : forall ins q,
  snd (adapter_run q (ins ++ [ATurn])) = q ++ received ins.
Proof. exact adapter_order. Qed.
Print Assumptions C13_ws_adapter_order.

Theorem C13_ws_adapter_stream : forall ins,
  concat (snd (adapter_run [] (ins ++ [ATurn]))) = concat (received ins).
Proof. exact adapter_stream. Qed.
Print Assumptions C13_ws_adapter_stream.

(* ============ non-vacuity ============ *)

(* a good handshake on each implementation/role, with the reply octets and the negotiated limit *)
Example C13_ex_handshakes :
  tx_server_hs [1; 2; 3] 24 127 (16 * 3 + 2) 0 0 = HsAttach 2 4096 [127; 242; 0; 0] /\
  aio_server_hs [1; 2; 3] 15 127 (16 * 15 + 1) 0 0 = HsAttach 1 16777216 [127; 241; 0; 0] /\
  tx_client_hs 3 127 3 0 0 = HsAttach 3 512 [] /\
  aio_client_hs 3 127 (16 * 7 + 3) 0 0 = HsAttach 3 65536 [] /\
  aio_client_hs 1 127 16 0 0 = HsRefuse false [] /\          (* server error reply 7F 10 00 00 *)
  tx_server_hs [1] 24 126 1 0 0 = HsRefuse true [] /\
  (* regression: the former F-C13-2 and F-C13-1 inputs are refused *)
  tx_server_hs [1] 24 127 1 170 187 = HsRefuse true [] /\ tx_client_hs 1 127 1 170 187 = HsRefuse true [] /\
  aio_server_hs [1] 15 127 243 0 0 = HsRefuse false [127; 16; 0; 0].
Proof. vm_compute. repeat split; reflexivity. Qed.

(* a stream of three frames fed in awkward pieces through both machines and through the whole connection *)
Example C13_ex_segmentation :
  let stream := encode_frame [1; 2; 3] ++ encode_frame [] ++ encode_frame [9; 9] in
  let segs := [[0]; [0; 0; 3; 1]; [2; 3; 0; 0]; [0; 0; 0; 0; 0; 2; 9]; [9]] in
  concat segs = stream /\
  feed_all (tx_feed 512) (FOpen [] None) segs = (FOpen [] None, [FFrame [1; 2; 3]; FFrame []; FFrame [9; 9]]) /\
  feed_all (aio_feed 512) (FOpen [] None) segs = (FOpen [] None, [FFrame [1; 2; 3]; FFrame []; FFrame [9; 9]]) /\
  fst (feed_all (aio_feed 512) (FOpen [] None) [[0]; [0; 0; 3; 1]]) = FOpen [0; 0; 0; 3; 1] (Some (0, 3)).
Proof. vm_compute. repeat split; reflexivity. Qed.

Example C13_ex_connection :
  let c := {| c_impl := Aio; c_role := Server; c_sers := [1; 2; 3]; c_max := 16777216; c_open_raises := false |} in
  let sc := [Batch [(10, ROk); (11, ROk)]; Undecodable; Batch [(12, ROk)]] in
  snd (conn_run c (conn_init sc)
         [IData [127; 241]; IData ([0; 0] ++ encode_frame [5]); IData (encode_frame [6] ++ encode_frame [7]); ILost false; ILost true]) =
    [Write [127; 241; 0; 0]; SessOpen; SessMsg 10; SessMsg 11; Abort; SessMsg 12; SessClose false].
Proof. vm_compute. reflexivity. Qed.

(* limits bite exactly at the boundary *)
Example C13_ex_limits :
  tx_send true 512 (SerOk (repeat 7 512)) = Sent (encode_frame (repeat 7 512)) /\
  tx_send true 512 (SerOk (repeat 7 513)) = SendRaise EPayloadExceeded /\
  aio_send true 512 (SerOk (repeat 7 513)) = SendRaise EPayloadExceeded /\
  tx_feed 512 (FOpen [] None) [0; 0; 2; 1] = (FDead, [FEscaped EPayloadExceeded]) /\
  tx_feed 512 (FOpen [] None) [0; 0; 2; 0] = (FOpen [0; 0; 2; 0] None, []) /\
  aio_feed 512 (FOpen [] None) [0; 0; 2; 1; 5; 5] = (FDead, [FLose]) /\
  aio_feed 16777216 (FOpen [] None) [1; 0; 0; 0] = (FDead, [FEscaped ENotImplemented]).
Proof. vm_compute. repeat split; reflexivity. Qed.

(* subprotocol choice follows the CLIENT's order, not the server's *)
Definition ex_pyint (s : str) : option Z := match s with [50] => Some 2%Z | [51] => Some 3%Z | _ => None end.
Definition s_json : str := [106; 115; 111; 110].
Definition s_msgpack : str := [109; 115; 103; 112; 97; 99; 107].
Definition s_cbor : str := [99; 98; 111; 114].
Example C13_ex_subproto :
  server_select ex_pyint [s_cbor; s_msgpack; s_json] (client_protocols [s_json; s_cbor]) = Some (mk_proto s_json, s_json) /\
  server_select ex_pyint [s_cbor] (client_protocols [s_json; s_msgpack]) = None /\
  client_accept ex_pyint [s_json; s_cbor] (Some (mk_proto s_json)) = CAccept s_json /\
  client_accept ex_pyint [s_json; s_cbor] (Some (mk_proto s_msgpack)) = CRefuse /\
  binary_of s_json = Some false /\ binary_of s_cbor = Some true /\ binary_of (s_msgpack ++ [46; 98; 97; 116; 99; 104; 101; 100]) = Some true.
Proof. vm_compute. repeat split; reflexivity. Qed.

Example C13_ex_ws_told_once :
  snd (ws_run true false [WOpen false; WMessage true (Batch [(1, ROk); (2, RProto); (3, ROk)]); WMessage false (Batch [(4, ROk)]);
                          WClose false; WClose true; WSend (SerOk [1])]) =
    [WSessOpen; WSessMsg 1; WSessMsg 2; WBailout 1002; WBailout 1002; WSessClose false; WRaised ETransportLost].
Proof. vm_compute. reflexivity. Qed.

(* a configured size that is not a power of two: 1000 -> nibble 1, limit 1024 on both Twisted roles *)
Example C13_ex_announced :
  gen_tx_client_announce_nibble 1000 = 1 /\ gen_tx_client_recv_limit 1000 = 1024 /\
  gen_tx_server_announce_nibble 513 = 1 /\ gen_tx_server_recv_limit 513 = 1024 /\
  gen_tx_server_recv_limit 512 = 512 /\ gen_tx_client_recv_limit 16777215 = 16777216 /\
  recv_max {| c_impl := Tx; c_role := Client; c_sers := [1]; c_max := 1000; c_open_raises := false |} = 1024.
Proof. vm_compute. repeat split; reflexivity. Qed.

Example C13_ex_adapter_burst :
  snd (adapter_run [] [ARecv [1; 2]; ARecv [3]; ARecv [4; 5]; ATurn; ARecv [6]; ATurn]) = [[1; 2]; [3]; [4; 5]; [6]].
Proof. vm_compute. reflexivity. Qed.

(* [true, "realm", {...}] is not a HELLO: 1002 on WebSocket, abort on RawSocket; [36, ...] with acceptable fields is delivered *)
Example C13_ex_bool_type_code :
  ws_on_message false true false (classify (RMsg (TBool true) true) 7 ROk) = [WBailout 1002] /\
  string_received Aio (classify (RMsg (TBool true) true) 7 ROk) = [Abort] /\
  ws_on_message false true false (classify (RMsg (TInt 36) true) 7 ROk) = [WSessMsg 7] /\
  envelope_ok (RMsg (TInt 1) true) = true /\ envelope_ok (RMsg (TInt 7) true) = false.
Proof. vm_compute. repeat split; reflexivity. Qed.
