(* C01 -- WebSocket messages arrive intact, exactly once and in order.
   SENDER side, wire format, and delivery through the RFC 6455 reference parser.
   Property statements only; proofs live in Proofs/WsSendProofs.v.

   What is PROVED here (for every payload, option combination, key stream, call sequence -- no bounds):
     * the length field and the frame encoding round-trip through a parser written from the RFC;
     * every LEGAL sequence of send calls (message API with any fragmentSize / autoFragmentSize, frame API, streaming
       API with arbitrary frame lengths and data chunkings, prepared messages, pings/pongs between frames, timer
       firings, sync flags) makes the model write octets that the reference parser rfc_parse accepts as a
       well-formed frame sequence whose reassembled messages are exactly the sent ones, in order, nothing else;
     * the write queue (sendData / _trigger / _send) hands the octets to the transport in FIFO order, complete;
     * which call orders the streaming API rejects -- and that some illegal orders are NOT rejected (refutation);
     * REFUTED at full strength (C01_delivery_full_refuted, candidate defect F-C01-3): a ping of the peer that arrives
       while the application is inside a frame of the streaming API makes the automatic pong land inside that frame.
   What is covered by RUNS only (harness/props/c01.py), not by a theorem of this phase:
     * that the model is the code: call-by-call comparison of every transport.write and result with the real
       protocol classes (Twisted and asyncio, both roles);
     * that the REAL receive loop (processData ... onMessage) delivers exactly these messages under every
       segmentation of the byte stream: real endpoint A -> re-segmented octets -> real endpoint B.  The model of the
       receive loop lives in Model/WsRecv.v (another owner); joining it with rfc_parse is a later phase.
   Two observations on the real code that are OUT OF SCOPE of the property (integrator decision: internal fuzzing
   API / API misuse, not "messages an application sends"), modelled faithfully and compared with the code in the runs:
     * F-C01-1  sendFrame(mask=<4 octets>) sets the MASK bit and masks the payload but does not write the key octets
                (C01_explicit_mask_omits_key, C01_explicit_mask_witness);
     * F-C01-2  illegal call orders are accepted: endMessage has its send_state check commented out, sendMessage /
                sendPing / sendPreparedMessage never look at send_state, so e.g. a second endMessage() writes a stray
                FIN continuation frame; and endMessage / sendMessageFrame / sendMessageFrameData before the first
                beginMessage raise AttributeError (send_compressed is not initialised)
                (C01_streaming, C01_streaming_rejects_all_illegal_refuted, C01_unchecked_orders). *)
From Coq Require Import NArith ZArith List Bool.
From AV Require Import Model.Masker Model.WsFrame Model.WsSend Proofs.MaskerProofs Proofs.WsSendProofs.
Import ListNotations.
Open Scope N_scope.

(* ---- wire format ---- *)

(* the 7/16/64-bit length selection decodes back, for every length the code accepts (<= 2^63 - 1), and the
   selected form is the minimal one *)
Theorem C01_len_roundtrip : forall n, n <= max_len ->
  exists l7 el, encode_len n = Some (l7, el) /\
    (forall rest, decode_len l7 (el ++ rest) = DLOk n rest) /\
    octets el /\ l7 < 128 /\
    (n <= 125 -> l7 = n /\ el = []) /\
    (126 <= n <= 65535 -> l7 = 126 /\ length el = 2%nat) /\
    (65536 <= n -> l7 = 127 /\ length el = 8%nat).
Proof. exact len_roundtrip. Qed.
Print Assumptions C01_len_roundtrip.

(* larger lengths are refused ("invalid payload length") *)
Theorem C01_len_too_big : forall n, max_len < n -> encode_len n = None.
Proof. exact encode_len_none. Qed.
Print Assumptions C01_len_too_big.

(* any well-formed frame (any FIN / RSV / opcode / key / payload up to 2^63-1 octets): the reference parser gives
   back exactly the frame and exactly the octets that followed it *)
Theorem C01_frame_roundtrip : forall f rest, frame_ok f -> parse_frame rc_syntax (encode_frame f ++ rest) = FOk f rest.
Proof. exact frame_roundtrip. Qed.
Print Assumptions C01_frame_roundtrip.

(* the same under a judging configuration: either the RFC objection to that header, or the frame *)
Theorem C01_frame_judged : forall rc f rest, frame_ok f ->
  parse_frame rc (encode_frame f ++ rest) =
    match frame_header_check rc f with Some e => FBad e | None => FOk f rest end.
Proof. exact parse_encode_frame. Qed.
Print Assumptions C01_frame_judged.

(* the whole-stream parser never runs out of fuel *)
Theorem C01_rfc_parse_total : forall rc bs, rfc_parse rc bs <> VOutOfFuel.
Proof. exact rfc_parse_total. Qed.
Print Assumptions C01_rfc_parse_total.

(* ---- sendMessage ---- *)

(* one sendMessage call with legal arguments (fragment size None, >= payload length, or >= 1; payload within
   maxMessagePayloadSize and 2^63-1), any role / mask options (applyMask on), any key stream:
   the octets on the wire (after the queue has drained) are the encoding of the frames [message_frames ...]:
   opcode 1/2 on the first frame, 0 on the continuations, FIN on exactly the last, RSV 0, frame j masked with key j
   of the stream when the role policy masks (client) and unmasked otherwise (server); the chunks concatenate to
   the payload; nothing raises *)
Theorem C01_sendmessage_wellformed : forall c ks p (b : bool) fs sync,
  apply_mask c = true -> keys_ok ks -> send_message_legal c p fs ->
  exists chunks, chunks <> [] /\ concat chunks = p /\
    let frames := message_frames (key_at c ks) 0 true (if b then 2 else 1) chunks in
    rets_of (snd (run c ks sst0 [OSendMessage p b fs sync])) = [RNone] /\
    wire c ks [OSendMessage p b fs sync] = encode_frames frames /\
    forall rc, policy_ok rc c -> rfc_parse rc (encode_frames frames) = WellFormed frames [EvMessage b p] None [].
Proof. exact sendmessage_frames. Qed.
Print Assumptions C01_sendmessage_wellformed.

(* ---- sequences of calls, all APIs ---- *)

(* [spec_run] is the application-level meaning of the send APIs (Model/WsSend.v: no frames, octets, keys or queues in
   it).  For every call sequence it accepts: no call raises, and -- whenever the sequence ends at a frame boundary --
   the reference parser reads the wire as a well-formed frame sequence whose events (messages with type and payload,
   pings, pongs) are exactly the specified ones in order, with exactly the specified message still open and no
   stray octets.  rc may be the strict RFC reading for the role whenever the mask options are the defaults. *)
Theorem C01_sendmessage_delivery : forall rc c ks ops sp' prep' evs,
  apply_mask c = true -> keys_ok ks -> policy_ok rc c ->
  spec_run c [] SpGround ops = Some (sp', prep', evs) ->
  Forall ret_ok (rets_of (snd (run c ks sst0 ops))) /\
  (spec_at_boundary sp' = true ->
   exists fs, rfc_parse rc (wire c ks ops) = WellFormed fs evs (spec_open sp') [] /\ frames_pass rc fs).
Proof. exact sequence_delivery. Qed.
Print Assumptions C01_sendmessage_delivery.

(* C01_sendmessage_delivery is the PROVABLE PART of the delivery statement.  At full strength the peer may send a ping
   at any moment, also while the application is inside a frame of the streaming API (spec_run_full accepts OPeerPing
   there and demands the pong); that statement is FALSE of the faithful model and of the real code (F-C01-3): the
   automatic pong (onPing -> sendPong -> sendFrame -> sendData) is written at once, into the payload of the
   application's unfinished frame.  Witness: server, beginMessage(binary); beginMessageFrame(4);
   sendMessageFrameData(01 02); <peer ping 'p'>; sendMessageFrameData(03 04); endMessage()  -- every application call
   legal, nothing raises, wire = 02 04 01 02 8a 01 70 03 04 80 00, which a reader judges malformed (RSV bits).
   What is missing in the provable part: peer pings (and other library-initiated frames) arriving mid-frame. *)
Theorem C01_delivery_full_refuted :
  exists c ks ops prep' evs,
    apply_mask c = true /\ keys_ok ks /\ policy_ok rc_strict_from_server c /\
    spec_run_full c [] SpGround ops = Some (SpGround, prep', evs) /\
    Forall ret_ok (rets_of (snd (run c ks sst0 ops))) /\
    exists e, rfc_parse rc_strict_from_server (wire c ks ops) = Malformed e.
Proof. exact delivery_full_refutation. Qed.
Print Assumptions C01_delivery_full_refuted.

(* a legal sequence that stops in the middle of a frame (streaming API, at least one octet of the frame still to be
   supplied): what has been written so far is a well-formed frame sequence followed by the beginning of one frame *)
Theorem C01_midframe : forall rc c ks ops b acc rem prep' evs,
  apply_mask c = true -> keys_ok ks -> policy_ok rc c ->
  spec_run c [] SpGround ops = Some (SpInFrame b acc rem, prep', evs) -> 0 < rem ->
  exists fs o tail, rfc_parse rc (wire c ks ops) = WellFormed fs evs o tail /\ tail <> [] /\
                    (o = None \/ exists acc0, o = Some (b, acc0)).
Proof. exact sequence_midframe. Qed.
Print Assumptions C01_midframe.

(* default options, strict RFC reading for each role *)
Theorem C01_delivery_default_client : forall ks ops prep' evs, keys_ok ks ->
  spec_run (default_cfg false) [] SpGround ops = Some (SpGround, prep', evs) ->
  exists fs evs', rfc_parse rc_strict_from_client (wire (default_cfg false) ks ops) = WellFormed fs evs' None [] /\
                  messages_of evs' = messages_of evs.
Proof. exact delivery_default_client. Qed.
Print Assumptions C01_delivery_default_client.

Theorem C01_delivery_default_server : forall ks ops prep' evs, keys_ok ks ->
  spec_run (default_cfg true) [] SpGround ops = Some (SpGround, prep', evs) ->
  exists fs evs', rfc_parse rc_strict_from_server (wire (default_cfg true) ks ops) = WellFormed fs evs' None [] /\
                  messages_of evs' = messages_of evs.
Proof. exact delivery_default_server. Qed.
Print Assumptions C01_delivery_default_server.

(* ---- streaming API ---- *)

(* on an OPEN connection the streaming calls raise exactly when [streaming_rejects] says so (leaving state and wire
   untouched) and otherwise return normally; the guards are those of the source, including the absent one *)
Theorem C01_streaming : forall c ks a o,
  apply_mask c = true -> keys_ok ks -> is_open a = true -> is_streaming_op o = true ->
  let '(a', calls, r) := api_step c ks a o in
  match streaming_rejects a o with
  | Some e => r = RRaise e /\ calls = [] /\ a' = a
  | None => ret_ok r
  end.
Proof. exact streaming_guards. Qed.
Print Assumptions C01_streaming.

Theorem C01_streaming_not_open : forall c ks a o, is_open a = false -> is_streaming_op o = true ->
  api_step c ks a o = (a, [], RNone).
Proof. exact streaming_not_open. Qed.
Print Assumptions C01_streaming_not_open.

(* "the send APIs only ever emit well-formed sequences" at full strength (every call order that does not raise) is
   FALSE of the faithful model: endMessage has its send_state check commented out, sendMessage / sendPing never look
   at send_state.  Three call orders that raise nothing and put a malformed sequence on the wire: *)
Theorem C01_streaming_rejects_all_illegal_refuted :
  exists c ks ops, Forall ret_ok (rets_of (snd (run c ks sst0 ops))) /\
                   exists e, rfc_parse rc_strict_from_server (wire c ks ops) = Malformed e.
Proof. exact streaming_unchecked_refutation. Qed.
Print Assumptions C01_streaming_rejects_all_illegal_refuted.

Example C01_unchecked_orders :
  ex_malformed (default_cfg true) ex_double_end EUnexpectedContinuation = true /\
  ex_malformed (default_cfg true) ex_message_inside EExpectedContinuation = true /\
  ex_malformed (default_cfg true) ex_ping_inside_frame EReservedOpcode = true.
Proof. vm_compute. repeat split. Qed.

(* ---- write queue ---- *)

(* any sequence of sendData calls (any chopsize / sync mix) and timer firings, on a connection that is not CLOSED:
   at every moment  written ++ still queued = all data arguments in call order;  after the reactor has drained the
   queue everything has been written, in order, once, and the queue is idle *)
Theorem C01_fifo : forall c ks a0 ops, p_state a0 <> PClosed -> forallb sd_or_tick ops = true ->
  exists q outs, run c ks (a0, qst0) ops = ((a0, q), outs) /\
    Forall (eq RNone) (rets_of outs) /\
    concat (writes_of outs) ++ concat (map fst (queue q)) = sd_datas ops /\
    concat (writes_of outs ++ snd (drain (p_state a0) q)) = sd_datas ops /\
    queue (fst (drain (p_state a0) q)) = [] /\ triggered (fst (drain (p_state a0) q)) = false.
Proof. exact fifo. Qed.
Print Assumptions C01_fifo.

(* once the state is CLOSED queued octets are dropped by design ("skipped delayed write") *)
Example C01_closed_drops_queue : ex_closed_drop = true.
Proof. vm_compute. reflexivity. Qed.

(* ---- several connections in one process ---- *)
(* In the models a connection's behaviour is a function of its own state and its own calls / octets only: two
   connections side by side (run2: calls addressed to either one in any interleaving) write exactly what each would
   write alone.  This is true BY CONSTRUCTION of the model (every piece of per-connection state of the code is a field
   of the connection's model state); that the REAL objects share no state -- e.g. that the incremental UTF-8 validator,
   the masker, the frame/message buffers are per instance and not per class/process -- is carried by the runs: the
   "xconn" stage of harness/props/c01.py feeds several real connections of both roles living in one process with
   interleaved segments of non-ASCII text (cuts inside code points) and each must deliver exactly what its own peer
   sent.  The receive-side analogue for the receive model is stated over Model/WsRecv.v in Props/C01Join.v's terms:
   delivery is a function of the connection's own stream. *)
Theorem C01_product_noninterference : forall c1 c2 ks1 ks2 ops s1 s2,
  let '((t1, t2), outs) := run2 c1 c2 ks1 ks2 s1 s2 ops in
  (t1, sel true outs) = run c1 ks1 s1 (sel true ops) /\ (t2, sel false outs) = run c2 ks2 s2 (sel false ops).
Proof. exact product_noninterference. Qed.
Print Assumptions C01_product_noninterference.

(* ---- role policy (also cited from Props/C15.v) ---- *)
Theorem C01_role_policy_client : forall c ks nk op pl fin rsv,
  is_server c = false -> mask_client_frames c = true -> apply_mask c = true -> keys_ok ks ->
  rsv < 8 -> op < 16 -> lenN pl <= max_len ->
  build_frame c ks nk op pl fin rsv [] None =
    FrOk (encode_header fin rsv op (Some (ks nk)) (lenN pl) ++ xor_spec (ks nk) 0 pl) (S nk).
Proof. exact role_policy_client. Qed.
Print Assumptions C01_role_policy_client.

Theorem C01_role_policy_server : forall c ks nk op pl fin rsv,
  is_server c = true -> mask_server_frames c = false -> apply_mask c = true -> keys_ok ks ->
  rsv < 8 -> op < 16 -> lenN pl <= max_len ->
  build_frame c ks nk op pl fin rsv [] None = FrOk (encode_header fin rsv op None (lenN pl) ++ pl) nk.
Proof. exact role_policy_server. Qed.
Print Assumptions C01_role_policy_server.

(* ---- F-C01-1: the fuzzing parameter mask= of sendFrame ---- *)
(* sets the MASK bit and masks the payload but does not write the key: not a frame a reader can decode.  Internal
   API ("deliberately allows to send invalid frames"), outside the application-level send APIs of the property;
   modelled faithfully, compared with the code in the runs, excluded from the delivery theorems (spec_step = None). *)
Theorem C01_explicit_mask_omits_key : forall c ks nk op pl fin rsv mask,
  apply_mask c = true -> length mask = 4%nat -> rsv < 8 -> op < 16 -> lenN pl <= max_len ->
  build_frame c ks nk op pl fin rsv mask None =
    FrOk (byte0 fin rsv op :: (128 + fst (len_field (lenN pl))) :: snd (len_field (lenN pl)) ++ xor_spec mask 0 pl) nk.
Proof. exact explicit_mask_omits_key. Qed.
Print Assumptions C01_explicit_mask_omits_key.

Example C01_explicit_mask_witness :
  ex_explicit_mask_wire = [130; 132; 96; 96; 96; 96] /\
  rfc_parse rc_any ex_explicit_mask_wire = WellFormed [] [] None [130; 132; 96; 96; 96; 96].
Proof. vm_compute. split; reflexivity. Qed.

(* applyMask = False (fuzzing option) breaks delivery: hypothesis apply_mask c = true above is needed *)
Example C01_apply_mask_needed : ex_noapply_check = true.
Proof. vm_compute. reflexivity. Qed.

(* ---- non-vacuity ---- *)
(* a 70000-octet binary message sent by a default client with fragmentSize 65536: two frames (65536 + 4464 octets,
   opcode 2 then 0, FIN on the second, keys 0 and 1 of the stream), reassembled to the payload *)
Example C01_witness_70000 : ex_70000_check = true.
Proof. vm_compute. reflexivity. Qed.

(* the hypotheses of C01_sendmessage_delivery are met by a mixed sequence (prepared message sent twice, streaming
   message with a ping between its frames, zero-length frame, over-long data chunk, sendMessage with a fragment size
   dividing the length, pong), both roles, strict RFC reading: 11 frames, the six specified events *)
Example C01_witness_mixed : ex_mixed_check true = true /\ ex_mixed_check false = true.
Proof. vm_compute. split; reflexivity. Qed.
