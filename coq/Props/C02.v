(* C02 -- incoming byte streams are judged exactly as RFC 6455 prescribes.
   Property statements only; proofs live in Proofs/WsRecv*.v.  Model: Model/WsRecv.v (every integer comparison of the
   receive path is the generated Gen/WsConsts.v).  [rfc_*] = the declarative reference written from RFC 6455. *)
From Coq Require Import NArith List Bool.
From AV Require Import Model.Masker Gen.WsConsts Model.WsRecv Proofs.WsRecvPair
                       Proofs.WsRecvHeader Proofs.WsRecvProofs Proofs.WsRecvLocal Proofs.WsRecvSplit Proofs.WsRecvSeq Proofs.WsRecvEcho Proofs.WsRecvSeqAll.
Import ListNotations.
Open Scope N_scope.

(* ---- header table -------------------------------------------------------------------------------------------
   For EVERY receiver configuration (role, masking options, compression negotiated or not), both fragmentation
   states and all 65536 values of the first two octets: the implementation's cascade (hdr_viols = the generated
   comparisons of processData, in source order) flags the header iff it breaks a rule of RFC 6455 5.2-5.5 /
   RFC 7692 6 (rfc_header_verdict), and every reason it gives is a broken rule.  The protocol state (OPEN / CLOSING)
   is not read by the cascade; what a flagged header causes in each state is C02_policy.
   Proof (inside Coq, no bound left): both sides read the octets only through FIN, RSV1-3, opcode, MASK and the two
   tests "7-bit length > 125" / "= 1"; the table is swept by vm_compute over all 16 contexts x 2048 field combinations
   and carried to the 65536 octet pairs by two 256-value sweeps of the field extraction. *)
Theorem C02_header_table : forall cf inside_message b0 b1, b0 < 256 -> b1 < 256 ->
  (hdr_viols cf inside_message b0 b1 = [] <-> rfc_header_verdict cf inside_message b0 b1 = []) /\
  (forall v, In v (hdr_viols cf inside_message b0 b1) -> In v (rfc_header_verdict cf inside_message b0 b1)).
Proof. exact header_table. Qed.
Print Assumptions C02_header_table.

(* ---- length rules: minimal encoding for the 16- and 64-bit forms, nothing above 2^63-1 -------------------------
   whenever the extended length octets are present, the implementation's verdict (ext_len) is the RFC's (rfc_length):
   LBad <-> a violation is raised; LOk n <-> no violation and the decoded length is n *)
Theorem C02_length_rules : forall len1 d, len1 < 128 ->
  lenN (drop 2 d) >= (if len1 <=? 125 then 0 else if len1 =? 126 then 2 else 8) ->
  match rfc_length len1 (drop 2 d) with
  | LNeed => False
  | LBad => snd (fst (ext_len len1 d)) <> []
  | LOk n _ => ext_len len1 d = (n, [], if len1 <=? 125 then 2 else if len1 =? 126 then 4 else 10)
  end.
Proof. exact length_rules_rfc. Qed.
Print Assumptions C02_length_rules.
Theorem C02_length_rules_64 : forall d, let n := be_val 0 (take 8 (drop 2 d)) in
  ext_len 127 d = (n, (if 2 ^ 63 <=? n then [HLen64Huge] else []) ++ (if n <? 65536 then [HLen64NonMin] else []), 10).
Proof. exact ext_len_64. Qed.
Print Assumptions C02_length_rules_64.
Theorem C02_length_rules_16 : forall d, let n := be_val 0 (take 2 (drop 2 d)) in
  ext_len 126 d = (n, if n <? 126 then [HLen16NonMin] else [], 4).
Proof. exact ext_len_16. Qed.
Print Assumptions C02_length_rules_16.

(* ---- close payload ------------------------------------------------------------------------------------------
   (payload length 1 is HCloseLen1 of the header table.)  For EVERY code value: the implementation's test built from
   the generated comparisons and the generated CLOSE_STATUS_CODES_ALLOWED rejects exactly the codes that RFC 6455 7.4
   / the IANA registry do not allow on the wire *)
Theorem C02_close_codes : forall k, close_code_invalid k = negb (rfc_close_code_ok k).
Proof. exact close_code_table. Qed.
Print Assumptions C02_close_codes.
(* ... and what a close payload causes: invalid code -> first failure is 1002; valid code, reason not complete
   well-formed UTF-8 (incl. ending inside a code point) -> first failure is 1007; otherwise accepted and remembered *)
Theorem C02_close_payload : forall cf c code reason, st c <> CLOSED ->
  let '(c1, evs) := on_close_frame cf c code reason in
  match code with
  | Some k =>
      if negb (rfc_close_code_ok k) then first_fail evs = Some code_protocol_error
      else match reason with
           | Some r => if utf8_complete r
                       then first_fail evs = None /\ In (ECloseOk code reason) evs /\ rcode c1 = code /\ rreason c1 = reason
                       else first_fail evs = Some code_invalid_payload
           | None => first_fail evs = None /\ In (ECloseOk code reason) evs /\ rcode c1 = code /\ rreason c1 = None
           end
  | None =>
      match reason with
      | None => first_fail evs = None /\ In (ECloseOk None None) evs /\ rcode c1 = None /\ rreason c1 = None
      | Some _ => True
      end
  end.
Proof. exact close_payload_verdict. Qed.
Print Assumptions C02_close_payload.
Theorem C02_close_payload_split : forall payload,
  let ll := lenN payload in
  (if pc_has_code ll then Some (be_val 0 (take 2 payload)) else None) =
    match payload with c1 :: c2 :: _ => Some (c1 * 256 + c2) | _ => None end /\
  (if pc_has_code ll && pc_has_reason ll then Some (drop 2 payload) else None) =
    match payload with _ :: _ :: (_ :: _) as r => Some r | _ => None end.
Proof. exact close_payload_split. Qed.
Print Assumptions C02_close_payload_split.

(* ---- text messages: incremental UTF-8 ------------------------------------------------------------------------
   the validator state after a ++ b is that of a then b (carried across reads, frames and interleaved control
   frames, which do not touch it); the verdict turns invalid at the first offending octet whatever follows *)
Theorem C02_text_utf8_chunks : forall s a b,
  u_loop s (a ++ b) = let '(v, s1) := u_loop s a in if v then u_loop s1 b else (false, 1).
Proof. exact u_loop_app. Qed.
Print Assumptions C02_text_utf8_chunks.
Theorem C02_text_utf8_failfast : forall s a x r,
  u_loop s a = (true, snd (u_loop s a)) -> u_step (snd (u_loop s a)) x = 1 -> u_loop s (a ++ x :: r) = (false, 1).
Proof. exact u_loop_first_offender. Qed.
Print Assumptions C02_text_utf8_failfast.

(* ---- pong echo: a ping completed while OPEN is answered by a pong with the identical payload ------------------- *)
Theorem C02_pong_echo : forall D cf (s : rstate D) f, f_op f = 9 -> st (cn D s) = OPEN -> lenN (cdata D s) <= 125 ->
  process_control_frame D cf s f = (r_cdata D s [], [EPing (cdata D s); ESendPong (cdata D s)], false).
Proof. exact ping_echo. Qed.
Print Assumptions C02_pong_echo.

(* ... and over whole runs: for EVERY configuration (both failure policies), every state a read can arrive in (PInv,
   true after the handshake and kept by every read), every stream and segmentation: in the events produced, each ping
   received while no close frame has been written and the TCP connection has not been dropped (i.e. while OPEN) is
   directly followed by the pong with the identical payload *)
Theorem C02_pong_echo_trace : forall D cd cf chunks (s s1 : rstate D) evs, PInv D s ->
  feed_all D cd cf s chunks = Done D s1 evs -> Echo (is_open (cn D s)) evs.
Proof. exact pong_echo. Qed.
Print Assumptions C02_pong_echo_trace.
Theorem C02_pong_echo_meaning : forall o a p b, Echo o (a ++ EPing p :: b) -> open_after o a = true ->
  exists b', b = ESendPong p :: b'.
Proof. exact Echo_spec. Qed.
Print Assumptions C02_pong_echo_meaning.
Theorem C02_pong_echo_init : forall D p d0, PInv D (init_state D p d0).
Proof. exact PInv_init. Qed.
Print Assumptions C02_pong_echo_init.

(* ---- failure policy -------------------------------------------------------------------------------------------
   failByDrop: abort the TCP connection, unclean; otherwise a close frame with the status code when OPEN (and the
   TCP connection is dropped when a closing handshake is already in progress) *)
Theorem C02_policy_drop : forall cf c code, failByDrop cf = true -> st c <> CLOSED ->
  fail_connection cf c code = (mkC CLOSED true false (rcode c) (rreason c), [EFail code; EDrop true]).
Proof. exact fail_connection_drop. Qed.
Print Assumptions C02_policy_drop.
Theorem C02_policy_close : forall cf c code, failByDrop cf = false -> st c = OPEN ->
  fail_connection cf c code =
    (mkC CLOSING true (clean c) (rcode c) (rreason c), [EFail code; ESendClose (Some code) RText]).
Proof. exact fail_connection_close_open. Qed.
Print Assumptions C02_policy_close.
Theorem C02_policy_closing : forall cf c code, failByDrop cf = false -> st c = CLOSING ->
  fail_connection cf c code = (mkC CLOSED true (clean c) (rcode c) (rreason c), [EFail code; EDrop false]).
Proof. exact fail_connection_close_closing. Qed.
Print Assumptions C02_policy_closing.
(* the codes announced: 1002 protocol violations, 1007 invalid payload, 1009 too big (values read from the source) *)
Theorem C02_policy_codes : code_protocol_error = 1002 /\ code_invalid_payload = 1007 /\ code_message_too_big = 1009 /\
  (forall cf c, protocol_violation cf c = (fst (fail_connection cf c 1002), snd (fail_connection cf c 1002), failByDrop cf)) /\
  (forall cf c, invalid_payload cf c = (fst (fail_connection cf c 1007), snd (fail_connection cf c 1007), failByDrop cf)) /\
  (forall cf c, max_size_exceeded cf c = fail_connection cf c 1009).
Proof. exact policy_codes. Qed.
Print Assumptions C02_policy_codes.

(* ---- nothing after the first violation ------------------------------------------------------------------------
   for every configuration, every state, every sequence of reads: in the events produced, nothing after the first
   failure is a message delivery; and once failedByMe is set no message is ever delivered again *)
Theorem C02_nothing_after : forall D cd cf (s s1 : rstate D) chunks evs,
  feed_all D cd cf s chunks = Done D s1 evs ->
  forall before k after, evs = before ++ EFail k :: after -> forall p b, ~ In (EMsg p b) after.
Proof. exact nothing_after_failure. Qed.
Print Assumptions C02_nothing_after.
Theorem C02_nothing_after_later_reads : forall D cd cf (s s1 : rstate D) chunks evs,
  failed (cn D s) = true -> feed_all D cd cf s chunks = Done D s1 evs ->
  failed (cn D s1) = true /\ forall p b, ~ In (EMsg p b) evs.
Proof. exact no_message_once_failed. Qed.
Print Assumptions C02_nothing_after_later_reads.

(* ---- sequence: one read of a whole stream is judged as RFC 6455 prescribes -------------------------------------
   For EVERY configuration (both roles, both failure policies, every option and limit, compression negotiated or not;
   decompressor = any function returning nothing for no input), from the state after the handshake (OPEN, or CLOSING
   after our own close), for EVERY octet stream (unbounded): the read terminates (Done: no OutOfFuel, no exception
   leaving _dataReceived), the declarative judge [rfc_judge] -- frame by frame from RFC 6455 section 5 -- has a verdict,
   and the events of the read, up to and including the first failure or the accepted Close frame, are exactly that
   verdict: the delivered messages / pings / pongs of the well-formed prefix, then
   VMore | VFail (VProtocol | VInvalidPayload | VTooBig) | VClose code reason.
   Proof: frame-by-frame simulation between the model and the judge under failByDrop = true (Proofs/WsRecvSeq.v), and
   "up to its first failure a run under the close-handshake policy is the run under the drop policy" (WsRecvSeqAll.v).
   With C02_split_independent_failbydrop the conclusion extends to every segmentation when failByDrop = true. *)
Theorem C02_sequence :
  forall D (cd : codec D) cf, (forall d, d_data cd d [] = (d, [])) ->
  forall p d0 bs, p <> CLOSED -> bytes_ok bs ->
  exists s' evs res,
    feed D cd cf (init_state D p d0) bs = Done D s' evs /\
    rfc_judge D cd cf d0 bs = Some res /\ judged evs = res.
Proof. exact sequence_any_policy. Qed.
Print Assumptions C02_sequence.
(* every read ends, under any policy, from every state a read can arrive in *)
Theorem C02_read_terminates : forall D (cd : codec D) cf (s : rstate D) d, PInv D s ->
  exists s1 e1, feed D cd cf s d = Done D s1 e1.
Proof. exact feed_terminates_any. Qed.
Print Assumptions C02_read_terminates.

(* ---- connections served by one process do not interact: two receive models driven by one interleaved sequence of
   reads (any configurations, decompressors, states, any schedule) end exactly where each connection ends on its own
   reads alone.  True of the model by construction; checked of the implementation, where the receive state lives in
   objects that could be shared, by the multi-connection correspondence runs (xconn_stage) ---- *)
Theorem C02_connections_independent : forall D1 D2 cd1 cd2 cf1 cf2 sc (s1 : rstate D1) (s2 : rstate D2) a e1 b e2,
  feed_pair D1 D2 cd1 cd2 cf1 cf2 s1 s2 sc = Some (a, e1, (b, e2)) <->
  feed_all D1 cd1 cf1 s1 (reads_of true sc) = Done D1 a e1 /\
  feed_all D2 cd2 cf2 s2 (reads_of false sc) = Done D2 b e2.
Proof. exact feed_pair_independent. Qed.
Print Assumptions C02_connections_independent.

(* ---- non-vacuity: a server receives a text message in two fragments with a ping in between, then a close ------- *)
Definition ex_cfg : cfg := mkCfg true true false true true true 0 0 false false.
Definition ex_stream : list N :=
  [0x01; 0x82; 0;0;0;0; 104; 105] ++ [0x89; 0x81; 0;0;0;0; 1] ++ [0x80; 0x81; 0;0;0;0; 33] ++ [0x88; 0x82; 0;0;0;0; 3; 232].
Example C02_example_run :
  match feed unit id_codec ex_cfg (init_state unit OPEN tt) ex_stream with
  | Done _ s evs =>
      evs = [EPing [1]; ESendPong [1]; EMsg [104; 105; 33] false; ECloseOk (Some 1000) None;
             ESendClose (Some 1000) RNone; EDrop false] /\ st (cn unit s) = CLOSED /\ on_lost (cn unit s) = (true, Some 1000, None)
  | OutOfFuel _ => False
  end.
Proof. vm_compute. repeat split; reflexivity. Qed.
Example C02_example_judge :
  rfc_judge unit id_codec ex_cfg tt ex_stream = Some ([JPing [1]; JMsg [104; 105; 33] false], VClose (Some 1000) None).
Proof. vm_compute. reflexivity. Qed.
(* an invalid octet in the second fragment: 1007-class failure at that octet, nothing delivered, connection aborted *)
Example C02_example_bad_utf8 :
  match feed unit id_codec ex_cfg (init_state unit OPEN tt)
             ([0x01; 0x82; 0;0;0;0; 104; 105] ++ [0x89; 0x80; 0;0;0;0] ++ [0x80; 0x82; 0;0;0;0; 255; 33]) with
  | Done _ s evs => evs = [EPing []; ESendPong []; EFail 1007; EDrop true] /\ on_lost (cn unit s) = (false, Some 1006, None)
  | OutOfFuel _ => False
  end.
Proof. vm_compute. repeat split; reflexivity. Qed.
Example C02_example_header : hdr_viols ex_cfg false 0x91 0x80 = [HRsv] /\ rfc_header_verdict ex_cfg false 0x91 0x80 = [HRsv]
  /\ hdr_viols ex_cfg false 0x81 0x85 = [].
Proof. vm_compute. repeat split; reflexivity. Qed.

(* ---- the verdict does not depend on how the octets are split into reads ---------------------------------------
   Full-strength statement [split_independent_statement] (Proofs/WsRecvSplit.v): for every configuration, every
   decompressor obeying the stream law, from the state after the handshake, every segmentation yields the events of
   the single read of the concatenation and observably the same final state (identical while the connection is not
   CLOSED; the same connection record -- what onClose reports -- once it is).
   It is FALSE of the faithful model (and of the code: F-C02-1) when failByDrop = false ... *)
Theorem C02_split_independent_refuted : ~ split_independent_statement.
Proof. exact split_independent_refuted. Qed.
Print Assumptions C02_split_independent_refuted.
(* ... and TRUE for the default policy failByDrop = true: unbounded streams, any number of reads (empty reads
   included), both roles, every option, compression negotiated or not (codec = any function obeying the law) *)
Theorem C02_split_independent_failbydrop :
  forall D (cd : codec D), codec_law cd -> forall cf, failByDrop cf = true -> forall p d0 chunks,
  exists s_split evs s_whole,
    feed_all D cd cf (init_state D p d0) chunks = Done D s_split evs /\
    feed D cd cf (init_state D p d0) (concat chunks) = Done D s_whole evs /\
    obs_eq D s_whole s_split.
Proof. exact split_independent_failbydrop. Qed.
Print Assumptions C02_split_independent_failbydrop.
(* the same from every state in which a read can arrive, an invariant each read re-establishes; in particular no run
   ends in OutOfFuel and no exception leaves _dataReceived (the run is Done) *)
Theorem C02_split_independent_failbydrop_reachable :
  forall D (cd : codec D), codec_law cd -> forall cf, failByDrop cf = true -> forall s chunks, Good D cd cf s ->
  exists s_split evs s_whole,
    feed_all D cd cf s chunks = Done D s_split evs /\
    feed D cd cf s (concat chunks) = Done D s_whole evs /\
    obs_eq D s_whole s_split.
Proof. exact split_independent_failbydrop_reachable. Qed.
Print Assumptions C02_split_independent_failbydrop_reachable.
Theorem C02_good_after_read :
  forall D (cd : codec D), codec_law cd -> forall cf, failByDrop cf = true -> forall s d, Good D cd cf s ->
  exists s1 e1, feed D cd cf s d = Done D s1 e1 /\ (st (cn D s1) <> CLOSED -> Good D cd cf s1).
Proof. exact good_after_feed. Qed.
Print Assumptions C02_good_after_read.
(* non-vacuity: the example stream cut into 5 reads (one inside the masking key, one inside the payload, an empty one) *)
Example C02_example_split :
  feed_all unit id_codec ex_cfg (init_state unit OPEN tt)
           [firstn 4 ex_stream; []; firstn 7 (skipn 4 ex_stream); firstn 9 (skipn 11 ex_stream); skipn 20 ex_stream]
  = feed unit id_codec ex_cfg (init_state unit OPEN tt) ex_stream.
Proof. vm_compute. reflexivity. Qed.
(* two connections, reads interleaved inside a frame: each gets its own message *)
Example C02_example_pair :
  feed_pair unit unit id_codec id_codec (mkCfg false true false true true true 0 0 false false) (mkCfg false true false true true true 0 0 false false)
            (init_state unit OPEN tt) (init_state unit OPEN tt)
            [(true, [0x82; 3; 1]); (false, [0x81; 2; 104]); (true, [2; 3]); (false, [105])]
  = match feed_all unit id_codec (mkCfg false true false true true true 0 0 false false) (init_state unit OPEN tt) [[0x82; 3; 1]; [2; 3]],
          feed_all unit id_codec (mkCfg false true false true true true 0 0 false false) (init_state unit OPEN tt) [[0x81; 2; 104]; [105]] with
    | Done _ a e1, Done _ b e2 => Some (a, e1, (b, e2))
    | _, _ => None
    end /\
  match feed_all unit id_codec (mkCfg false true false true true true 0 0 false false) (init_state unit OPEN tt) [[0x82; 3; 1]; [2; 3]] with
  | Done _ _ e => e = [EMsg [1; 2; 3] true]
  | OutOfFuel _ => False
  end.
Proof. vm_compute. split; reflexivity. Qed.
