(* C04 — each WAMP request completes exactly once with its own reply.
   Property statements only; the model is Model/Session.v (request/reply projection of
   autobahn.wamp.protocol.ApplicationSession), the proofs are in Proofs/SessionProofs.v.
   [fl] ranges over the two txaio continuation semantics (Twisted / asyncio), [cfg] over the behaviours of the
   user's callbacks and the transport, [ops] over ALL histories (API calls, router messages, transport events, loop
   turns) from the freshly constructed session. *)
From Coq Require Import NArith List Bool.
From AV Require Import Gen.WampTypeCodes Model.Session Proofs.SessionProofs.
Import ListNotations.
Open Scope N_scope.

(* ---- request ids ---- *)
(* every id the generator hands out lies in 1..2^53 *)
Theorem C04_ids_range : forall n, 1 <= idgen_next n <= 9007199254740992.
Proof. exact idgen_next_range. Qed.
Print Assumptions C04_ids_range.

(* the (k+1)-th id of a session is (k mod 2^53) + 1: sequential from 1, wrapping to 1 after 2^53 *)
Theorem C04_ids_closed_form : forall k, idgen_iter (S k) = N.of_nat k mod 9007199254740992 + 1.
Proof. exact idgen_iter_closed. Qed.
Print Assumptions C04_ids_closed_form.

(* request ids are in session scope.  [request_ids] projects a history to its request messages ([IdReq i]: handed to
   the transport, whether send() returned, raised or dropped it) and its HELLOs ([IdJoin]: join() starts a new session
   -- in every life of the object, since 293fd751).  In ANY history the request messages between a HELLO and the next
   HELLO, and every prefix of them, carry 1, 2, 3, ...: the first request of every session carries id 1 *)
Theorem C04_ids : forall fl cfg ops a b c,
  request_ids (trace fl cfg ops) = a ++ IdJoin :: b ++ c -> forallb is_req b = true ->
  b = map (fun j => IdReq (idgen_iter j)) (seq 1 (length b)).
Proof. exact request_ids_sequential. Qed.
Print Assumptions C04_ids.

(* ... likewise the requests of an object that has not said HELLO yet *)
Theorem C04_ids_unjoined : forall fl cfg ops b c,
  request_ids (trace fl cfg ops) = b ++ c -> forallb is_req b = true ->
  b = map (fun j => IdReq (idgen_iter j)) (seq 1 (length b)).
Proof. exact request_ids_sequential_unjoined. Qed.
Print Assumptions C04_ids_unjoined.

(* the request-type codes (regenerated from message.py) that the ERROR dispatch compares are pairwise distinct *)
Theorem C04_type_codes_distinct : forall a b, kind_code a = kind_code b -> a = b.
Proof. exact kind_code_inj. Qed.
Print Assumptions C04_type_codes_distinct.

(* ---- exactly one request message per API call, carrying what was given ---- *)
(* [failnext s = None]: no injected send failure is in progress -- true in every reachable state
   ([C04_no_failure_in_progress]); the failing sends are the subject of the [C04_failed_send*] theorems below *)
Theorem C04_no_failure_in_progress : forall fl cfg ops, failnext (final fl cfg ops) = None.
Proof. exact failnext_reachable. Qed.
Print Assumptions C04_no_failure_in_progress.

Theorem C04_one_message_call : forall fl cfg s uri a kw o, transport s = true -> topen s = true -> failnext s = None ->
  sends_one fl cfg s (ACall uri a kw o) KCall o uri
    (fun id => MCall id uri a kw (match o with Some c => co_timeout c | None => None end)
                     (match o with Some c => co_progress c | None => false end)).
Proof. exact call_one_message. Qed.
Print Assumptions C04_one_message_call.

Theorem C04_one_message_publish_ack : forall fl cfg s uri a kw o, transport s = true -> topen s = true -> failnext s = None ->
  po_wants_ack o = true ->
  sends_one fl cfg s (APublish uri a kw o) KPublish None uri
    (fun id => MPublish id uri a kw (match o with Some p => po_ack p | None => None end)
                        (match o with Some p => po_exclude_me p | None => None end)).
Proof. exact publish_ack_one_message. Qed.
Print Assumptions C04_one_message_publish_ack.

Theorem C04_one_message_publish_noack : forall fl cfg s uri a kw o, transport s = true -> topen s = true -> failnext s = None ->
  po_wants_ack o = false ->
  exists s', step fl cfg s (APublish uri a kw o) =
      (s', [Sent (MPublish (idgen_next (next_id s)) uri a kw (match o with Some p => po_ack p | None => None end)
                           (match o with Some p => po_exclude_me p | None => None end)); ApiReturned None])
    /\ pend s' = pend s /\ next_id s' = idgen_next (next_id s) /\ done s' = done s /\ issued s' = issued s.
Proof. exact publish_noack_one_message. Qed.
Print Assumptions C04_one_message_publish_noack.

Theorem C04_one_message_subscribe : forall fl cfg s uri o, transport s = true -> topen s = true -> failnext s = None ->
  sends_one fl cfg s (ASubscribe uri o) KSubscribe None uri
    (fun id => MSubscribe id uri (match o with Some c => opt_default (so_match c) | None => 0 end)
                          (match o with Some c => so_get_retained c | None => None end)).
Proof. exact subscribe_one_message. Qed.
Print Assumptions C04_one_message_subscribe.

Theorem C04_one_message_register : forall fl cfg s uri o, transport s = true -> topen s = true -> failnext s = None ->
  sends_one fl cfg s (ARegister uri o) KRegister None uri
    (fun id => MRegister id uri (match o with Some c => opt_default (ro_match c) | None => 0 end)
                         (match o with Some c => opt_default (ro_invoke c) | None => 0 end)).
Proof. exact register_one_message. Qed.
Print Assumptions C04_one_message_register.

Theorem C04_one_message_unsubscribe : forall fl cfg s h subid, transport s = true -> topen s = true -> failnext s = None ->
  sub_id_of s h = Some subid -> assoc subid (subs s) = Some [h] ->
  sends_one fl cfg s (AUnsubscribe h) KUnsubscribe None subid (fun id => MUnsubscribe id subid).
Proof. exact unsubscribe_one_message. Qed.
Print Assumptions C04_one_message_unsubscribe.

Theorem C04_one_message_unregister : forall fl cfg s h regid, transport s = true -> topen s = true -> failnext s = None ->
  reg_id_of s h = Some regid -> assoc regid (regs s) = Some h ->
  sends_one fl cfg s (AUnregister h) KUnregister None regid (fun id => MUnregister id regid).
Proof. exact unregister_one_message. Qed.
Print Assumptions C04_one_message_unregister.

(* ---- at most once ---- *)
(* in every reachable state every future has at most one result (ledger of txaio.resolve / reject / cancel) *)
Theorem C04_once : forall fl cfg ops, NoDup (map fst (done (final fl cfg ops))).
Proof. exact done_once. Qed.
Print Assumptions C04_once.

(* ---- ... with its own reply ---- *)
(* a reply bearing the (type, id) of a pending request whose future is not yet done removes exactly that record and
   completes exactly that future with the reply's content (or the error it carries); nothing else changes.
   (Stated for futures without a callback that re-enters the API, [AReact]; with one, the request it issues follows
   the completion: C04_ids / C04_once / C04_tables_disjoint / C04_only_protocol_error quantify over those too.) *)
Theorem C04_once_content : forall fl cfg s o v k i c r,
  transport s = true -> sid s = Some v ->
  reply_spec o = Some (k, i, c) -> find_req k i (pend s) = Some r -> is_done s (r_fut r) = false ->
  reply_wellformed s o -> assoc (r_fut r) (reacts s) = None ->
  let '(s', outs) := step fl cfg s o in
  pend s' = remove_req k i (pend s) /\ done s' = done s ++ [(r_fut r, c r)] /\ user_sees fl s s' outs (r_fut r) (c r)
  /\ issued s' = issued s /\ lost s' = lost s /\ next_id s' = next_id s /\ sid s' = sid s.
Proof. exact reply_completes. Qed.
Print Assumptions C04_once_content.

(* the record found under (k, i) holds the future that was created for the request (k, i), and no other record or
   ledger entry shares that future; its future is not done unless the user cancelled it *)
Theorem C04_own_reply : forall fl cfg ops k i r,
  find_req k i (pend (final fl cfg ops)) = Some r ->
  In (r_fut r, (k, i)) (issued (final fl cfg ops)) /\ NoDup (map fst (issued (final fl cfg ops))).
Proof. exact pending_own_key. Qed.
Print Assumptions C04_own_reply.

Theorem C04_pending_not_done : forall fl cfg ops r,
  In r (pend (final fl cfg ops)) -> is_done (final fl cfg ops) (r_fut r) = true ->
  result_of (final fl cfg ops) (r_fut r) = Some (RErr ECancelled).
Proof. exact pending_not_done. Qed.
Print Assumptions C04_pending_not_done.

(* ---- replies that arrive while the API call is still inside transport.send() ---- *)
(* (loopback / in-process router links answer from within send().)  Every API path records its request before it
   hands the message to the transport, so that schedule is the history [a; r] with nothing in between: the record is
   found, the future the call is about to return completes with the reply's content, the call returns it and does
   not raise.  [api_request] covers all six request kinds. *)
Theorem C04_reply_during_send : forall fl cfg s a r v k co t c,
  transport s = true -> topen s = true -> failnext s = None -> sid s = Some v -> is_done s (next_fut s) = false ->
  assoc (next_fut s) (reacts s) = None ->
  api_request s a = Some (k, co, t) ->
  reply_spec r = Some (k, idgen_next (next_id s), c) ->
  match r with RRegistered _ g => assoc g (regs s) = None | _ => True end ->
  let f := next_fut s in
  let rq := mkreq k (idgen_next (next_id s)) f co t in
  let '(s1, o1) := step fl cfg s a in
  let '(s2, o2) := step fl cfg s1 r in
  (exists m, o1 = [Sent m; ApiReturned (Some f)])
  /\ pend s2 = remove_req k (idgen_next (next_id s)) (put_req rq (pend s))
  /\ done s2 = done s ++ [(f, c rq)] /\ user_sees fl s1 s2 o2 f (c rq).
Proof. exact reply_during_send. Qed.
Print Assumptions C04_reply_during_send.

(* ---- send() fails ---- *)
(* transport.send() can fail in three ways (SerializationError, PayloadExceededError, TransportLost); [AFail e a] is
   the API call [a] whose send() raises [e].  For each of the six request kinds ([api_request]) and each [e]: the call
   raises [e], nothing reaches the wire, the id is consumed, no future gets a result, registrations and the
   life-cycle are untouched, and the record is taken back: the table is as before, whatever it contained
   (call() and publish() always did that; subscribe / register / unsubscribe / unregister since 0e55772a). *)
Theorem C04_failed_send : forall fl cfg s e a k co t,
  transport s = true -> failnext s = None -> api_request s a = Some (k, co, t) ->
  let '(s1, o1) := step fl cfg s (AFail e a) in
  (exists m, o1 = [SendFailed m; ApiRaised e])
  /\ next_id s1 = idgen_next (next_id s) /\ done s1 = done s /\ failnext s1 = None /\ lcore s1 = lcore s
  /\ (k <> KUnsubscribe -> subs s1 = subs s) /\ regs s1 = regs s
  /\ pend s1 = remove_req k (idgen_next (next_id s)) (pend s).
Proof. exact failed_send. Qed.
Print Assumptions C04_failed_send.

Theorem C04_failed_send_table_unchanged : forall k i l, find_req k i l = None -> remove_req k i l = l.
Proof. exact remove_req_absent. Qed.
Print Assumptions C04_failed_send_table_unchanged.

Theorem C04_failed_send_publish_noack : forall fl cfg s e uri a kw o,
  transport s = true -> failnext s = None -> po_wants_ack o = false ->
  let '(s1, o1) := step fl cfg s (AFail e (APublish uri a kw o)) in
  (exists m, o1 = [SendFailed m; ApiRaised e])
  /\ next_id s1 = idgen_next (next_id s) /\ pend s1 = pend s /\ done s1 = done s /\ failnext s1 = None /\ lcore s1 = lcore s.
Proof. exact failed_send_publish_noack. Qed.
Print Assumptions C04_failed_send_publish_noack.

(* all six kinds: a later router message bearing the id the failed call consumed is a protocol violation *)
Theorem C04_failed_send_reply_is_violation : forall fl cfg s e a r v k co t c,
  transport s = true -> sid s = Some v -> failnext s = None ->
  api_request s a = Some (k, co, t) ->
  reply_spec r = Some (k, idgen_next (next_id s), c) -> find_req k (idgen_next (next_id s)) (pend s) = None ->
  let '(s1, o1) := step fl cfg s (AFail e a) in
  (exists m, o1 = [SendFailed m; ApiRaised e]) /\ pend s1 = pend s /\ step fl cfg s1 r = (s1, [Raised XProtocolError]).
Proof. exact failed_send_reply_is_violation. Qed.
Print Assumptions C04_failed_send_reply_is_violation.

(* regression example: before 0e55772a the record of the failed register() stayed, REGISTERED 1 58 was accepted
   silently and created a Registration for the call that had raised *)
Theorem C04_failed_send_register_example :
  let ops := [OOpen; RWelcome 1; AFail XPayloadExceeded (ARegister 1 None); RRegistered 1 58] in
  In (ApiRaised XPayloadExceeded) (trace Tx default_cfg ops) /\ In (Raised XProtocolError) (trace Tx default_cfg ops)
  /\ regs (final Tx default_cfg ops) = [] /\ pend (final Tx default_cfg ops) = [].
Proof. exact failed_send_register_example. Qed.
Print Assumptions C04_failed_send_register_example.

(* ---- lives ---- *)
(* "its own reply" across lives (Twisted): an object without a transport has empty request tables in every reachable
   state, whatever the user's onLeave / onDisconnect do (onClose sweeps, a0cad4f0); so every life starts with empty
   tables, and a record that a router message is matched to was issued in the same life: a reply of the next session
   never matches a request of a previous life *)
Theorem C04_tables_empty_between_lives : forall cfg ops,
  transport (final Tx cfg ops) = false -> pend (final Tx cfg ops) = [].
Proof. exact tx_no_transport_no_pending. Qed.
Print Assumptions C04_tables_empty_between_lives.

(* regression example (before a0cad4f0 the RESULT 1 of the second session completed call #1 of the first life): the
   call fails with TransportLost when the transport is lost, the foreign RESULT is a protocol violation *)
Theorem C04_own_reply_next_life_example :
  let cfg := {| u_connect := CnJoin; u_welcome := WlNone; u_challenge := ChRaise; u_join_raises := false;
                u_leave_super := true; u_leave_raises := false; u_disc_super := false; u_disc_raises := false;
                t_lenient := false |} in
  let ops := [OOpen; ACall 1 [] [] None; OLost false; OOpen; RWelcome 2; RResult 1 false {| p_args := None; p_kw := None |}] in
  In (Completed 0 (RErr ETransportLost)) (trace Tx cfg ops) /\ In (Raised XProtocolError) (trace Tx cfg ops)
  /\ ~ In (Completed 0 (ROk VNone)) (trace Tx cfg ops).
Proof.
  vm_compute. split; [auto 12|]. split; [auto 12|]. intro H; repeat (destruct H as [H|H]; try discriminate H); contradiction.
Qed.
Print Assumptions C04_own_reply_next_life_example.

(* its freshness hypothesis holds in every reachable state *)
Theorem C04_fresh_future_not_done : forall fl cfg ops, is_done (final fl cfg ops) (next_fut (final fl cfg ops)) = false.
Proof. exact fresh_future_not_done. Qed.
Print Assumptions C04_fresh_future_not_done.

(* ---- never a different request ---- *)
(* table disjointness: (kind, id) keys and futures are unique over the six tables in every reachable state *)
Theorem C04_tables_disjoint : forall fl cfg ops,
  NoDup (map req_key (pend (final fl cfg ops))) /\ NoDup (map r_fut (pend (final fl cfg ops))).
Proof. exact pending_one_entry. Qed.
Print Assumptions C04_tables_disjoint.

(* whatever a reply (k, i) does -- complete, be ignored because the future was cancelled, raise -- the only future
   that can become done is the one stored under (k, i), and every record under another key stays *)
Theorem C04_no_cross : forall fl cfg s o v k i c,
  transport s = true -> sid s = Some v -> reply_spec o = Some (k, i, c) ->
  (forall r, find_req k i (pend s) = Some r -> assoc (r_fut r) (reacts s) = None) ->
  let s' := fst (step fl cfg s o) in
  (forall f, is_done s' f = true -> is_done s f = true \/ exists r, find_req k i (pend s) = Some r /\ r_fut r = f)
  /\ (forall r', In r' (pend s) -> req_key r' <> (k, i) -> In r' (pend s'))
  /\ (forall r', In r' (pend s') -> In r' (pend s)).
Proof. exact reply_no_cross. Qed.
Print Assumptions C04_no_cross.

(* ---- progressive results ---- *)
(* the state does not change; only the on_progress handler of that very call can fire, with this message's payload
   (absent args / kwargs read as empty); a call made without on_progress ignores the message; nothing is raised *)
Theorem C04_progress_local : forall fl cfg s v rq p,
  transport s = true -> sid s = Some v ->
  exists outs, step fl cfg s (RResult rq true p) = (s, outs) /\
    (outs = [Raised XProtocolError] /\ find_req KCall rq (pend s) = None
     \/ exists r, find_req KCall rq (pend s) = Some r /\
          (outs = [] /\ (r_opts r = None \/ exists c, r_opts r = Some c /\ co_progress c = false)
           \/ exists c, r_opts r = Some c /\ co_progress c = true /\
                outs = [Progress (r_fut r) (co_details c) (args_or_empty (p_args p)) (kw_or_empty (p_kw p))])).
Proof. exact progress_local. Qed.
Print Assumptions C04_progress_local.

(* ---- unknown replies ---- *)
Theorem C04_unknown_is_violation : forall fl cfg s o v k i c,
  transport s = true -> sid s = Some v ->
  reply_spec o = Some (k, i, c) -> find_req k i (pend s) = None ->
  step fl cfg s o = (s, [Raised XProtocolError]).
Proof. exact reply_unknown. Qed.
Print Assumptions C04_unknown_is_violation.

Theorem C04_error_foreign_type_is_violation : forall fl cfg s v rtype rq uri p,
  transport s = true -> sid s = Some v -> kind_of_code rtype = None ->
  step fl cfg s (RError rtype rq uri p) = (s, [Raised XProtocolError]).
Proof. exact error_foreign_type. Qed.
Print Assumptions C04_error_foreign_type_is_violation.

(* ---- nothing but ProtocolError leaves an entry point ---- *)
(* (was refuted twice before the repairs d5bb0938 / a97bf2af of the progressive-RESULT branch.)
   Every step either lets only ProtocolError out, or it is the GOODBYE reply handed to a transport that refuses
   sends after close() -- then exactly TransportLost; over whole histories nothing else is ever raised. *)
Theorem C04_only_protocol_error_step : forall fl cfg s o,
  pe_only (snd (step fl cfg s o)) \/
  (goodbye_reply_refused cfg s o /\ snd (step fl cfg s o) = [SendFailed (MGoodbye RsNormal); Raised XTransportLost]).
Proof. exact step_raises. Qed.
Print Assumptions C04_only_protocol_error_step.

Theorem C04_only_protocol_error : forall fl cfg ops e,
  In (Raised e) (trace fl cfg ops) -> e = XProtocolError \/ e = XTransportLost.
Proof. exact trace_raises. Qed.
Print Assumptions C04_only_protocol_error.

(* ---- a statement that is FALSE of the faithful model (the witness is a replay on the real code) ---- *)
(* "a reply bearing the id and type of a pending request completes it": refuted by REGISTERED naming a registration
   id already in use: the record is popped, ProtocolError raised, the future is never completed -- not even when the
   transport goes away *)
Theorem C04_reply_completes_refuted_duplicate_registration :
  exists fl cfg ops f,
    In (f, (KRegister, 2)) (issued (final fl cfg ops)) /\ pend (final fl cfg ops) = []
    /\ is_done (final fl cfg ops) f = false /\ transport (final fl cfg ops) = false.
Proof.
  exists Tx, default_cfg,
    [OOpen; RWelcome 1; ARegister 1 None; ARegister 2 None; RRegistered 1 55; RRegistered 2 55; OLost false], 1.
  vm_compute. repeat split; auto.
Qed.
Print Assumptions C04_reply_completes_refuted_duplicate_registration.

(* ---- non-vacuity ---- *)
(* the retry idiom: the errback of a call re-issues the call when the ERROR arrives (Twisted: inside onMessage) *)
Example C04_witness_reentrant_errback :
  trace Tx default_cfg [OOpen; RWelcome 9; ACall 1 [] [] None; AReact 0 (ACall 1 [] [] None);
                        RError T_CALL 1 3 {| p_args := None; p_kw := None |}; RResult 2 false {| p_args := Some [5]; p_kw := None |}]
  = [Called CbConnect; Sent MHello; Called CbWelcome; Called (CbJoin 9); Sent (MCall 1 1 [] [] None false); ApiReturned (Some 0);
     Completed 0 (RErr (EApp 3 {| p_args := None; p_kw := None |})); Sent (MCall 2 1 [] [] None false); ApiReturned (Some 1);
     Completed 1 (ROk (VSingle 5))].
Proof. vm_compute. reflexivity. Qed.

(* UNREGISTERED delivered from inside the send() of UNREGISTER: the hypotheses of C04_reply_during_send are met *)
Example C04_witness_reply_during_send :
  let s := final Tx default_cfg [OOpen; RWelcome 9; ARegister 1 None; RRegistered 1 55] in
  transport s = true /\ topen s = true /\ sid s = Some 9 /\ is_done s (next_fut s) = false
  /\ assoc (next_fut s) (reacts s) = None /\ api_request s (AUnregister 0) = Some (KUnregister, None, 55)
  /\ reply_spec (RUnregistered 2 None) = Some (KUnregister, idgen_next (next_id s), fun _ => ROk VNone)
  /\ trace Tx default_cfg [OOpen; RWelcome 9; ARegister 1 None; RRegistered 1 55; AUnregister 0; RUnregistered 2 None]
     = [Called CbConnect; Sent MHello; Called CbWelcome; Called (CbJoin 9); Sent (MRegister 1 1 0 0); ApiReturned (Some 0);
        Completed 0 (ROk (VRegistration 55)); Sent (MUnregister 2 55); ApiReturned (Some 1); Completed 1 (ROk VNone)].
Proof. vm_compute. repeat split; reflexivity. Qed.

(* the two former counterexamples: progressive RESULTs without kwargs / for a call without options *)
Example C04_witness_progressive_repaired :
  trace Tx default_cfg
    [OOpen; RWelcome 1; ACall 1 [] [] (Some {| co_timeout := None; co_progress := true; co_details := true |});
     RResult 1 true {| p_args := Some [7]; p_kw := None |}; RResult 1 true {| p_args := None; p_kw := None |};
     ACall 2 [] [] None; RResult 2 true {| p_args := None; p_kw := None |}]
  = [Called CbConnect; Sent MHello; Called CbWelcome; Called (CbJoin 1);
     Sent (MCall 1 1 [] [] None true); ApiReturned (Some 0); Progress 0 true [7] []; Progress 0 true [] [];
     Sent (MCall 2 2 [] [] None false); ApiReturned (Some 1)].
Proof. vm_compute. reflexivity. Qed.

(* two overlapping calls answered in reverse order, an unknown reply in between, on both flavours *)
Example C04_witness_reverse_order :
  trace Tx default_cfg
    [OOpen; RWelcome 9; ACall 1 [1] [] None; ACall 2 [] [(0, 5)] None;
     RResult 2 false {| p_args := Some [8]; p_kw := None |}; RResult 3 false {| p_args := None; p_kw := None |};
     RResult 1 false {| p_args := Some [4; 5]; p_kw := None |}; RResult 1 false {| p_args := None; p_kw := None |}]
  = [Called CbConnect; Sent MHello; Called CbWelcome; Called (CbJoin 9);
     Sent (MCall 1 1 [1] [] None false); ApiReturned (Some 0);
     Sent (MCall 2 2 [] [(0, 5)] None false); ApiReturned (Some 1);
     Completed 1 (ROk (VSingle 8)); Raised XProtocolError;
     Completed 0 (ROk (VCallResult [4; 5] [])); Raised XProtocolError].
Proof. vm_compute. reflexivity. Qed.

Example C04_witness_hypotheses_meet :
  let s := final Aio default_cfg [OOpen; OTurn; RWelcome 9; OTurn; OTurn; ACall 1 [1] [] None; ARegister 2 None] in
  transport s = true /\ topen s = true /\ sid s = Some 9
  /\ find_req KCall 1 (pend s) = Some (mkreq KCall 1 0 None 1) /\ is_done s 0 = false
  /\ find_req KRegister 2 (pend s) = Some (mkreq KRegister 2 1 None 2).
Proof. vm_compute. repeat split; reflexivity. Qed.
