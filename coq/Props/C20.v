(* C20 — end-to-end encrypted payloads are recovered exactly or rejected.
   Property statements only; definitions in Model/Cryptobox.v, proofs in Proofs/CryptoboxProofs.v.
   ASSUMPTIONS (explicit premises of the theorems that need them, never axioms):
     aead_ok seal open   — NaCl crypto_box is an authenticated cipher: open s (seal s n p) = Some p; a ciphertext
                           sealed under another secret does not open; whatever opens under s was sealed under s
     json_ok dumps loads — the JSON round trip of the envelope {uri, args, kwargs} is the identity
   V application values, P plaintexts, C ciphertexts, nonce: arbitrary types. *)
From Coq Require Import List String Bool NArith.
From AV Require Import Model.SessionErr Model.Cryptobox Proofs.CryptoboxProofs.
Import ListNotations.
Open Scope string_scope.

(* publish -> EVENT: a subscriber whose responder box computes the publisher's originator secret gets exactly (args, kwargs) *)
Theorem C20_roundtrip_publish_event :
  forall (V P C nonce : Type) (seal : secret -> nonce -> P -> C) (open : secret -> C -> option P)
    (dumps : envelope V -> option P) (loads : P -> option (envelope V)),
  aead_ok seal open ->
  json_ok dumps loads ->
  forall (ra rb : keyring) (topic : string) (a : list V) (k : kw V) (n : nonce) (s : secret) (b : body V C),
  get_box ra true topic = Some s ->
  get_box rb false topic = Some s ->
  originate V P C nonce seal dumps (Some ra) topic a k n = Sent b ->
  on_event V P C open loads (Some rb) topic b = HandlerInvoked a k.
Proof. exact roundtrip_publish_event. Qed.
Print Assumptions C20_roundtrip_publish_event.

(* call -> INVOCATION: the endpoint is invoked with exactly (args, kwargs), and knows the call was encrypted *)
Theorem C20_roundtrip_call_invocation :
  forall (V P C nonce : Type) (seal : secret -> nonce -> P -> C) (open : secret -> C -> option P)
    (dumps : envelope V -> option P) (loads : P -> option (envelope V)),
  aead_ok seal open ->
  json_ok dumps loads ->
  forall (note : recv V -> V) (ra rb : keyring) (proc : string) (a : list V) (k : kw V) 
    (n n' : nonce) (s : secret) (b : body V C),
  get_box ra true proc = Some s ->
  get_box rb false proc = Some s ->
  originate V P C nonce seal dumps (Some ra) proc a k n = Sent b ->
  on_invocation V P C nonce seal open dumps loads note (Some rb) proc b n' = EndpointInvoked a k true.
Proof. exact roundtrip_call_invocation. Qed.
Print Assumptions C20_roundtrip_call_invocation.

(* call -> INVOCATION for EVERY way of registering (plain URI, function + prefix=, decorated object, decorated object +
   prefix=; exact registration without and pattern registration with the router's `procedure` detail): the callee
   binds the ciphertext to the registered full URI — the one REGISTER carried — and the endpoint gets exactly (args, kwargs) *)
Theorem C20_roundtrip_call_invocation_registered :
  forall (V P C nonce : Type) (seal : secret -> nonce -> P -> C) (open : secret -> C -> option P)
    (dumps : envelope V -> option P) (loads : P -> option (envelope V)),
  aead_ok seal open ->
  json_ok dumps loads ->
  forall (note : recv V -> V) (ra rb : keyring) (prefix : option string) (name : string)
    (detail : option string) (a : list V) (k : kw V) (n n' : nonce) (s : secret) (b : body V C),
  let full := fst (register_uris prefix name) in
  detail = None \/ detail = Some full ->
  get_box ra true full = Some s ->
  get_box rb false full = Some s ->
  originate V P C nonce seal dumps (Some ra) full a k n = Sent b ->
  on_invocation_registered V P C nonce seal open dumps loads note (Some rb) prefix name detail b n' =
  EndpointInvoked a k true /\
  snd (register_uris prefix name) = full /\ full = match prefix with
                                                   | Some p => p ++ name
                                                   | None => name
                                                   end.
Proof. exact roundtrip_call_invocation_registered. Qed.
Print Assumptions C20_roundtrip_call_invocation_registered.

(* YIELD -> RESULT (final or progressive): the caller's originator box recovers exactly the callee's result *)
Theorem C20_roundtrip_yield_result :
  forall (V P C nonce : Type) (seal : secret -> nonce -> P -> C) (open : secret -> C -> option P)
    (dumps : envelope V -> option P) (loads : P -> option (envelope V)),
  aead_ok seal open ->
  json_ok dumps loads ->
  forall (ra rb : keyring) (proc : string) (a : list V) (k : option (kw V)) (n : nonce) 
    (s : secret) (p : P) (progress : bool),
  get_box ra true proc = Some s ->
  get_box rb false proc = Some s ->
  dumps (Some proc, Some a, k) = Some p ->
  on_result V P C open loads (Some ra) proc progress
    (yield_body V P C nonce seal dumps (Some rb) true proc a k n) =
  (if progress then ProgressDelivered a (or_nil k) else Resolved a (or_nil k)).
Proof. exact roundtrip_yield_result. Qed.
Print Assumptions C20_roundtrip_yield_result.

(* ERROR: the caller's _exception_from_message continues with exactly the (args, kwargs) that _message_from_exception
   encoded; from there on Model/SessionErr.v (C18) applies unchanged.  NB both sides look the key up by the ERROR URI *)
Theorem C20_roundtrip_error :
  forall (V P C nonce : Type) (seal : secret -> nonce -> P -> C) (open : secret -> C -> option P)
    (dumps : envelope V -> option P) (loads : P -> option (envelope V)),
  aead_ok seal open ->
  json_ok dumps loads ->
  forall (ra rb : keyring) (error : string) (a : option (list V)) (k : option (kw V)) 
    (n : nonce) (s : secret) (b : body V C),
  get_box ra true error = Some s ->
  get_box rb false error = Some s ->
  error_body V P C nonce seal dumps (Some rb) error a k n = Sent b ->
  on_error_codec V P C open loads (Some ra) error b = ErrPayload a k.
Proof. exact roundtrip_error. Qed.
Print Assumptions C20_roundtrip_error.

(* matching key material (originator: own private + responder's public; responder: own private + originator's public)
   yields the same shared secret on both sides, given only that DH commutes *)
Theorem C20_matching_keys_pair :
  forall (pub : sk -> pk) (dh : sk -> pk -> secret),
  (forall a b : sk, dh a (pub b) = dh b (pub a)) ->
  forall a b : sk,
  exists k1 k2 : key,
    make_key pub dh (Some a) None None (Some (pub b)) = Some k1 /\
    make_key pub dh None (Some (pub a)) (Some b) None = Some k2 /\
    originator_box k1 = Some (dh a (pub b)) /\
    responder_box k1 = None /\ responder_box k2 = Some (dh a (pub b)) /\ originator_box k2 = None.
Proof. exact keys_pair. Qed.
Print Assumptions C20_matching_keys_pair.

(* PUBLISH / CALL for a URI that has a key: the message body is payload = seal(...), enc_algo = cryptobox,
   enc_serializer = json, no enc_key — and, by the type of [body], no args / kwargs fields *)
Theorem C20_no_clear_on_wire_publish_call :
  forall (V P C nonce : Type) (seal : secret -> nonce -> P -> C) (dumps : envelope V -> option P) 
    (r : keyring) (uri : string) (a : list V) (k : kw V) (n : nonce) (s : secret) (b : body V C),
  get_box r true uri = Some s ->
  originate V P C nonce seal dumps (Some r) uri a k n = Sent b ->
  exists p : P,
    dumps (Some uri, Some a, Some k) = Some p /\
    b = Encoded {| e_payload := seal s n p; e_algo := "cryptobox"; e_serializer := Some "json"; e_key := None |}.
Proof. exact originate_encrypted. Qed.
Print Assumptions C20_no_clear_on_wire_publish_call.

(* YIELD answering an encrypted INVOCATION, when the result can be JSON-encoded: ciphertext only *)
Theorem C20_no_clear_on_wire_yield :
  forall (V P C nonce : Type) (seal : secret -> nonce -> P -> C) (dumps : envelope V -> option P) 
    (r : keyring) (proc : string) (a : list V) (k : option (kw V)) (n : nonce) (s : secret) 
    (p : P),
  get_box r false proc = Some s ->
  dumps (Some proc, Some a, k) = Some p ->
  yield_body V P C nonce seal dumps (Some r) true proc a k n =
  Encoded {| e_payload := seal s n p; e_algo := "cryptobox"; e_serializer := Some "json"; e_key := None |}.
Proof. exact yield_encrypted. Qed.
Print Assumptions C20_no_clear_on_wire_yield.

(* a progressive YIELD of an encrypted call is ciphertext — or nothing: unlike the final YIELD, an encode failure
   reaches the endpoint that called progress() instead of being swallowed *)
Theorem C20_no_clear_on_wire_progress :
  forall (V P C nonce : Type) (seal : secret -> nonce -> P -> C) (dumps : envelope V -> option P) 
    (r : keyring) (proc : string) (a : list V) (k : kw V) (n : nonce) (s : secret) (b : body V C),
  get_box r false proc = Some s ->
  progress_body V P C nonce seal dumps (Some r) true proc a k n = Sent b ->
  exists p : P,
    dumps (Some proc, Some a, Some k) = Some p /\
    b = Encoded {| e_payload := seal s n p; e_algo := "cryptobox"; e_serializer := Some "json"; e_key := None |}.
Proof. exact progress_encrypted. Qed.
Print Assumptions C20_no_clear_on_wire_progress.

(* ERROR for an error URI that has a key: ciphertext only *)
Theorem C20_no_clear_on_wire_error :
  forall (V P C nonce : Type) (seal : secret -> nonce -> P -> C) (dumps : envelope V -> option P) 
    (r : keyring) (error : string) (a : option (list V)) (k : option (kw V)) (n : nonce) 
    (s : secret) (b : body V C),
  get_box r false error = Some s ->
  error_body V P C nonce seal dumps (Some r) error a k n = Sent b ->
  exists p : P,
    dumps (Some error, a, k) = Some p /\
    b = Encoded {| e_payload := seal s n p; e_algo := "cryptobox"; e_serializer := Some "json"; e_key := None |}.
Proof. exact error_encrypted. Qed.
Print Assumptions C20_no_clear_on_wire_error.

(* REFUTED at full strength: when the result of an encrypted call cannot be JSON-encoded (dumps raises) the exception
   is swallowed and the YIELD carries the result IN THE CLEAR (protocol.py success(): except Exception: log.warn) *)
Theorem C20_no_clear_on_wire_yield_refuted :
  forall (V P C nonce : Type) (seal : secret -> nonce -> P -> C) (dumps : envelope V -> option P) 
    (r : keyring) (proc : string) (a : list V) (k : option (kw V)) (n : nonce),
  dumps (Some proc, Some a, k) = None ->
  yield_body V P C nonce seal dumps (Some r) true proc a k n = Plain (Some a) k.
Proof. exact yield_encode_failure_clear. Qed.
Print Assumptions C20_no_clear_on_wire_yield_refuted.

(* the ERROR of an encrypted call is encrypted only if the keyring has a key for the ERROR URI (e.g.
   wamp.error.runtime_error); otherwise args/kwargs of the error travel in the clear even though the call was encrypted *)
Theorem C20_error_keyed_by_error_uri :
  forall (V P C nonce : Type) (seal : secret -> nonce -> P -> C) (dumps : envelope V -> option P) 
    (r : keyring) (error : string) (a : option (list V)) (k : option (kw V)) (n : nonce),
  get_box r false error = None -> error_body V P C nonce seal dumps (Some r) error a k n = Sent (Plain a k).
Proof. exact error_no_key_clear. Qed.
Print Assumptions C20_error_keyed_by_error_uri.

(* a ciphertext sealed for URI [inner] delivered under another envelope URI that maps to the same secret:
   no handler / endpoint / progress callback is invoked; EVENT ignored, INVOCATION answered with ERROR
   wamp.error.encryption.trusted_uri_mismatch, call rejected with that error, remote error replaced by it *)
Theorem C20_uri_binding :
  forall (V P C nonce : Type) (seal : secret -> nonce -> P -> C) (open : secret -> C -> option P)
    (dumps : envelope V -> option P) (loads : P -> option (envelope V)),
  aead_ok seal open ->
  json_ok dumps loads ->
  forall (note : recv V -> V) (r : keyring) (uri inner : string) (s : secret) (n n' : nonce) 
    (p : P) (a : option (list V)) (k : option (kw V)),
  inner <> uri ->
  dumps (Some inner, a, k) = Some p ->
  let b :=
    Encoded {| e_payload := seal s n p; e_algo := "cryptobox"; e_serializer := Some "json"; e_key := None |} in
  (get_box r false uri = Some s ->
   on_event V P C open loads (Some r) uri b = EventIgnored (RUriMismatch (Some inner)) /\
   on_invocation V P C nonce seal open dumps loads note (Some r) uri b n' =
   ErrorReply ENC_TRUSTED_URI_MISMATCH
     (error_body V P C nonce seal dumps (Some r) ENC_TRUSTED_URI_MISMATCH
        (Some [note (RUriMismatch (Some inner))]) (Some []) n')) /\
  (get_box r true uri = Some s ->
   on_result V P C open loads (Some r) uri false b = RejectedWith ENC_TRUSTED_URI_MISMATCH /\
   on_result V P C open loads (Some r) uri true b = ProgressNotDelivered ENC_TRUSTED_URI_MISMATCH /\
   on_error_codec V P C open loads (Some r) uri b = ErrEnc ENC_TRUSTED_URI_MISMATCH).
Proof. exact uri_binding. Qed.
Print Assumptions C20_uri_binding.

(* a ciphertext that the receiver's box does not open (NaCl: any modified ciphertext): nothing is delivered and the
   failure is explicit — EVENT ignored, INVOCATION answered with ERROR wamp.error.encryption.decrypt_error (endpoint
   not invoked), call rejected with it, progressive result not delivered, remote error replaced by it *)
Theorem C20_tamper_never_delivered :
  forall (V P C nonce : Type) (seal : secret -> nonce -> P -> C) (open : secret -> C -> option P)
    (dumps : envelope V -> option P) (loads : P -> option (envelope V)) (note : recv V -> V) 
    (r : keyring) (uri : string) (e : encoded C) (n' : nonce),
  (forall (io : bool) (s : secret), get_box r io uri = Some s -> open s (e_payload e) = None) ->
  (exists x : cbexc, on_event V P C open loads (Some r) uri (Encoded e) = EventIgnored (RDecryptError x)) /\
  (exists x : cbexc,
     on_invocation V P C nonce seal open dumps loads note (Some r) uri (Encoded e) n' =
     ErrorReply ENC_DECRYPT_ERROR
       (error_body V P C nonce seal dumps (Some r) ENC_DECRYPT_ERROR (Some [note (RDecryptError x)]) 
          (Some []) n')) /\
  on_result V P C open loads (Some r) uri false (Encoded e) = RejectedWith ENC_DECRYPT_ERROR /\
  on_result V P C open loads (Some r) uri true (Encoded e) = ProgressNotDelivered ENC_DECRYPT_ERROR /\
  on_error_codec V P C open loads (Some r) uri (Encoded e) = ErrEnc ENC_DECRYPT_ERROR.
Proof. exact unopenable_never_delivered. Qed.
Print Assumptions C20_tamper_never_delivered.

(* integrity at full strength, all directions: whatever reaches a handler, an endpoint, a call result, a progress
   callback or the error mapping from an ENCRYPTED message was sealed under the receiver's own shared secret, and its
   inner URI is the envelope URI (uses the unforgeability assumption) *)
Theorem C20_delivered_authentic :
  forall (V P C nonce : Type) (seal : secret -> nonce -> P -> C) (open : secret -> C -> option P)
    (dumps : envelope V -> option P) (loads : P -> option (envelope V)),
  aead_ok seal open ->
  forall (note : recv V -> V) (codec : option keyring) (uri : string) (e : encoded C) (n' : nonce),
  (forall (a : list V) (k : kw V),
   on_event V P C open loads codec uri (Encoded e) = HandlerInvoked a k \/
   (exists enc : bool,
      on_invocation V P C nonce seal open dumps loads note codec uri (Encoded e) n' = EndpointInvoked a k enc) ->
   exists (r : keyring) (s : secret) (n : nonce) (p : P) (a' : option (list V)) (k' : option (kw V)),
     codec = Some r /\
     get_box r false uri = Some s /\
     e_payload e = seal s n p /\ loads p = Some (Some uri, a', k') /\ a = or_nil a' /\ k = or_nil k') /\
  (forall (a : list V) (k : kw V) (progress : bool),
   on_result V P C open loads codec uri progress (Encoded e) = Resolved a k \/
   on_result V P C open loads codec uri progress (Encoded e) = ProgressDelivered a k ->
   exists (r : keyring) (s : secret) (n : nonce) (p : P) (a' : option (list V)) (k' : option (kw V)),
     codec = Some r /\
     get_box r true uri = Some s /\
     e_payload e = seal s n p /\ loads p = Some (Some uri, a', k') /\ a = or_nil a' /\ k = or_nil k') /\
  (forall (a : option (list V)) (k : option (kw V)),
   on_error_codec V P C open loads codec uri (Encoded e) = ErrPayload a k ->
   exists (r : keyring) (s : secret) (n : nonce) (p : P),
     codec = Some r /\
     get_box r true uri = Some s /\ e_payload e = seal s n p /\ loads p = Some (Some uri, a, k)).
Proof. exact delivered_authentic. Qed.
Print Assumptions C20_delivered_authentic.

(* a ciphertext sealed under any other shared secret: same explicit failures *)
Theorem C20_wrong_key :
  forall (V P C nonce : Type) (seal : secret -> nonce -> P -> C) (open : secret -> C -> option P)
    (dumps : envelope V -> option P) (loads : P -> option (envelope V)),
  aead_ok seal open ->
  forall (note : recv V -> V) (r : keyring) (uri : string) (s : secret) (n : nonce) (p : P) (n' : nonce),
  (forall (io : bool) (s' : secret), get_box r io uri = Some s' -> s <> s') ->
  let e := {| e_payload := seal s n p; e_algo := "cryptobox"; e_serializer := Some "json"; e_key := None |} in
  (exists x : cbexc, on_event V P C open loads (Some r) uri (Encoded e) = EventIgnored (RDecryptError x)) /\
  (exists x : cbexc,
     on_invocation V P C nonce seal open dumps loads note (Some r) uri (Encoded e) n' =
     ErrorReply ENC_DECRYPT_ERROR
       (error_body V P C nonce seal dumps (Some r) ENC_DECRYPT_ERROR (Some [note (RDecryptError x)]) 
          (Some []) n')) /\
  on_result V P C open loads (Some r) uri false (Encoded e) = RejectedWith ENC_DECRYPT_ERROR /\
  on_result V P C open loads (Some r) uri true (Encoded e) = ProgressNotDelivered ENC_DECRYPT_ERROR /\
  on_error_codec V P C open loads (Some r) uri (Encoded e) = ErrEnc ENC_DECRYPT_ERROR.
Proof. exact wrong_key_never_delivered. Qed.
Print Assumptions C20_wrong_key.

(* keyring: the key stored under the longest prefix of the URI wins (character-wise prefix, as pytrie does) *)
Theorem C20_lookup_longest_prefix :
  forall (r : keyring) (uri p : string) (k : key),
  In (p, k) (kr_trie r) ->
  prefix p uri = true ->
  (forall (p' : string) (k' : key),
   In (p', k') (kr_trie r) -> prefix p' uri = true -> p' = p /\ k' = k \/ length p' < length p) ->
  lookup_key r uri = Some k.
Proof. exact lookup_longest. Qed.
Print Assumptions C20_lookup_longest_prefix.

(* keyring: no stored prefix matches -> the default key (set_key("", k) / KeyRing(default_key)), possibly none *)
Theorem C20_lookup_default :
  forall (r : keyring) (uri : string),
  (forall (p : string) (k : key), In (p, k) (kr_trie r) -> prefix p uri = false) ->
  lookup_key r uri = kr_default r.
Proof. exact lookup_default. Qed.
Print Assumptions C20_lookup_default.

(* no key for the URI: encode returns None and PUBLISH / CALL carry args and kwargs in the clear ("travels unencrypted (normal)") *)
Theorem C20_no_key_clear :
  forall (V P C nonce : Type) (seal : secret -> nonce -> P -> C) (dumps : envelope V -> option P) 
    (r : keyring) (uri : string) (a : list V) (k : kw V) (n : nonce),
  get_box r true uri = None ->
  originate V P C nonce seal dumps (Some r) uri a k n = Sent (Plain (Some a) (Some k)).
Proof. exact originate_no_key. Qed.
Print Assumptions C20_no_key_clear.

(* EVENT dispatch over the WHOLE handler list of the subscription: every active handler, in order, gets exactly the
   published (args, kwargs) *)
Theorem C20_roundtrip_publish_event_all_handlers :
  forall (V P C nonce : Type) (seal : secret -> nonce -> P -> C) (open : secret -> C -> option P)
    (dumps : envelope V -> option P) (loads : P -> option (envelope V)),
  aead_ok seal open ->
  json_ok dumps loads ->
  forall (ra rb : keyring) (topic : string) (a : list V) (k : kw V) (n : nonce) (s : secret) 
    (b : body V C) (msg_topic : option string) (hs : list ehandler),
  get_box ra true topic = Some s ->
  get_box rb false topic = Some s ->
  originate V P C nonce seal dumps (Some ra) topic a k n = Sent b ->
  on_topic msg_topic topic hs ->
  dispatch_event V P C open loads (Some rb) msg_topic b hs =
  map (fun h : ehandler => (h_id h, a, k)) (filter h_active hs).
Proof. exact dispatch_roundtrip. Qed.
Print Assumptions C20_roundtrip_publish_event_all_handlers.

(* swapped envelope, all handlers: a ciphertext sealed for [inner] arriving for topic [uri] invokes NO handler of the
   subscription — not the first and not the second or third either *)
Theorem C20_uri_binding_event_all_handlers :
  forall (V P C nonce : Type) (seal : secret -> nonce -> P -> C) (open : secret -> C -> option P)
    (dumps : envelope V -> option P) (loads : P -> option (envelope V)),
  aead_ok seal open ->
  json_ok dumps loads ->
  forall (r : keyring) (uri inner : string) (s : secret) (n : nonce) (p : P) (a : option (list V))
    (k : option (kw V)) (msg_topic : option string) (hs : list ehandler),
  inner <> uri ->
  dumps (Some inner, a, k) = Some p ->
  get_box r false uri = Some s ->
  on_topic msg_topic uri hs ->
  dispatch_event V P C open loads (Some r) msg_topic
    (Encoded {| e_payload := seal s n p; e_algo := "cryptobox"; e_serializer := Some "json"; e_key := None |})
    hs = [].
Proof. exact dispatch_uri_binding. Qed.
Print Assumptions C20_uri_binding_event_all_handlers.

(* tampered / wrong-key EVENT: NO handler of the subscription is invoked *)
Theorem C20_tamper_never_delivered_event_all_handlers :
  forall (V P C : Type) (open : secret -> C -> option P) (loads : P -> option (envelope V)) 
    (r : keyring) (uri : string) (e : encoded C) (msg_topic : option string) (hs : list ehandler),
  (forall s : secret, get_box r false uri = Some s -> open s (e_payload e) = None) ->
  on_topic msg_topic uri hs -> dispatch_event V P C open loads (Some r) msg_topic (Encoded e) hs = [].
Proof. exact dispatch_unopenable. Qed.
Print Assumptions C20_tamper_never_delivered_event_all_handlers.

(* whatever ANY handler receives from an encrypted EVENT was sealed under the receiver's secret for that handler's topic *)
Theorem C20_delivered_authentic_event_all_handlers :
  forall (V P C nonce : Type) (seal : secret -> nonce -> P -> C) (open : secret -> C -> option P)
    (loads : P -> option (envelope V)),
  aead_ok seal open ->
  forall (codec : option keyring) (msg_topic : option string) (e : encoded C) (hs : list ehandler) 
    (i : N) (a : list V) (k : kw V),
  In (i, a, k) (dispatch_event V P C open loads codec msg_topic (Encoded e) hs) ->
  exists
    (h : ehandler) (r : keyring) (s : secret) (n : nonce) (p : P) (a' : option (list V)) 
  (k' : option (kw V)),
    In h hs /\
    h_id h = i /\
    codec = Some r /\
    get_box r false (event_topic msg_topic h) = Some s /\
    e_payload e = seal s n p /\
    loads p = Some (Some (event_topic msg_topic h), a', k') /\ a = or_nil a' /\ k = or_nil k'.
Proof. exact dispatch_authentic. Qed.
Print Assumptions C20_delivered_authentic_event_all_handlers.

(* ERROR direction with the caller's registry of exception classes: a ciphertext the caller cannot open yields the explicit
   decrypt error for EVERY registry and EVERY constructor oracle — a class registered for the error URI is never built *)
Theorem C20_tamper_never_delivered_error_registered :
  forall (V P C : Type) (open : secret -> C -> option P) (loads : P -> option (envelope V)) 
    (MV : Type) (enc_note : string -> V) (construct : cls -> shape -> list V -> kw V -> ctor_result V MV) (caller_hook : hook)
    (reg : registry) (r : keyring) (error : string) (e : encoded C) (rtype req : N) 
    (meta : string -> option MV),
  (forall s : secret, get_box r true error = Some s -> open s (e_payload e) = None) ->
  exception_from_message_codec V P C open loads MV enc_note construct caller_hook reg (Some r) rtype req error 
    (Encoded e) meta = (Ok (enc_exn V MV enc_note ENC_DECRYPT_ERROR), false).
Proof. exact error_unopenable_registered. Qed.
Print Assumptions C20_tamper_never_delivered_error_registered.

(* the same for an ERROR sealed under another secret *)
Theorem C20_wrong_key_error_registered :
  forall (V P C nonce : Type) (seal : secret -> nonce -> P -> C) (open : secret -> C -> option P)
    (loads : P -> option (envelope V)),
  aead_ok seal open ->
  forall (MV : Type) (enc_note : string -> V) (construct : cls -> shape -> list V -> kw V -> ctor_result V MV) (caller_hook : hook)
    (reg : registry) (r : keyring) (error : string) (s : secret) (n : nonce) (p : P) 
    (rtype req : N) (meta : string -> option MV),
  (forall s' : secret, get_box r true error = Some s' -> s <> s') ->
  exception_from_message_codec V P C open loads MV enc_note construct caller_hook reg (Some r) rtype req error
    (Encoded {| e_payload := seal s n p; e_algo := "cryptobox"; e_serializer := Some "json"; e_key := None |})
    meta = (Ok (enc_exn V MV enc_note ENC_DECRYPT_ERROR), false).
Proof. exact error_wrong_key_registered. Qed.
Print Assumptions C20_wrong_key_error_registered.

(* an ERROR payload sealed for another URI: explicit mismatch error; the foreign args never reach a registered class *)
Theorem C20_uri_binding_error_registered :
  forall (V P C nonce : Type) (seal : secret -> nonce -> P -> C) (open : secret -> C -> option P)
    (dumps : envelope V -> option P) (loads : P -> option (envelope V)),
  aead_ok seal open ->
  json_ok dumps loads ->
  (recv V -> V) ->
  forall (MV : Type) (enc_note : string -> V) (construct : cls -> shape -> list V -> kw V -> ctor_result V MV) (caller_hook : hook)
    (reg : registry) (r : keyring) (uri inner : string) (s : secret) (n : nonce) (p : P) 
    (a : option (list V)) (k : option (kw V)) (rtype req : N) (meta : string -> option MV),
  inner <> uri ->
  dumps (Some inner, a, k) = Some p ->
  get_box r true uri = Some s ->
  exception_from_message_codec V P C open loads MV enc_note construct caller_hook reg (Some r) rtype req uri
    (Encoded {| e_payload := seal s n p; e_algo := "cryptobox"; e_serializer := Some "json"; e_key := None |})
    meta = (Ok (enc_exn V MV enc_note ENC_TRUSTED_URI_MISMATCH), false).
Proof. exact error_uri_binding_registered. Qed.
Print Assumptions C20_uri_binding_error_registered.

(* whatever _exception_from_message returns for an encrypted ERROR is one of the three explicit encryption errors, or the
   registry/constructors worked on args and kwargs sealed under the caller's own secret for exactly this error URI *)
Theorem C20_delivered_authentic_error_registered :
  forall V P C nonce : Type,
  (sk -> pk) ->
  (sk -> pk -> secret) ->
  forall (seal : secret -> nonce -> P -> C) (open : secret -> C -> option P) (loads : P -> option (envelope V)),
  aead_ok seal open ->
  forall (MV : Type) (enc_note : string -> V) (construct : cls -> shape -> list V -> kw V -> ctor_result V MV) (caller_hook : hook)
    (reg : registry) (codec : option keyring) (error : string) (e : encoded C) (rtype req : N)
    (meta : string -> option MV),
  (exists u : string,
     (u = ENC_NO_PAYLOAD_CODEC \/ u = ENC_DECRYPT_ERROR \/ u = ENC_TRUSTED_URI_MISMATCH) /\
     exception_from_message_codec V P C open loads MV enc_note construct caller_hook reg codec rtype req error 
       (Encoded e) meta = (Ok (enc_exn V MV enc_note u), false)) \/
  (exists (r : keyring) (s : secret) (n : nonce) (p : P) (a : option (list V)) (k : option (kw V)),
     codec = Some r /\
     get_box r true error = Some s /\
     e_payload e = seal s n p /\
     loads p = Some (Some error, a, k) /\
     exception_from_message_codec V P C open loads MV enc_note construct caller_hook reg codec rtype req error 
       (Encoded e) meta =
     exception_from_message construct caller_hook reg
       {| m_rtype := rtype; m_request := req; m_error := error; m_args := a; m_kwargs := k; m_meta := meta |}).
Proof. exact error_authentic_registered. Qed.
Print Assumptions C20_delivered_authentic_error_registered.

(* round trip with a registry: the caller maps exactly the (args, kwargs) the callee encoded (C18 applies from there) *)
Theorem C20_roundtrip_error_registered :
  forall (V P C nonce : Type) (seal : secret -> nonce -> P -> C) (open : secret -> C -> option P)
    (dumps : envelope V -> option P) (loads : P -> option (envelope V)),
  aead_ok seal open ->
  json_ok dumps loads ->
  forall (MV : Type) (enc_note : string -> V) (construct : cls -> shape -> list V -> kw V -> ctor_result V MV) (caller_hook : hook)
    (reg : registry) (ra rb : keyring) (error : string) (a : option (list V)) (k : option (kw V)) 
    (n : nonce) (s : secret) (b : body V C) (rtype req : N) (meta : string -> option MV),
  get_box ra true error = Some s ->
  get_box rb false error = Some s ->
  error_body V P C nonce seal dumps (Some rb) error a k n = Sent b ->
  exception_from_message_codec V P C open loads MV enc_note construct caller_hook reg (Some ra) rtype req error b meta =
  exception_from_message construct caller_hook reg
    {| m_rtype := rtype; m_request := req; m_error := error; m_args := a; m_kwargs := k; m_meta := meta |}.
Proof. exact roundtrip_error_registered. Qed.
Print Assumptions C20_roundtrip_error_registered.

(* the keyring as a mutable object: after any history of set_key calls interleaved with uses (lookups, encode, decode —
   every message a session sends or receives), the ring is the one made by the set_key calls alone *)
Theorem C20_history_uses_do_not_change_ring :
  forall (X : Type) (steps : list (kstep X)) (r : keyring),
  fst (run_history r steps) = apply_sets r (sets_of steps).
Proof. exact (@run_history_ring). Qed.
Print Assumptions C20_history_uses_do_not_change_ring.

(* ... and every use sees exactly the ring made by the set_key calls BEFORE it: no dependence on what was looked up,
   encoded or decoded earlier (a memoised lookup would break this) *)
Theorem C20_history_use_sees_current_ring :
  forall (X : Type) (pre : list (kstep X)) (f : keyring -> X) (post : list (kstep X)) (r : keyring),
  exists xs ys : list X,
    snd (run_history r (pre ++ KUse f :: post)) = (xs ++ f (apply_sets r (sets_of pre)) :: ys)%list /\
    Datatypes.length xs = uses_in pre.
Proof. exact (@run_history_use). Qed.
Print Assumptions C20_history_use_sees_current_ring.

(* after any history the entry of a prefix is the key of its LAST set_key (removed / never set: none) *)
Theorem C20_history_trie_is_last_set :
  forall (sets : list (string * option key)) (p : string),
  p <> "" -> aget String.eqb p (kr_trie (apply_sets empty_ring sets)) = binding sets p.
Proof. exact (@trie_binding). Qed.
Print Assumptions C20_history_trie_is_last_set.

(* ... and the default key is the last set_key("", k) *)
Theorem C20_history_default_is_last_set :
  forall sets : list (string * option key), kr_default (apply_sets empty_ring sets) = binding sets "".
Proof. exact (@default_binding). Qed.
Print Assumptions C20_history_default_is_last_set.

(* lookup after ANY history = longest-prefix lookup over the CURRENT bindings (add, replace, remove, shadowing prefixes) *)
Theorem C20_lookup_after_history :
  forall (sets : list (string * option key)) (uri p : string) (k : key),
  p <> "" ->
  binding sets p = Some k ->
  prefix p uri = true ->
  (forall p' : string,
   p' <> "" -> p' <> p -> binding sets p' <> None -> prefix p' uri = true -> length p' < length p) ->
  lookup_key (apply_sets empty_ring sets) uri = Some k.
Proof. exact (@lookup_history). Qed.
Print Assumptions C20_lookup_after_history.

(* ... falling back to the current default key when no current prefix matches *)
Theorem C20_lookup_after_history_default :
  forall (sets : list (string * option key)) (uri : string),
  (forall p : string, p <> "" -> binding sets p <> None -> prefix p uri = false) ->
  lookup_key (apply_sets empty_ring sets) uri = binding sets "".
Proof. exact (@lookup_history_default). Qed.
Print Assumptions C20_lookup_after_history_default.

(* lifted to histories: once a key applies to the URI, PUBLISH / CALL carry ciphertext only — whatever was sent for the
   same URI while no key (or another key) applied *)
Theorem C20_no_clear_on_wire_after_history :
  forall (V P C nonce : Type) (seal : secret -> nonce -> P -> C) (dumps : envelope V -> option P)
    (sets : list (string * option key)) (uri : string) (k : key) (s : secret) (a : list V) 
    (kw0 : kw V) (n : nonce) (b : body V C),
  current_key sets uri k ->
  originator_box k = Some s ->
  originate V P C nonce seal dumps (Some (apply_sets empty_ring sets)) uri a kw0 n = Sent b ->
  exists p : P,
    dumps (Some uri, Some a, Some kw0) = Some p /\
    b = Encoded {| e_payload := seal s n p; e_algo := "cryptobox"; e_serializer := Some "json"; e_key := None |}.
Proof. exact (@no_clear_after_history). Qed.
Print Assumptions C20_no_clear_on_wire_after_history.

(* lifted: exact recovery by all handlers between two rings with arbitrary histories whose CURRENT keys pair up *)
Theorem C20_roundtrip_after_histories :
  forall (V P C nonce : Type) (seal : secret -> nonce -> P -> C) (open : secret -> C -> option P)
    (dumps : envelope V -> option P) (loads : P -> option (envelope V)),
  aead_ok seal open ->
  json_ok dumps loads ->
  forall (setsA setsB : list (string * option key)) (topic : string) (kA kB : key) (s : secret) 
    (a : list V) (kw0 : kw V) (n : nonce) (b : body V C) (msg_topic : option string) 
    (hs : list ehandler),
  current_key setsA topic kA ->
  originator_box kA = Some s ->
  current_key setsB topic kB ->
  responder_box kB = Some s ->
  originate V P C nonce seal dumps (Some (apply_sets empty_ring setsA)) topic a kw0 n = Sent b ->
  on_topic msg_topic topic hs ->
  dispatch_event V P C open loads (Some (apply_sets empty_ring setsB)) msg_topic b hs =
  map (fun h : ehandler => (h_id h, a, kw0)) (filter h_active hs).
Proof. exact (@roundtrip_after_histories). Qed.
Print Assumptions C20_roundtrip_after_histories.

(* lifted: a ciphertext sealed under a key that has since been replaced or removed (any secret other than the current
   key's) is rejected in every direction by the CURRENT ring *)
Theorem C20_wrong_key_after_history :
  forall (V P C nonce : Type) (seal : secret -> nonce -> P -> C) (open : secret -> C -> option P)
    (dumps : envelope V -> option P) (loads : P -> option (envelope V)),
  aead_ok seal open ->
  forall (note : recv V -> V) (sets : list (string * option key)) (uri : string) (k : key) 
    (s : secret) (n : nonce) (p : P) (n' : nonce) (msg_topic : option string) (hs : list ehandler),
  current_key sets uri k ->
  (forall s' : secret, originator_box k = Some s' \/ responder_box k = Some s' -> s <> s') ->
  on_topic msg_topic uri hs ->
  let r := apply_sets empty_ring sets in
  let e := {| e_payload := seal s n p; e_algo := "cryptobox"; e_serializer := Some "json"; e_key := None |} in
  dispatch_event V P C open loads (Some r) msg_topic (Encoded e) hs = [] /\
  (exists x : cbexc,
     on_invocation V P C nonce seal open dumps loads note (Some r) uri (Encoded e) n' =
     ErrorReply ENC_DECRYPT_ERROR
       (error_body V P C nonce seal dumps (Some r) ENC_DECRYPT_ERROR (Some [note (RDecryptError x)]) 
          (Some []) n')) /\
  on_result V P C open loads (Some r) uri false (Encoded e) = RejectedWith ENC_DECRYPT_ERROR /\
  on_error_codec V P C open loads (Some r) uri (Encoded e) = ErrEnc ENC_DECRYPT_ERROR.
Proof. exact (@stale_key_rejected). Qed.
Print Assumptions C20_wrong_key_after_history.

(* ---------------------------------------------------------------- non-vacuity: a toy authenticated cipher *)
(* ciphertext = the sealing secret, the nonce and the plaintext in the open, or garbage; it satisfies the assumed
   laws, so the theorems above are not vacuous; the same instance runs in the correspondence (Model/CryptoboxRun.v) *)
Inductive toyC := Sealed (s : secret) (n : N) (p : envelope N) | Garbage.
Definition toy_seal (s : secret) (n : N) (p : envelope N) : toyC := Sealed s n p.
Definition toy_open (s : secret) (c : toyC) : option (envelope N) :=
  match c with Sealed s' _ p => if N.eqb s s' then Some p else None | Garbage => None end.

Example C20_toy_aead_ok : aead_ok toy_seal toy_open.
Proof.
  split; [|split].
  - intros s n p. simpl. rewrite N.eqb_refl. reflexivity.
  - intros s s' n p H. simpl. destruct (N.eqb s' s) eqn:E; [apply N.eqb_eq in E; congruence | reflexivity].
  - intros s c p H. destruct c as [s' n q|]; simpl in H; [|discriminate].
    destruct (N.eqb s s') eqn:E; [|discriminate]. apply N.eqb_eq in E. inversion H. subst. exists n. reflexivity.
Qed.
Example C20_toy_json_ok : json_ok (V:=N) (fun e => Some e) (fun p => Some p).
Proof. intros e p H. inversion H. reflexivity. Qed.

Open Scope N_scope.
(* keyring with a default key and two nested prefixes; secrets 11 / 22 / 33 *)
Definition ex_ring : keyring :=
  set_key (set_key (set_key empty_ring "" (Some (mkKey (Some 11) (Some 11))))
                   "com.myapp." (Some (mkKey (Some 22) (Some 22))))
          "com.myapp.secret." (Some (mkKey (Some 33) None)).
Example C20_witness_lookup :
  get_box ex_ring true "com.myapp.secret.proc" = Some 33 /\ get_box ex_ring false "com.myapp.secret.proc" = None /\
  get_box ex_ring true "com.myapp.proc" = Some 22 /\ get_box ex_ring true "com.other" = Some 11 /\
  get_box (set_key ex_ring "" None) true "com.other" = None.
Proof. vm_compute. repeat split; reflexivity. Qed.

(* one call end to end, then the same ciphertext under a swapped URI, tampered, and under a wrong key *)
Example C20_witness_directions :
  let orig := originate N (envelope N) toyC N toy_seal (fun e => Some e) in
  let inv := on_invocation N (envelope N) toyC N toy_seal toy_open (fun e => Some e) (fun p => Some p) (fun _ => 0) in
  let ring2 := set_key empty_ring "" (Some (mkKey (Some 44) (Some 44))) in
  exists b, orig (Some ex_ring) "com.myapp.proc" [1; 2] [("k", 3)] 7 = Sent b /\
    b = Encoded (mkEnc (Sealed 22 7 (Some "com.myapp.proc", Some [1; 2], Some [("k", 3)])) "cryptobox" (Some "json") None) /\
    inv (Some ex_ring) "com.myapp.proc" b 8 = EndpointInvoked [1; 2] [("k", 3)] true /\
    (exists s, inv (Some ex_ring) "com.myapp.proc2" b 8 = ErrorReply ENC_TRUSTED_URI_MISMATCH s) /\
    (exists s, inv (Some ex_ring) "com.myapp.proc" (Encoded (mkEnc Garbage "cryptobox" (Some "json") None)) 8
               = ErrorReply ENC_DECRYPT_ERROR s) /\
    (exists s, inv (Some ring2) "com.myapp.proc" b 8 = ErrorReply ENC_DECRYPT_ERROR s) /\
    (exists s, inv None "com.myapp.proc" b 8 = ErrorReply ENC_NO_PAYLOAD_CODEC s).
Proof. vm_compute. eexists. repeat split; eexists; reflexivity. Qed.

(* the ERROR direction with a class (10, accepting anything) registered at the caller for the error URI: authentic
   error -> that class built from the decrypted args; garbage / swapped URI -> explicit errors, class not built *)
Example C20_witness_error_registered :
  let reg := fst (define (fun _ => true) init_registry (DefExplicit 10 "com.myapp.error1")) in
  let reg2 := fst (define (fun _ => true) reg (DefExplicit 10 "com.myapp.error2")) in
  let construct := fun (c : cls) (_ : shape) (a : list N) (k : kw N) => CtorOk (MV:=N) (mkCexn c None a (Some k) true [] []) in
  let efm := exception_from_message_codec N (envelope N) toyC toy_open (fun p => Some p) N (fun _ => 0) construct HookRaises in
  let sealed := Encoded (mkEnc (Sealed 22 7 (Some "com.myapp.error1", Some [1; 2], Some [("k", 3)])) "cryptobox" (Some "json") None) in
  fst (efm reg (Some ex_ring) 48 1 "com.myapp.error1" sealed no_meta) = Ok (mkCexn 10 None [1; 2] (Some [("k", 3)]) true [] []) /\
  fst (efm reg (Some ex_ring) 48 1 "com.myapp.error1" (Encoded (mkEnc Garbage "cryptobox" (Some "json") None)) no_meta)
    = Ok (enc_exn N N (fun _ => 0) ENC_DECRYPT_ERROR) /\
  fst (efm reg2 (Some ex_ring) 48 1 "com.myapp.error2" sealed no_meta) = Ok (enc_exn N N (fun _ => 0) ENC_TRUSTED_URI_MISMATCH).
Proof. vm_compute. repeat split; reflexivity. Qed.

(* three handlers on one subscription (the second inactive): all active ones invoked in order; with a swapped
   envelope or garbage none of them *)
Example C20_witness_event_handlers :
  let hs := [mkHandler 1 true "com.myapp.topic"; mkHandler 2 false "com.myapp.topic"; mkHandler 3 true "com.myapp.topic"] in
  let disp := dispatch_event N (envelope N) toyC toy_open (fun p => Some p) (Some ex_ring) None in
  let sealed t := Encoded (mkEnc (Sealed 22 7 (Some t, Some [1; 2], Some [("k", 3)])) "cryptobox" (Some "json") None) in
  disp (sealed "com.myapp.topic") hs = [(1, [1; 2], [("k", 3)]); (3, [1; 2], [("k", 3)])] /\
  disp (sealed "com.myapp.other") hs = [] /\
  disp (Encoded (mkEnc Garbage "cryptobox" (Some "json") None)) hs = [].
Proof. vm_compute. repeat split; reflexivity. Qed.

(* a history: publish while no key applies (clear), install a key, publish the SAME topic again (must be ciphertext),
   replace the key (new secret), remove it (clear again); and a subscriber that replaced its key rejects the old one *)
Example C20_witness_history :
  let pubt := fun r => originate N (envelope N) toyC N toy_seal (fun e => Some e) (Some r) "com.myapp.topic" [1] [] 7 in
  let k22 := mkKey (Some 22) (Some 22) in let k33 := mkKey (Some 33) (Some 33) in
  snd (run_history empty_ring [KUse pubt; KSet "com.myapp." (Some k22); KUse pubt; KSet "com.myapp." (Some k33); KUse pubt;
                               KSet "com.myapp." None; KUse pubt])
  = [Sent (Plain (Some [1]) (Some []));
     Sent (Encoded (mkEnc (Sealed 22 7 (Some "com.myapp.topic", Some [1], Some [])) "cryptobox" (Some "json") None));
     Sent (Encoded (mkEnc (Sealed 33 7 (Some "com.myapp.topic", Some [1], Some [])) "cryptobox" (Some "json") None));
     Sent (Plain (Some [1]) (Some []))] /\
  dispatch_event N (envelope N) toyC toy_open (fun p => Some p)
      (Some (apply_sets empty_ring [("com.myapp.", Some k22); ("com.myapp.", Some k33)])) None
      (Encoded (mkEnc (Sealed 22 7 (Some "com.myapp.topic", Some [1], Some [])) "cryptobox" (Some "json") None))
      [mkHandler 1 true "com.myapp.topic"] = [].
Proof. vm_compute. split; reflexivity. Qed.
