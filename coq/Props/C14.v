(* C14 -- components reconnect within their retry budget and finish exactly once.
   Property statements only; proofs live in Proofs/ComponentProofs.v, the model in Model/Component.v.

   Reading guide.  `run (init c ts) evs = (s, tr)`: the component with configuration c and transports ts is driven
   by ANY sequence evs of callbacks (start / delay timer / stop / connect ok / connect failure / session open, join,
   leave, disconnect / transport lost / main returns, raises), each paired with an arbitrary answer of
   random.normalvariate; tr is everything it did.  `start_count evs <= 1`: start() is called at most once.
   `Forall tcfg_wf ts`: every transport has max_retries >= -1 and max_retry_delay >= 0.  The outcome alphabet of
   the property ({refused, handshake fails, ABORT, joined then lost, ...} x stop() at every phase) is a special
   case: C14_outcome_scripts_are_runs.

   Statements the real code (and therefore the faithful model) violates are stated at full strength and proved
   false (`_refuted`, with the witness run), next to the part that does hold (`_partial`).  The model follows
   /repo after the repairs 447a23e2, 7f0eda19, 550819ee. *)
From Coq Require Import List NArith ZArith QArith Bool.
From AV Require Import Model.Component Model.ComponentRun Proofs.ComponentProofs Gen.ComponentConsts.
Import ListNotations.
Close Scope Q_scope.

(* ---- round robin: every transport_check picks the cyclically first transport, counted from where the previous
   check stopped (one past its choice; the first check starts at 0), whose can_reconnect() is true ... *)
Theorem C14_round_robin : forall c ts evs s tr,
  Forall tcfg_wf ts -> start_count evs <= 1 -> run (init c ts) evs = (s, tr) ->
  (forall cur elig i d, In (OSchedule cur elig i d) tr -> cyc_first elig cur = Some i) /\
  chain_cursor (length ts) 0 tr.
Proof.
  intros c ts evs s tr W S R. destruct (inv_rr ts s tr (run_invariant ts W c evs s tr S R)) as [A B].
  split; auto. intros cur elig i d H. apply (A cur elig i d H).
Qed.
Print Assumptions C14_round_robin.

(* ... and can_reconnect() is exactly "has attempts left" in the words of the property: not marked failed, and fewer
   than max_retries+1 attempts since the transport's last successful join (unless max_retries = -1) -- a function
   of the observable history *)
Theorem C14_eligibility : forall c ts evs s tr i t,
  Forall tcfg_wf ts -> start_count evs <= 1 -> run (init c ts) evs = (s, tr) -> nth_error (trs s) i = Some t ->
  can_reconnect t = prop_has_left (tc t) tr i.
Proof. intros c ts evs s tr i t W S R. apply (inv_eligibility ts s tr i t (run_invariant ts W c evs s tr S R)). Qed.
Print Assumptions C14_eligibility.

(* ---- budget: at most max_retries+1 attempts on a transport since the last join of a session on it
   (with or without main=: since 550819ee the join always resets the counters) *)
Theorem C14_budget : forall c ts evs s tr i tcf,
  Forall tcfg_wf ts -> start_count evs <= 1 -> run (init c ts) evs = (s, tr) ->
  nth_error ts i = Some tcf -> (max_retries tcf <> -1)%Z ->
  (Z.of_N (since_join tr i) <= max_retries tcf + 1)%Z.
Proof. intros c ts evs s tr i tcf W S R. apply (inv_budget ts W s tr i tcf (run_invariant ts W c evs s tr S R)). Qed.
Print Assumptions C14_budget.

(* ---- no attempt on a transport after an error classified as fatal marked it failed *)
Theorem C14_fatal_stops : forall c ts evs s tr i tcf,
  Forall tcfg_wf ts -> start_count evs <= 1 -> run (init c ts) evs = (s, tr) -> nth_error ts i = Some tcf ->
  snd (after_mark tr i) = 0%N.
Proof. intros c ts evs s tr i tcf W S R. apply (inv_fatal ts W s tr i tcf (run_invariant ts W c evs s tr S R)). Qed.
Print Assumptions C14_fatal_stops.

(* ---- the first attempt on every transport is made with delay 0 *)
Theorem C14_first_immediate : forall c ts evs s tr i tcf,
  Forall tcfg_wf ts -> start_count evs <= 1 -> run (init c ts) evs = (s, tr) -> nth_error ts i = Some tcf ->
  snd (first_ok tr i) = true.
Proof. intros c ts evs s tr i tcf W S R. apply (inv_first ts W s tr i tcf (run_invariant ts W c evs s tr S R)). Qed.
Print Assumptions C14_first_immediate.

(* ---- every wait before an attempt is at most the transport's max_retry_delay, for every normalvariate sample *)
Theorem C14_delay_capped : forall c ts evs s tr i d,
  Forall tcfg_wf ts -> start_count evs <= 1 -> run (init c ts) evs = (s, tr) -> In (OAttempt i d) tr ->
  exists tcf, nth_error ts i = Some tcf /\ (d <= max_delay tcf)%Q.
Proof. intros c ts evs s tr i d W S R. apply (inv_cap ts s tr i d (run_invariant ts W c evs s tr S R)). Qed.
Print Assumptions C14_delay_capped.

Theorem C14_next_delay_capped : forall t o t' d u,
  (0 <= max_delay (tc t))%Q -> next_delay t o = NdOk t' d u -> (d <= max_delay (tc t))%Q.
Proof. exact next_delay_capped. Qed.
Print Assumptions C14_next_delay_capped.

(* ---- progress.  Full strength: whenever a connection fails and some transport can still reconnect, a new
   attempt gets scheduled.  False on Twisted when the jittered delay comes out negative. *)
Definition progress_claim : Prop :=
  forall s i e o s' ob u, cf_fail s i e o = (s', ob, u) -> any_can (after_failure s e) = true ->
  exists j d, delay_f s' = Some (j, d).

Definition tx1 : config := {| fwk := Tx; has_main := false; fatal := None; listeners := true |}.
Definition t_r3 : tcfg := {| max_retries := 3; max_delay := 4; init_delay := 3 # 2; growth := 3 # 2; jitter := 1 |}.
(* one refused attempt made, its failure about to be handled *)
Definition s_after_first_attempt : comp :=
  fst (run (init tx1 [t_r3]) [(EvStart, Zs 0); (EvTimer, Zs 0)]).

Theorem C14_progress_refuted : ~ progress_claim.
Proof.
  intros H.
  destruct (cf_fail s_after_first_attempt 0 ERefused (Raw ((-1) # 1))) as [[s' ob] u] eqn:E.
  destruct (H _ _ _ _ _ _ _ E eq_refl) as (j & d & D).
  vm_compute in E. inversion E; subst. discriminate.
Qed.
Print Assumptions C14_progress_refuted.

(* what holds: the attempt follows (the delay future is armed, and when it fires _connect_transport is called for
   the chosen transport) -- unless this is Twisted and the delay is negative: then AssertionError escapes *)
Theorem C14_progress_partial : forall s i e o s' ob u,
  cf_fail s i e o = (s', ob, u) -> any_can (after_failure s e) = true ->
  exists cur elig j d, In (OSchedule cur elig j d) ob /\
    ((delay_f s' = Some (j, d) /\ forall o', exists s'', step s' EvTimer o' = (s'', [OAttempt j d], false)) \/
     (fwk (cfg s) = Tx /\ qneg d = true /\ In (OEscaped EAssert) ob)).
Proof. exact cf_fail_progress. Qed.
Print Assumptions C14_progress_partial.

(* without main= as well, a join gives the transport its budget back (repaired by 550819ee; this run used to end
   with "exhausted"): max_retries = 0, joined then lost -> a second attempt, at once *)
Definition nomain : config := {| fwk := Aio; has_main := false; fatal := None; listeners := true |}.
Definition t_r0 : tcfg := {| max_retries := 0; max_delay := 4; init_delay := 3 # 2; growth := 3 # 2; jitter := 0 |}.

Example C14_join_resets_budget_without_main :
  let tr := snd (run (init nomain [t_r0]) (map (fun e => (e, Zs 0)) (EvStart :: EvTimer :: play Aio 0 JoinedLost NoStop ++ [EvTimer]))) in
  done_count tr = 0 /\ attempts_of tr = [(0, 0%Q); (0, 0%Q)] /\ prop_has_left t_r0 tr 0 = false.
Proof. vm_compute. repeat split; reflexivity. Qed.

(* ---- the start() future.  What holds: it fires at most once in every run with one start() ... *)
Theorem C14_done_once_partial : forall c ts evs s tr,
  Forall tcfg_wf ts -> start_count evs <= 1 -> run (init c ts) evs = (s, tr) -> done_count tr <= 1.
Proof. intros c ts evs s tr W S R. apply (inv_done_once ts s tr (run_invariant ts W c evs s tr S R)). Qed.
Print Assumptions C14_done_once_partial.

(* ... full strength (1): "with an error when main fails".  False: main_error rejects the per-connection future,
   which is handled like any lost connection -- the component reconnects (at once: the join reset the counters) *)
Definition main_fails_claim : Prop :=
  forall c ts evs s tr i, Forall tcfg_wf ts -> start_count evs <= 1 -> run (init c ts) evs = (s, tr) ->
  In (OFail i EMain) tr -> In (ODone (Some EMain)) tr.

Definition withmain : config := {| fwk := Tx; has_main := true; fatal := None; listeners := true |}.
Definition wf_r3 : Forall tcfg_wf [t_r3].
Proof. constructor; [|constructor]. split; vm_compute; discriminate. Qed.

Definition main_raises_run : list (event * oracle) :=
  map (fun e => (e, Zs 0)) (EvStart :: EvTimer :: play Tx 0 MainRaises NoStop ++ [EvTimer]).

Theorem C14_done_main_raises_refuted : ~ main_fails_claim.
Proof.
  intros H.
  destruct (run (init withmain [t_r3]) main_raises_run) as [s tr] eqn:R.
  assert (X := H withmain [t_r3] main_raises_run s tr 0 wf_r3 (le_n 1) R).
  vm_compute in R. inversion R; subst. simpl in X.
  assert (Y : OFail 0 EMain = OFail 0 EMain) by reflexivity.
  repeat (destruct X as [X|X]; [try discriminate | ]); try (intuition discriminate).
Qed.
Print Assumptions C14_done_main_raises_refuted.

(* in that run the start() future has not fired at all, and a second attempt on transport 0 was made at once *)
Example C14_main_raises_run_reconnects :
  let tr := snd (run (init withmain [t_r3]) main_raises_run) in
  done_count tr = 0 /\ attempts_of tr = [(0, 0%Q); (0, 0%Q)].
Proof. vm_compute. split; reflexivity. Qed.

(* ... full strength (2): "successfully when stop() is called".  False: stop() with an attached session only asks
   the session to leave; if the transport is lost before GOODBYE completes the component reconnects and may end
   with "exhausted". *)
Definition stop_succeeds_claim : Prop :=
  forall c ts evs s tr pre post r, Forall tcfg_wf ts -> start_count evs <= 1 -> run (init c ts) evs = (s, tr) ->
  tr = pre ++ OStop None :: post -> In (ODone r) post -> r = None.

Definition stop_lost_run : list (event * oracle) :=
  map (fun e => (e, Zs 0)) (EvStart :: EvTimer :: play Aio 0 JoinedLost StopJoined ++ EvTimer :: play Aio 1 (Refused ERefused) NoStop).

Lemma wf_r0 : Forall tcfg_wf [t_r0].
Proof. constructor; [|constructor]. split; vm_compute; discriminate. Qed.

Theorem C14_done_after_stop_refuted : ~ stop_succeeds_claim.
Proof.
  intros H.
  destruct (run (init nomain [t_r0]) stop_lost_run) as [s tr] eqn:R.
  assert (X := fun pre post r => H nomain [t_r0] stop_lost_run s tr pre post r wf_r0 (le_n 1) R).
  vm_compute in R. inversion R; subst; clear R.
  (* the trace: 12 observations, OStop None, then OFail, a new schedule and attempt, ..., ODone (Some EExhausted) *)
  specialize (X (firstn 12 (snd (run (init nomain [t_r0]) stop_lost_run)))
                (skipn 13 (snd (run (init nomain [t_r0]) stop_lost_run))) (Some EExhausted)).
  assert (Some EExhausted = None) by (apply X; vm_compute; intuition). discriminate.
Qed.
Print Assumptions C14_done_after_stop_refuted.

(* ... full strength (3): nothing escapes.  False: stop() while a connection is being established completes the
   future, the loop goes on, and the next completion finds self._done_f = None -> AttributeError (and connection
   attempts after completion). *)
Definition nothing_escapes_claim : Prop :=
  forall c ts evs s tr e, Forall tcfg_wf ts -> start_count evs <= 1 -> run (init c ts) evs = (s, tr) ->
  ~ In (OEscaped e) tr.

Theorem C14_stop_while_connecting_refuted :
  exists evs s tr, start_count evs = 1 /\ run (init tx1 [t_r0]) evs = (s, tr) /\
    done_count tr = 1 /\ In (OEscaped EAttr) tr.
Proof.
  exists (map (fun e => (e, Zs 0)) (EvStart :: EvTimer :: play Tx 0 (Refused ERefused) StopConnecting)).
  eexists. eexists. split; [reflexivity|]. split; [vm_compute; reflexivity|]. split; [reflexivity|]. simpl. intuition.
Qed.
Print Assumptions C14_stop_while_connecting_refuted.

Theorem C14_nothing_escapes_refuted : ~ nothing_escapes_claim.
Proof.
  intros H. destruct C14_stop_while_connecting_refuted as (evs & s & tr & S & R & _ & I).
  apply (H tx1 [t_r0] evs s tr EAttr wf_r0); auto. rewrite S. auto.
Qed.
Print Assumptions C14_nothing_escapes_refuted.

(* what holds: the only exceptions that can leave a callback are that AttributeError and the reactor's
   AssertionError for a negative delay (C14_progress_refuted); in particular the per-connection future is never
   completed twice (AlreadyCalledError / InvalidStateError, repaired by 447a23e2) ... *)
Theorem C14_escapes_partial : forall c ts evs s tr e,
  run (init c ts) evs = (s, tr) -> In (OEscaped e) tr -> e = EAttr \/ e = EAssert.
Proof. intros c ts evs s tr e. apply run_escapes. Qed.
Print Assumptions C14_escapes_partial.

(* ... and stop() never raises, whenever it is called (before start(), after completion: repaired by 7f0eda19) *)
Theorem C14_stop_never_raises : forall c ts evs s tr r,
  run (init c ts) evs = (s, tr) -> In (OStop r) tr -> r = None.
Proof. intros c ts evs s tr r. apply run_stops. Qed.
Print Assumptions C14_stop_never_raises.

(* main() failing after the connection was already lost: nothing escapes any more, the session is disconnected *)
Example C14_lost_then_main_raises :
  let tr := snd (run (init withmain [t_r3]) (map (fun e => (e, Zs 0)) (EvStart :: EvTimer :: play Tx 0 JoinedLostMainRaises NoStop))) in
  escaped_of tr = [] /\ In (ODisconnectCalled 0) tr.
Proof. vm_compute. split; [reflexivity|intuition]. Qed.

(* ---- listeners registered on the component see every event of every session the component creates *)
Theorem C14_listeners_bubble : forall c ts evs s tr,
  listeners c = true -> run (init c ts) evs = (s, tr) -> bubbled tr.
Proof. intros c ts evs s tr L R. apply (run_bubbled evs (init c ts) s tr); auto. Qed.
Print Assumptions C14_listeners_bubble.

(* ---- the outcome alphabet: a script "start(); outcome_1 [+ stop() at some phase]; stop(); outcome_2; ..." played
   with a queue of samples is a run with exactly one start(), so all of the above applies to every such script *)
Theorem C14_outcome_scripts_are_runs : forall c ts its q s0 ob0 q0 s1 ob1 q1,
  run_q (init c ts) [EvStart] q = (s0, ob0, q0) -> run_items s0 its q0 = (s1, ob1, q1) ->
  exists evs, run (init c ts) evs = (s1, ob0 ++ ob1) /\ start_count evs = 1.
Proof. exact script_is_run. Qed.
Print Assumptions C14_outcome_scripts_are_runs.

(* ---- the defaults of _Transport.__init__ (regenerated from the source) are a configuration the theorems cover *)
Theorem C14_defaults_wf : tcfg_wf default_tcfg.
Proof. split; vm_compute; discriminate. Qed.
Print Assumptions C14_defaults_wf.

(* ---- non-vacuity: two transports, max_retries = 1; refused, refused, joined-then-lost, refused x4:
   attempts go 0,1,0 (joins: budget of transport 0 is back), 1, then 0 at once and 0 again after 9/4 s, then
   "exhausted"; waits 0, 0, 81/32, 63/32, 0, 9/4 *)
Definition t_r1 : tcfg := {| max_retries := 1; max_delay := 4; init_delay := 3 # 2; growth := 3 # 2; jitter := 1 # 8 |}.
Example C14_witness_two_transports :
  let o := comp_model tx1 [t_r1; t_r1]
             [Play (Refused ERefused) NoStop; Play (Refused ERefused) NoStop; Play JoinedLost NoStop;
              Play (Refused ERefused) NoStop; Play (Refused ERefused) NoStop; Play (Refused ERefused) NoStop;
              Play (Refused ERefused) NoStop] [Zs 1; Zs (-1)] in
  list_eqb attempt_eqb (ob_attempts o)
     [(0, 0%Q); (1, 0%Q); (0, (81 # 32)%Q); (1, (63 # 32)%Q); (0, 0%Q); (0, (9 # 4)%Q)] = true /\
  ob_dones o = [(6, Some EExhausted)].
Proof. vm_compute. split; reflexivity. Qed.

(* with main the join resets the budget: transport 0 is tried again (immediately) after the session is lost *)
Example C14_witness_reset_with_main :
  let o := comp_model withmain [t_r1]
             [Play (Refused ERefused) NoStop; Play JoinedLost NoStop; Play (Refused ERefused) NoStop;
              Play (Refused ERefused) NoStop] [Zs 0; Zs 0] in
  list_eqb attempt_eqb (ob_attempts o) [(0, 0%Q); (0, (9 # 4)%Q); (0, 0%Q); (0, (9 # 4)%Q)] = true /\
  ob_dones o = [(4, Some EExhausted)] /\
  ob_sessions o = [[SConnect; SJoin; SReady; SLeave 2; SDisconnect false]].
Proof. vm_compute. repeat split; reflexivity. Qed.

(* a huge sample is capped, a fatal error retires the transport, stop() during a delay completes the future *)
Example C14_witness_cap_fatal_stop :
  let cfgf := {| fwk := Aio; has_main := false; fatal := Some [EApp 4]; listeners := true |} in
  let o := comp_model cfgf [t_r3; t_r3]
             [Play (Aborted 4) NoStop; Play (Refused ERefused) NoStop; Play (Refused ERefused) NoStop; StopNow]
             [Zs 1000] in
  list_eqb attempt_eqb (ob_attempts o) [(0, 0%Q); (1, 0%Q); (1, 4%Q)] = true /\
  ob_dones o = [(3, None)] /\ ob_stops o = [None] /\
  ob_counters o = [(1, 0, 0, true); (2, 0, 4, false)]%N.
Proof. vm_compute. repeat split; reflexivity. Qed.
