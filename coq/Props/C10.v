(* C10 -- every invocation gets exactly one terminal reply (callee side of ApplicationSession).
   Property statements only; model in Model/SessionInv.v, proofs and witness histories in Proofs/SessionInvProofs.v.
   [classify] is the transport's send() (what it does with each message), [ecls] the exception registry, [fl] the
   txaio flavour; every theorem quantifies over all of them and -- unless it is about one step -- over ALL histories
   (register/unregister, INVOCATION with any endpoint behaviour, INTERRUPT, later resolve/fail/progress by user
   code, loop turns, transport loss). *)
From Coq Require Import NArith List Bool.
From AV Require Import Model.SessionInv Proofs.SessionInvProofs.
Import ListNotations.
Open Scope N_scope.

(* While the transport stays up and its send() classifies correctly (un-serializable -> SerializationError,
   oversized -> PayloadExceededError, otherwise sent): after any history, for every request id,
     #terminal replies + [invocation still being processed] = #INVOCATIONs accepted for an active registration.
   So never more replies than invocations, and exactly one each as soon as nothing is in progress -- for every
   endpoint outcome (value / None / CallResult / un-serializable / oversized, raised errors, later results, INTERRUPT). *)
Theorem C10_one_terminal : forall classify ecls fl ops s outs,
  classify_ok classify -> stays_up ops ->
  run classify ecls fl init ops = (s, outs) ->
  forall req, (terminals req outs + active req s = accepted req outs)%nat.
Proof. exact one_terminal. Qed.
Print Assumptions C10_one_terminal.

(* Whatever the transport does (misclassification, loss): never two terminal replies for one invocation. *)
Theorem C10_never_two_terminals : forall classify ecls fl ops s outs,
  run classify ecls fl init ops = (s, outs) ->
  forall req, (terminals req outs + active req s <= accepted req outs)%nat.
Proof. exact never_two_terminals. Qed.
Print Assumptions C10_never_two_terminals.

(* --- the real transports' send() classify correctly, so C10_one_terminal applies to each of them --- *)
Theorem classify_ok_ws : classify_ok ws_send.
Proof. exact classify_ok_ws. Qed.
Print Assumptions classify_ok_ws.
Theorem classify_ok_rs_tx : classify_ok rs_tx_send.
Proof. exact classify_ok_rs_tx. Qed.
Print Assumptions classify_ok_rs_tx.
Theorem classify_ok_rs_aio : classify_ok rs_aio_send.
Proof. exact classify_ok_rs_aio. Qed.
Print Assumptions classify_ok_rs_aio.

(* ... and the size boundary is exact: with the serializer's length [msize] and acceptance [munser] as oracles and
   the configured / negotiated [limit], a serializable message of length <= limit is SENT by each real send()
   (limit itself included), a longer one raises PayloadExceededError.  (ws: limit = maxMessagePayloadSize, 0 = none;
   RawSocket: the peer's announced maximum, always > 0.)  ws_send / rs_tx_send / rs_aio_send above are these
   functions at the abstract sizes 1 (fits) and 2 (oversized) against the limit 1. *)
Theorem classify_ok_ws_boundary : forall msize munser limit m, 0 < limit ->
  ws_send_at msize munser limit m = if munser m then SerErr else if msize m <=? limit then Sent else Exceeded.
Proof. exact ws_boundary. Qed.
Print Assumptions classify_ok_ws_boundary.
Theorem classify_ok_ws_unlimited : forall msize munser m,
  ws_send_at msize munser 0 m = if munser m then SerErr else Sent.
Proof. exact ws_no_limit. Qed.
Print Assumptions classify_ok_ws_unlimited.
Theorem classify_ok_rs_tx_boundary : forall msize munser limit m, 0 < limit ->
  rs_tx_send_at msize munser limit m = if munser m then SerErr else if msize m <=? limit then Sent else Exceeded.
Proof. exact rs_tx_boundary. Qed.
Print Assumptions classify_ok_rs_tx_boundary.
Theorem classify_ok_rs_aio_boundary : forall msize munser limit m,
  rs_aio_send_at msize munser limit m = if munser m then SerErr else if msize m <=? limit then Sent else Exceeded.
Proof. exact rs_aio_boundary. Qed.
Print Assumptions classify_ok_rs_aio_boundary.

(* The hypothesis classify_ok is needed: the two RawSocket send() as they were before /repo 4bb5bcbc / ad1f12fb
   (raw serializer exception; ValueError from sendString) lose the terminal reply. *)
Theorem C10_classify_ok_needed_unserializable : forall ser_exn ecls,
  ~ classify_ok (leaky_unser_send ser_exn) /\ stays_up h_unser_result /\
  exists s, run (leaky_unser_send ser_exn) ecls Tx init h_unser_result =
              (s, [OAccepted 0 1 100 (V 0) C7 (None) false; OCalled 0 1 100 (V 0) None; ORaised InCallback ser_exn])
    /\ active 1 s = 0%nat.
Proof. exact classify_ok_needed_unserializable. Qed.
Print Assumptions C10_classify_ok_needed_unserializable.
Theorem C10_classify_ok_needed_oversized : forall ecls,
  ~ classify_ok leaky_big_send /\ stays_up h_big_error /\
  exists s, run leaky_big_send ecls Aio init h_big_error =
              (s, [OAccepted 0 1 100 (V 0) C7 (None) false; OCalled 0 1 100 (V 0) None; ORaised InCallback XValueError])
    /\ active 1 s = 0%nat.
Proof. exact classify_ok_needed_oversized. Qed.
Print Assumptions C10_classify_ok_needed_oversized.

(* Progressive results only when the caller asked: every progressive YIELD is preceded by the acceptance of an
   INVOCATION with the same request id that had receive_progress set, for a registration with a details argument. *)
Theorem C10_progress_only_if_requested : forall classify ecls fl ops s outs,
  run classify ecls fl init ops = (s, outs) ->
  forall pre req sg p post, outs = pre ++ OSent (MYield req sg p true) :: post ->
  exists k reg args caller, In (OAccepted k req reg args caller (Some true) true) pre.
Proof. exact progress_only_if_requested. Qed.
Print Assumptions C10_progress_only_if_requested.

(* receive_progress is tri-state in INVOCATION.Details (absent / false / true): only `true` gives the endpoint a progress
   callable -- an explicit `false` counts like an absent option, whatever the registration. *)
Theorem C10_progress_callable_iff_true : forall classify ecls fl s req reg args caller rp b d,
  joined s = true -> amem req (invs s) = false -> alookup reg (regs s) = Some d ->
  (fl = Tx \/ defers d = false) -> gate_of d = None ->
  exists s' rest,
    step classify ecls fl s (OInvocation req reg args caller rp b) =
      (s', OAccepted (nextk s) req reg (with_self d args) caller rp (r_details d)
           :: OCalled (nextk s) req reg (with_self d args)
                (if r_details d then Some (eff_details reg caller, r_details d && match rp with Some true => true | Some false => false | None => false end) else None) :: rest)
    /\ nocalls rest.
Proof. exact args_fidelity. Qed.
Print Assumptions C10_progress_callable_iff_true.

(* "Only before the terminal reply" is FALSE of the code: the progress closure has no guard, so user code that calls
   details.progress after its invocation was answered (here: after an INTERRUPT) still emits a progressive YIELD.
   (known finding session.progress/after-terminal-reply) *)
Theorem C10_progress_before_terminal_refuted : forall fl,
  stays_up h_progress_after_terminal /\
  snd (run ws_send [] fl init h_progress_after_terminal) =
    [OAccepted 0 1 100 (V 11) C7 (Some true) true; OCalled 0 1 100 (V 11) (Some (D7, true))]
    ++ OSent (MError 1 URuntime PEmpty) :: [] ++ OSent (MYield 1 false (V 2) true) :: []
  /\ is_terminal 1 (OSent (MError 1 URuntime PEmpty)) = true
  /\ is_progressive 1 (OSent (MYield 1 false (V 2) true)) = true.
Proof. exact progress_before_terminal_refuted. Qed.
Print Assumptions C10_progress_before_terminal_refuted.
(* what does hold: (1) within the step that enters the endpoint, everything the endpoint reports while running comes
   before the outcome of the reply callbacks; (2) the later ordering is entirely up to user code: *)
Theorem C10_progress_before_terminal_partial : forall classify ecls fl s req reg args caller rp b d,
  joined s = true -> amem req (invs s) = false -> alookup reg (regs s) = Some d ->
  (fl = Tx \/ defers d = false) -> gate_of d = None ->
  exists s' body cb,
    step classify ecls fl s (OInvocation req reg args caller rp b) =
      (s', OAccepted (nextk s) req reg (with_self d args) caller rp (r_details d)
           :: OCalled (nextk s) req reg (with_self d args) (if r_details d then Some (eff_details reg caller, r_details d && rp_on rp) else None) :: body ++ cb)
    /\ quiet body /\ noprogs cb.
Proof. exact progress_sync_before_terminal. Qed.
Print Assumptions C10_progress_before_terminal_partial.
Theorem C10_progress_closure_unguarded : forall classify ecls fl s k c p,
  alookup k (calls s) = Some c -> c_clos c = true -> c_gate c = None -> c_st c = CDone -> up s = true ->
  classify (MYield (c_req c) false p true) = Sent ->
  step classify ecls fl s (OProgress k p) = (s, [OSent (MYield (c_req c) false p true)]).
Proof. exact progress_closure_unguarded. Qed.
Print Assumptions C10_progress_closure_unguarded.

(* INVOCATION for a registration id the session does not have: ProtocolError out of onMessage, nothing sent,
   no endpoint entered, state unchanged (the transports then drop the connection).  Same for a request id that is
   still being processed. *)
Theorem C10_unknown_registration : forall classify ecls fl s req reg args caller rp b,
  alookup reg (regs s) = None ->
  step classify ecls fl s (OInvocation req reg args caller rp b) = (s, [ORaised InOnMessage XProtocolError]).
Proof. exact unknown_registration. Qed.
Print Assumptions C10_unknown_registration.
Theorem C10_duplicate_request : forall classify ecls fl s req reg args caller rp b,
  amem req (invs s) = true ->
  step classify ecls fl s (OInvocation req reg args caller rp b) = (s, [ORaised InOnMessage XProtocolError]).
Proof. exact duplicate_request. Qed.
Print Assumptions C10_duplicate_request.

(* INTERRUPT for a pending invocation: exactly one ERROR with that request id -- URI wamp.error.runtime_error and
   no arguments (CancelledError is not mapped; the code never sends wamp.error.canceled) -- and the invocation is gone.
   Twisted: inside onMessage(INTERRUPT); asyncio: when the loop runs the scheduled callback. *)
Theorem C10_interrupt_gives_error : forall classify ecls s req k c,
  classify_ok classify -> up s = true -> joined s = true ->
  alookup req (invs s) = Some k -> alookup k (calls s) = Some c -> c_req c = req -> c_st c = CPending ->
  exists s', step classify ecls Tx s (OInterrupt req) = (s', [OSent (MError req URuntime PEmpty)])
             /\ amem req (invs s') = false /\ cst_of s' k = Some CDone.
Proof. exact interrupt_gives_error_tx. Qed.
Print Assumptions C10_interrupt_gives_error.
Theorem C10_interrupt_gives_error_aio : forall classify ecls s req k c,
  classify_ok classify -> up s = true -> joined s = true ->
  alookup req (invs s) = Some k -> alookup k (calls s) = Some c -> c_req c = req -> c_st c = CPending ->
  exists s1, step classify ecls Aio s (OInterrupt req) = (s1, [])
    /\ queue s1 = queue s ++ [QCb k (RErr ECancelled)] /\ invs s1 = invs s /\ up s1 = true
    /\ exists s2, run_item classify ecls s1 (QCb k (RErr ECancelled)) = (s2, [OSent (MError req URuntime PEmpty)])
                  /\ amem req (invs s2) = false.
Proof. exact interrupt_gives_error_aio. Qed.
Print Assumptions C10_interrupt_gives_error_aio.
Theorem C10_interrupt_unknown_ignored : forall classify ecls fl s req,
  joined s = true -> alookup req (invs s) = None -> step classify ecls fl s (OInterrupt req) = (s, []).
Proof. exact interrupt_unknown. Qed.
Print Assumptions C10_interrupt_unknown_ignored.

(* Arguments that do not fit the endpoint: they do not bind to its signature (TypeError from the call, with or
   without check_types), or -- only with register(..., check_types=True) -- contradict a type hint (TypeCheckError,
   wamp.error.type_check_error): the body is NOT entered and the invocation is answered by exactly one ERROR.
   For arguments that fit, check_types is invisible: C10_args_fidelity_step holds for every r_check. *)
Theorem C10_unfit_arguments_rejected : forall classify ecls s req reg args caller rp b d e,
  classify_ok classify -> up s = true -> joined s = true -> amem req (invs s) = false ->
  alookup reg (regs s) = Some d -> gate_of d = Some e ->
  exists s', step classify ecls Tx s (OInvocation req reg args caller rp b) =
      (s', [OAccepted (nextk s) req reg (with_self d args) caller rp (r_details d); OSent (MError req (uri_of ecls e) PText)])
    /\ amem req (invs s') = false.
Proof. exact gated_call_rejected_tx. Qed.
Print Assumptions C10_unfit_arguments_rejected.

(* session.register(obj, options=call_opts): each decorated method is registered with ITS OWN decorator options if it
   has any, else with the call-level ones -- independently of the other methods and of their order -- and carries the
   instance as an opaque identity ([r_obj]); the endpoint is then entered with that instance first ([with_self] in
   C10_args_fidelity_step), whatever its truth value, equality or hash. *)
Theorem C10_object_registration_options : forall obj call_opts methods reg own coro,
  In (reg, own, coro) methods ->
  In (ORegister reg {| r_details := match own with Some b => b | None => match call_opts with Some b => b | None => false end end;
                       r_coro := coro; r_check := false; r_sig := SigOk; r_obj := Some obj |})
     (reg_object obj call_opts methods).
Proof. exact reg_object_method. Qed.
Print Assumptions C10_object_registration_options.
Theorem C10_object_registration_order : forall obj call_opts methods,
  map (fun o => match o with ORegister reg _ => reg | _ => 0 end) (reg_object obj call_opts methods)
  = map (fun m => fst (fst m)) methods.
Proof. exact reg_object_shape. Qed.
Print Assumptions C10_object_registration_order.

(* Over every history: whenever an endpoint body is entered, it is with exactly the arguments (request, registration,
   args/kwargs token) of an INVOCATION accepted before under the same call index, and with CallDetails
   (caller, progress callable iff receive_progress) iff the registration asked for details. *)
Theorem C10_args_fidelity : forall classify ecls fl ops s outs,
  run classify ecls fl init ops = (s, outs) ->
  forall pre k req reg args det post, outs = pre ++ OCalled k req reg args det :: post ->
  exists caller rp wants, In (OAccepted k req reg args caller rp wants) pre
                          /\ det = (if wants then Some (eff_details reg caller, wants && rp_on rp) else None).
Proof. exact args_fidelity_global. Qed.
Print Assumptions C10_args_fidelity.

(* The endpoint is entered, in the same step, with exactly the INVOCATION's arguments, and with CallDetails
   (caller, progress callable iff receive_progress) iff the registration asked for details; nothing else in that
   step enters an endpoint.  (asyncio `async def` endpoints: next theorem.) *)
Theorem C10_args_fidelity_step : forall classify ecls fl s req reg args caller rp b d,
  joined s = true -> amem req (invs s) = false -> alookup reg (regs s) = Some d ->
  (fl = Tx \/ defers d = false) -> gate_of d = None ->
  exists s' rest,
    step classify ecls fl s (OInvocation req reg args caller rp b) =
      (s', OAccepted (nextk s) req reg (with_self d args) caller rp (r_details d)
           :: OCalled (nextk s) req reg (with_self d args) (if r_details d then Some (eff_details reg caller, r_details d && rp_on rp) else None) :: rest)
    /\ nocalls rest.
Proof. exact args_fidelity. Qed.
Print Assumptions C10_args_fidelity_step.
Theorem C10_args_fidelity_aio_coroutine : forall classify ecls s req reg args caller rp b d,
  joined s = true -> amem req (invs s) = false -> alookup reg (regs s) = Some d -> defers d = true ->
  (exists s', step classify ecls Aio s (OInvocation req reg args caller rp b) =
      (s', [OAccepted (nextk s) req reg (with_self d args) caller rp (r_details d)])
    /\ queue s' = queue s ++ [QStep (nextk s)]
    /\ alookup (nextk s) (calls s') =
         Some {| c_req := req; c_reg := reg; c_args := with_self d args;
                 c_det := if r_details d then Some (eff_details reg caller, r_details d && rp_on rp) else None;
                 c_clos := r_details d && rp_on rp; c_st := CFresh b false; c_gate := gate_of d |})
  /\ (forall s1 k c b1, alookup k (calls s1) = Some c -> c_st c = CFresh b1 false -> c_gate c = None ->
      exists s2 rest, run_item classify ecls s1 (QStep k) = (s2, OCalled k (c_req c) (c_reg c) (c_args c) (c_det c) :: rest)
                      /\ nocalls rest).
Proof. exact args_fidelity_aio_coroutine. Qed.
Print Assumptions C10_args_fidelity_aio_coroutine.

(* ---------------- non-vacuity (concrete histories meeting the hypotheses; both flavours) ---------------- *)
(* two concurrent invocations finishing in reverse order: each gets its own single reply, nothing left *)
Example C10_witness_reverse_order :
  stays_up h_reverse /\
  (forall fl, filter (fun o => match o with OSent _ => true | _ => false end) (snd (run ws_send [] fl init h_reverse))
     = [OSent (MYield 2 true (V 22) false); OSent (MError 1 (UApp 3) (V 21))]) /\
  (forall fl, invs (fst (run ws_send [] fl init h_reverse)) = []).
Proof. split; [reflexivity|]. split; intros []; vm_compute; reflexivity. Qed.

(* progress twice, then INTERRUPT: two progressive YIELDs, then exactly one ERROR; the late result is ignored *)
Example C10_witness_progress_interrupt : forall fl,
  snd (run ws_send [] fl init h_progress_interrupt) =
    [OAccepted 0 5 100 (V 11) C7 (Some true) true; OCalled 0 5 100 (V 11) (Some (D7, true));
     OSent (MYield 5 false (V 1) true); OSent (MYield 5 false (V 2) true); OSent (MError 5 URuntime PEmpty)].
Proof. intros []; vm_compute; reflexivity. Qed.

(* un-serializable and oversized payloads, returned and raised: one (fallback) ERROR each, on every real transport *)
Example C10_witness_fallbacks : forall fl,
  stays_up h_fallbacks /\
  filter (fun o => match o with OSent _ => true | _ => false end) (snd (run rs_tx_send [] fl init h_fallbacks)) =
    [OSent (MError 1 UInvalidPayload (PFallback FbSuccessSer));
     OSent (MError 2 UPayloadExceeded (PFallback FbExceeded));
     OSent (MError 3 UPayloadExceeded (PFallback FbExceeded));
     OSent (MError 4 UInvalidPayload (PFallback FbErrorSer));
     OSent (MError 5 UInvalidPayload (PFallback FbSuccessSer))]
  /\ invs (fst (run rs_aio_send [] fl init h_fallbacks)) = [].
Proof. intros []; (split; [reflexivity|]); split; vm_compute; reflexivity. Qed.

(* asyncio coroutine endpoints: cancelled before the body ran (never entered; a later progress call is impossible),
   and cancelled after the awaited future was resolved but before the Task woke up (ERROR, not YIELD) *)
Example C10_witness_coroutine_cancel :
  snd (run ws_send [] Aio init h_coro_cancel) =
    [OAccepted 0 1 100 (V 11) C7 (Some true) true; OSent (MError 1 URuntime PEmpty);
     OAccepted 1 2 100 (V 12) C7 (None) true; OCalled 1 2 100 (V 12) (Some (D7, false)); OSent (MError 2 URuntime PEmpty)].
Proof. vm_compute. reflexivity. Qed.

(* check_types=True: a well-typed call is answered like without the wrapper (asyncio: one loop turn later, as a Task);
   an ill-typed one gets wamp.error.type_check_error and the endpoint is not entered *)
Example C10_witness_check_types : forall fl,
  snd (run ws_send [] fl init h_check_types) =
    [OAccepted 0 1 100 (V 11) C7 (None) true; OCalled 0 1 100 (V 11) (Some (D7, false)); OSent (MYield 1 true (V 21) false);
     OAccepted 1 2 101 (V 12) C7 (None) false; OSent (MError 2 UTypeCheck PText);
     OAccepted 2 3 102 (V 13) C7 (None) false; OSent (MError 3 URuntime PText)].
Proof. intros []; vm_compute; reflexivity. Qed.

(* receive_progress absent / false / true for the same endpoint (which reports progress whenever it can): only the
   third invocation yields a progressive result; the first two get the ERROR for calling a progress that is None *)
Example C10_witness_receive_progress_tristate : forall fl,
  filter (fun o => match o with OSent _ => true | _ => false end) (snd (run ws_send [] fl init h_tristate)) =
    [OSent (MError 1 URuntime PText); OSent (MError 2 URuntime PText);
     OSent (MYield 3 false (V 1) true); OSent (MYield 3 true (V 23) false)].
Proof. intros []; vm_compute; reflexivity. Qed.

(* object registration: own options beat call-level options per method; the instance is passed as self *)
Example C10_witness_object_registration : forall fl,
  filter (fun o => match o with OCalled _ _ _ _ _ => true | _ => false end) (snd (run ws_send [] fl init h_object)) =
    [OCalled 0 1 100 (PSelf 9 (V 11)) (Some (D7, false));
     OCalled 1 2 101 (PSelf 9 (V 12)) (Some ((Some 7, None, 101), false));
     OCalled 2 3 102 (PSelf 9 (V 13)) None].
Proof. intros []; vm_compute; reflexivity. Qed.
