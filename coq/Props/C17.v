(* C17 -- Silent peers are dropped on time, responsive peers never.
   Time is N milliseconds.  The batched timer of txaio fires a call armed at time [now] with delay [d] at
   [fire_time now d] = max now (floor((now+d)/1000)*1000 rounded down to the generated 200 ms bucket). *)
From Coq Require Import NArith List Bool.
From AV Require Import Gen.WsConnConsts Model.WsConn Proofs.WsConnProofs Proofs.WsConnProofs2 Proofs.WsConnProofs3
  Proofs.WsConnTimers Proofs.WsConnLive Proofs.WsConnResp Proofs.WsConnPing Proofs.WsConnCodes.
Import ListNotations.
Open Scope N_scope.

(* where "one second to spare" comes from: the quantised fire time is never late and less than 1 s early *)
Theorem C17_quantisation : forall x, quant x <= x /\ x < quant x + 1000.
Proof. exact quant_bounds. Qed.
Print Assumptions C17_quantisation.

Theorem C17_fire_time : forall tnow d,
  tnow <= fire_time tnow d /\ fire_time tnow d <= tnow + d /\ (1000 <= d -> tnow + d < fire_time tnow d + 1000).
Proof. exact fire_time_bounds. Qed.
Print Assumptions C17_fire_time.

(* ---- opening handshake ----
   F = openF c is the fire time of the timer armed by connectionMade, D = t_start + openHandshakeTimeout the nominal
   deadline:  D - 1000 < F <= D.
   A client behind an explicit proxy (c_proxy) starts in PROXY_CONNECTING; the proxy's 2xx answer (EProxyOk, not a
   qualifying reaction: [no_open_reaction] lets it through) moves it to CONNECTING and the SAME timer keeps running.
   Silent peer: as long as no handshake (good or bad), no proxy refusal and no TCP drop arrives, the first Tick reaching F aborts the
   connection AT time F, the state is CLOSED for ever and wasOpenHandshakeTimeout stays set; when our drop is
   delivered onClose(False, 1006, <opening handshake timeout>) is reported. *)
Theorem C17_silent_open : forall c evs1 t evs2,
  0 < openHandshakeTimeout c ->
  Forall no_open_reaction evs1 -> Forall (tick_before (openF c)) evs1 -> openF c <= t ->
  let r := run c (evs1 ++ ETick t :: evs2) in
  In (openF c, Abort) (snd r) /\ st (fst r) = CLOSED /\ wasOpenTO (fst r) = true.
Proof. exact silent_open. Qed.
Print Assumptions C17_silent_open.

Theorem C17_open_deadline : forall c,
  openF c <= t_start c + openHandshakeTimeout c /\
  (1000 <= openHandshakeTimeout c -> t_start c + openHandshakeTimeout c < openF c + 1000).
Proof. exact openF_bounds. Qed.
Print Assumptions C17_open_deadline.

Theorem C17_silent_open_report : forall c n p t, n <= openF c -> openF c <= t ->
  snd (step c (fst (step c (conn_state c n p) (ETick t))) EOwnDrop) =
  [(N.max (openF c) t, CbClose false (Some code_abnormal_close) None ROpenTO)].
Proof. exact open_timeout_report. Qed.
Print Assumptions C17_silent_open_report.

(* Responsive peer: the handshake completes before the timer has fired (in particular: at any time <= D - 1 s):
   whatever happens afterwards, an opening-handshake timeout is never reported *)
Theorem C17_responsive_open : forall c evs1 evs2,
  0 < openHandshakeTimeout c ->
  Forall no_open_reaction evs1 -> Forall (tick_before (openF c)) evs1 ->
  proxyPending (fst (run c evs1)) = false ->
  let r := run c (evs1 ++ EHandshake :: evs2) in
  wasOpenTO (fst r) = false /\ (1 <= rank (st (fst r)))%nat.
Proof. exact responsive_open. Qed.
Print Assumptions C17_responsive_open.

Theorem C17_one_second_to_spare_open : forall c t, 1000 <= openHandshakeTimeout c ->
  t + 1000 <= t_start c + openHandshakeTimeout c -> t < openF c.
Proof. exact tick_spare_before_fire. Qed.
Print Assumptions C17_one_second_to_spare_open.

(* ---- the clock ----
   Tick t leaves nothing behind that was scheduled for a time <= t *)
Theorem C17_tick_complete : forall c t s x, In x (timers (fst (step c s (ETick t)))) -> t < te_time x.
Proof. exact tick_complete. Qed.
Print Assumptions C17_tick_complete.

(* ---- every timeout that drops: close handshake, server TCP drop, auto-ping timeout ----
   a pending call of one of these kinds with fire time <= B is run by the first Tick that reaches B, and whatever
   else that Tick runs, the connection is CLOSED afterwards (the silent peer is dropped no later than B).
   Such a call is pending unless the qualifying peer event cancelled it: the code cancels the close-handshake call only
   in onCloseFrame (peer's reply), the ping-timeout call only on a matching pong / qualifying traffic, and all of
   them in _connectionLost. *)
Theorem C17_timeout_fires : forall c k B t s, drop_kind k -> pendLe k B (timers s) -> B <= t ->
  st (fst (step c s (ETick t))) = CLOSED.
Proof. exact timeout_fires. Qed.
Print Assumptions C17_timeout_fires.

(* arming through the batched timer at time [now] with delay d (sendCloseFrame: closeHandshakeTimeout, _sendAutoPing:
   autoPingTimeout / autoPingInterval) yields a pending call with fire time <= now + d, the nominal deadline *)
Theorem C17_armed_by_deadline : forall c evs k d,
  let s := fst (run c evs) in pendLe k (now s + d) (timers (fst (arm_batched k d s))).
Proof. intros. apply arm_batched_pending. apply ti1_run. Qed.
Print Assumptions C17_armed_by_deadline.

(* ---- closing handshake and server TCP drop: the silent peer ----
   In every reachable CLOSING state a close-handshake call or (client) a server-drop call is pending and no call is
   overdue; therefore a peer that neither answers our close frame nor (as a server) drops TCP is dropped no later
   than closeHandshakeTimeout (+ serverConnectionDropTimeout) after closing began (= C05_bounded) *)
Theorem C17_silent_close_drop : forall c, 0 < closeHandshakeTimeout c ->
  (is_server c = false -> 0 < serverConnectionDropTimeout c) ->
  forall evs evs2 tc, st (fst (run c evs)) = CLOSING -> closingSince (fst (run c evs)) = Some tc ->
  tc + closeHandshakeTimeout c + (if is_server c then 0 else serverConnectionDropTimeout c) < now (fst (run c (evs ++ evs2))) ->
  st (fst (run c (evs ++ evs2))) = CLOSED.
Proof. exact closing_bounded_later. Qed.
Print Assumptions C17_silent_close_drop.

(* ... and the responsive one: whatever ended the connection (the server's reply handling drops at once; the TCP drop
   arrives: connectionLost), once CLOSED no timeout flag changes any more: a close-handshake / server-drop timeout that
   has not been reported by then never will be *)
Theorem C17_responsive_flags_frozen : forall c evs evs2, st (fst (run c evs)) = CLOSED ->
  let s := fst (run c evs) in let s2 := fst (run c (evs ++ evs2)) in
  st s2 = CLOSED /\ wasOpenTO s2 = wasOpenTO s /\ wasCloseTO s2 = wasCloseTO s /\ wasDropTO s2 = wasDropTO s.
Proof. exact flags_frozen. Qed.
Print Assumptions C17_responsive_flags_frozen.

(* ---- the responsive peer, as invariants over arbitrary event lists ----
   server TCP drop: whenever the TCP loss is delivered (in particular before the server-drop fire time) the connection
   is CLOSED at once, no timeout flag is touched, and none changes ever after: the server-drop timer has no effect *)
Theorem C17_responsive_drop : forall c evs b evs2, gone (fst (run c evs)) = false ->
  let s := fst (run c evs) in let s2 := fst (run c (evs ++ EPeerDrop b :: evs2)) in
  st s2 = CLOSED /\ wasOpenTO s2 = wasOpenTO s /\ wasCloseTO s2 = wasCloseTO s /\ wasDropTO s2 = wasDropTO s.
Proof. exact responsive_drop. Qed.
Print Assumptions C17_responsive_drop.

(* close handshake: at most one close-handshake call is ever pending and hClose points to it (invariant G of
   Proofs/WsConnResp.v); a well-formed close frame received in CLOSING (that is: before that call has fired and
   closed the connection) is accepted, cancels it, and none is ever armed again: whatever follows, the close-handshake
   timeout is never reported and no such call is pending (both roles; the server is CLOSED at once anyway) *)
Theorem C17_responsive_close : forall c evs body txt evs2,
  gone (fst (run c evs)) = false -> st (fst (run c evs)) = CLOSING -> rxPartial (fst (run c evs)) = false -> body_valid body ->
  wasCloseTO (fst (run c evs)) = false ->
  wasCloseTO (fst (run c (evs ++ EPeerClose body txt :: evs2))) = false.
Proof. exact responsive_close_reply. Qed.
Print Assumptions C17_responsive_close.

Theorem C17_responsive_close_once_clean : forall c evs evs2,
  (2 <= rank (st (fst (run c evs))))%nat -> wasClean (fst (run c evs)) = true -> wasCloseTO (fst (run c evs)) = false ->
  wasCloseTO (fst (run c (evs ++ evs2))) = false /\ nk (timers (fst (run c (evs ++ evs2)))) = 0%nat.
Proof. exact responsive_close. Qed.
Print Assumptions C17_responsive_close_once_clean.

(* "any traffic" (autoPingRestartOnAnyTraffic): the end of EVERY data frame counts -- first fragment (cont = false,
   fin = false), middle fragment, last fragment, unfragmented message; EPeerData and EPeerTail (a frame delivered in two
   reads) run the same [data_frame_end].  While a ping timeout is pending it is cancelled, the outstanding ping is forgotten
   and the next ping is armed with fire time <= now + autoPingInterval.  (Pings and non-matching pongs are not data and do
   not count; the head of a frame whose payload is still incomplete does not count until the frame ends.) *)
Theorem C17_any_data_frame_restarts : forall c s cont fin,
  frames_ready s = true -> Bool.eqb cont (inMsg s) = true ->
  isSome (hPingTO s) = true -> autoPingRestartOnAnyTraffic c = true -> TI1 (timers s) (now s) ->
  let s' := fst (step c s (EPeerFrag cont fin)) in
  pingPending s' = None /\ hPingTO s' = None /\
  (0 < autoPingInterval c -> pendLe TAutoPing (now s + autoPingInterval c) (timers s')).
Proof. exact any_data_frame_restarts. Qed.
Print Assumptions C17_any_data_frame_restarts.

(* ---- auto ping: general invariants over ALL event lists (Proofs/WsConnPing.v) ----
   [pending_calls k s] counts the pending timer calls of kind k, over every bucket and exact call of the timer list. *)
Definition pending_calls (k : tkind) (s : cstate) : nat := PK.nk k (timers s).

(* uniqueness: in every reachable state at most ONE call of {auto-ping, auto-ping-timeout} is pending; every pending ping
   call is the one [hPing] names and every pending timeout call the one [hPingTO] names (so cancelling through the
   handle cancels all of them); while a ping is outstanding no further ping call is pending *)
Theorem C17_ping_unique : forall c evs, let s := fst (run c evs) in
  (pending_calls TAutoPing s + pending_calls TAutoPingTO s <= 1)%nat /\
  (forall e id, In e (timers s) -> In (TAutoPing, id) (te_calls e) -> hPing s = Some id) /\
  (forall e id, In e (timers s) -> In (TAutoPingTO, id) (te_calls e) -> hPingTO s = Some id) /\
  (pingPending s <> None -> pending_calls TAutoPing s = 0%nat).
Proof. exact ping_unique_run. Qed.
Print Assumptions C17_ping_unique.

(* the cycle never stalls: in every reachable OPEN state with autoPingInterval > 0 either exactly one ping call is
   pending and no ping is outstanding, or a ping is outstanding and no ping call is pending; an outstanding ping with
   autoPingTimeout > 0 has exactly one timeout call pending.  With C17_tick_complete / C17_timeout_fires (a pending
   call has fired once the clock has passed its fire time) and C17_armed_by_deadline this is the periodic ping. *)
Theorem C17_ping_periodic : forall c evs, let s := fst (run c evs) in st s = OPEN ->
  (0 < autoPingInterval c ->
     (pending_calls TAutoPing s = 1%nat /\ pingPending s = None) \/
     (pending_calls TAutoPing s = 0%nat /\ pingPending s <> None)) /\
  (pingPending s <> None -> 0 < autoPingTimeout c -> pending_calls TAutoPingTO s = 1%nat).
Proof. exact ping_periodic_run. Qed.
Print Assumptions C17_ping_periodic.

(* a responsive peer is never cut by the ping timeout: after ANY event list, a matching pong for the outstanding ping
   (frames still flow) leaves NO ping-timeout call pending at all -- the cancelled handle was the only one -- the ping is
   no longer outstanding, and in OPEN with interval > 0 exactly one next ping is armed, fire time <= now + interval *)
Theorem C17_responsive_ping : forall c evs q, let s := fst (run c evs) in
  frames_ready s = true -> pingPending s = Some q ->
  let s' := fst (run c (evs ++ [EPeerPong true])) in
  pingPending s' = None /\ hPingTO s' = None /\ pending_calls TAutoPingTO s' = 0%nat /\ st s' = st s /\
  (0 < autoPingInterval c -> st s = OPEN ->
     pending_calls TAutoPing s' = 1%nat /\ pendLe TAutoPing (now s + autoPingInterval c) (timers s')).
Proof. exact responsive_ping_run. Qed.
Print Assumptions C17_responsive_ping.

(* the auto ping can be sent for EVERY configurable autoPingSize: the accepted range of setProtocolOptions(autoPingSize=)
   and the payload limit of sendPing / sendPong are probed on the real objects by the translator on every run.  This is
   what makes the model's _sendAutoPing (which never raises between clearing autoPingPendingCall and arming the timeout)
   sound over the whole documented range 12..125, not only for the default size *)
Theorem C17_auto_ping_size_sendable : forall n,
  auto_ping_size_min <= n <= auto_ping_size_max -> 12 <= n <= ping_payload_max.
Proof. exact auto_ping_size_sendable. Qed.
Print Assumptions C17_auto_ping_size_sendable.

Theorem C17_pong_echo_sendable : ping_payload_max <= pong_payload_max.
Proof. exact pong_echo_sendable. Qed.
Print Assumptions C17_pong_echo_sendable.

(* the step itself, for any state in which frames flow (reachable or not) *)
Theorem C17_responsive_ping_step : forall c s q, frames_ready s = true -> pingPending s = Some q ->
  TI1 (timers s) (now s) ->
  let s' := fst (step c s (EPeerPong true)) in
  pingPending s' = None /\ hPingTO s' = None /\ st s' = st s /\
  (0 < autoPingInterval c -> pendLe TAutoPing (now s + autoPingInterval c) (timers s')).
Proof. exact responsive_ping_step. Qed.
Print Assumptions C17_responsive_ping_step.

(* ---- after CLOSED ----
   "no timer has any effect after the connection is closed": advancing the clock produces no output whatsoever,
   the state stays CLOSED and nothing that onClose will report changes (since the repair 86f33b05 this includes the
   auto-ping timeout; the former counter-example is the regression case corpus/C17/ping-timeout-after-close.json) *)
Theorem C17_dead_after_close : forall c s t, st s = CLOSED ->
  let s' := fst (step c s (ETick t)) in
  snd (step c s (ETick t)) = [] /\ st s' = CLOSED /\ wasClean s' = wasClean s /\ ncr s' = ncr s
  /\ remoteCode s' = remoteCode s /\ remoteReason s' = remoteReason s /\ droppedByMe s' = droppedByMe s /\ gone s' = gone s.
Proof. exact tick_inert. Qed.
Print Assumptions C17_dead_after_close.

Example C17_witness_ping_timeout_after_close_inert :
  let c := mkCfg Server false false 2000 1000 0 1000 2000 12 true 375 false in
  snd (run c [EHandshake; ETick 1000; EPeerClose (Some (1000, None)) []; ETick 3000; EOwnDrop]) =
  [(375, WHttp); (375, CbOpen); (375, IsOpen); (1000, WPing (Some 1)); (1000, WClose OReply (Some 1000) None);
   (1000, IsClosed); (1000, Lose); (3000, CbClose true (Some 1000) None RNone)].
Proof. vm_compute. reflexivity. Qed.

Example C17_witness_open_timeout :
  let c := mkCfg Server true false 2000 1000 0 0 0 12 true 375 false in
  openF c = 2000 /\
  snd (run c [ETick 1875; ESendPing; ETick 2000; EOwnDrop]) =
  [(2000, IsClosed); (2000, Abort); (2000, CbClose false (Some 1006) None ROpenTO)].
Proof. vm_compute. auto. Qed.

Example C17_witness_open_in_time :
  let c := mkCfg Server true false 2000 1000 0 0 0 12 true 375 false in
  st (fst (run c [ETick 1375; EHandshake; ETick 9000])) = OPEN.
Proof. vm_compute. reflexivity. Qed.

(* auto ping: first ping at floor((375+1000)/1000) s, matching pong, next ping one interval after the pong (quantised) *)
Example C17_witness_ping_periodic :
  let c := mkCfg Client true false 2000 1000 1000 1000 2000 12 true 375 false in
  snd (run c [EHandshake; ETick 1000; ETick 1125; EPeerPong true; ETick 2000; ETick 2500; EPeerPong true; ETick 3000]) =
  [(375, WHttp); (375, CbOpen); (375, IsOpen); (1000, WPing (Some 1)); (1125, CbPong); (2000, WPing (Some 2));
   (2500, CbPong); (3000, WPing (Some 3))].
Proof. vm_compute. reflexivity. Qed.

Example C17_witness_ping_timeout :
  let c := mkCfg Server true false 2000 1000 0 1000 2000 12 true 375 false in
  snd (run c [EHandshake; ETick 1000; EPeerPong false; ETick 3000; EOwnDrop]) =
  [(375, WHttp); (375, CbOpen); (375, IsOpen); (1000, WPing (Some 1)); (1000, CbPong); (3000, IsClosed); (3000, Abort);
   (3000, CbClose false (Some 1006) None RPingTO)].
Proof. vm_compute. reflexivity. Qed.

(* concrete timelines for the remaining timers (the general statements above cover the drop itself; reason class and
   flags per timer are exercised by the correspondence run on every grid placement) *)
Example C17_witness_close_timeout_and_reply :
  let c := mkCfg Server true false 2000 2000 0 0 0 12 true 375 false in
  (* silent: close sent at 625, timer fires at floor(2.625) = 2 s <= 2625 *)
  snd (run c [EHandshake; ETick 625; ESendClose (Some 1000) None; ETick 1999; ETick 2000; EOwnDrop]) =
  [(375, WHttp); (375, CbOpen); (375, IsOpen); (625, WClose OApi (Some 1000) None); (2000, IsClosed); (2000, Abort);
   (2000, CbClose false (Some 1006) None RCloseTO)]
  /\
  (* responsive: the reply arrives at 1625 = deadline - 1 s *)
  snd (run c [EHandshake; ETick 625; ESendClose (Some 1000) None; ETick 1625; EPeerClose (Some (1000, None)) []; ETick 9000; EOwnDrop]) =
  [(375, WHttp); (375, CbOpen); (375, IsOpen); (625, WClose OApi (Some 1000) None); (1625, IsClosed); (1625, Abort);
   (9000, CbClose true (Some 1000) None RNone)].
Proof. vm_compute. auto. Qed.

Example C17_witness_server_drop_timeout :
  let c := mkCfg Client true false 2000 2000 1000 0 0 12 true 0 false in
  snd (run c [EHandshake; ESendClose (Some 1000) None; ETick 375; EPeerClose (Some (1000, None)) []; ETick 1374; ETick 1375; EOwnDrop]) =
  [(0, WHttp); (0, CbOpen); (0, IsOpen); (0, WClose OApi (Some 1000) None); (1375, IsClosed); (1375, Abort);
   (1375, CbClose false (Some 1006) None RDropTO)].
Proof. vm_compute. reflexivity. Qed.

Example C17_witness_drop_kinds : drop_kind TCloseHS /\ drop_kind TServerDrop /\ drop_kind TAutoPingTO.
Proof. unfold drop_kind. auto. Qed.

(* non-vacuity of C17_timeout_fires: a ping is outstanding, its timeout call pending with fire time 3000 *)
Example C17_witness_ping_timeout_pending :
  let c := mkCfg Server true false 2000 1000 0 1000 2000 12 true 375 false in
  let s := fst (run c [EHandshake; ETick 1000]) in
  st s = OPEN /\ pingPending s = Some 1 /\ map te_time (timers s) = [3000] /\
  st (fst (step c s (ETick 3000))) = CLOSED /\ ncr (fst (step c s (ETick 3000))) = RPingTO.
Proof. vm_compute. auto 10. Qed.

(* the responsive peer: a matching pong one second before the deadline cancels it; the next ping goes out one
   interval later; a data frame does the same when autoPingRestartOnAnyTraffic is set *)
Example C17_witness_pong_in_time :
  let c := mkCfg Server true false 2000 1000 0 1000 2000 12 true 375 false in
  let s := fst (run c [EHandshake; ETick 1000; ETick 2000; EPeerPong true]) in
  st s = OPEN /\ pingPending s = None /\ map te_time (timers s) = [3000] /\
  snd (step c s (ETick 3000)) = [(3000, WPing (Some 2))].
Proof. vm_compute. auto 10. Qed.

Example C17_witness_restart_on_traffic :
  let c := mkCfg Server true false 2000 1000 0 1000 2000 12 true 375 false in
  let on := fst (run c [EHandshake; ETick 1000; ETick 1500; EPeerData]) in
  let off := fst (run (mkCfg Server true false 2000 1000 0 1000 2000 12 false 375 false) [EHandshake; ETick 1000; ETick 1500; EPeerData]) in
  (pingPending on = None /\ map te_time (timers on) = [2000]) /\ (pingPending off = Some 1 /\ map te_time (timers off) = [3000]).
Proof. vm_compute. auto 10. Qed.

(* client behind a proxy: the proxy answers at 1250, the server behind it stays silent: dropped at the ORIGINAL
   deadline (fire time 2000 of the timer armed at connectionMade = 375 with openHandshakeTimeout 2 s) *)
Example C17_witness_proxy_silent_server :
  let c := mkCfg Client true false 2000 1000 1000 0 0 12 true 375 true in
  openF c = 2000 /\
  snd (run c [ETick 1250; EProxyOk; ETick 1999; ETick 2000; EOwnDrop]) =
  [(375, WHttp); (1250, WHttp); (2000, IsClosed); (2000, Abort); (2000, CbClose false (Some 1006) None ROpenTO)].
Proof. vm_compute. auto. Qed.

(* a non-final fragment 1 s before the ping deadline keeps the peer alive; with the option off it does not *)
Example C17_witness_fragment_is_traffic :
  let on := mkCfg Server true false 2000 1000 0 1000 2000 12 true 375 false in
  let off := mkCfg Server true false 2000 1000 0 1000 2000 12 false 375 false in
  let evs := [EHandshake; ETick 1000; ETick 2000; EPeerFrag false false; ETick 3000] in
  st (fst (run on evs)) = OPEN /\ st (fst (run off evs)) = CLOSED /\ ncr (fst (run off evs)) = RPingTO.
Proof. vm_compute. auto. Qed.
