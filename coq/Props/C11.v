(* C11 — events reach exactly the handlers subscribed at that moment.
   Property statements only; model in Model/SessionSub.v, proofs in Proofs/SessionSubProofs.v.
   [final fl ops] is the session state after ANY operation history [ops] (subscribe in both forms with every form of
   SubscribeOptions, unsubscribe, SUBSCRIBED / UNSUBSCRIBED / ERROR / revocation / EVENT - arriving from the network or
   delivered by the transport from inside send() -, transport loss) under txaio flavour [fl];
   a handler (and the Subscription object created for it) is named by the id of the SUBSCRIBE request that registered it.
   [expected_invocation ev e] = (handler, PUBLISHED args, PUBLISHED kwargs plus only this handler's requested details). *)
From Coq Require Import NArith ZArith List Bool.
From AV Require Import Model.SessionSub Proofs.SessionSubProofs.
Import ListNotations.
Open Scope N_scope.

(* ---------------------------------------------------------------------------------------------------------------
   1. exact fan-out, for every reachable state and every kind of handler: any signature (fixed / *args / **kwargs /
   keyword-only), subscribed with or without check_types, returning, raising, rejecting the call, calling back into
   unsubscribe().  The dispatch walks the snapshot of the handler list taken when the EVENT arrived, in subscription
   order ([Dispatch], Proofs/SessionSubProofs.v):
     - an entry whose subscription is still active when its turn comes is called exactly once with
       [expected_invocation ev e] - what the handler FUNCTION receives, also behind the check_types wrapper:
         * inside the loop ([now]); the loop continues in the state the handler left ([after_handler]);
         * or, for a coroutine handler on asyncio (the check_types wrapper), as a Task ([later]) whose body runs after
           the loop, one Task after the other ([RunLater]);
     - an entry whose subscription was deactivated by a handler called earlier for this same event is passed over;
     - nothing else is called: the invocations are exactly [now] followed by those of the Tasks.
   Under Twisted nothing is ever deferred (C11_twisted_no_task).                                                       *)
Theorem C11_exact_fanout : forall fl ops ev, let s := final fl ops in
  s_joined s = true -> In (e_sub ev) (keys (s_subs s)) ->
  exists now later s1,
    Dispatch fl ev s (attached s (e_sub ev)) now later s1 /\
    RunLater ev s1 later (fst (step fl s (OpEvent ev))) /\
    invocations (snd (step fl s (OpEvent ev))) = now ++ map (expected_invocation ev) later.
Proof. intros fl ops ev. exact (exact_fanout fl (final fl ops) ev). Qed.
Print Assumptions C11_exact_fanout.

Theorem C11_twisted_no_task : forall ev s snap now later s', Dispatch Tx ev s snap now later s' -> later = [].
Proof. exact dispatch_tx_no_task. Qed.
Print Assumptions C11_twisted_no_task.

(* what the discipline means, unfolded: (a) the calls are an order-preserving, duplicate-free selection of the
   demanded ones; (b) no handler still subscribed when the loop ends has been passed over; (c) a subscription that is
   inactive at some point of the loop is not called for the rest of it *)
Theorem C11_dispatch_selection : forall fl ev s snap now later s', Dispatch fl ev s snap now later s' ->
  sublist now (map (expected_invocation ev) snap) /\ sublist later snap.
Proof. exact dispatch_sublist. Qed.
Print Assumptions C11_dispatch_selection.

Theorem C11_dispatch_no_skip : forall fl ev s snap now later s', Dispatch fl ev s snap now later s' ->
  forall e, In e snap -> is_active s' (se_label e) = true -> In (expected_invocation ev e) now \/ In e later.
Proof. exact dispatch_no_skip. Qed.
Print Assumptions C11_dispatch_no_skip.

Theorem C11_dispatch_never_after : forall fl ev s snap now later s' l, Dispatch fl ev s snap now later s' ->
  is_active s l = false -> ~ In l (map (fun x => fst (fst x)) now) /\ ~ In l (labels later).
Proof. exact dispatch_never_after. Qed.
Print Assumptions C11_dispatch_never_after.

(* the plain equation when no attached handler calls back into the session during the dispatch and none is a coroutine
   on asyncio (always so under Twisted): exactly the handlers attached at arrival, once each, in subscription order,
   each with the published args/kwargs + its own details *)
Theorem C11_exact_fanout_plain : forall fl ops ev, let s := final fl ops in
  s_joined s = true -> In (e_sub ev) (keys (s_subs s)) -> nonreentrant_at s (e_sub ev) ->
  (forall e, In e (attached s (e_sub ev)) -> deferred fl e = false) ->
  invocations (snd (step fl s (OpEvent ev))) = map (expected_invocation ev) (attached s (e_sub ev)).
Proof. exact exact_fanout_nonreentrant. Qed.
Print Assumptions C11_exact_fanout_plain.

(* "attached at that moment" is determined by the history: SUBSCRIBED for a pending request appends that request's
   handler at the END of the list of the id it names (list order = subscription order) and touches no other list; an
   unsubscribe() that returns removes exactly that handler, keeps the order of the others, touches no other list *)
Theorem C11_subscribed_appends : forall fl s req sid rq, s_joined s = true -> lookup req (s_subreqs s) = Some rq ->
  let s' := fst (step fl s (OpSubscribed req sid)) in
  attached s' sid = attached s sid ++ [{| se_label := req; se_topic := sr_topic rq; se_handler := sr_handler rq |}] /\
  (forall sid', sid' <> sid -> attached s' sid' = attached s sid').
Proof. exact subscribed_appends. Qed.
Print Assumptions C11_subscribed_appends.

Theorem C11_unsubscribe_removes : forall fl s l o, lookup l (s_objs s) = Some o -> so_held o = true ->
  (forall e, ~ In (ORaised e) (snd (step fl s (OpUnsubscribe l [])))) ->
  let s' := fst (step fl s (OpUnsubscribe l [])) in
  attached s' (so_id o) = remove_label l (attached s (so_id o)) /\
  (forall sid', sid' <> so_id o -> attached s' sid' = attached s sid') /\
  is_active s' l = false.
Proof. exact unsubscribe_removes. Qed.
Print Assumptions C11_unsubscribe_removes.

(* ---------------------------------------------------------------------------------------------------------------
   2. isolation: whatever the handlers do short of calling back into the session (return, raise, be called with
   arguments they reject, fail the check_types hints), every attached handler gets its invocation (plain handlers
   first, then - asyncio only - the coroutine handlers, each group in subscription order); nothing escapes onMessage;
   the session state is unchanged; nothing is sent.                                                                   *)
Theorem C11_isolation : forall fl ops ev, let s := final fl ops in
  s_joined s = true -> In (e_sub ev) (keys (s_subs s)) -> nonreentrant_at s (e_sub ev) ->
  fst (step fl s (OpEvent ev)) = s /\
  invocations (snd (step fl s (OpEvent ev)))
    = map (expected_invocation ev) (filter (fun e => negb (deferred fl e)) (attached s (e_sub ev)))
      ++ map (expected_invocation ev) (filter (deferred fl) (attached s (e_sub ev))) /\
  (forall x, ~ In (ORaised x) (snd (step fl s (OpEvent ev)))) /\
  filter sends_unsubscribe (snd (step fl s (OpEvent ev))) = [].
Proof. exact isolation. Qed.
Print Assumptions C11_isolation.

(* ---------------------------------------------------------------------------------------------------------------
   3. after unsubscribe(h) has returned, h is never invoked again: not by what the transport delivers from inside the
   send() of that very call ([rin]), not in any continuation (handlers that re-enter the session, further
   subscriptions to the same id, replies in any order, transport loss).                                              *)
Theorem C11_never_after_unsubscribe : forall fl ops1 l rin ops2,
  let s1 := final fl ops1 in
  unsub_returns s1 l ->
  ~ In l (concat (map invoked_labels (snd (run fl s1 (OpUnsubscribe l rin :: ops2))))).
Proof. exact never_after_unsubscribe. Qed.
Print Assumptions C11_never_after_unsubscribe.

(* ---------------------------------------------------------------------------------------------------------------
   4. UNSUBSCRIBE goes out exactly when the last handler of a subscription id is removed: a call that returns sends
   exactly one UNSUBSCRIBE (for that id) iff the caller was the only attached handler; a call that raises sends
   nothing and changes nothing; no other operation sends UNSUBSCRIBE; and in a reachable state an active, held
   subscription can always be unsubscribed while the transport is there.                                             *)
Theorem C11_unsubscribe_iff_last : forall fl s l o,
  lookup l (s_objs s) = Some o -> so_held o = true ->
  let outs := snd (step fl s (OpUnsubscribe l [])) in
  ((forall e, ~ In (ORaised e) outs) ->
     (labels (attached s (so_id o)) = [l] /\
        filter sends_unsubscribe outs = [OSent (MUnsubscribe (s_next s + 1) (so_id o))])
     \/ (labels (attached s (so_id o)) <> [l] /\ filter sends_unsubscribe outs = []))
  /\ ((exists e, In (ORaised e) outs) -> fst (step fl s (OpUnsubscribe l [])) = s /\ filter sends_unsubscribe outs = []).
Proof. exact unsubscribe_iff_last. Qed.
Print Assumptions C11_unsubscribe_iff_last.

Theorem C11_unsubscribe_only_source : forall fl s o,
  (forall l rin, o <> OpUnsubscribe l rin) -> (forall ev, o <> OpEvent ev) -> inline_free o = true ->
  filter sends_unsubscribe (snd (step fl s o)) = [].
Proof. exact unsubscribe_only_source. Qed.
Print Assumptions C11_unsubscribe_only_source.

Theorem C11_unsubscribe_succeeds : forall fl ops l o, let s := final fl ops in
  lookup l (s_objs s) = Some o -> so_held o = true -> so_active o = true -> s_transport s = true ->
  forall e, ~ In (ORaised e) (snd (step fl s (OpUnsubscribe l []))).
Proof. exact unsubscribe_succeeds. Qed.
Print Assumptions C11_unsubscribe_succeeds.

(* ---------------------------------------------------------------------------------------------------------------
   5. an EVENT racing with the unsubscribe of the last handler (UNSUBSCRIBE sent, UNSUBSCRIBED not yet received) is
   dropped silently: no output at all, state unchanged; the id counts as once held.                                   *)
Theorem C11_race_dropped : forall fl ops l o ev, let s := final fl ops in
  lookup l (s_objs s) = Some o -> so_held o = true -> so_active o = true -> s_transport s = true ->
  labels (attached s (so_id o)) = [l] -> e_sub ev = so_id o ->
  let s' := fst (step fl s (OpUnsubscribe l [])) in
  In (so_id o) (s_ever s') /\ step fl s' (OpEvent ev) = (s', []).
Proof. exact race_dropped. Qed.
Print Assumptions C11_race_dropped.

(* 6. an EVENT for an id the session never held is a protocol violation (raised out of onMessage, state unchanged) *)
Theorem C11_unknown_is_violation : forall fl ops ev, let s := final fl ops in
  ~ In (e_sub ev) (s_ever s) -> step fl s (OpEvent ev) = (s, [ORaised EProtocolError]).
Proof. exact unknown_is_violation. Qed.
Print Assumptions C11_unknown_is_violation.

(* how the code tells the two cases apart: by membership of the id in the subscription table (an id whose removal the
   router has acknowledged is treated like an unknown one) *)
Theorem C11_event_table_criterion : forall fl s ev, s_joined s = true ->
  (lookup (e_sub ev) (s_subs s) = None -> step fl s (OpEvent ev) = (s, [ORaised EProtocolError])) /\
  (lookup (e_sub ev) (s_subs s) = Some [] -> step fl s (OpEvent ev) = (s, [])).
Proof. exact event_table_criterion. Qed.
Print Assumptions C11_event_table_criterion.

(* ---------------------------------------------------------------------------------------------------------------
   7. the REQUESTED event details.  [requested_details] is the specification (documentation of SubscribeOptions:
   details=True -> keyword "details"; details_arg="name" -> that keyword; no options, details=None, details=False -> no
   details); [norm_details] is what SubscribeOptions.__init__ computes.  For every argument combination the constructor
   accepts they agree; the request subscribe() records - hence, by C11_subscribed_appends, the handler attached when
   SUBSCRIBED arrives, whose [h_details] C11_exact_fanout's [expected_invocation] reads - carries the requested details,
   and the options sent are the given ones.  (The correspondence run compares norm_details / wire_match / wire_retained
   with the real SubscribeOptions and Subscribe.marshal over the whole argument grid.)                               *)
Theorem C11_options_normalisation : forall o, opts_valid o = true -> norm_details o = requested_details (Some o).
Proof. exact options_normalisation. Qed.
Print Assumptions C11_options_normalisation.

Theorem C11_subscribe_records_request : forall fl s sp o t, opts_ok o = true -> s_transport s = true ->
  let rid := s_next s + 1 in
  let s' := fst (step fl s (OpSubscribe sp o t [])) in
  exists h, s_subreqs s' = s_subreqs s ++ [(rid, {| sr_topic := t; sr_handler := h; sr_group := rid |})] /\
            h_details h = requested_details o /\ h_sig h = hs_sig sp /\ h_check h = hs_check sp /\ h_beh h = hs_beh sp /\
            In (OSent (MSubscribe rid t (wire_match o) (wire_retained o))) (snd (step fl s (OpSubscribe sp o t []))).
Proof. exact subscribe_records_request. Qed.
Print Assumptions C11_subscribe_records_request.

(* ---------------------------------------------------------------------------------------------------------------
   8. replies delivered from inside transport.send() (in-process / loopback transports).  The request is on record
   when the message goes out: a SUBSCRIBED / UNSUBSCRIBED that arrives before send() has returned is accepted like any
   other - handler attached / id removed, request no longer pending, future completed, nothing raised.                *)
Theorem C11_subscribed_inside_send : forall fl ops sp o t sid, let s := final fl ops in
  opts_ok o = true -> s_transport s = true ->
  let rid := s_next s + 1 in
  let r := step fl s (OpSubscribe sp o t [MsgSubscribed rid sid]) in
  attached (fst r) sid = attached s sid ++ [{| se_label := rid; se_topic := t; se_handler := mk_handler false o sp |}] /\
  lookup rid (s_subreqs (fst r)) = None /\
  (forall e, ~ In (ORaised e) (snd r)).
Proof. exact subscribed_inside_send. Qed.
Print Assumptions C11_subscribed_inside_send.

Theorem C11_unsubscribed_inside_send : forall fl ops l o, let s := final fl ops in
  lookup l (s_objs s) = Some o -> so_held o = true -> so_active o = true -> s_transport s = true ->
  labels (attached s (so_id o)) = [l] ->
  let r := step fl s (OpUnsubscribe l [MsgUnsubscribed (s_next s + 1)]) in
  lookup (so_id o) (s_subs (fst r)) = None /\ In (ODoneU l (RNum 0)) (snd r) /\ (forall e, ~ In (ORaised e) (snd r)).
Proof. exact unsubscribed_inside_send. Qed.
Print Assumptions C11_unsubscribed_inside_send.

(* ---------------------------------------------------------------------------------------------------------------
   non-vacuity and regressions (witness histories in Proofs/SessionSubProofs.v) *)

(* regression for the repaired defect "shared kwargs dict" (DESIGN F-C11-1): three handlers, the first asks for details
   under "details", the second accepts only keyword "a"; EVENT args [1], kwargs {a: 1}.  Each gets the published
   kwargs; only the first gets details; the strict one runs. *)
Example C11_regression_shared_kwargs :
  snd (step Tx (final Tx w_shared_ops) (OpEvent (w_event [(0, KInt 1%Z)]))) =
    [OInvoke 1 false [1%Z] [(0, KInt 1%Z); (3, KDet {| d_owner := 1; d_sub := 71; d_pub := 900; d_publisher := None;
                                                      d_topic := 1; d_retained := None; d_extra := 5 |})] true;
     OInvoke 2 false [1%Z] [(0, KInt 1%Z)] true;
     OInvoke 3 false [1%Z] [(0, KInt 1%Z)] true].
Proof. reflexivity. Qed.

(* regression for the repaired defect "handler list mutated during the dispatch", and non-vacuity of the three Dispatch
   clauses: handlers 1..4 on one id; 1 unsubscribes itself, 2 unsubscribes 3.  1, 2 and 4 are invoked, 3 is passed over. *)
Example C11_regression_unsubscribe_during_dispatch :
  let s := final Tx w_reentrant_ops in
  labels (attached s 71) = [1; 2; 3; 4] /\
  invoked_labels (snd (step Tx s (OpEvent (w_event [])))) = [1; 2; 4] /\
  labels (attached (fst (step Tx s (OpEvent (w_event [])))) 71) = [2; 4].
Proof. cbv zeta. vm_compute. auto. Qed.

(* check_types: h1(level: int, *values, **fields) [check_types], h2 plain (unsubscribes h1 when called),
   h3(kind: str, *values) [check_types]; EVENT args [1], kwargs {a: 1}.
   Twisted: h1 receives exactly the published payload, h2 runs, h3 is rejected by the wrapper (keyword "a" does not
   bind: TypeError; with no kwargs its str hint fails: TypeCheckError) - both reported to onUserError, nothing escapes.
   asyncio: h2 (plain) runs inside the loop, h1's Task body runs in the next loop turn - with the same arguments. *)
Example C11_check_types_nonvacuous :
  map observable_invocation (snd (step Tx (final Tx w_checked_ops) (OpEvent (w_event [(0, KInt 1%Z)]))))
    = [Some (1, [1%Z], [(0, KInt 1%Z)], true); Some (2, [1%Z], [(0, KInt 1%Z)], true); None;
       Some (3, [1%Z], [(0, KInt 1%Z)], false); None] /\
  In (OUserError 3 ETypeError) (snd (step Tx (final Tx w_checked_ops) (OpEvent (w_event [(0, KInt 1%Z)])))) /\
  In (OUserError 3 ETypeCheck) (snd (step Tx (final Tx w_checked_ops) (OpEvent (w_event [])))) /\
  invoked_labels (snd (step Aio (final Aio w_checked_ops) (OpEvent (w_event [(0, KInt 1%Z)])))) = [2; 1; 3].
Proof. vm_compute. intuition. Qed.

(* plain fan-out and isolation apply to a reachable three-handler state; the middle handler raises, the third rejects
   the published keyword: all three are invoked, two user errors are reported, nothing escapes *)
Example C11_isolation_nonvacuous :
  let s := final Aio w_three_ops in
  s_joined s = true /\ In 71 (keys (s_subs s)) /\ nonreentrant_at s 71 /\ labels (attached s 71) = [1; 2; 3] /\
  invoked_labels (snd (step Aio s (OpEvent (w_event [(1, KInt 5%Z)])))) = [1; 2; 3] /\
  In (OUserError 2 (EUser 7)) (snd (step Aio s (OpEvent (w_event [(1, KInt 5%Z)])))) /\
  In (OUserError 3 ETypeError) (snd (step Aio s (OpEvent (w_event [(1, KInt 5%Z)])))).
Proof.
  cbv zeta. split; [reflexivity|]. split; [vm_compute; tauto|]. split.
  - intros e H. vm_compute in H. intuition; subst; reflexivity.
  - vm_compute. intuition.
Qed.

(* middle handler removed: returns normally, no UNSUBSCRIBE; later event reaches 1 and 3 only *)
Example C11_never_after_nonvacuous :
  unsub_returns (final Tx w_three_ops) 2 /\
  snd (run Tx (fst (step Tx (final Tx w_three_ops) (OpUnsubscribe 2 []))) [OpEvent (w_event [(0, KInt 5%Z)])])
    = [[OInvoke 1 false [1%Z] [(0, KInt 5%Z)] true; OInvoke 3 false [1%Z] [(0, KInt 5%Z)] true]].
Proof.
  split; [|reflexivity]. exists {| so_id := 71; so_active := true; so_held := true |}.
  split; [reflexivity|]. split; [reflexivity|]. intros e H. vm_compute in H. intuition discriminate.
Qed.

(* every way of (not) asking for details: no options / SubscribeOptions() / details=False / details=True /
   details_arg="info", each handler a function accepting only keyword "a" plus what it asked for.  All five bodies run;
   only the last two receive details, each under its own keyword. *)
Example C11_requested_details_nonvacuous :
  let outs := snd (step Tx (final Tx w_details_ops) (OpEvent (w_event [(0, KInt 1%Z)]))) in
  ran_labels outs = [1; 2; 3; 4; 5] /\
  map (fun x => map fst (snd x)) (invocations outs) = [[0]; [0]; [0]; [0; 3]; [0; 4]].
Proof. vm_compute. auto. Qed.

(* a loopback transport answers from inside send(): SUBSCRIBED then an EVENT before subscribe() returns (the handler
   runs, the future completes afterwards); later the UNSUBSCRIBE of that last handler is answered, after a racing EVENT,
   from inside its send() as well *)
Example C11_inside_send_nonvacuous :
  snd (run Tx init [OpSubscribe (w_sp BReturn) (w_opts (Some true) None) 1 [MsgSubscribed 1 71; MsgEvent (w_event [])];
                    OpUnsubscribe 1 [MsgEvent (w_event []); MsgUnsubscribed 2; MsgEvent (w_event [])]]) =
    [[OSent (MSubscribe 1 1 None None);
      OInvoke 1 false [1%Z] [(3, KDet {| d_owner := 1; d_sub := 71; d_pub := 900; d_publisher := None; d_topic := 1;
                                        d_retained := None; d_extra := 5 |})] true;
      ODone 1 (RSub 71)];
     [OSent (MUnsubscribe 2 71); ORaised EProtocolError; ODoneU 1 (RNum 0)]].
Proof. reflexivity. Qed.

(* last handler: UNSUBSCRIBE sent; racing event dropped; after UNSUBSCRIBED the id is rejected; an id never held is rejected *)
Example C11_last_and_race_nonvacuous :
  let ops := [w_sub BReturn None; OpSubscribed 1 71; w_sub BReturn None; OpSubscribed 2 71;
              OpUnsubscribe 1 []; OpUnsubscribe 2 []; OpEvent (w_event []); OpUnsubscribed 3; OpEvent (w_event []);
              OpEvent {| e_sub := 5; e_pub := 1; e_args := []; e_kwargs := []; e_publisher := None; e_topic := None; e_retained := None; e_extra := 0 |}] in
  snd (run Tx init ops) =
    [[OSent (MSubscribe 1 1 None None)]; [ODone 1 (RSub 71)]; [OSent (MSubscribe 2 1 None None)]; [ODone 2 (RSub 71)];
     [ODoneU 1 (RNum 1)]; [OSent (MUnsubscribe 3 71)]; []; [ODoneU 2 (RNum 0)]; [ORaised EProtocolError]; [ORaised EProtocolError]].
Proof. reflexivity. Qed.

Example C11_race_hypotheses_nonvacuous :
  let s := final Tx [w_sub BReturn None; OpSubscribed 1 71] in
  lookup 1 (s_objs s) = Some {| so_id := 71; so_active := true; so_held := true |} /\ s_transport s = true /\
  labels (attached s 71) = [1] /\ ~ In 5 (s_ever s).
Proof. cbv zeta. vm_compute. intuition discriminate. Qed.
