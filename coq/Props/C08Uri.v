(* C08, identifier-validation part ("... never accepts ids outside 0..2^53, non-string or grammar-violating URIs ...").
   Property statements only; proofs in Proofs/WampUriProofs.v.  The regular expressions pat_<k> / end_<k>, the id bounds
   and the enc literal sets are GENERATED from autobahn/wamp/message.py on every run (Gen/UriRegex.v).

     uri_spec k      the declarative grammar that pattern k has to implement (Model/WampUri.v; written from the WAMP
                     specification: dot-separated components, strict = [0-9a-z_]+, loose = no whitespace / '.' / '#')
     py_match e r s  <compiled ^r$ or ^r\Z>.match(s) is not None   (Base/Regex.v; `$` also matches before a final LF)

   History: up to /repo commit 618ef5b5 every pattern ended in `$` and used the Unicode-aware `\d`; full-strength
   equality was then FALSE and this file proved the refutations (F-C08-1 witness "a\n", F-C08-4 witness U+0663), the
   exact accepted language and the partial theorems (archived: coq/Scratch/C08Uri_before_fix).  Since the repairs
   3f578427 (`$` -> `\Z`) and d6e6279b (`\d` -> `0-9`) full strength holds and is what is stated below; a regression of
   either kind on any pattern breaks `shape_<k>` / `all_ends_z` in the proofs and is reported with a concrete string by
   harness/props/c08uri.py (keys uri-regex/dollar-accepts-trailing-newline, uri-regex/backslash-d-accepts-unicode-digits). *)
From Coq Require Import List NArith ZArith Bool.
From AV Require Import Base.Regex Gen.UriRegex Model.WampUri Model.WampUriRun Proofs.WampUriProofs.
Import ListNotations.
Open Scope N_scope.

(* ---------- the regex base ---------- *)
Theorem C08_regex_matches_correct : forall r s, matches r s = true <-> lang r s.
Proof. exact matches_correct. Qed.
Print Assumptions C08_regex_matches_correct.

(* ---------- every pattern decides exactly its grammar ---------- *)
Theorem C08_uri_regex_all : forall k s, pmatch k s = uri_spec k s.
Proof. exact pm_full. Qed.
Print Assumptions C08_uri_regex_all.

Theorem C08_uri_regex_realm_name : forall s, py_match end_realm_name pat_realm_name s = uri_spec PRealmName s.
Proof. exact (pm_full PRealmName). Qed.
Print Assumptions C08_uri_regex_realm_name.

Theorem C08_uri_regex_realm_name_eth : forall s, py_match end_realm_name_eth pat_realm_name_eth s = uri_spec PRealmNameEth s.
Proof. exact (pm_full PRealmNameEth). Qed.
Print Assumptions C08_uri_regex_realm_name_eth.

Theorem C08_uri_regex_realm_name_ens : forall s, py_match end_realm_name_ens pat_realm_name_ens s = uri_spec PRealmNameEns s.
Proof. exact (pm_full PRealmNameEns). Qed.
Print Assumptions C08_uri_regex_realm_name_ens.

Theorem C08_uri_regex_realm_name_ens_reverse : forall s, py_match end_realm_name_ens_reverse pat_realm_name_ens_reverse s = uri_spec PRealmNameEnsReverse s.
Proof. exact (pm_full PRealmNameEnsReverse). Qed.
Print Assumptions C08_uri_regex_realm_name_ens_reverse.

Theorem C08_uri_regex_strict_empty : forall s, py_match end_strict_empty pat_strict_empty s = uri_spec PStrictEmpty s.
Proof. exact (pm_full PStrictEmpty). Qed.
Print Assumptions C08_uri_regex_strict_empty.

Theorem C08_uri_regex_loose_empty : forall s, py_match end_loose_empty pat_loose_empty s = uri_spec PLooseEmpty s.
Proof. exact (pm_full PLooseEmpty). Qed.
Print Assumptions C08_uri_regex_loose_empty.

Theorem C08_uri_regex_strict_non_empty : forall s, py_match end_strict_non_empty pat_strict_non_empty s = uri_spec PStrictNonEmpty s.
Proof. exact (pm_full PStrictNonEmpty). Qed.
Print Assumptions C08_uri_regex_strict_non_empty.

Theorem C08_uri_regex_loose_non_empty : forall s, py_match end_loose_non_empty pat_loose_non_empty s = uri_spec PLooseNonEmpty s.
Proof. exact (pm_full PLooseNonEmpty). Qed.
Print Assumptions C08_uri_regex_loose_non_empty.

Theorem C08_uri_regex_strict_last_empty : forall s, py_match end_strict_last_empty pat_strict_last_empty s = uri_spec PStrictLastEmpty s.
Proof. exact (pm_full PStrictLastEmpty). Qed.
Print Assumptions C08_uri_regex_strict_last_empty.

Theorem C08_uri_regex_loose_last_empty : forall s, py_match end_loose_last_empty pat_loose_last_empty s = uri_spec PLooseLastEmpty s.
Proof. exact (pm_full PLooseLastEmpty). Qed.
Print Assumptions C08_uri_regex_loose_last_empty.

Theorem C08_uri_regex_custom_attribute : forall s, py_match end_custom_attribute pat_custom_attribute s = uri_spec PCustomAttribute s.
Proof. exact (pm_full PCustomAttribute). Qed.
Print Assumptions C08_uri_regex_custom_attribute.

(* ---------- the validators: only Ok / InvalidUriError / ProtocolError, for every kind of value ---------- *)
Theorem C08_uri_total_uri : forall v strict allow_empty_components allow_last_empty allow_none,
  check_or_raise_uri v strict allow_empty_components allow_last_empty allow_none = Ok \/
  check_or_raise_uri v strict allow_empty_components allow_last_empty allow_none = Raise InvalidUriError.
Proof. exact uri_total. Qed.
Print Assumptions C08_uri_total_uri.

Theorem C08_uri_total_realm : forall v allow_eth,
  check_or_raise_realm_name v allow_eth = Ok \/ check_or_raise_realm_name v allow_eth = Raise InvalidUriError.
Proof. exact realm_total. Qed.
Print Assumptions C08_uri_total_realm.

Theorem C08_uri_total_id : forall v, check_or_raise_id v = Ok \/ check_or_raise_id v = Raise ProtocolError.
Proof. exact id_total. Qed.
Print Assumptions C08_uri_total_id.

Theorem C08_uri_total_extra : forall v, check_or_raise_extra v = Ok \/ check_or_raise_extra v = Raise ProtocolError.
Proof. exact extra_total. Qed.
Print Assumptions C08_uri_total_extra.

Theorem C08_uri_total_kwargs : forall v, validate_kwargs v = Ok \/ validate_kwargs v = Raise ProtocolError.
Proof. exact kwargs_total. Qed.
Print Assumptions C08_uri_total_kwargs.

(* ---------- what is accepted: never a non-string, never a grammar-violating URI / realm name ---------- *)
Theorem C08_uri_accepts : forall v strict allow_empty_components allow_last_empty allow_none,
  check_or_raise_uri v strict allow_empty_components allow_last_empty allow_none = Ok <->
  (v = UNone /\ allow_none = true) \/
  exists s, v = UStr s /\ pmatch (select_uri_pat strict allow_empty_components allow_last_empty) s = true.
Proof. exact uri_accepts. Qed.
Print Assumptions C08_uri_accepts.

Theorem C08_uri_never_accepts_invalid : forall v strict allow_empty_components allow_last_empty allow_none,
  check_or_raise_uri v strict allow_empty_components allow_last_empty allow_none = Ok ->
  (v = UNone /\ allow_none = true) \/
  exists s, v = UStr s /\ uri_spec (select_uri_pat strict allow_empty_components allow_last_empty) s = true.
Proof. exact uri_never_accepts_invalid. Qed.
Print Assumptions C08_uri_never_accepts_invalid.

Theorem C08_uri_accepts_exactly : forall v strict allow_empty_components allow_last_empty allow_none,
  check_or_raise_uri v strict allow_empty_components allow_last_empty allow_none = Ok <->
  (v = UNone /\ allow_none = true) \/
  exists s, v = UStr s /\ uri_spec (select_uri_pat strict allow_empty_components allow_last_empty) s = true.
Proof. exact uri_accepts_exactly. Qed.
Print Assumptions C08_uri_accepts_exactly.

Theorem C08_realm_accepts : forall v allow_eth,
  check_or_raise_realm_name v allow_eth = Ok <->
  exists s, v = UStr s /\ (pmatch PRealmName s || (allow_eth && pmatch PRealmNameEth s)) = true.
Proof. exact realm_accepts. Qed.
Print Assumptions C08_realm_accepts.

Theorem C08_realm_accepts_exactly : forall v allow_eth,
  check_or_raise_realm_name v allow_eth = Ok <->
  exists s, v = UStr s /\ (uri_spec PRealmName s || (allow_eth && uri_spec PRealmNameEth s)) = true.
Proof. exact realm_accepts_exactly. Qed.
Print Assumptions C08_realm_accepts_exactly.

Theorem C08_category_iff_realm : forall v,
  identify_realm_name_category v <> None <-> check_or_raise_realm_name v true = Ok.
Proof. exact category_some_iff_realm. Qed.
Print Assumptions C08_category_iff_realm.

(* ---------- ids: exactly the ints (not bool, not float, not str) in 0 .. 2^53 (bounds generated from the source) ---------- *)
Theorem C08_id_range : forall v, check_or_raise_id v = Ok <-> exists z, v = UInt z /\ (0 <= z <= 2 ^ 53)%Z.
Proof. exact id_range. Qed.
Print Assumptions C08_id_range.

Theorem C08_id_range_exact : forall v, check_or_raise_id v = (if id_spec v then Ok else Raise ProtocolError).
Proof. exact id_range_bool. Qed.
Print Assumptions C08_id_range_exact.

Theorem C08_extra_accepts : forall v,
  check_or_raise_extra v = Ok <-> exists ks, v = UDict ks /\ forallb key_is_str ks = true.
Proof. exact extra_accepts. Qed.
Print Assumptions C08_extra_accepts.

Theorem C08_kwargs_accepts : forall v,
  validate_kwargs v = Ok <-> v = UNone \/ exists ks, v = UDict ks /\ forallb key_is_str ks = true.
Proof. exact kwargs_accepts. Qed.
Print Assumptions C08_kwargs_accepts.

Theorem C08_enc_valid : forall std v, is_valid_enc std v = true ->
  exists s, v = UStr s /\ (In s std \/ pmatch PCustomAttribute s = true).
Proof. exact enc_valid_str. Qed.
Print Assumptions C08_enc_valid.

(* ---------- non-vacuity ---------- *)
(* "com.foo.bar2" satisfies the hypotheses of the partial theorems and is accepted / grammatical *)
Example C08_uri_witness_valid :
  let s := [99; 111; 109; 46; 102; 111; 111; 46; 98; 97; 114; 50] in
  no_final_newline s = true /\ digits_ascii_only s = true /\
  pmatch PStrictNonEmpty s = true /\ uri_spec PStrictNonEmpty s = true /\
  check_or_raise_uri (UStr s) true false false false = Ok /\
  pmatch PStrictNonEmpty (s ++ [46]) = false /\ pmatch PStrictLastEmpty (s ++ [46]) = true /\
  pmatch PStrictEmpty (46 :: 46 :: s) = true /\ pmatch PStrictLastEmpty (46 :: 46 :: s) = false /\
  pmatch PLooseNonEmpty (s ++ [35]) = false /\ pmatch PLooseNonEmpty (s ++ [33]) = true.
Proof. vm_compute. repeat split; reflexivity. Qed.

(* no disagreement left among the short strings; the former witnesses are rejected *)
Example C08_uri_witness_shortest :
  first_diff PStrictNonEmpty [97; 46; 10; 1635] 3 = None /\ first_diff PLooseNonEmpty [97; 46; 10; 35; 32] 3 = None /\
  first_diff PStrictEmpty [97; 46; 10; 1635] 3 = None /\ first_diff PCustomAttribute [120; 95; 97; 10; 1635] 4 = None.
Proof. vm_compute. repeat split; reflexivity. Qed.

Example C08_uri_old_witnesses_rejected :
  check_or_raise_uri (UStr [99; 111; 109; 46; 102; 111; 111; 10]) false false false false = Raise InvalidUriError /\
  check_or_raise_uri (UStr [99; 111; 109; 46; 102; 111; 111; 1635]) true false false false = Raise InvalidUriError /\
  check_or_raise_realm_name (UStr [114; 101; 97; 108; 109; 49; 10]) true = Raise InvalidUriError.
Proof. exact old_witnesses_rejected. Qed.

(* realm names: "realm1", an eth address, "wamp-proto.eth" / "eth.wamp-proto"; 255 characters accepted, 256 not *)
Example C08_realm_witness :
  let eth := str_0x ++ repeat 101 40 in
  let ens := [119; 97; 109; 112; 45; 112; 114; 111; 116; 111] ++ str_dot_eth in
  let rev := str_eth_dot ++ [119; 97; 109; 112; 45; 112; 114; 111; 116; 111] in
  identify_realm_name_category (UStr [114; 101; 97; 108; 109; 49]) = Some Standalone /\
  identify_realm_name_category (UStr eth) = Some Eth /\ check_or_raise_realm_name (UStr eth) false = Raise InvalidUriError /\
  identify_realm_name_category (UStr ens) = Some Ens /\ uri_spec PRealmNameEns ens = true /\
  identify_realm_name_category (UStr rev) = Some ReverseEns /\
  check_or_raise_realm_name (UStr (repeat 97 255)) true = Ok /\ uri_spec PRealmName (repeat 97 255) = true /\
  check_or_raise_realm_name (UStr (repeat 97 256)) true = Raise InvalidUriError /\
  check_or_raise_realm_name (UStr [97; 98]) true = Raise InvalidUriError /\
  check_or_raise_realm_name UNone true = Raise InvalidUriError.
Proof. vm_compute. repeat split; reflexivity. Qed.

Example C08_id_witness :
  check_or_raise_id (UInt 0) = Ok /\ check_or_raise_id (UInt (2 ^ 53)) = Ok /\
  check_or_raise_id (UInt (2 ^ 53 + 1)) = Raise ProtocolError /\ check_or_raise_id (UInt (-1)) = Raise ProtocolError /\
  check_or_raise_id (UBool true) = Raise ProtocolError /\ check_or_raise_id UFloat = Raise ProtocolError /\
  check_or_raise_id (UStr [49]) = Raise ProtocolError /\ check_or_raise_id UNone = Raise ProtocolError.
Proof. vm_compute. repeat split; reflexivity. Qed.

Example C08_values_witness :
  check_or_raise_uri UBytes false false false true = Raise InvalidUriError /\
  check_or_raise_uri UNone false false false true = Ok /\ check_or_raise_uri UNone false false false false = Raise InvalidUriError /\
  check_or_raise_extra (UDict [KStr [97]; KOther]) = Raise ProtocolError /\ check_or_raise_extra (UDict [KStr [97]]) = Ok /\
  check_or_raise_extra UNone = Raise ProtocolError /\ validate_kwargs UNone = Ok /\ validate_kwargs UList = Raise ProtocolError /\
  is_valid_enc_algo (UStr [109; 113; 116; 116]) = true /\ is_valid_enc_algo (UStr (str_x_ ++ [97; 98])) = true /\
  is_valid_enc_algo (UStr (str_x_ ++ [97])) = false /\ is_valid_enc_serializer (UStr [109; 113; 116; 116]) = false /\
  is_valid_enc_algo UBytes = false.
Proof. vm_compute. repeat split; reflexivity. Qed.
