(* C02 (text-message clause) x C09: the UTF-8 automaton inside the receive model IS the validator the code runs.
   Model/WsRecv.v validates text payloads with u_step/u_validate, written from RFC 3629; Model/Utf8.v models the real
   Utf8Validator.validate over the table regenerated from utf8validator.py on every run (and C09 proves the NVX
   validators equal to it on every call).  These statements carry every C02 theorem about text messages over to the
   real validator; statements only, proofs in Proofs/WsUtf8Bridge.v. *)
From Coq Require Import NArith List Bool.
From AV Require Import Model.WsRecv Model.Utf8 Proofs.Utf8Proofs Proofs.WsUtf8Bridge.
From AV Require Import Gen.Utf8TablePy.
Import ListNotations.
Open Scope N_scope.

(* transition for transition: the receive model's automaton = the generated Python table, on every state and octet *)
Theorem C02_utf8_step_is_table : forall s b, s < 9 -> b < 256 -> WsRecv.u_step s b = dfa_step dfa_py s b.
Proof. exact u_step_table. Qed.
Print Assumptions C02_utf8_step_is_table.

(* one validate() call (= one frame-payload chunk) from any state, REJECT included: verdict, ends-on-code-point
   flag and the state carried to the next chunk are exactly those of the table-driven validator, for every chunk *)
Theorem C02_utf8_validate_is_real : forall s idx bs, s < 9 -> Utf8.bytes_ok bs ->
  WsRecv.u_validate s bs =
    (let '(pv, (rv, re, _, _)) := py_validate dfa_py {| py_state := s; py_index := idx |} bs in
     (rv, re, py_state pv)).
Proof. exact u_validate_is_py_validate. Qed.
Print Assumptions C02_utf8_validate_is_real.

(* hence a text payload passes the receive model's validation (valid and complete) iff it is well-formed UTF-8 *)
Theorem C02_utf8_accepts_exactly_wf : forall bs, Utf8.bytes_ok bs ->
  (let '(v, e, _) := WsRecv.u_validate 0 bs in v && e) = wf_utf8 bs.
Proof. exact u_validate_accepts_wf. Qed.
Print Assumptions C02_utf8_accepts_exactly_wf.

(* non-vacuity: the euro sign cut after two octets, validated in two chunks by the receive model *)
Example C02_utf8_witness :
  WsRecv.u_validate 0 [226; 130] = (true, false, 2) /\ WsRecv.u_validate 2 [172] = (true, true, 0) /\
  WsRecv.u_validate 0 [237; 160; 128] = (false, false, 1).
Proof. vm_compute. repeat split. Qed.
