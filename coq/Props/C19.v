(* C19 - authentication signatures interoperate and mutual authentication is enforced.
   Property statements only; proofs live in Proofs/AuthProofs.v.  The model (Model/Auth.v) is the glue of
   auth.py / cryptosign.py / util.xor over ORACLES: every theorem below is closed after its Section, so it holds
   for ALL functions H256, HMAC256, HMAC1, PBKDF2, ARGON2ID, SIGN/VERIFY, SASLPREP ... satisfying the named laws
   (output lengths; verify (pub seed) m (sign seed m) = true).

   NOT PROVED, and not provable here: "any alteration of challenge, key, salt or signature yields a different
   signature or a rejection" for the client-side signatures.  That is collision resistance of SHA-256/HMAC/PBKDF2/
   argon2id and unforgeability of Ed25519 - properties of the primitives, which are oracles in this model.  They
   are assumed and SAMPLED by the bit-flip runs of harness/impl/wamp_auth.py (C19 is 'partial' in this respect).
   What IS proved about alterations: AuthScram.on_welcome denies every octet string other than the one correct
   server signature (C19_scram_mutual, C19_scram_welcome_forged) - that direction needs no cryptographic
   assumption - and the router-side acceptance theorems pin down the signed bytes exactly. *)
From Coq Require Import NArith ZArith List Bool String.
From AV Require Import Model.Auth Proofs.AuthProofs.
Import ListNotations.
Open Scope N_scope.
Local Notation length := List.length.

(* ---------------- util.xor ---------------- *)
Theorem C19_xor_involution : forall a b, length a = length b -> (c <- xor a b ;; xor c b) = Ok a.
Proof. exact xor_involutive. Qed.
Print Assumptions C19_xor_involution.

Theorem C19_xor_commutative : forall a b, xor a b = xor b a.
Proof. exact xor_comm. Qed.
Print Assumptions C19_xor_commutative.

(* defined exactly for equal lengths (then pointwise, length preserved); otherwise the call raises *)
Theorem C19_xor_defined_iff : forall a b c, xor a b = Ok c <-> length a = length b /\ c = xor_zip a b.
Proof. exact xor_ok_iff. Qed.
Print Assumptions C19_xor_defined_iff.

Theorem C19_xor_length_mismatch_raises : forall a b, length a <> length b -> xor a b = Raise PlainException.
Proof. exact xor_raise. Qed.
Print Assumptions C19_xor_length_mismatch_raises.

Theorem C19_xor_bytes_closed : forall a b, bytes_ok a -> bytes_ok b -> bytes_ok (xor_zip a b).
Proof. exact xor_zip_bytes_ok. Qed.
Print Assumptions C19_xor_bytes_closed.

(* ---------------- codecs (concrete, no assumption) ---------------- *)
Theorem C19_hex_roundtrip : forall b, bytes_ok b -> a2b_hex (b2a_hex b) = Ok b.
Proof. exact hex_roundtrip. Qed.
Print Assumptions C19_hex_roundtrip.

(* the non-strict binascii decoder (skips foreign characters, lenient padding) inverts the encoder *)
Theorem C19_base64_roundtrip : forall b, bytes_ok b -> a2b_base64 (b64encode b) = Ok b.
Proof. exact base64_roundtrip. Qed.
Print Assumptions C19_base64_roundtrip.

(* base64.b32decode (TOTP secrets) is modelled with explicit fuel for its loop over 8-character quanta; the fuel
   never runs out, so the totalising value is not an outcome *)
Theorem C19_b32decode_total : forall s, b32decode s <> Raise OracleMissing.
Proof. exact b32decode_no_fuel_error. Qed.
Print Assumptions C19_b32decode_total.

(* ---------------- WAMP-CRA ---------------- *)
(* AuthWampCra.on_challenge = the router's computation (cra_reference) on the UTF-8 encodings, with the error cascade
   in source order; holds for every HMAC and PBKDF2 *)
Theorem C19_cra : forall (HMAC256 : bytes -> bytes -> bytes) (PBKDF2 : bytes -> bytes -> N -> N -> result bytes)
                         secret salted challenge,
  cra_on_challenge HMAC256 PBKDF2 secret salted challenge =
    (su <- utf8_encode secret ;;
     sa <- match salted with
           | None => Ok None
           | Some (salt, it, kl) => s <- to_bytes_utf8 salt ;; Ok (Some (s, it, kl))
           end ;;
     cu <- (match sa with
            | Some (s, it, kl) => match PBKDF2 su s it kl with Ok _ => utf8_encode challenge | Raise e => Raise e end
            | None => utf8_encode challenge
            end) ;;
     cra_reference HMAC256 PBKDF2 su sa cu).
Proof. exact cra_on_challenge_spec. Qed.
Print Assumptions C19_cra.

(* signature = b64 (HMAC key challenge), key = b64 (PBKDF2 secret salt iterations keylen) when salted, else the secret *)
Theorem C19_cra_salted : forall HMAC256 PBKDF2 secret challenge salt it kl su cu sa dk,
  utf8_encode secret = Ok su -> utf8_encode challenge = Ok cu -> to_bytes_utf8 salt = Ok sa ->
  PBKDF2 su sa it kl = Ok dk ->
  cra_on_challenge HMAC256 PBKDF2 secret (Some (salt, it, kl)) challenge = Ok (b64encode (HMAC256 (b64encode dk) cu)).
Proof. exact cra_salted. Qed.
Print Assumptions C19_cra_salted.

Theorem C19_cra_unsalted : forall HMAC256 PBKDF2 secret challenge su cu,
  utf8_encode secret = Ok su -> utf8_encode challenge = Ok cu ->
  cra_on_challenge HMAC256 PBKDF2 secret None challenge = Ok (b64encode (HMAC256 su cu)).
Proof. exact cra_unsalted. Qed.
Print Assumptions C19_cra_unsalted.

(* whenever a reply is produced, the router's own computation yields the same text and the MAC can be decoded from it *)
Theorem C19_cra_interop : forall HMAC256 PBKDF2 secret salted challenge reply,
  (forall k m, bytes_ok (HMAC256 k m)) ->
  cra_on_challenge HMAC256 PBKDF2 secret salted challenge = Ok reply ->
  exists su sa cu key,
    utf8_encode secret = Ok su /\ utf8_encode challenge = Ok cu /\
    cra_reference HMAC256 PBKDF2 su sa cu = Ok reply /\
    reply = b64encode (HMAC256 key cu) /\ a2b_base64 reply = Ok (HMAC256 key cu) /\
    match salted, sa with
    | None, None => key = su
    | Some (salt, it, kl), Some (s, it', kl') =>
      to_bytes_utf8 salt = Ok s /\ it' = it /\ kl' = kl /\ exists dk, PBKDF2 su s it kl = Ok dk /\ key = b64encode dk
    | _, _ => False
    end.
Proof. exact cra_interop. Qed.
Print Assumptions C19_cra_interop.

(* ---------------- TOTP ---------------- *)
(* for every HMAC-SHA1 with 20-octet output: the counter is floor(now/30)+offset as 8 octets big endian, the dynamic
   truncation offset is <= 15 so the 4-octet window lies inside the MAC, and the result is the six decimal digits
   of RFC 4226's DT(HMAC) mod 10^6 *)
Theorem C19_totp_range : forall (HMAC1 : bytes -> bytes -> bytes),
  (forall k m, length (HMAC1 k m) = 20%nat) ->
  forall secret key now off,
    b32decode secret = Ok key ->
    (0 <= off + now / 30 < 18446744073709551616)%Z ->
    exists msg,
      pack_Q (off + now / 30) = Ok msg /\ length msg = 8%nat /\ bytes_ok msg /\ be_num msg = Z.to_N (off + now / 30) /\
      let hs := HMAC1 key msg in
      let o := nth 19 hs 0 mod 16 in
      o <= 15 /\ (N.to_nat o + 4 <= length hs)%nat /\
      compute_totp_at HMAC1 secret now off = Ok (fmt_06d (rfc4226_dt hs mod 10 ^ 6)) /\
      length (fmt_06d (rfc4226_dt hs mod 10 ^ 6)) = 6%nat /\
      Forall is_digit (fmt_06d (rfc4226_dt hs mod 10 ^ 6)) /\
      dec_value (fmt_06d (rfc4226_dt hs mod 10 ^ 6)) = rfc4226_dt hs mod 10 ^ 6.
Proof. exact totp_spec. Qed.
Print Assumptions C19_totp_range.

(* the only exceptions: those of base64.b32decode (not a Base32 string), and struct.error for a counter outside 0..2^64-1 *)
Theorem C19_totp_errors : forall (HMAC1 : bytes -> bytes -> bytes) secret now off,
  (forall e, b32decode secret = Raise e -> compute_totp_at HMAC1 secret now off = Raise e) /\
  (forall key, b32decode secret = Ok key -> ~ (0 <= off + now / 30 < 18446744073709551616)%Z ->
               compute_totp_at HMAC1 secret now off = Raise StructError).
Proof. exact totp_errors. Qed.
Print Assumptions C19_totp_errors.

(* check_totp accepts exactly the codes of the steps 0, +1, -1 (RFC 6238 section 5.2 look-around of one step) *)
Theorem C19_check_totp_window : forall (HMAC1 : bytes -> bytes -> bytes),
  (forall k m, length (HMAC1 k m) = 20%nat) ->
  forall secret ticket now key,
    b32decode secret = Ok key -> (1 <= now / 30 < 18446744073709551615)%Z ->
    exists t0 t1 t2,
      compute_totp_at HMAC1 secret now 0 = Ok t0 /\
      compute_totp_at HMAC1 secret now 1 = Ok t1 /\
      compute_totp_at HMAC1 secret now (-1) = Ok t2 /\
      check_totp_at HMAC1 secret ticket now = Ok (list_eqb ticket t0 || list_eqb ticket t1 || list_eqb ticket t2).
Proof. exact check_totp_spec. Qed.
Print Assumptions C19_check_totp_window.

(* ---------------- WAMP-SCRAM ---------------- *)
(* RFC 5802: for all H, HMAC (all MACs of one length), salted password and AuthMessage, the server equation
   H (ClientProof XOR HMAC (StoredKey) AuthMessage) = StoredKey accepts the proof the client computes *)
Theorem C19_scram_accepts : forall (H256 : bytes -> bytes) (HMAC256 : bytes -> bytes -> bytes),
  (forall k m k' m', length (HMAC256 k m) = length (HMAC256 k' m')) ->
  (forall k m, bytes_ok (HMAC256 k m)) ->
  forall salted am,
    exists proof,
      scram_client_proof H256 HMAC256 salted am = Ok proof /\
      proof = xor_zip (HMAC256 salted (lit "Client Key")) (HMAC256 (rfc5802_stored_key H256 HMAC256 salted) am) /\
      bytes_ok proof /\
      xor proof (HMAC256 (rfc5802_stored_key H256 HMAC256 salted) am) = Ok (HMAC256 salted (lit "Client Key")) /\
      rfc5802_server_accepts H256 HMAC256 (rfc5802_stored_key H256 HMAC256 salted) am proof = true.
Proof. exact scram_proof_accepted. Qed.
Print Assumptions C19_scram_accepts.

(* AuthScram.on_challenge end to end: the AuthMessage is RFC 5802's client-first-bare "," server-first ","
   client-final-without-proof (ASCII), the KDF is dispatched as coded (argon2id-13: salt base64-decoded, SaltedPassword
   = unpadded base64 text of the tag; pbkdf2: salt base64-decoded, 32 octets, see C19_scram_pbkdf2_interop), the reply is base64 of the proof, and the RFC server accepts *)
Theorem C19_scram_on_challenge :
  forall (H256 : bytes -> bytes) (HMAC256 : bytes -> bytes -> bytes) (PBKDF2 ARGON2ID : bytes -> bytes -> N -> N -> result bytes)
         (SASLPREP : str -> result str) (REPR_BYTES : bytes -> str),
  (forall k m k' m', length (HMAC256 k m) = length (HMAC256 k' m')) ->
  (forall k m, bytes_ok (HMAC256 k m)) ->
  forall decode_salt password authid cnonce x pw aid am salted,
    utf8_encode password = Ok pw -> SASLPREP authid = Ok aid ->
    ascii_encode (rfc5802_auth_message (rfc5802_client_first_bare aid cnonce)
                                       (rfc5802_server_first (sx_nonce x) (salt_text REPR_BYTES (sx_salt x)) (sx_iterations x))
                                       (rfc5802_client_final_without_proof (sx_cbind x) (sx_nonce x))) = Ok am ->
    (sx_kdf x = lit "argon2id-13" /\
       (exists m raw_salt raw, sx_memory x = Some m /\ b64decode (sx_salt x) = Ok raw_salt /\
                               ARGON2ID pw raw_salt (sx_iterations x) m = Ok raw /\ salted = b64encode_nopad raw)
     \/ sx_kdf x = lit "pbkdf2" /\ hash_pbkdf2_secret PBKDF2 decode_salt pw (sx_salt x) (sx_iterations x) = Ok salted) ->
    exists proof,
      scram_on_challenge H256 HMAC256 PBKDF2 ARGON2ID SASLPREP REPR_BYTES decode_salt password authid cnonce x
        = Ok (b64encode proof, {| ss_auth_message := am; ss_salted_password := salted |}) /\
      a2b_base64 (b64encode proof) = Ok proof /\
      rfc5802_server_accepts H256 HMAC256 (rfc5802_stored_key H256 HMAC256 salted) am proof = true.
Proof. exact scram_on_challenge_ok. Qed.
Print Assumptions C19_scram_on_challenge.

(* mutual authentication: on_welcome accepts <-> the WELCOME's signature decodes to HMAC (HMAC salted "Server Key")
   AuthMessage; it returns the error string (session ABORTs) for every other decodable value; a decoding error
   propagates (the session ABORTs as well: protocol.py onMessage/WELCOME errback) *)
Theorem C19_scram_mutual : forall (HMAC256 : bytes -> bytes -> bytes) st sig,
  (scram_on_welcome HMAC256 st sig = Ok Accept <->
     b64decode sig = Ok (rfc5802_server_signature HMAC256 (rfc5802_server_key HMAC256 (ss_salted_password st)) (ss_auth_message st))) /\
  (scram_on_welcome HMAC256 st sig = Ok Deny <->
     exists alleged, b64decode sig = Ok alleged /\
       alleged <> rfc5802_server_signature HMAC256 (rfc5802_server_key HMAC256 (ss_salted_password st)) (ss_auth_message st)) /\
  (forall e, scram_on_welcome HMAC256 st sig = Raise e <-> b64decode sig = Raise e).
Proof. exact scram_on_welcome_spec. Qed.
Print Assumptions C19_scram_mutual.

Theorem C19_scram_welcome_correct : forall (HMAC256 : bytes -> bytes -> bytes),
  (forall k m, bytes_ok (HMAC256 k m)) ->
  forall st,
    let good := rfc5802_server_signature HMAC256 (rfc5802_server_key HMAC256 (ss_salted_password st)) (ss_auth_message st) in
    scram_on_welcome HMAC256 st (VStr (b64encode good)) = Ok Accept /\
    scram_on_welcome HMAC256 st (VBytes (b64encode good)) = Ok Accept.
Proof. exact scram_on_welcome_correct. Qed.
Print Assumptions C19_scram_welcome_correct.

(* every altered server signature (any other octet string, any length) is denied - no cryptographic assumption *)
Theorem C19_scram_welcome_forged : forall (HMAC256 : bytes -> bytes -> bytes) st other,
  bytes_ok other ->
  other <> rfc5802_server_signature HMAC256 (rfc5802_server_key HMAC256 (ss_salted_password st)) (ss_auth_message st) ->
  scram_on_welcome HMAC256 st (VStr (b64encode other)) = Ok Deny.
Proof. exact scram_on_welcome_forged. Qed.
Print Assumptions C19_scram_welcome_forged.

(* ---- the AuthScram OBJECT over histories of calls (a WELCOME without / before / after a failed CHALLENGE) ----
   In a state where _salted_password or _auth_message was never assigned - in particular on a fresh object - NO
   WELCOME is accepted, whatever signature it carries: the call raises (KeyError for a missing signature, the
   decoder's error, else AttributeError) and the session ABORTs.  There is no "default" server signature. *)
Theorem C19_scram_fresh_never_accepts : forall (HMAC256 : bytes -> bytes -> bytes) sig,
  exists e, scram_obj_on_welcome HMAC256 scram_fresh sig = Raise e.
Proof. exact scram_fresh_raises. Qed.
Print Assumptions C19_scram_fresh_never_accepts.

Theorem C19_scram_unset_never_accepts : forall (HMAC256 : bytes -> bytes -> bytes) o sig,
  so_sp o = None \/ so_am o = None -> exists e, scram_obj_on_welcome HMAC256 o sig = Raise e.
Proof. exact scram_obj_unset_raises. Qed.
Print Assumptions C19_scram_unset_never_accepts.

(* C19_scram_mutual for every state of the object: accepted <-> both attributes are set and the signature decodes to
   HMAC (HMAC _salted_password "Server Key") _auth_message; denied <-> set and it decodes to anything else *)
Theorem C19_scram_mutual_states : forall (HMAC256 : bytes -> bytes -> bytes) o sig,
  (scram_obj_on_welcome HMAC256 o sig = Ok Accept <->
     exists sp am s, so_sp o = Some sp /\ so_am o = Some am /\ sig = Some s /\
                     b64decode s = Ok (rfc5802_server_signature HMAC256 (rfc5802_server_key HMAC256 sp) am)) /\
  (scram_obj_on_welcome HMAC256 o sig = Ok Deny <->
     exists sp am s alleged, so_sp o = Some sp /\ so_am o = Some am /\ sig = Some s /\ b64decode s = Ok alleged /\
                             alleged <> rfc5802_server_signature HMAC256 (rfc5802_server_key HMAC256 sp) am).
Proof. exact scram_obj_welcome_spec. Qed.
Print Assumptions C19_scram_mutual_states.

(* over ALL histories of authextra / on_challenge / on_welcome calls on a fresh object (any order, any number, failed
   and partial challenges included): a WELCOME is accepted only if the history contains a CHALLENGE whose KDF completed
   - its output is the state's salted password, which needs the password - and only with the signature
   HMAC (HMAC salted "Server Key") AuthMessage of the state's values *)
Theorem C19_scram_history_mutual :
  forall (H256 : bytes -> bytes) (HMAC256 : bytes -> bytes -> bytes) (PBKDF2 ARGON2ID : bytes -> bytes -> N -> N -> result bytes)
         (SASLPREP : str -> result str) (REPR_BYTES : bytes -> str) ds password authid ops o' outs sig,
  scram_obj_run H256 HMAC256 PBKDF2 ARGON2ID SASLPREP REPR_BYTES ds password authid scram_fresh ops = (o', outs) ->
  scram_obj_on_welcome HMAC256 o' sig = Ok Accept ->
  exists x pw sp am s,
    In (OpChallenge x) ops /\ utf8_encode password = Ok pw /\ scram_kdf PBKDF2 ARGON2ID ds pw x = Ok sp /\
    so_sp o' = Some sp /\ so_am o' = Some am /\ sig = Some s /\
    b64decode s = Ok (rfc5802_server_signature HMAC256 (rfc5802_server_key HMAC256 sp) am).
Proof. exact scram_history_mutual. Qed.
Print Assumptions C19_scram_history_mutual.

(* a completed on_challenge on the object = the single-exchange model of C19_scram_on_challenge, and it sets both attributes *)
Theorem C19_scram_object_challenge :
  forall (H256 : bytes -> bytes) (HMAC256 : bytes -> bytes -> bytes) (PBKDF2 ARGON2ID : bytes -> bytes -> N -> N -> result bytes)
         (SASLPREP : str -> result str) (REPR_BYTES : bytes -> str) ds password authid x o cn reply st,
  so_nonce o = Some cn ->
  scram_on_challenge H256 HMAC256 PBKDF2 ARGON2ID SASLPREP REPR_BYTES ds password authid cn x = Ok (reply, st) ->
  scram_obj_on_challenge H256 HMAC256 PBKDF2 ARGON2ID SASLPREP REPR_BYTES ds password authid x o =
    ({| so_nonce := Some cn; so_am := Some (ss_auth_message st); so_sp := Some (ss_salted_password st) |}, Ok reply).
Proof. exact scram_obj_on_challenge_ok. Qed.
Print Assumptions C19_scram_object_challenge.

(* ---- mutual authentication THROUGH THE SESSION (protocol.py: ApplicationSession.onMessage/WELCOME and the gate
   _SessionShim.onWelcome in front of IAuthenticator.on_welcome; model: shim_welcome_gate, session_on_welcome) ----
   The session joins exactly when the gate lets the WELCOME pass without an authenticator, or hands it to the
   authenticator registered under WELCOME.authmethod and that authenticator's on_welcome returns None. *)
Theorem C19_session_joined_iff : forall (HMAC256 : bytes -> bytes -> bytes) strict configured o authmethod ax,
  session_on_welcome HMAC256 strict configured o authmethod ax = Joined <->
  shim_welcome_gate strict configured authmethod = GateSkip \/
  exists m, shim_welcome_gate strict configured authmethod = GateRun m /\
            authenticator_on_welcome HMAC256 o m ax = Ok Accept.
Proof. exact session_joined_iff. Qed.
Print Assumptions C19_session_joined_iff.

(* MAIN STATEMENT for the code as it stands (strict gate, /repo commit "fix: refuse a WELCOME without authmethod when
   authentication was requested"; harness/props/c19.py reads the gate's shape off protocol.py's AST on every run, fail
   closed): with authenticators configured, none of them anonymous, the session joins ONLY IF the WELCOME names a
   configured authmethod and that authenticator's on_welcome ran and accepted (session_join_implies_verified is
   defined in Proofs/AuthProofs.v) - for every WELCOME: authmethod absent / unknown / other, authextra absent / {} /
   wrong type / any signature. *)
Theorem C19_session_join_implies_verified : session_join_implies_verified true.
Proof. exact session_join_verified_strict. Qed.
Print Assumptions C19_session_join_implies_verified.

(* Regression statement (defect F-C19-2): false of the earlier, lenient gate (`if msg.authmethod is None or
   self._authenticators is None: return`): a WELCOME without authmethod joined a scram-only session unverified *)
Theorem C19_session_join_lenient_gate_refuted : ~ session_join_implies_verified false.
Proof. exact session_join_verified_lenient_refuted. Qed.
Print Assumptions C19_session_join_lenient_gate_refuted.

Theorem C19_session_join_lenient_gate_partial : forall (HMAC256 : bytes -> bytes -> bytes) names o authmethod ax,
  session_on_welcome HMAC256 false (Some names) o authmethod ax = Joined ->
  authmethod = None \/
  exists m, authmethod = Some m /\ In m names /\ authenticator_on_welcome HMAC256 o m ax = Ok Accept.
Proof. exact session_join_lenient_partial. Qed.
Print Assumptions C19_session_join_lenient_gate_partial.

(* "AuthScram.on_welcome ran and accepted", as the session calls it: authextra must be a dict whose
   "scram_server_signature" is str/bytes decoding to the exact server signature of a fully challenged object
   (authextra absent/null -> TypeError, {} -> KeyError, a non-text value -> TypeError: all ABORT) *)
Theorem C19_session_scram_accept_iff : forall (HMAC256 : bytes -> bytes -> bytes) o ax,
  scram_session_on_welcome HMAC256 o ax = Ok Accept <->
  exists v sp am, ax = AxDict (Some (SvText v)) /\ so_sp o = Some sp /\ so_am o = Some am /\
                  b64decode v = Ok (rfc5802_server_signature HMAC256 (rfc5802_server_key HMAC256 sp) am).
Proof. exact scram_session_accept_inv. Qed.
Print Assumptions C19_session_scram_accept_iff.

(* end to end, scram-only session, all histories of the authenticator, every WELCOME: joined -> authmethod = "scram",
   a CHALLENGE of the history completed its KDF, and the WELCOME carries exactly that state's server signature *)
Theorem C19_session_scram_only_mutual :
  forall (H256 : bytes -> bytes) (HMAC256 : bytes -> bytes -> bytes) (PBKDF2 ARGON2ID : bytes -> bytes -> N -> N -> result bytes)
         (SASLPREP : str -> result str) (REPR_BYTES : bytes -> str) ds password authid ops o' outs authmethod ax,
  scram_obj_run H256 HMAC256 PBKDF2 ARGON2ID SASLPREP REPR_BYTES ds password authid scram_fresh ops = (o', outs) ->
  session_on_welcome HMAC256 true (Some [lit "scram"]) o' authmethod ax = Joined ->
  authmethod = Some (lit "scram") /\
  exists x pw sp am v,
    In (OpChallenge x) ops /\ utf8_encode password = Ok pw /\ scram_kdf PBKDF2 ARGON2ID ds pw x = Ok sp /\
    so_sp o' = Some sp /\ so_am o' = Some am /\ ax = AxDict (Some (SvText v)) /\
    b64decode v = Ok (rfc5802_server_signature HMAC256 (rfc5802_server_key HMAC256 sp) am).
Proof. exact session_scram_only_mutual. Qed.
Print Assumptions C19_session_scram_only_mutual.

(* kdf = "pbkdf2" with the salt as the router sends it (base64 text, a str) - the RFC 5802 / RFC 7677 setting.
   MAIN STATEMENT for the code as it stands (auth.py base64-decodes the salt before PBKDF2; harness/props/c19.py
   reads exactly that expression off auth.py's AST on every run, fails closed on anything it does not recognise, and
   the correspondence run evaluates the model with the flag it read): for all oracles with equal-length MACs, every
   password, authid, nonces, salt text, iteration count and channel binding for which the inputs are encodable and
   PBKDF2 answers, on_challenge returns base64 of a proof that the RFC 5802 server accepts, over RFC 5802's
   AuthMessage (scram_pbkdf2_interop is defined in Proofs/AuthProofs.v). *)
Theorem C19_scram_pbkdf2_interop : scram_pbkdf2_interop true.
Proof. exact scram_pbkdf2_interop_decoding. Qed.
Print Assumptions C19_scram_pbkdf2_interop.

(* Regression statement (defect F-C19-1, repaired in /repo by "fix: WAMP-SCRAM with PBKDF2 must use the decoded salt"):
   the same statement is FALSE of the variant that hands the str salt to pbkdf2() undecoded (decode_salt = false):
   pbkdf2() raises ValueError("Invalid argument types").  Should the tree under test ever be that variant again,
   the run reports it with the RFC 7677 exchange as the failing input. *)
Theorem C19_scram_pbkdf2_interop_without_decoding_refuted : ~ scram_pbkdf2_interop false.
Proof. exact scram_pbkdf2_interop_as_coded_refuted. Qed.
Print Assumptions C19_scram_pbkdf2_interop_without_decoding_refuted.

(* what exactly the undecoding variant does: with a str salt it never produces a proof, and once password /
   authid / AuthMessage are encodable the exception is ValueError *)
Theorem C19_scram_pbkdf2_without_decoding_partial :
  forall (H256 : bytes -> bytes) (HMAC256 : bytes -> bytes -> bytes) (PBKDF2 ARGON2ID : bytes -> bytes -> N -> N -> result bytes)
         (SASLPREP : str -> result str) (REPR_BYTES : bytes -> str) password authid cnonce x s,
  sx_kdf x = lit "pbkdf2" -> sx_salt x = VStr s ->
  (forall r, scram_on_challenge H256 HMAC256 PBKDF2 ARGON2ID SASLPREP REPR_BYTES false password authid cnonce x <> Ok r) /\
  (forall pw aid am, utf8_encode password = Ok pw -> SASLPREP authid = Ok aid ->
     ascii_encode (scram_auth_message_str REPR_BYTES aid cnonce x) = Ok am ->
     scram_on_challenge H256 HMAC256 PBKDF2 ARGON2ID SASLPREP REPR_BYTES false password authid cnonce x = Raise ValueError).
Proof.
  intros. split; [now apply scram_pbkdf2_str_salt_never_ok with (s := s) | intros; now apply scram_pbkdf2_str_salt_value_error with (s := s) (pw := pw) (aid := aid) (am := am)].
Qed.
Print Assumptions C19_scram_pbkdf2_without_decoding_partial.

(* ---------------- WAMP-cryptosign ---------------- *)
(* for ANY correct signature scheme: with tls-unique the signed message is challenge XOR channel id (both 32 octets),
   the reply is hex(signature) ++ hex(message), and the router that recomputes the message and verifies accepts *)
Theorem C19_cryptosign :
  forall (SIGN : bytes -> bytes -> bytes) (VERIFY : bytes -> bytes -> bytes -> bool) (PUB : bytes -> bytes),
  (forall seed m, VERIFY (PUB seed) m (SIGN seed m) = true) ->
  (forall seed m, length (SIGN seed m) = 64%nat) ->
  (forall seed m, bytes_ok (SIGN seed m)) ->
  forall seed h craw cid,
    length h = 64%nat -> ascii_arg h = Ok h -> a2b_hex h = Ok craw -> length cid = 32%nat -> bytes_ok cid ->
    cs_format_challenge (VStr h) (Some cid) (Some (lit "tls-unique")) = Ok (xor_zip craw cid) /\
    exists reply, cs_sign_challenge SIGN seed (VStr h) (Some cid) (Some (lit "tls-unique")) = Ok reply /\
                  reply = b2a_hex (SIGN seed (xor_zip craw cid)) ++ b2a_hex (xor_zip craw cid) /\
                  cs_router_accepts VERIFY (PUB seed) craw (Some cid) reply = true.
Proof. exact cs_bound. Qed.
Print Assumptions C19_cryptosign.

(* without channel binding the raw challenge is signed *)
Theorem C19_cryptosign_unbound :
  forall (SIGN : bytes -> bytes -> bytes) (VERIFY : bytes -> bytes -> bytes -> bool) (PUB : bytes -> bytes),
  (forall seed m, VERIFY (PUB seed) m (SIGN seed m) = true) ->
  (forall seed m, length (SIGN seed m) = 64%nat) ->
  (forall seed m, bytes_ok (SIGN seed m)) ->
  forall seed h craw,
    length h = 64%nat -> ascii_arg h = Ok h -> a2b_hex h = Ok craw ->
    cs_format_challenge (VStr h) None None = Ok craw /\
    exists reply, cs_sign_challenge SIGN seed (VStr h) None None = Ok reply /\
                  reply = b2a_hex (SIGN seed craw) ++ b2a_hex craw /\
                  cs_router_accepts VERIFY (PUB seed) craw None reply = true.
Proof. exact cs_unbound. Qed.
Print Assumptions C19_cryptosign_unbound.

(* exactly the well-formed inputs are signed (64 hex digits; no binding, or tls-unique with a 32-octet channel id);
   every other input raises - in particular the lengths handed to util.xor always agree *)
Theorem C19_cryptosign_wellformed_iff : forall ch cid ct d,
  cs_format_challenge ch cid ct = Ok d <->
  exists h craw, ch = VStr h /\ length h = 64%nat /\ ascii_arg h = Ok h /\ a2b_hex h = Ok craw /\
    ((ct = None /\ d = craw) \/
     (ct = Some (lit "tls-unique") /\ exists c, cid = Some c /\ length c = 32%nat /\ d = xor_zip craw c)).
Proof. exact cs_format_ok_iff. Qed.
Print Assumptions C19_cryptosign_wellformed_iff.

(* ---------------- non-vacuity ---------------- *)
(* the oracle laws are satisfiable: toy MAC / hash / signature scheme of Proofs/AuthProofs.v *)
Example C19_laws_satisfiable :
  (forall k m k' m', length (toy_mac 32 k m) = length (toy_mac 32 k' m')) /\ (forall k m, bytes_ok (toy_mac 32 k m)) /\
  (forall k m, length (toy_mac 20 k m) = 20%nat) /\
  (forall seed m, toy_verify (toy_pub seed) m (toy_sign seed m) = true) /\
  (forall seed m, length (toy_sign seed m) = 64%nat) /\ (forall seed m, bytes_ok (toy_sign seed m)).
Proof.
  repeat split; intros; try apply toy_mac_ok; try apply toy_sig_correct; unfold toy_sign; now rewrite ?toy_mac_len.
Qed.

(* a complete argon2id-13 exchange over the toy oracles: proof accepted by the RFC server, the correct server
   signature accepted, a one-bit alteration denied, an undecodable one raises *)
Example C19_scram_witness :
  let argon := fun pw salt t m => Ok (toy_mac 32 pw (salt ++ [t; m])) in
  let x := {| sx_nonce := lit "Y2xpZW50bm9uY2U=c2VydmVy"; sx_kdf := lit "argon2id-13"; sx_salt := VStr (lit "c2FsdHNhbHRzYWx0c2FsdA==");
              sx_iterations := 3; sx_memory := Some 16; sx_cbind := lit "biws" |} in
  match scram_on_challenge toy_hash (toy_mac 32) (fun _ _ _ _ => Raise OracleMissing) argon (fun s => Ok s) (fun b => b)
                           false (lit "p4ssw0rd") (lit "user") (lit "Y2xpZW50bm9uY2U=") x with
  | Ok (reply, st) =>
    ss_auth_message st = lit "n=user,r=Y2xpZW50bm9uY2U=,r=Y2xpZW50bm9uY2U=c2VydmVy,s=c2FsdHNhbHRzYWx0c2FsdA==,i=3,c=biws,r=Y2xpZW50bm9uY2U=c2VydmVy" /\
    length (ss_salted_password st) = 43%nat /\
    (exists proof, a2b_base64 reply = Ok proof /\
       rfc5802_server_accepts toy_hash (toy_mac 32) (rfc5802_stored_key toy_hash (toy_mac 32) (ss_salted_password st))
                              (ss_auth_message st) proof = true) /\
    let good := rfc5802_server_signature (toy_mac 32) (rfc5802_server_key (toy_mac 32) (ss_salted_password st)) (ss_auth_message st) in
    scram_on_welcome (toy_mac 32) st (VStr (b64encode good)) = Ok Accept /\
    scram_on_welcome (toy_mac 32) st (VStr (b64encode (N.lxor (hd 0 good) 1 :: tl good))) = Ok Deny /\
    scram_on_welcome (toy_mac 32) st (VStr (lit "QUJ")) = Raise BinasciiError
  | Raise _ => False
  end.
Proof. vm_compute. repeat split; try reflexivity. eexists. split; reflexivity. Qed.

(* a history over the toy oracles: WELCOME on the fresh object with the constant HMAC (HMAC "" "Server Key") "" (which
   anyone can compute) raises; so it does after a CHALLENGE that failed in the KDF (only _auth_message got assigned);
   after a completed CHALLENGE the constant is denied and the genuine signature accepted *)
Example C19_scram_history_witness :
  let argon := fun pw salt t m => Ok (toy_mac 32 pw (salt ++ [t; m])) in
  let x := {| sx_nonce := lit "bm9uY2U=c2VydmVy"; sx_kdf := lit "argon2id-13"; sx_salt := VStr (lit "c2FsdHNhbHRzYWx0c2FsdA==");
              sx_iterations := 3; sx_memory := Some 16; sx_cbind := [] |} in
  let xbad := {| sx_nonce := lit "bm9uY2U=c2VydmVy"; sx_kdf := lit "scrypt"; sx_salt := VStr (lit "c2FsdHNhbHRzYWx0c2FsdA==");
                 sx_iterations := 3; sx_memory := Some 16; sx_cbind := [] |} in
  let const := Some (VStr (b64encode (toy_mac 32 (toy_mac 32 [] (lit "Server Key")) []))) in
  match scram_obj_run toy_hash (toy_mac 32) (fun _ _ _ _ => Raise OracleMissing) argon (fun s => Ok s) (fun b => b) true
                      (lit "p4ssw0rd") (lit "user") scram_fresh
                      [OpWelcome const; OpChallenge x; OpAuthextra (lit "bm9uY2U="); OpWelcome None; OpChallenge xbad; OpWelcome const;
                       OpChallenge x; OpWelcome const] with
  | (o, outs) =>
    match so_sp o, so_am o with
    | Some sp, Some am =>
      outs = [Raise AttributeError; Raise AssertionError; Ok []; Raise KeyError; Raise RuntimeError; Raise AttributeError;
              nth 6 outs (Raise OtherExn); Ok [0]] /\
      (exists reply, nth 6 outs (Raise OtherExn) = Ok reply) /\
      scram_obj_on_welcome (toy_mac 32) o
        (Some (VStr (b64encode (rfc5802_server_signature (toy_mac 32) (rfc5802_server_key (toy_mac 32) sp) am)))) = Ok Accept
    | _, _ => False
    end
  end.
Proof. vm_compute. repeat split; try reflexivity. eexists. reflexivity. Qed.

(* the session gate on a fully challenged toy object: only WELCOME(authmethod="scram") with the exact signature joins *)
Example C19_session_witness :
  let o := {| so_nonce := Some (lit "n"); so_am := Some (lit "n=user,r=n,..."); so_sp := Some (lit "salted") |} in
  let good := b64encode (rfc5802_server_signature (toy_mac 32) (rfc5802_server_key (toy_mac 32) (lit "salted")) (lit "n=user,r=n,...")) in
  let scram := Some [lit "scram"] in
  let run := session_on_welcome (toy_mac 32) in
  run true scram o (Some (lit "scram")) (AxDict (Some (SvText (VStr good)))) = Joined /\
  run true scram o (Some (lit "scram")) AxAbsent = Aborted /\
  run true scram o (Some (lit "scram")) (AxDict None) = Aborted /\
  run true scram o (Some (lit "scram")) (AxDict (Some SvOther)) = Aborted /\
  run true scram o (Some (lit "scram")) (AxDict (Some (SvText (VStr (lit "QUJD"))))) = Aborted /\
  run true scram o None (AxDict (Some (SvText (VStr good)))) = Aborted /\
  run false scram o None AxAbsent = Joined /\                                   (* the lenient gate: F-C19-2 *)
  run true scram o (Some (lit "ticket")) AxAbsent = Aborted /\
  run true (Some [lit "scram"; lit "ticket"]) o (Some (lit "ticket")) AxAbsent = Joined /\   (* the client offered ticket *)
  run true (Some [lit "anonymous"]) o None AxAbsent = Joined /\
  run true None o None AxAbsent = Joined /\
  run true scram scram_fresh (Some (lit "scram")) (AxDict (Some (SvText (VStr good)))) = Aborted.
Proof. vm_compute. repeat split; reflexivity. Qed.

(* RFC 6238 appendix B, T = 59 s (counter 1): with the real HMAC-SHA-1 value of RFC 4226 appendix D for count 1
   supplied as the oracle's answer, the model yields "287082" (the last six digits of the RFC's 94287082) *)
Example C19_totp_rfc6238 :
  let key := lit "12345678901234567890" in
  let mac1 := [0x75;0xa4;0x8a;0x19;0xd4;0xcb;0xe1;0x00;0x64;0x4e;0x8a;0xc1;0x39;0x7e;0xea;0x74;0x7a;0x2d;0x33;0xab] in
  let hmac1 := fun k m => if list_eqb k key && list_eqb m [0;0;0;0;0;0;0;1] then mac1 else repeat 0 20 in
  (forall k m, length (hmac1 k m) = 20%nat) /\
  b32decode (lit "GEZDGNBVGY3TQOJQGEZDGNBVGY3TQOJQ") = Ok key /\
  compute_totp_at hmac1 (lit "GEZDGNBVGY3TQOJQGEZDGNBVGY3TQOJQ") 59 0 = Ok (lit "287082") /\
  rfc4226_dt mac1 mod 10 ^ 6 = 287082.
Proof.
  cbv zeta. split; [intros k m; destruct (_ && _); reflexivity|]. repeat split; vm_compute; reflexivity.
Qed.

(* WAMP-CRA over the toy MAC: salted and unsalted replies differ and decode back to the MAC *)
Example C19_cra_witness :
  let kdf := fun p s i l => Ok (toy_mac (N.to_nat l) p (s ++ [i])) in
  match cra_on_challenge (toy_mac 32) kdf (lit "s" ++ [233; 128512]) (Some (VStr (lit "salt"), 1000, 32)) (lit "{""nonce"":1}"),
        cra_on_challenge (toy_mac 32) kdf (lit "s" ++ [233; 128512]) None (lit "{""nonce"":1}") with
  | Ok a, Ok b => length a = 44%nat /\ length b = 44%nat /\ a <> b /\
                  a2b_base64 b = Ok (toy_mac 32 (lit "s" ++ [195; 169; 240; 159; 152; 128]) (lit "{""nonce"":1}"))
  | _, _ => False
  end.
Proof. vm_compute. repeat split; try reflexivity. discriminate. Qed.

(* cryptosign over the toy signature scheme, with and without channel binding; malformed inputs raise *)
Example C19_cryptosign_witness :
  let h := lit "00112233445566778899aabbccddeeff00112233445566778899AABBCCDDEEFF" in
  let cid := repeat 255 32 in
  match cs_sign_challenge toy_sign [1;2;3] (VStr h) (Some cid) (Some (lit "tls-unique")), a2b_hex h with
  | Ok reply, Ok craw =>
    length reply = 192%nat /\ cs_router_accepts toy_verify (toy_pub [1;2;3]) craw (Some cid) reply = true /\
    cs_router_accepts toy_verify (toy_pub [1;2;3]) craw None reply = false /\
    nth 0 (xor_zip craw cid) 0 = 255 /\ nth 1 (xor_zip craw cid) 0 = 238
  | _, _ => False
  end /\
  cs_sign_challenge toy_sign [1;2;3] (VStr (lit "zz")) None None = Raise PlainException /\
  cs_sign_challenge toy_sign [1;2;3] (VStr h) (Some [1]) (Some (lit "tls-unique")) = Raise AssertionError /\
  cs_sign_challenge toy_sign [1;2;3] (VStr h) None (Some (lit "tls-unique")) = Raise TypeError.
Proof. vm_compute. repeat split; reflexivity. Qed.

(* base32: secrets as generate_totp_secret produces them decode back, for every padding class (NOT a general theorem:
   the instances 0..12 octets of one pattern, by computation); lower case, misplaced padding and foreign digits raise *)
Example C19_base32_roundtrip_samples :
  forallb (fun n => match b32decode (b32encode (map (fun i => (N.of_nat i * 37 + 201) mod 256) (seq 0 n))) with
                    | Ok b => list_eqb b (map (fun i => (N.of_nat i * 37 + 201) mod 256) (seq 0 n))
                    | Raise _ => false end) (seq 0 13) = true /\
  b32encode (lit "12345678901234567890") = lit "GEZDGNBVGY3TQOJQGEZDGNBVGY3TQOJQ" /\
  b32decode (lit "mfrggzdf") = Raise BinasciiError /\ b32decode (lit "MFRGG=Z=") = Raise BinasciiError /\
  b32decode (lit "MFRGGZD") = Raise BinasciiError /\ b32decode (lit "MFRGGZD1") = Raise BinasciiError /\
  b32decode [77; 233] = Raise ValueError.
Proof. vm_compute. repeat split; reflexivity. Qed.

Example C19_xor_witness :
  xor [1; 2; 255] [255; 2; 1] = Ok [254; 0; 254] /\ xor [1; 2] [1] = Raise PlainException /\
  (c <- xor [1; 2; 255] [255; 2; 1] ;; xor c [255; 2; 1]) = Ok [1; 2; 255].
Proof. vm_compute. repeat split; reflexivity. Qed.
