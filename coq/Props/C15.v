(* C15 — frame masking is exact XOR with the running key in every implementation.
   Property statements only; proofs live in Proofs/MaskerProofs.v and Proofs/WsSendProofs.v. *)
From Coq Require Import String.       (* before List: `length` below is List.length *)
From Coq Require Import NArith List.
From AV Require Import Model.Masker Proofs.MaskerProofs.
From AV Require Import Model.WsFrame Model.WsSend Proofs.WsSendProofs.
From AV Require Import Gen.MaskOpts Model.MaskOpts Proofs.MaskOptsProofs.
Import ListNotations.
Open Scope N_scope.

(* the specification is the pointwise XOR with key[(offset + i) mod 4] *)
Theorem C15_spec_pointwise : forall k p d i, (i < length d)%nat ->
  nth i (xor_spec k p d) 0 = N.lxor (nth i d 0) (nth (N.to_nat ((p + N.of_nat i) mod 4)) k 0).
Proof. exact xor_spec_nth. Qed.
Print Assumptions C15_spec_pointwise.

Theorem C15_simple : forall k p d, simple_process k p d = (xor_spec k p d, p + lenN d).
Proof. exact simple_loop_spec. Qed.
Print Assumptions C15_simple.

Theorem C15_shifted : forall k p d, shifted_process k p d = (xor_spec k p d, p + lenN d).
Proof. exact shifted_process_spec. Qed.
Print Assumptions C15_shifted.

(* native scalar and SIMD, for every buffer alignment (even values >= 16: only align & 15 is read) *)
Theorem C15_nvx : forall impl k align p d, nvx_process impl k align p d = (xor_spec k p d, p + lenN d).
Proof. exact nvx_process_spec. Qed.
Print Assumptions C15_nvx.

Theorem C15_sse2 : forall k align p d, sse2_process k align p d = (xor_spec k p d, p + lenN d).
Proof. exact sse2_process_spec. Qed.
Print Assumptions C15_sse2.

(* create_xor_masker: whatever the length hint selects is unobservable *)
Theorem C15_factory : forall fl hint k p d, factory_process fl hint k p d = (xor_spec k p d, p + lenN d).
Proof. exact factory_process_spec. Qed.
Print Assumptions C15_factory.

(* any split into chunks, any implementation/alignment per chunk: same bytes, pointer = bytes processed *)
Theorem C15_chunks : forall k p chunks,
  run_chunks_any k p chunks =
    (xor_spec k p (concat (map snd chunks)), p + lenN (concat (map snd chunks))).
Proof. exact run_chunks_any_spec. Qed.
Print Assumptions C15_chunks.

Theorem C15_chunks_generic : forall k proc p chunks,
  (forall q c, proc q c = (xor_spec k q c, q + lenN c)) ->
  run_chunks proc p chunks = (xor_spec k p (concat chunks), p + lenN (concat chunks)).
Proof. exact run_chunks_spec. Qed.
Print Assumptions C15_chunks_generic.

Theorem C15_involution : forall k p d, xor_spec k p (xor_spec k p d) = d.
Proof. exact xor_spec_involutive. Qed.
Print Assumptions C15_involution.

Theorem C15_bytes_closed : forall k p d, bytes_ok k -> bytes_ok d -> bytes_ok (xor_spec k p d).
Proof. exact xor_spec_bytes_ok. Qed.
Print Assumptions C15_bytes_closed.

Theorem C15_length : forall k p d, length (xor_spec k p d) = length d.
Proof. exact xor_spec_length. Qed.
Print Assumptions C15_length.

(* ---- role policy: the model of sendFrame (Model/WsSend.v build_frame), tied to the code by the C01 run ----
   [ks] is the stream of keys random.getrandbits(32) yields, [nk] the number of keys drawn so far. *)
(* a client frame (maskClientFrames, the default) has the MASK bit, carries the NEXT key of the stream, consumes
   exactly one key, and its payload is xor_spec with that key from offset 0 *)
Theorem C15_role_policy_client : forall c ks nk op pl fin rsv,
  is_server c = false -> mask_client_frames c = true -> apply_mask c = true -> keys_ok ks ->
  rsv < 8 -> op < 16 -> lenN pl <= max_len ->
  build_frame c ks nk op pl fin rsv [] None =
    FrOk (encode_header fin rsv op (Some (ks nk)) (lenN pl) ++ xor_spec (ks nk) 0 pl) (S nk).
Proof. exact role_policy_client. Qed.
Print Assumptions C15_role_policy_client.

(* a server frame (maskServerFrames off, the default) has no MASK bit, its payload is unchanged, no key is drawn *)
Theorem C15_role_policy_server : forall c ks nk op pl fin rsv,
  is_server c = true -> mask_server_frames c = false -> apply_mask c = true -> keys_ok ks ->
  rsv < 8 -> op < 16 -> lenN pl <= max_len ->
  build_frame c ks nk op pl fin rsv [] None = FrOk (encode_header fin rsv op None (lenN pl) ++ pl) nk.
Proof. exact role_policy_server. Qed.
Print Assumptions C15_role_policy_server.

(* what "has the MASK bit" means on the wire: second octet >= 128 and the 4 key octets end the header *)
Theorem C15_header_mask_bit : forall fin rsv op k n, exists b0 l7 rest,
  encode_header fin rsv op (Some k) n = b0 :: (128 + l7) :: rest ++ k /\ l7 < 128.
Proof. exact header_mask_bit. Qed.
Print Assumptions C15_header_mask_bit.

Theorem C15_header_no_mask_bit : forall fin rsv op n, exists b0 l7 rest,
  encode_header fin rsv op None n = b0 :: l7 :: rest /\ l7 < 128.
Proof. exact header_no_mask_bit. Qed.
Print Assumptions C15_header_no_mask_bit.

(* the default configurations meet the hypotheses *)
Example C15_defaults_meet_policy :
  is_server (default_cfg false) = false /\ mask_client_frames (default_cfg false) = true /\ apply_mask (default_cfg false) = true /\
  is_server (default_cfg true) = true /\ mask_server_frames (default_cfg true) = false /\ apply_mask (default_cfg true) = true.
Proof. vm_compute. repeat split. Qed.

(* "by default" = the application names no masking option.  Over the plumbing table regenerated from the real
   factories on every run (Gen/MaskOpts.v): the table is total and does, per keyword, "absent leaves alone / value
   replaces"; hence ANY sequence of setProtocolOptions() calls naming no masking option leaves the masking options at
   their defaults, those defaults are the masking fields of default_cfg (hypotheses of the two role-policy theorems
   above), calls with only other keywords were probed neutral and a connection copies its factory's values. *)
Theorem C15_option_table_is_spec :
  (forall m, In m client_mask_options -> forall p a, tbl_lookup client_set_table m p a = Some (spec_set p a)) /\
  (forall m, In m server_mask_options -> forall p a, tbl_lookup server_set_table m p a = Some (spec_set p a)).
Proof. exact (conj (table_ok_lookup _ _ client_table_ok) (table_ok_lookup _ _ server_table_ok)). Qed.
Print Assumptions C15_option_table_is_spec.

Theorem C15_defaults_stable_client : forall calls,
  Forall (names_no_masking_option client_mask_options) calls ->
  run_calls client_set_table calls client_mask_defaults = client_mask_defaults.
Proof. exact client_defaults_stable. Qed.
Print Assumptions C15_defaults_stable_client.

Theorem C15_defaults_stable_server : forall calls,
  Forall (names_no_masking_option server_mask_options) calls ->
  run_calls server_set_table calls server_mask_defaults = server_mask_defaults.
Proof. exact server_defaults_stable. Qed.
Print Assumptions C15_defaults_stable_server.

Theorem C15_generated_defaults_are_model_defaults :
  client_mask_defaults = [("applyMask", apply_mask (default_cfg false)); ("maskClientFrames", mask_client_frames (default_cfg false))]%string /\
  arg_of server_mask_defaults "applyMask" = Some (apply_mask (default_cfg true)) /\
  arg_of server_mask_defaults "maskServerFrames" = Some (mask_server_frames (default_cfg true)) /\
  arg_of server_mask_defaults "requireMaskedClientFrames" = Some true /\
  client_other_calls_neutral = true /\ server_other_calls_neutral = true /\
  client_connection_copies_factory = true /\ server_connection_copies_factory = true.
Proof. exact defaults_are_model_defaults. Qed.
Print Assumptions C15_generated_defaults_are_model_defaults.

(* non-vacuity of the stability theorems: a call naming only other options, and one that does name a masking option *)
Example C15_calls_witness :
  names_no_masking_option client_mask_options [] /\
  run_calls client_set_table [[]; []] client_mask_defaults = client_mask_defaults /\
  run_calls client_set_table [[("applyMask", false)]; []] client_mask_defaults = [("applyMask", false); ("maskClientFrames", true)]%string.
Proof. split; [intros m _; reflexivity|]. vm_compute. split; reflexivity. Qed.

(* non-vacuity: a 40-octet payload, misaligned by 5, offset 3, through the SIMD path *)
Example C15_witness :
  let d := map N.of_nat (seq 0 40) in
  fst (sse2_process [1;2;3;4] 5 3 d) = xor_spec [1;2;3;4] 3 d /\ nth 0 (xor_spec [1;2;3;4] 3 d) 0 = 4.
Proof. vm_compute. split; reflexivity. Qed.
