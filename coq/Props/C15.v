(* C15 — frame masking is exact XOR with the running key in every implementation.
   Property statements only; proofs live in Proofs/MaskerProofs.v and Proofs/WsSendProofs.v. *)
From Coq Require Import NArith List.
From AV Require Import Model.Masker Proofs.MaskerProofs.
Import ListNotations.
Open Scope N_scope.

(* the specification is the pointwise XOR with key[(offset + i) mod 4] *)
Theorem C15_spec_pointwise : forall k p d i, (i < length d)%nat ->
  nth i (xor_spec k p d) 0 = N.lxor (nth i d 0) (nth (N.to_nat ((p + N.of_nat i) mod 4)) k 0).
Proof. exact xor_spec_nth. Qed.
Print Assumptions C15_spec_pointwise.

Theorem C15_simple : forall k p d, simple_process k p d = (xor_spec k p d, p + lenN d).
Proof. exact simple_loop_spec. Qed.
Print Assumptions C15_simple.

Theorem C15_shifted : forall k p d, shifted_process k p d = (xor_spec k p d, p + lenN d).
Proof. exact shifted_process_spec. Qed.
Print Assumptions C15_shifted.

(* native scalar and SIMD, for every buffer alignment (even values >= 16: only align & 15 is read) *)
Theorem C15_nvx : forall impl k align p d, nvx_process impl k align p d = (xor_spec k p d, p + lenN d).
Proof. exact nvx_process_spec. Qed.
Print Assumptions C15_nvx.

Theorem C15_sse2 : forall k align p d, sse2_process k align p d = (xor_spec k p d, p + lenN d).
Proof. exact sse2_process_spec. Qed.
Print Assumptions C15_sse2.

(* create_xor_masker: whatever the length hint selects is unobservable *)
Theorem C15_factory : forall fl hint k p d, factory_process fl hint k p d = (xor_spec k p d, p + lenN d).
Proof. exact factory_process_spec. Qed.
Print Assumptions C15_factory.

(* any split into chunks, any implementation/alignment per chunk: same bytes, pointer = bytes processed *)
Theorem C15_chunks : forall k p chunks,
  run_chunks_any k p chunks =
    (xor_spec k p (concat (map snd chunks)), p + lenN (concat (map snd chunks))).
Proof. exact run_chunks_any_spec. Qed.
Print Assumptions C15_chunks.

Theorem C15_chunks_generic : forall k proc p chunks,
  (forall q c, proc q c = (xor_spec k q c, q + lenN c)) ->
  run_chunks proc p chunks = (xor_spec k p (concat chunks), p + lenN (concat chunks)).
Proof. exact run_chunks_spec. Qed.
Print Assumptions C15_chunks_generic.

Theorem C15_involution : forall k p d, xor_spec k p (xor_spec k p d) = d.
Proof. exact xor_spec_involutive. Qed.
Print Assumptions C15_involution.

Theorem C15_bytes_closed : forall k p d, bytes_ok k -> bytes_ok d -> bytes_ok (xor_spec k p d).
Proof. exact xor_spec_bytes_ok. Qed.
Print Assumptions C15_bytes_closed.

Theorem C15_length : forall k p d, length (xor_spec k p d) = length d.
Proof. exact xor_spec_length. Qed.
Print Assumptions C15_length.

(* non-vacuity: a 40-octet payload, misaligned by 5, offset 3, through the SIMD path *)
Example C15_witness :
  let d := map N.of_nat (seq 0 40) in
  fst (sse2_process [1;2;3;4] 5 3 d) = xor_spec [1;2;3;4] 3 d /\ nth 0 (xor_spec [1;2;3;4] 3 d) 0 = 4.
Proof. vm_compute. split; reflexivity. Qed.
