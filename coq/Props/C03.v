(* C03 -- WAMP messages survive every serializer unchanged.
   Statements only; proofs in Proofs/Wamp*Proofs.v.  Model: Model/WampValue.v, WampSchema.v, WampMsg.v.
   [parse]/[marshal] are the generic semantics of a class schema; the 25 schemas are tied to message.py by
   the regenerated shape (C03_shape_agrees) and by the correspondence run (harness/props/c03.py). *)
From Coq Require Import NArith ZArith List Bool String.
From AV Require Import Model.WampValue Model.WampSchema Model.WampMsg Model.WampMsgRun 
  Proofs.WampLayoutProofs Proofs.WampWfProofs Proofs.WampStrictProofs Proofs.WampBatchProofs Proofs.WampMsgProofs.
Import ListNotations.
Open Scope list_scope.

(* ---- the hand-written schemas have the shape message.py / serializer.py / role.py have NOW ---- *)



(* ---- round trip, all 25 classes, every URI validator, every custom-attribute predicate obeying custom_law ---- *)
Theorem C03_roundtrip : forall uri_ok custom_ok, custom_law custom_ok ->
  forall s m, In s schemas -> valid uri_ok custom_ok s m ->
  parse uri_ok custom_ok s (marshal s m) = Ok m.
Proof. exact roundtrip_all. Qed.
Print Assumptions C03_roundtrip.

(* without the "nothing that marshal drops" clause of [valid]: the message comes back normalised
   (options whose marshal condition is false -> default; args/kwargs/payload collapse to one mode) *)
Theorem C03_roundtrip_norm : forall uri_ok custom_ok, custom_law custom_ok ->
  forall s m, In s schemas ->
  shape_ok custom_ok s m = true -> fields_ok uri_ok custom_ok s m = true ->
  parse uri_ok custom_ok s (marshal s m) = Ok (norm s m).
Proof. exact roundtrip_norm_all. Qed.
Print Assumptions C03_roundtrip_norm.

(* full strength ("every constructible, parse-conformant message comes back unchanged") is FALSE of the code *)
Theorem C03_roundtrip_exact_refuted : forall uri_ok custom_ok, custom_law custom_ok ->
  exists s m, In s schemas /\ shape_ok custom_ok s m = true /\ fields_ok uri_ok custom_ok s m = true
              /\ parse uri_ok custom_ok s (marshal s m) <> Ok m.
Proof. exact roundtrip_exact_refuted. Qed.
Print Assumptions C03_roundtrip_exact_refuted.

(* ---- every option that is set is marshalled; none is conditional on another attribute
   (Welcome.authmethod was, until fix a9cc81d8) ---- *)
Theorem C03_fields_preserved : forall custom_ok, custom_law custom_ok ->
  forall s m i o v, In s schemas -> shape_ok custom_ok s m = true ->
  nth_error (s_opts s) i = Some o -> nth_error (m_opts m) i = Some v ->
  own_holds o v = true ->
  dget (s2l (o_key o)) (marshal_dict s m) = Some v.
Proof. exact fields_preserved_all. Qed.
Print Assumptions C03_fields_preserved.

Theorem C03_no_option_conditional_on_another_attribute :
  forallb (fun s => forallb not_gated (s_opts s)) schemas = true.
Proof. exact no_option_gated. Qed.
Print Assumptions C03_no_option_conditional_on_another_attribute.

(* ---- repeated sub-structures (HELLO / WELCOME roles and their features) are handled entry by entry: what
   parse() keeps and what marshal() writes for one role depends on that role alone (no state carried from one loop
   iteration to the next), every feature flag set on a role is written under that role, and each role comes back
   with exactly its own feature values ---- *)
Theorem C03_roles_parsed_entrywise : forall cfg od rd i,
  dget (s2l "roles") od = Some (VDict rd) ->
  nth_error (extract_roles cfg od) i = option_map (extract_role cfg) (nth_error rd i).
Proof. exact extract_roles_pointwise. Qed.
Print Assumptions C03_roles_parsed_entrywise.

Theorem C03_roles_marshalled_entrywise : forall cfg rs i,
  match marshal_roles cfg rs with
  | VDict rd => nth_error rd i = option_map (marshal_role cfg) (nth_error rs i)
  | _ => False
  end.
Proof. exact marshal_roles_pointwise. Qed.
Print Assumptions C03_roles_marshalled_entrywise.

Theorem C03_role_features_preserved : forall cfg name feats vals i f v,
  cfg_wf cfg = true -> find_role cfg name = Some feats ->
  List.length vals = List.length feats ->
  nth_error feats i = Some f -> nth_error vals i = Some v -> is_null v = false ->
  exists e, snd (marshal_role cfg (KS name, vals)) = VDict [(KS (s2l "features"), VDict e)]
            /\ dget (s2l f) e = Some v.
Proof. exact role_feature_marshalled. Qed.
Print Assumptions C03_role_features_preserved.

Theorem C03_role_roundtrip : forall cfg r, cfg_wf cfg = true -> role_shape_ok cfg r = true ->
  extract_role cfg (marshal_role cfg r) = r.
Proof. exact role_roundtrip. Qed.
Print Assumptions C03_role_roundtrip.

Theorem C03_roles_cfg_wf : cfg_wf hello_roles = true /\ cfg_wf welcome_roles = true.
Proof. exact roles_cfg_wf. Qed.

(* HELLO: publisher WITH features announced before a feature-less subscriber, then a callee with other features:
   each role comes back with its own features only *)
Definition ex_hello_mixed_roles : msg :=
  let nulls n := map (fun _ => VNull) (seq 0 n) in
  {| m_pos := [VStr (s2l "realm1")];
     m_opts := map (fun _ => VNull) (s_opts Hello);
     m_pl := null_pl;
     m_roles := [(KS (s2l "publisher"), [VBool true; VNull; VNull; VBool true; VNull; VNull]);
                 (KS (s2l "subscriber"), nulls 7%nat);
                 (KS (s2l "callee"), [VBool false; VNull; VNull; VNull; VNull; VNull; VBool true; VNull; VNull; VNull])];
     m_custom := [] |}.
Example C03_witness_hello_mixed_roles :
  valid uri_simple custom_simple Hello ex_hello_mixed_roles
  /\ parse_i Hello (marshal Hello ex_hello_mixed_roles) = Ok ex_hello_mixed_roles.
Proof. split; [repeat split; vm_compute; reflexivity | vm_compute; reflexivity]. Qed.

(* the documented payload-transparency triple: written exactly when a non-empty payload is *)
Theorem C03_payload_triple : forall custom_ok, custom_law custom_ok ->
  forall s m pc, In s schemas -> s_payload s = Some pc ->
  (truthy (p_payload (m_pl m)) = true ->
     getn "enc_algo" (marshal_dict s m) = p_enc_algo (m_pl m)
     /\ getn "enc_key" (marshal_dict s m) = p_enc_key (m_pl m)
     /\ getn "enc_serializer" (marshal_dict s m) = p_enc_ser (m_pl m))
  /\ (truthy (p_payload (m_pl m)) = false -> emit_enc (m_pl m) = []).
Proof. exact payload_triple. Qed.
Print Assumptions C03_payload_triple.

(* ---- batching ---- *)
Theorem C03_batch_json : forall l, l <> [] -> Forall (fun c => ~ In sep c) l ->
  unbatch_json (batch_json l) = BOk l.
Proof. exact unbatch_batch_json. Qed.
Print Assumptions C03_batch_json.

Theorem C03_batch_json_empty : unbatch_json (batch_json []) = BErr.
Proof. exact unbatch_json_empty. Qed.

Theorem C03_batch_len : forall l, Forall (fun c => (lenN c < 4294967296)%N) l -> unbatch32 (batch32 l) = BOk l.
Proof. exact unbatch_batch32. Qed.
Print Assumptions C03_batch_len.

Theorem C03_batch_len_fuel : forall p, unbatch32 p <> BOutOfFuel.
Proof. exact unbatch32_total. Qed.
Print Assumptions C03_batch_len_fuel.

(* ---- call histories: unserialize is a function of its argument ---- *)
Theorem C03_unserialize_stateless : forall uri_ok custom_ok decode pre c post,
  nth_error (run_history uri_ok custom_ok decode (pre ++ c :: post)) (List.length pre)
  = Some (unserialize_octets uri_ok custom_ok decode (fst (fst c)) (snd (fst c)) (snd c)).
Proof. exact unserialize_stateless. Qed.
Print Assumptions C03_unserialize_stateless.

Theorem C03_roundtrip_any_history : forall uri_ok custom_ok decode, custom_law custom_ok ->
  forall sr s m p pre post, In s schemas -> valid uri_ok custom_ok s m ->
  decode sr p = Some [VList (marshal s m)] ->
  nth_error (run_history uri_ok custom_ok decode (pre ++ (sr, Some (ser_binary sr), p) :: post)) (List.length pre)
  = Some (Ok [(s_type s, m)]).
Proof. exact roundtrip_any_history. Qed.
Print Assumptions C03_roundtrip_any_history.

(* ---- the text/binary flag ---- *)
Theorem C03_binary_flag : forall s,
  serialize_flag s = ser_binary s
  /\ ser_binary s = negb (produces_text s)
  /\ flag_check s (Some (serialize_flag s)) = None
  /\ flag_check s (Some (negb (serialize_flag s))) = Some ProtocolError
  /\ flag_check s None = None.
Proof. exact binary_flag. Qed.
Print Assumptions C03_binary_flag.


(* ---- non-vacuity ---- *)
Example C03_custom_law_instance : custom_law custom_simple.
Proof. vm_compute. reflexivity. Qed.

(* EVENT with publisher, topic, forward_for chain (authid None), args + kwargs incl. bytes and a non-BMP string *)
Definition ex_event : msg :=
  {| m_pos := [VInt 9007199254740992; VInt 0];
     m_opts := [VInt 7; VNull; VNull; VStr (s2l "com.t"); VBool false; VNull; VNull;
                VList [VDict [(KS (s2l "session"), VInt 1); (KS (s2l "authid"), VNull); (KS (s2l "authrole"), VStr (s2l "r"))]]];
     m_pl := {| p_args := VList [VInt 9007199254740992; VBytes [0%N; 255%N]; VStr [128512%N]];
                p_kwargs := VDict [(KS (s2l "k"), VList [VDict []])];
                p_payload := VNull; p_enc_algo := VNull; p_enc_key := VNull; p_enc_ser := VNull |};
     m_roles := []; m_custom := [] |}.
Example C03_witness_event :
  In Event schemas /\ valid uri_simple custom_simple Event ex_event
  /\ parse_i Event (marshal Event ex_event) = Ok ex_event.
Proof. split; [simpl; tauto|]. split; [repeat split; vm_compute; reflexivity | vm_compute; reflexivity]. Qed.

(* payload-transparency triple *)
Definition ex_call_payload : msg :=
  {| m_pos := [VInt 1; VStr (s2l "com.proc")];
     m_opts := [VInt 10; VNull; VNull; VNull; VNull; VNull; VNull];
     m_pl := {| p_args := VNull; p_kwargs := VNull; p_payload := VBytes [1%N; 2%N];
                p_enc_algo := VStr (s2l "cryptobox"); p_enc_key := VStr (s2l "k1"); p_enc_ser := VStr (s2l "json") |};
     m_roles := []; m_custom := [] |}.
Example C03_witness_call_payload :
  valid uri_simple custom_simple Call ex_call_payload
  /\ parse_i Call (marshal Call ex_call_payload) = Ok ex_call_payload.
Proof. split; [repeat split; vm_compute; reflexivity | vm_compute; reflexivity]. Qed.

(* repaired by dbd3c93e: Publish(kwargs={"k":1}) marshals to [16,1,{},"a.b",None,{"k":1}] and parses back *)
Definition ex_publish_kwargs_only : msg :=
  {| m_pos := [VInt 1; VStr (s2l "a.b")];
     m_opts := map (fun _ => VNull) (s_opts Publish);
     m_pl := {| p_args := VNull; p_kwargs := VDict [(KS (s2l "k"), VInt 1)];
                p_payload := VNull; p_enc_algo := VNull; p_enc_key := VNull; p_enc_ser := VNull |};
     m_roles := []; m_custom := [] |}.
Example C03_publish_kwargs_only :
  valid uri_simple custom_simple Publish ex_publish_kwargs_only
  /\ parse_i Publish (marshal Publish ex_publish_kwargs_only) = Ok ex_publish_kwargs_only.
Proof. split; [repeat split; vm_compute; reflexivity | vm_compute; reflexivity]. Qed.

(* repaired by a9cc81d8: Welcome(authmethod="ticket") without authrole keeps its authmethod *)
Definition ex_welcome_authmethod_only : msg :=
  {| m_pos := [VInt 1];
     m_opts := [VNull; VNull; VNull; VStr (s2l "ticket"); VNull; VNull; VNull; VNull; VNull];
     m_pl := null_pl;
     m_roles := [(KS (s2l "broker"), map (fun _ => VNull) (snd (nth 0 welcome_roles (""%string, []))))];
     m_custom := [] |}.
Example C03_welcome_authmethod_only :
  valid uri_simple custom_simple Welcome ex_welcome_authmethod_only
  /\ parse_i Welcome (marshal Welcome ex_welcome_authmethod_only) = Ok ex_welcome_authmethod_only.
Proof. split; [repeat split; vm_compute; reflexivity | vm_compute; reflexivity]. Qed.

(* still lossy (known finding): an empty opaque payload drops the payload AND its enc_algo *)
Definition ex_event_empty_payload : msg :=
  {| m_pos := [VInt 1; VInt 2];
     m_opts := map (fun _ => VNull) (s_opts Event);
     m_pl := {| p_args := VNull; p_kwargs := VNull; p_payload := VBytes [];
                p_enc_algo := VStr (s2l "mqtt"); p_enc_key := VNull; p_enc_ser := VNull |};
     m_roles := []; m_custom := [] |}.
Example C03_empty_payload_refuted :
  ctor_ok custom_simple Event ex_event_empty_payload = true
  /\ shape_ok custom_simple Event ex_event_empty_payload = true
  /\ fields_ok uri_simple custom_simple Event ex_event_empty_payload = true
  /\ p_enc_algo (m_pl (norm Event ex_event_empty_payload)) = VNull.
Proof. repeat split; vm_compute; reflexivity. Qed.

Example C03_batch_witness :
  unbatch_json (batch_json [[91%N; 93%N]; [91%N; 49%N; 93%N]]) = BOk [[91%N; 93%N]; [91%N; 49%N; 93%N]]
  /\ unbatch32 (batch32 [[144%N]; []; [145%N; 1%N]]) = BOk [[144%N]; []; [145%N; 1%N]]
  /\ unbatch32 [0%N; 0%N; 0%N; 2%N; 1%N] = BErr.
Proof. repeat split; vm_compute; reflexivity. Qed.

(* ---- agreement with what translators/schema_shape.py reads off the CURRENT message.py / serializer.py / role.py.
   Kept last and proved in place (pure computation): when the source changes shape only these obligations break,
   the theorems above (about the schemas as written) stay checked. ---- *)
From AV Require Import Gen.WampShape.
Theorem C03_shape_agrees : map shape_of schemas = gen_shapes.
Proof. vm_compute. repeat split; reflexivity. Qed.
Print Assumptions C03_shape_agrees.

Theorem C03_constants_agree :
  id_max = gen_id_max /\ enc_algos = gen_enc_algos /\ enc_sers = gen_enc_sers
  /\ error_request_types = gen_error_request_types
  /\ hello_roles = gen_hello_roles /\ welcome_roles = gen_welcome_roles.
Proof. vm_compute. repeat split; reflexivity. Qed.
Print Assumptions C03_constants_agree.

Theorem C03_type_map_agrees : map (fun s => (s_type s, s_name s)) schemas = gen_type_map.
Proof. vm_compute. repeat split; reflexivity. Qed.
Print Assumptions C03_type_map_agrees.

Theorem C03_binary_flags_agree : map (fun s => (ser_name s, ser_binary s)) all_sers = gen_binary_flags.
Proof. vm_compute. repeat split; reflexivity. Qed.
Print Assumptions C03_binary_flags_agree.
