(* C09 - UTF-8 validation equals RFC 3629, incrementally and in both implementations.
   Property statements only; proofs live in Proofs/Utf8Proofs.v.  dfa_py / dfa_c / unrolled_tbl / c_*_obs are
   regenerated from the tree under test on every run (translators/utf8_table.py); wf_utf8, viable, rfc_step,
   ref_result are written from RFC 3629 section 4 in Model/Utf8.v and never see the tables. *)
From Coq Require Import NArith ZArith List Bool.
From AV Require Import Model.Utf8 Gen.Utf8TablePy Gen.Utf8TableC Gen.Utf8Unrolled Proofs.Utf8Proofs.
Import ListNotations.
Open Scope N_scope.

(* ---------------- the generated tables ---------------- *)
Theorem C09_tables_agree : dfa_py = dfa_c.
Proof. exact tables_agree. Qed.
Print Assumptions C09_tables_agree.

(* no lookup of either loop ever leaves the 400-entry table (so the default of nthN is never what is read) *)
Theorem C09_table_in_bounds_py : forall s b, s < 9 -> b < 256 ->
  (N.to_nat b < length dfa_py)%nat /\ (N.to_nat (256 + s * 16 + nthN dfa_py b) < length dfa_py)%nat.
Proof. exact table_in_bounds_py. Qed.
Print Assumptions C09_table_in_bounds_py.

Theorem C09_table_in_bounds_c : forall s b, s < 9 -> b < 256 ->
  (N.to_nat b < length dfa_c)%nat /\ (N.to_nat (256 + s * 16 + nthN dfa_c b) < length dfa_c)%nat.
Proof. exact table_in_bounds_c. Qed.
Print Assumptions C09_table_in_bounds_c.

(* all 2304 transitions of each table and of the compiled DFA_TRANSITION macro are the RFC's *)
Theorem C09_transitions_py : forall s b, s < 9 -> b < 256 -> dfa_step dfa_py s b = rfc_step s b.
Proof. exact transitions_py. Qed.
Print Assumptions C09_transitions_py.

Theorem C09_transitions_c : forall s b, s < 9 -> b < 256 -> dfa_step dfa_c s b = rfc_step s b.
Proof. exact transitions_c. Qed.
Print Assumptions C09_transitions_c.

Theorem C09_unrolled : forall s b, s < 9 -> b < 256 -> unrolled_step unrolled_tbl s b = rfc_step s b.
Proof. exact transitions_unrolled. Qed.
Print Assumptions C09_unrolled.

(* the hand-written model of the two C loop functions reproduces what the COMPILED functions did on one octet
   from every state (new state, return value, current_index, total_index) - including entry in the reject state *)
Theorem C09_c_table_loop_observed : forall s b, s < 9 -> b < 256 ->
  obs_ok (dfa_step dfa_c) c_table_fn_obs s b = true.
Proof. exact c_table_fn_observed. Qed.
Print Assumptions C09_c_table_loop_observed.

Theorem C09_c_unrolled_loop_observed : forall s b, s < 9 -> b < 256 ->
  obs_ok (unrolled_step unrolled_tbl) c_unrolled_fn_obs s b = true.
Proof. exact c_unrolled_fn_observed. Qed.
Print Assumptions C09_c_unrolled_loop_observed.

Theorem C09_c_set_impl_observed :
  map (fun k => c_impl (c_set_impl c_impl_default (c_new c_impl_default) k)) [1; 2; 3; 4] = c_set_impl_result.
Proof. exact c_set_impl_observed. Qed.
Print Assumptions C09_c_set_impl_observed.

(* ---------------- the reference ---------------- *)
(* the RFC machine, run from a boundary, ends on a boundary exactly on the grammar's strings (any length) *)
Theorem C09_reference_machine : forall bs, (dfa_run rfc_step 0 bs =? 0) = wf_utf8 bs.
Proof. exact accepts_iff_wf. Qed.
Print Assumptions C09_reference_machine.

(* the grammar is "concatenation of encodings of Unicode scalar values" (hence: shortest form only, no
   surrogates, nothing above U+10FFFF) *)
Theorem C09_wf_is_scalar_encoding : forall bs,
  wf_utf8 bs = true <-> exists cps, forallb scalar_value cps = true /\ bs = flat_map utf8_encode cps.
Proof. exact wf_iff_encoding. Qed.
Print Assumptions C09_wf_is_scalar_encoding.

(* what every call should report, in declarative terms: [prev] = octets of earlier calls, [c] = this chunk *)
Theorem C09_reference_result : forall prev c,
  (r_valid (ref_result prev c) = true <-> viable (prev ++ c)) /\
  r_ends (ref_result prev c) = wf_utf8 (prev ++ c) /\
  (forall e i t, ref_result prev c = (true, e, i, t) -> i = nlen c /\ t = nlen (prev ++ c)) /\
  (forall e i t, ref_result prev c = (false, e, i, t) ->
     e = false /\ i = t - nlen prev /\ t < nlen (prev ++ c) /\
     viable (firstn (N.to_nat t) (prev ++ c)) /\
     (forall ext, wf_utf8 (firstn (N.to_nat t + 1) (prev ++ c) ++ ext) = false)) /\
  (forall e i t, viable prev -> ref_result prev c = (false, e, i, t) -> t = nlen prev + i /\ i < nlen c).
Proof. exact ref_result_characterised. Qed.
Print Assumptions C09_reference_result.

(* ---------------- one call after reset(): verdict, boundary flag, positions ---------------- *)
Theorem C09_py_meets_reference : forall bs, bytes_ok bs ->
  snd (py_validate dfa_py py_reset bs) = ref_result [] bs.
Proof. exact py_meets_reference. Qed.
Print Assumptions C09_py_meets_reference.

Theorem C09_accepts_exactly_wf : forall bs, bytes_ok bs ->
  r_valid (snd (py_validate dfa_py py_reset bs)) && r_ends (snd (py_validate dfa_py py_reset bs)) = wf_utf8 bs.
Proof. exact py_accepts_exactly_wf. Qed.
Print Assumptions C09_accepts_exactly_wf.

Theorem C09_valid_iff_viable : forall bs, bytes_ok bs ->
  (r_valid (snd (py_validate dfa_py py_reset bs)) = true <-> viable bs).
Proof. exact py_valid_iff_viable. Qed.
Print Assumptions C09_valid_iff_viable.

Theorem C09_ends_on_boundary : forall bs, bytes_ok bs ->
  r_ends (snd (py_validate dfa_py py_reset bs)) = wf_utf8 bs /\
  (r_valid (snd (py_validate dfa_py py_reset bs)) = true ->
   r_cur (snd (py_validate dfa_py py_reset bs)) = nlen bs /\ r_tot (snd (py_validate dfa_py py_reset bs)) = nlen bs).
Proof. exact py_ends_on_boundary. Qed.
Print Assumptions C09_ends_on_boundary.

(* the reported index is the first offending octet: everything before it can still be completed to well-formed
   UTF-8, nothing that includes it can (whatever follows, octets or not) *)
Theorem C09_first_offender : forall bs, bytes_ok bs ->
  let r := snd (py_validate dfa_py py_reset bs) in
  r_valid r = false ->
  r_ends r = false /\ r_cur r = r_tot r /\ r_tot r < nlen bs /\
  viable (firstn (N.to_nat (r_tot r)) bs) /\
  (forall ext, wf_utf8 (firstn (N.to_nat (r_tot r) + 1) bs ++ ext) = false).
Proof. exact py_first_offender. Qed.
Print Assumptions C09_first_offender.

(* NVX, any implementation selector, any object that is freshly reset: the same 4-tuple as pure Python, hence
   every statement above holds for it as well *)
Theorem C09_nvx_equals_py : forall v bs, c_state v = 0 -> c_tot v = 0 -> bytes_ok bs ->
  snd (nvx_validate dfa_c unrolled_tbl v bs) = snd (py_validate dfa_py py_reset bs).
Proof. exact nvx_equals_py_single. Qed.
Print Assumptions C09_nvx_equals_py.

Theorem C09_accepts_exactly_wf_nvx : forall v bs, c_state v = 0 -> c_tot v = 0 -> bytes_ok bs ->
  r_valid (snd (nvx_validate dfa_c unrolled_tbl v bs)) && r_ends (snd (nvx_validate dfa_c unrolled_tbl v bs))
  = wf_utf8 bs.
Proof. exact nvx_accepts_exactly_wf. Qed.
Print Assumptions C09_accepts_exactly_wf_nvx.


(* ---------------- chunking: FULL STRENGTH, both implementations ---------------- *)
(* Python: EVERY call of EVERY chunking (empty chunks and chunks after a reject included) returns exactly the
   reference 4-tuple (valid, endsOnCodePoint, currentIndex, totalIndex) *)
Theorem C09_chunking_every_call_py : forall chunks, Forall bytes_ok chunks ->
  snd (feed (py_validate dfa_py) py_reset chunks) = ref_feed [] chunks.
Proof. exact py_chunking_every_call. Qed.
Print Assumptions C09_chunking_every_call_py.

(* ... and the object's state (DFA state, _index) afterwards is the state one call on the concatenation leaves *)
Theorem C09_chunking_state_py : forall chunks, Forall bytes_ok chunks ->
  fst (feed (py_validate dfa_py) py_reset chunks) = fst (py_validate dfa_py py_reset (concat chunks)).
Proof. exact py_chunking_state_inst. Qed.
Print Assumptions C09_chunking_state_py.

(* NVX, every implementation selector, any freshly reset object: the same *)
Theorem C09_chunking_every_call_nvx : forall v chunks, c_state v = 0 -> c_tot v = 0 -> Forall bytes_ok chunks ->
  snd (feed (nvx_validate dfa_c unrolled_tbl) v chunks) = ref_feed [] chunks.
Proof. exact nvx_chunking_every_call. Qed.
Print Assumptions C09_chunking_every_call_nvx.

(* hence NVX = pure Python on every call of every chunking, all four components *)
Theorem C09_nvx_equals_py_every_call : forall v chunks, c_state v = 0 -> c_tot v = 0 -> Forall bytes_ok chunks ->
  snd (feed (nvx_validate dfa_c unrolled_tbl) v chunks) = snd (feed (py_validate dfa_py) py_reset chunks).
Proof. exact nvx_py_agree_every_call. Qed.
Print Assumptions C09_nvx_equals_py_every_call.

(* the statement of Model/Utf8.v chunking_independent: after any split into chunks the last call reports the verdict,
   boundary flag and total index that one call on the concatenation reports (these were C09_chunking_py_refuted /
   C09_chunking_nvx_refuted before /repo commits ebfd183a and a0b6310f) *)
Theorem C09_chunking_py : chunking_independent (py_validate dfa_py) py_reset.
Proof. exact py_chunking_independent. Qed.
Print Assumptions C09_chunking_py.

Theorem C09_chunking_nvx : forall v, c_state v = 0 -> c_tot v = 0 ->
  chunking_independent (nvx_validate dfa_c unrolled_tbl) v.
Proof. exact nvx_chunking_independent. Qed.
Print Assumptions C09_chunking_nvx.

(* once rejected, every further call (whatever the chunk, empty included) reports invalid at offset 0 of the chunk and
   keeps the total index of the first offender; the object does not change *)
Theorem C09_py_after_reject : forall v ba, py_state v = 1 -> bytes_ok ba ->
  py_validate dfa_py v ba = (v, (false, false, 0, py_index v)).
Proof. exact py_after_reject_inst. Qed.
Print Assumptions C09_py_after_reject.

Theorem C09_nvx_after_reject : forall v ba, c_state v = 1 ->
  snd (nvx_validate dfa_c unrolled_tbl v ba) = (false, false, 0, c_tot v).
Proof. exact nvx_after_reject_inst. Qed.
Print Assumptions C09_nvx_after_reject.

(* reset(): an NVX object is fresh again after any history (keeping its implementation selector), so every
   statement about freshly reset objects applies after reset(); pure Python's reset() is the constant py_reset *)
Theorem C09_nvx_reset : forall v chunks, Forall bytes_ok chunks ->
  c_impl (c_reset v) = c_impl v /\
  snd (feed (nvx_validate dfa_c unrolled_tbl) (c_reset v) chunks) = ref_feed [] chunks.
Proof. exact nvx_reset_spec. Qed.
Print Assumptions C09_nvx_reset.

(* the reference results of a chunked feed are those of one call on each concatenated prefix *)
Theorem C09_reference_chunking : forall prev c, res3 (ref_result prev c) = res3 (ref_result [] (prev ++ c)).
Proof. exact res3_ref_result. Qed.
Print Assumptions C09_reference_chunking.

(* ---------------- non-vacuity ---------------- *)
(* "a", U+00E9, U+20AC, U+10348 fed in chunks that cut inside code points; the euro sign cut after 2 octets *)
Example C09_witness_valid :
  snd (feed (py_validate dfa_py) py_reset [[97; 195]; [169; 226; 130]; [172; 240; 144; 141]; [136]]) =
    [(true, false, 2, 2); (true, false, 3, 5); (true, false, 4, 9); (true, true, 1, 10)]
  /\ wf_utf8 [97; 195; 169; 226; 130; 172; 240; 144; 141; 136] = true
  /\ bytes_ok [97; 195; 169; 226; 130; 172; 240; 144; 141; 136].
Proof. vm_compute. repeat split; repeat constructor. Qed.

(* overlong C0 80, surrogate ED A0 80, above U+10FFFF F4 90 80 80: first offenders 0, 1, 1 *)
Example C09_witness_invalid :
  snd (py_validate dfa_py py_reset [192; 128]) = (false, false, 0, 0) /\
  snd (py_validate dfa_py py_reset [237; 160; 128]) = (false, false, 1, 1) /\
  snd (py_validate dfa_py py_reset [97; 244; 144; 128; 128]) = (false, false, 2, 2) /\
  wf_utf8 [192; 128] = false /\ wf_utf8 [237; 160; 128] = false /\ wf_utf8 [244; 144; 128; 128] = false /\
  wf_utf8 [237; 159; 191] = true /\ wf_utf8 [244; 143; 191; 191] = true.
Proof. vm_compute. repeat split. Qed.

(* the replays of the three repaired defects (F-C09-1 and the empty chunk after a reject), now regression cases:
   all implementations keep reporting invalid with the first offender's total index *)
Example C09_witness_after_reject :
  snd (feed (nvx_validate dfa_c unrolled_tbl) (c_new 4) [[255]; [97]]) = [(false, false, 0, 0); (false, false, 0, 0)] /\
  snd (feed (nvx_validate dfa_c unrolled_tbl) (c_set_impl 4 (c_new 4) 2) [[255]; [97]]) = [(false, false, 0, 0); (false, false, 0, 0)] /\
  snd (feed (py_validate dfa_py) py_reset [[255]; [97]]) = [(false, false, 0, 0); (false, false, 0, 0)] /\
  snd (feed (py_validate dfa_py) py_reset [[255]; []]) = [(false, false, 0, 0); (false, false, 0, 0)] /\
  snd (feed (nvx_validate dfa_c unrolled_tbl) (c_new 4) [[97; 255]; []; [98; 99]]) =
    [(false, false, 1, 1); (false, false, 0, 1); (false, false, 0, 1)] /\
  ref_feed [] [[97; 255]; []; [98; 99]] = [(false, false, 1, 1); (false, false, 0, 1); (false, false, 0, 1)].
Proof. vm_compute. repeat split. Qed.

(* the encoder side of the grammar theorem on concrete scalar values, and the three exclusions *)
Example C09_witness_encoding :
  flat_map utf8_encode [0x61; 0xE9; 0x20AC; 0x10348] = [97; 195; 169; 226; 130; 172; 240; 144; 141; 136] /\
  scalar_value 0xD800 = false /\ scalar_value 0x110000 = false /\ scalar_value 0x10FFFF = true /\
  utf8_encode 0x10FFFF = [244; 143; 191; 191].
Proof. vm_compute. repeat split. Qed.
