(* C08 -- untrusted WAMP input is either a valid message or a protocol error (message-schema part; the URI
   regexes are in Props/C08Uri.v).  Statements only; proofs in Proofs/Wamp*Proofs.v.
   [unserialize1] = the body of the loop in Serializer.unserialize on one decoded raw message;
   constructor assertions are explicit (Raise AssertionError), so "only protocol errors" is a real statement. *)
From Coq Require Import NArith ZArith List Bool String.
From AV Require Import Model.WampValue Model.WampSchema Model.WampMsg Model.WampMsgRun 
  Proofs.WampWfProofs Proofs.WampOutcomeProofs Proofs.WampStrictProofs Proofs.WampMsgProofs.
Import ListNotations.
Open Scope list_scope.



(* ---- totality ---- *)
(* Full strength ("ProtocolError or InvalidUriError only") is FALSE of the code: *)
Theorem C08_total_refuted : forall uri_ok custom_ok,
  unserialize1 uri_ok custom_ok event_enc_key_witness = Raise AssertionError
  /\ unserialize1 uri_ok custom_ok unsubscribed_combo_witness = Raise AssertionError
  /\ unserialize1 uri_ok custom_ok hello_self_witness = Raise TypeError.
Proof. exact total_refuted. Qed.
Print Assumptions C08_total_refuted.

(* repaired by ea2362f8 (was the first witness): a malformed forward_for is a ProtocolError, in Unregister too *)
Theorem C08_forward_for_repaired : forall uri_ok custom_ok,
  unserialize1 uri_ok custom_ok event_ff_witness = Raise ProtocolError
  /\ unserialize1 uri_ok custom_ok unregister_ff_value = Raise ProtocolError.
Proof. exact forward_for_repaired. Qed.
Print Assumptions C08_forward_for_repaired.

(* an accepted forward_for option is a list of dicts with an int session, a str-or-None authid, a str authrole *)
Theorem C08_forward_for_entries : forall uri_ok x,
  okind_check uri_ok OFwd x = None -> exists l, x = VList l /\ forallb ff_entry_passes l = true.
Proof. exact forward_for_entries. Qed.
Print Assumptions C08_forward_for_entries.

(* What does hold, for every raw structure: any other exception is an AssertionError of the class
   constructor on the extracted attributes, or the TypeError of role_cls( ** features) in HELLO / WELCOME *)
Theorem C08_total_partial : forall uri_ok custom_ok raw e,
  unserialize1 uri_ok custom_ok raw = Raise e ->
  is_proto e = true
  \/ exists s l, raw = VList l /\ In s schemas
       /\ ((e = AssertionError /\ ctor_ok custom_ok s (extract custom_ok s l) = false)
           \/ (e = TypeError /\ s_special s <> SpNone)).
Proof. exact unserialize_outcomes. Qed.
Print Assumptions C08_total_partial.

(* whole Serializer.unserialize: wrong text/binary flag and any decoder failure are ProtocolError; a batch
   raises what its first failing message raises *)
Theorem C08_total_serializer : forall uri_ok custom_ok s isBinary decoded e,
  unserialize_model uri_ok custom_ok s isBinary decoded = Raise e ->
  is_proto e = true
  \/ exists raws raw, decoded = Some raws /\ In raw raws /\ unserialize1 uri_ok custom_ok raw = Raise e.
Proof. exact unserialize_model_outcomes. Qed.
Print Assumptions C08_total_serializer.

(* ---- strictness ---- *)
(* an accepted raw message is a list headed by a known type code whose class parser accepted it *)
Theorem C08_envelope : forall uri_ok custom_ok raw t m,
  unserialize1 uri_ok custom_ok raw = Ok (t, m) ->
  exists l s, raw = VList (VInt t :: l) /\ find_schema schemas t = Some s /\ In s schemas /\ s_type s = t
              /\ parse uri_ok custom_ok s (VInt t :: l) = Ok m.
Proof. exact envelope_ok_inv. Qed.
Print Assumptions C08_envelope.

(* what every accepted message satisfies: element count, every positional check, every option check that
   the code performs, the constructor assertions; and the object is the projection of the input *)
Theorem C08_strict_partial : forall uri_ok custom_ok s w m,
  parse uri_ok custom_ok s w = Ok m ->
  exists body,
    w = VInt (s_type s) :: body
    /\ len_ok s (List.length w) = true
    /\ m = extract custom_ok s w
    /\ let od := find_opts (s_slots s) body in
       check_slots uri_ok od (s_slots s) body = None
       /\ check_opts uri_ok (s_opts s) od = None
       /\ (forall pc, s_payload s = Some pc ->
             check_pl custom_ok pc od (skipn (nslots s) body) = None /\ kwargs_ok (p_kwargs (m_pl m)) = true)
       /\ (s_special s <> SpNone -> check_roles uri_ok (roles_cfg (s_special s)) od = None)
       /\ ctor_ok custom_ok s m = true.
Proof. exact parse_ok_inv. Qed.
Print Assumptions C08_strict_partial.

(* the positional checks, spelled out: ids within 0..2^53, URIs accepted by the validator *)
Theorem C08_strict_positions : forall uri_ok od sl body,
  check_slots uri_ok od sl body = None ->
  forall i a k x, nth_error sl i = Some (SField a k) -> nth_error body i = Some x ->
    pkind_check uri_ok od k x = None.
Proof. exact check_slots_none_nth. Qed.
Print Assumptions C08_strict_positions.

Theorem C08_strict_id : forall v, check_id v = None -> exists z, v = VInt z /\ (0 <= z <= id_max)%Z.
Proof. exact check_id_none. Qed.
Print Assumptions C08_strict_id.

Theorem C08_strict_uri : forall uri_ok fl an v, check_uri uri_ok fl an v = None ->
  (v = VNull /\ an = true) \/ exists s, v = VStr s /\ uri_ok fl s = true.
Proof. exact check_uri_none. Qed.
Print Assumptions C08_strict_uri.

Theorem C08_strict_options : forall uri_ok specs od, check_opts uri_ok specs od = None ->
  forall o x, In o specs -> dget (s2l (o_key o)) od = Some x -> okind_check uri_ok (o_kind o) x = None.
Proof. exact check_opts_none_in. Qed.
Print Assumptions C08_strict_options.

(* HELLO / WELCOME: the roles dict is present and non-empty, and every KNOWN feature flag of every role that an
   accepted message carries is a bool or None (unknown feature names are ignored by the code) *)
Theorem C08_roles_checked : forall uri_ok cfg od, check_roles uri_ok cfg od = None ->
  exists rd, dget (s2l "roles") od = Some (VDict rd) /\ rd <> []
             /\ forall kv, In kv rd -> check_role uri_ok cfg kv = None.
Proof. exact check_roles_none_inv. Qed.
Print Assumptions C08_roles_checked.

Theorem C08_role_features : forall uri_ok cfg kv name feats d fd f x,
  check_role uri_ok cfg kv = None -> fst kv = KS name -> find_role cfg name = Some feats ->
  snd kv = VDict d -> dget (s2l "features") d = Some (VDict fd) ->
  In f feats -> dget (s2l f) fd = Some x ->
  x = VNull \/ exists b, x = VBool b.
Proof. exact role_features_strict. Qed.
Print Assumptions C08_role_features.

Example C08_role_features_witness :
  let hello f := [VInt 1; VStr (s2l "realm1");
                  VDict [(KS (s2l "roles"), VDict [(KS (s2l "caller"), VDict [(KS (s2l "features"), VDict [(KS (s2l "call_timeout"), f)])])])]] in
  parse_i Hello (hello (VInt 0)) = Raise ProtocolError
  /\ parse_i Hello (hello (VStr [])) = Raise ProtocolError
  /\ parse_i Hello (hello (VList [])) = Raise ProtocolError
  /\ parse_i Hello (hello (VFloat 0)) = Raise ProtocolError
  /\ (exists m, parse_i Hello (hello (VBool false)) = Ok m)
  /\ (exists m, parse_i Hello (hello VNull) = Ok m).
Proof. repeat split; try (vm_compute; reflexivity); eexists; vm_compute; reflexivity. Qed.

(* Full strength (every present option conforms to the strict reading: session ids in range, also inside
   forward_for entries) is FALSE of the code: *)
Theorem C08_strict_refuted : forall uri_ok custom_ok,
  (exists m o x, parse uri_ok custom_ok Event event_publisher_witness = Ok m
      /\ In o (s_opts Event) /\ dget (s2l (o_key o)) (find_opts (s_slots Event) (tl event_publisher_witness)) = Some x
      /\ strict_okind_ok uri_ok (o_kind o) x = false)
  /\ (exists m o x, parse uri_ok custom_ok Cancel cancel_ff_session_witness = Ok m
      /\ In o (s_opts Cancel) /\ dget (s2l (o_key o)) (find_opts (s_slots Cancel) (tl cancel_ff_session_witness)) = Some x
      /\ strict_okind_ok uri_ok (o_kind o) x = false).
Proof. exact strict_refuted. Qed.
Print Assumptions C08_strict_refuted.

(* ---- equivalence of the re-marshalled form ---- *)
(* the re-marshalled list carries exactly the fields of the input, up to [norm] (absent == default) *)
Theorem C08_equiv : forall uri_ok custom_ok, custom_law custom_ok ->
  forall s w m, In s schemas ->
  parse uri_ok custom_ok s w = Ok m ->
  (forall pc, s_payload s = Some pc -> pl_unambiguous pc (m_pl m) = true) ->
  parse uri_ok custom_ok s w = Ok (extract custom_ok s w)
  /\ extract custom_ok s (marshal s m) = norm s (extract custom_ok s w).
Proof. exact remarshal_equiv_all. Qed.
Print Assumptions C08_equiv.

(* the side condition is automatic for every class but Publish *)
Theorem C08_equiv_nonpublish : forall uri_ok custom_ok, custom_law custom_ok ->
  forall s w m, In s schemas -> s_name s <> "Publish"%string ->
  parse uri_ok custom_ok s w = Ok m ->
  extract custom_ok s (marshal s m) = norm s (extract custom_ok s w).
Proof. exact remarshal_equiv_nonpublish. Qed.
Print Assumptions C08_equiv_nonpublish.

(* and it is needed for Publish: [16,1,{},"a.b",b"x",{}] is accepted with args = b"x", re-marshals to
   [16,1,{},"a.b",b"x"], which parses as an opaque *payload* *)
Example C08_equiv_publish_refuted :
  let w := [VInt 16; VInt 1; VDict []; VStr (s2l "a.b"); VBytes [120%N]; VDict []] in
  exists m, parse_i Publish w = Ok m
    /\ p_args (m_pl m) = VBytes [120%N]
    /\ p_args (m_pl (extract_i Publish (marshal Publish m))) = VNull
    /\ p_payload (m_pl (extract_i Publish (marshal Publish m))) = VBytes [120%N].
Proof. eexists. repeat split; vm_compute; reflexivity. Qed.

(* ---- non-vacuity: the envelope and the id bound ---- *)
Example C08_envelope_examples :
  unserialize1_i (VInt 5) = Raise ProtocolError                                (* not a list *)
  /\ unserialize1_i (VList []) = Raise ProtocolError                           (* empty *)
  /\ unserialize1_i (VList [VBool true; VInt 1; VInt 2]) = Raise ProtocolError (* type code not an int *)
  /\ unserialize1_i (VList [VInt 7]) = Raise ProtocolError                     (* unknown type code *)
  /\ unserialize1_i (VList [VInt 17; VInt 9007199254740992; VInt 0]) <> Raise ProtocolError
  /\ unserialize1_i (VList [VInt 17; VInt 9007199254740993; VInt 0]) = Raise ProtocolError
  /\ unserialize1_i (VList [VInt 17; VInt (-1); VInt 0]) = Raise ProtocolError
  /\ unserialize1_i (VList [VInt 17; VBool true; VInt 0]) = Raise ProtocolError
  /\ unserialize1_i (VList [VInt 17; VInt 1]) = Raise ProtocolError            (* wrong element count *)
  /\ unserialize1_i (VList [VInt 48; VInt 1; VDict []; VStr (s2l "a..b")]) = Raise InvalidUriError
  /\ unserialize1_i (VList [VInt 48; VInt 1; VDict []; VInt 5]) = Raise InvalidUriError.
Proof. repeat split; try (vm_compute; reflexivity). vm_compute. discriminate. Qed.

(* an accepted CALL and what C08_strict_partial says about it *)
Example C08_strict_witness :
  exists m, parse_i Call [VInt 48; VInt 1; VDict [(KS (s2l "timeout"), VInt 0)]; VStr (s2l "com.x"); VList [VInt 1]] = Ok m
            /\ nth 0 (m_opts m) VNull = VInt 0 /\ p_args (m_pl m) = VList [VInt 1].
Proof. eexists. repeat split; vm_compute; reflexivity. Qed.

(* ---- agreement with what translators/schema_shape.py reads off the CURRENT message.py / serializer.py / role.py.
   Kept last and proved in place (pure computation): when the source changes shape only these obligations break,
   the theorems above (about the schemas as written) stay checked. ---- *)
From AV Require Import Gen.WampShape.
Theorem C08_shape_agrees : map shape_of schemas = gen_shapes.
Proof. vm_compute. repeat split; reflexivity. Qed.
Print Assumptions C08_shape_agrees.

Theorem C08_constants_agree :
  id_max = gen_id_max /\ enc_algos = gen_enc_algos /\ enc_sers = gen_enc_sers
  /\ error_request_types = gen_error_request_types
  /\ hello_roles = gen_hello_roles /\ welcome_roles = gen_welcome_roles.
Proof. vm_compute. repeat split; reflexivity. Qed.
Print Assumptions C08_constants_agree.
