(* C12 - per-message compression is lossless and negotiated soundly.
   Property statements only; the model is Model/Pmce.v, the proofs Proofs/PmceProofs.v, the permissible
   parameter sets / defaults / extension names are GENERATED from the source (Gen/PmceConsts.v).
   Oracles (explicit hypotheses, never axioms):
     - Python's int(str): [py_int] with the single law [int_law] (it inverts f"{n}" on the permissible values);
     - the compression library: five functions with the stream law [codec_law]. *)
From Coq Require Import ZArith NArith List Bool String.
From AV Require Import Gen.PmceConsts Model.Pmce Proofs.PmceProofs.
Import ListNotations.
Open Scope Z_scope.

(* ------------------------------------------------------------------------------------------------ *)
(* Negotiation.  s = what the server runs (create_from_offer_accept), c = what the client runs
   (create_from_response_accept of the response it PARSED from the server's extension string).
   direction_ok comp decomp :  window(compressor side) <= window(decompressor side)   [zlib: inflate's window must not
   be smaller than deflate's], decompressor recreated per message -> compressor recreated per message, every
   window / mem_level is a value zlib accepts.   server->client: compressor uses s.server_max_window_bits /
   s.server_no_context_takeover, decompressor c.server_*; client->server: compressor c.client_*, decompressor s.client_*. *)
Theorem C12_negotiation_sound : forall py_int a ra,
  int_law py_int window_permissible ->
  d_offer_ok (a_offer a) -> d_accept_ok a -> d_raccept_ok ra ->
  d_response_parse py_int (params_of_tokens (d_accept_string a)) = Ok (ra_response ra) ->
  let s := d_from_offer_accept true a in
  let c := d_from_response_accept false ra in
  direction_ok s c /\ direction_ok c s.
Proof. exact negotiation_sound. Qed.
Print Assumptions C12_negotiation_sound.

(* the client can always parse what the server sends, and reads back exactly what the server meant *)
Theorem C12_response_roundtrip : forall py_int,
  int_law py_int window_permissible -> forall a, d_offer_ok (a_offer a) -> d_accept_ok a ->
  d_response_parse py_int (params_of_tokens (d_accept_string a)) =
    Ok {| r_client_mwb := a_req_mwb a; r_client_nct := a_req_nct a;
          r_server_mwb := o_req_mwb (a_offer a); r_server_nct := o_req_nct (a_offer a) |}.
Proof. exact d_response_roundtrip. Qed.
Print Assumptions C12_response_roundtrip.

(* the server reads the client's offer string back (accept_no_context_takeover is always True after parsing) *)
Theorem C12_offer_roundtrip : forall py_int,
  int_law py_int window_permissible -> forall o, d_offer_ok o ->
  d_offer_parse py_int (params_of_tokens (d_offer_string o)) =
    Ok {| o_acc_nct := true; o_acc_mwb := o_acc_mwb o; o_req_nct := o_req_nct o; o_req_mwb := o_req_mwb o |}.
Proof. exact d_offer_roundtrip. Qed.
Print Assumptions C12_offer_roundtrip.

(* The same as an exhaustive sweep inside Coq (vm_compute) over the lattice built from the GENERATED sets:
   offers 2 x 2 x 2 x (1+|W|), accepts 2 x (1+|W|) x 3 x (1+|W|), response-accepts 3 x (1+|W|); mem_level and
   max_message_size = None (they do not take part in the negotiation); int() = the concrete ASCII reading. *)
Theorem C12_negotiation_lattice : forall o a r ra,
  In o all_offers -> d_offer_okb o = true ->
  In a (all_accepts o) -> d_accept_okb a = true ->
  d_response_parse ascii_int (params_of_tokens (d_accept_string a)) = Ok r ->
  In ra (all_raccepts r) -> d_raccept_okb ra = true ->
  let s := d_from_offer_accept true a in
  let c := d_from_response_accept false ra in
  direction_ok s c /\ direction_ok c s.
Proof. exact lattice_sweep_lifted. Qed.
Print Assumptions C12_negotiation_lattice.

(* the lattice misses nothing: every constructor-valid object (with mem_level = max_message_size = None) is in it *)
Theorem C12_lattice_complete :
  (forall o, d_offer_ok o -> In o all_offers) /\
  (forall a, d_accept_ok a -> a_mem a = None -> a_maxmsg a = None -> In a (all_accepts (a_offer a))) /\
  (forall ra, d_raccept_ok ra -> ra_mem ra = None -> ra_maxmsg ra = None -> In ra (all_raccepts (ra_response ra))).
Proof. exact (conj all_offers_complete (conj all_accepts_complete all_raccepts_complete)). Qed.
Print Assumptions C12_lattice_complete.

(* without overrides both ends hold literally the same four parameters *)
Theorem C12_negotiation_agree : forall a ra,
  ra_response ra = {| r_client_mwb := a_req_mwb a; r_client_nct := a_req_nct a;
                      r_server_mwb := o_req_mwb (a_offer a); r_server_nct := o_req_nct (a_offer a) |} ->
  a_nct a = None -> a_wbits a = None -> ra_nct ra = None -> ra_wbits ra = None ->
  let s := d_from_offer_accept true a in
  let c := d_from_response_accept false ra in
  s_server_nct s = s_server_nct c /\ s_client_nct s = s_client_nct c /\
  s_server_mwb s = s_server_mwb c /\ s_client_mwb s = s_client_mwb c.
Proof. exact negotiation_agree_no_override. Qed.
Print Assumptions C12_negotiation_agree.

(* The server's answer carries only parameters compatible with the client's offer: client_max_window_bits only if
   the client offered it (with a permissible value), client_no_context_takeover only if the client accepts it,
   server_max_window_bits / server_no_context_takeover only as an echo of the client's request; nothing else, nothing
   twice; a requested server_no_context_takeover is honoured by the server's compressor and the server's window is
   at most the requested maximum. *)
Theorem C12_answer_within_offer : forall a,
  d_offer_ok (a_offer a) -> d_accept_ok a ->
  let o := a_offer a in
  let toks := d_accept_string a in
  let s := d_from_offer_accept true a in
  (forall v, In (KClientMWB, v) toks ->
      o_acc_mwb o = true /\ v = Some (dec_string (a_req_mwb a)) /\ permissible window_permissible (a_req_mwb a) = true) /\
  (forall v, In (KClientNCT, v) toks -> o_acc_nct o = true /\ v = None) /\
  (forall v, In (KServerMWB, v) toks -> o_req_mwb o <> 0 /\ v = Some (dec_string (o_req_mwb o))) /\
  (forall v, In (KServerNCT, v) toks -> o_req_nct o = true /\ v = None) /\
  (forall k v, In (k, v) toks -> k = KClientMWB \/ k = KClientNCT \/ k = KServerMWB \/ k = KServerNCT) /\
  NoDup (map fst toks) /\
  (o_req_nct o = true -> In (KServerNCT, None) toks /\ comp_nct s = true) /\
  (o_req_mwb o <> 0 -> In (KServerMWB, Some (dec_string (o_req_mwb o))) toks /\ comp_window s <= o_req_mwb o).
Proof. exact answer_within_offer. Qed.
Print Assumptions C12_answer_within_offer.

(* brotli / snappy (only no_context_takeover is negotiated): the client reads the server's answer back exactly, and in
   each direction a decompressor that is recreated per message meets a compressor that is recreated per message.
   (A statement about the two SETTINGS objects.  For brotli the codec no longer consults them in any observable way:
   C12_stream_per_message - every message is its own stream in both modes, so the implication also holds trivially there.) *)
Theorem C12_negotiation_sound_brotli_snappy : forall a ra,
  n_accept_ctor (na_offer a) (na_req_nct a) (na_nct a) = Ok a ->
  n_raccept_ctor (nra_response ra) (nra_nct ra) = Ok ra ->
  n_response_parse (params_of_tokens (n_accept_string a)) = Ok (nra_response ra) ->
  let s := n_from_offer_accept true a in
  let c := n_from_response_accept false ra in
  nra_response ra = {| nr_client_nct := na_req_nct a; nr_server_nct := no_req_nct (na_offer a) |} /\
  (n_decomp_nct c = true -> n_comp_nct s = true) /\ (n_decomp_nct s = true -> n_comp_nct c = true).
Proof. exact n_negotiation_sound. Qed.
Print Assumptions C12_negotiation_sound_brotli_snappy.

(* bzip2 (only compression levels are negotiated; any level decompresses): both sides compress with a level bz2 accepts,
   at most the maximum the peer asked for *)
Theorem C12_negotiation_sound_bzip2 : forall py_int a ra,
  int_law py_int level_permissible ->
  b_offer_ctor (bo_acc_mcl (ba_offer a)) (bo_req_mcl (ba_offer a)) = Ok (ba_offer a) ->
  b_accept_ctor (ba_offer a) (ba_req_mcl a) (ba_level a) = Ok a ->
  b_raccept_ctor (bra_response ra) (bra_level ra) = Ok ra ->
  b_response_parse py_int (params_of_tokens (b_accept_string a)) = Ok (bra_response ra) ->
  let s := b_from_offer_accept true a in
  let c := b_from_response_accept false ra in
  bra_response ra = {| br_client_mcl := ba_req_mcl a; br_server_mcl := bo_req_mcl (ba_offer a) |} /\
  permissible level_permissible (bs_server_mcl s) = true /\ permissible level_permissible (bs_client_mcl c) = true /\
  (bo_req_mcl (ba_offer a) <> 0 -> bs_server_mcl s <= bo_req_mcl (ba_offer a)) /\
  (ba_req_mcl a <> 0 -> bs_client_mcl c <= ba_req_mcl a).
Proof. exact b_negotiation_sound. Qed.
Print Assumptions C12_negotiation_sound_bzip2.

(* ------------------------------------------------------------------------------------------------ *)
(* The client.  The handshake reaches OPEN only with no extension at all, or with exactly one entry that names a
   registered PMCE, whose parameters parse, and which the application's policy accepts. *)
Theorem C12_client_opens_only_if : forall py_int reg exts policy s,
  client_process py_int reg exts policy = COpen s ->
  (exts = [] /\ s = None) \/
  (exists name ps x resp ra s', exts = [(name, ps)] /\ lookup_ext reg name = Some x /\
      parse_response py_int x ps = Ok resp /\ policy resp = Some ra /\
      from_response_accept x false ra = Some s' /\ s = Some s').
Proof. exact client_open_inv. Qed.
Print Assumptions C12_client_opens_only_if.

(* unknown extension anywhere | two or more entries (a repeated PMCE, or a PMCE plus anything) | parameters that do
   not parse | policy returns None   ==>  failHandshake *)
Theorem C12_client_rejects : forall py_int reg exts policy,
  policy_typed py_int policy ->
  (exists name ps, In (name, ps) exts /\ lookup_ext reg name = None) \/
  (2 <= List.length exts)%nat \/
  (exists name ps x, In (name, ps) exts /\ lookup_ext reg name = Some x /\ is_ok (parse_response py_int x ps) = false) \/
  (exists name ps x resp, In (name, ps) exts /\ lookup_ext reg name = Some x /\
      parse_response py_int x ps = Ok resp /\ policy resp = None) ->
  exists why, client_process py_int reg exts policy = CFail why.
Proof. exact client_rejects. Qed.
Print Assumptions C12_client_rejects.

(* which parameter maps do not parse: a duplicated parameter (two values under one key), or a single value that is
   not acceptable for that key ([resp_param_ok]: unknown name, value on a flag, valueless / non-numeric /
   out-of-range number) - wherever it stands in the map, for every extension *)
Theorem C12_response_parse_rejects : forall py_int x ps k vs,
  In (k, vs) ps ->
  (List.length vs <> 1%nat \/ (forall v, vs = [v] -> resp_param_ok py_int x (k, [v]) = false)) ->
  is_ok (parse_response py_int x ps) = false.
Proof. exact parse_response_rejects. Qed.
Print Assumptions C12_response_parse_rejects.

(* and exactly those: Response.parse succeeds iff every entry is a single acceptable value under a known name *)
Theorem C12_response_parse_exact : forall py_int x ps,
  is_ok (parse_response py_int x ps) = forallb (resp_param_ok py_int x) ps.
Proof. exact parse_response_ok. Qed.
Print Assumptions C12_response_parse_exact.

(* ------------------------------------------------------------------------------------------------ *)
(* Handle typestate, full strength: for EVERY extension (deflate, bzip2, brotli, snappy), both context-takeover modes on
   either side, every codec, every send sequence (sendMessage with any fragment size, the streaming API, doNotCompress
   mixed in) and EVERY incoming frame sequence (well-formed or not): no library call lands on a missing or finished
   object.  (True of the code since fix 444bd7d4; before it the statement was refuted for brotli - see the Example
   C12_brotli_before_fix below.) *)
Theorem C12_typestate : forall CS DS c_new c_compress c_flush d_new d_feed x cw mem cnct dw dnct,
  (forall ms, ~ typestate_error_send CS DS (send_msgs CS DS c_new c_compress c_flush
                                                      (Some (pmce_init CS DS (disc_of x) cw mem cnct dw dnct)) ms)) /\
  (forall fs, ~ typestate_error_recv (snd (recv_frames CS DS d_new d_feed
                                             (rstate_init CS DS (Some (pmce_init CS DS (disc_of x) cw mem cnct dw dnct))) fs))).
Proof. exact typestate_all. Qed.
Print Assumptions C12_typestate.

(* bzip2 and brotli end their stream with every message and drop both library objects: the next message gets a fresh
   compressor / decompressor whatever no_context_takeover says.  For brotli this means that "context takeover" does not
   exist at the codec level any more: the negotiated flags (C12_negotiation_sound_brotli_snappy) travel in the header and
   sit in the settings object, the codec runs one stream per message in both modes. *)
Theorem C12_stream_per_message : forall CS DS c_flush d_feed x (p : pmce CS DS),
  x = XBzip2 \/ x = XBrotli -> p_disc p = disc_of x ->
  (forall g cs, p_comp p = HLive g cs ->
     exists p' out, end_compress CS DS c_flush p = Ok (p', out) /\ p_comp p' = HNone) /\
  (forall g ds, p_decomp p = HLive g ds ->
     exists p', end_decompress CS DS d_feed p = Ok p' /\ p_decomp p' = HNone).
Proof. exact stream_per_message_drops. Qed.
Print Assumptions C12_stream_per_message.

(* ------------------------------------------------------------------------------------------------ *)
(* Losslessness under the codec stream law: any extension, any message sequence (sendMessage with any fragment size -
   trailing empty frames included -, streaming API, doNotCompress mixed in), any cutting of every frame payload into
   chunks (empty chunks included): delivered = sent, in order.  The law asks of the library: the compressor's output for
   a message decodes to the message in any segmentation into NON-EMPTY pieces, and - only where the wrapper passes empty
   input on (not bzip2) - that feeding nothing yields nothing.  bz2 (end-of-stream strict) meets this. *)
Theorem C12_lossless : forall CS DS c_new c_compress c_flush d_new d_feed x compat R,
  codec_law CS DS c_new c_compress c_flush d_new d_feed (disc_of x) compat R ->
  forall cw mem cnct dw' dnct' cw' mem' cnct' dw dnct,
  compat cw dw = true -> (dnct = true -> cnct = true) ->
  forall ms, Forall msg_wf ms ->
  exists ps' fss,
    send_msgs CS DS c_new c_compress c_flush (Some (pmce_init CS DS (disc_of x) cw mem cnct dw' dnct')) ms
      = Sent CS DS (Some ps') fss /\
    forall rfss, Forall2 (Forall2 chunked) fss rfss ->
      snd (recv_frames CS DS d_new d_feed (rstate_init CS DS (Some (pmce_init CS DS (disc_of x) cw' mem' cnct' dw dnct)))
                       (List.concat rfss))
      = map (fun m => Delivered (msg_payload m) (msg_binary m)) ms.
Proof. exact lossless_init. Qed.
Print Assumptions C12_lossless.

(* deflate exactly as negotiated by the two real handshakes: server -> client and client -> server *)
Theorem C12_lossless_negotiated : forall CS DS c_new c_compress c_flush d_new d_feed R,
  codec_law CS DS c_new c_compress c_flush d_new d_feed disc_deflate Z.leb R ->
  forall py_int a ra,
  int_law py_int window_permissible ->
  d_offer_ok (a_offer a) -> d_accept_ok a -> d_raccept_ok ra ->
  d_response_parse py_int (params_of_tokens (d_accept_string a)) = Ok (ra_response ra) ->
  let s := d_from_offer_accept true a in
  let c := d_from_response_accept false ra in
  forall ms, Forall msg_wf ms ->
  (exists ps' fss,
    send_msgs CS DS c_new c_compress c_flush (Some (pmce_of_deflate CS DS s)) ms = Sent CS DS (Some ps') fss /\
    forall rfss, Forall2 (Forall2 chunked) fss rfss ->
      snd (recv_frames CS DS d_new d_feed (rstate_init CS DS (Some (pmce_of_deflate CS DS c))) (List.concat rfss))
      = map (fun m => Delivered (msg_payload m) (msg_binary m)) ms) /\
  (exists ps' fss,
    send_msgs CS DS c_new c_compress c_flush (Some (pmce_of_deflate CS DS c)) ms = Sent CS DS (Some ps') fss /\
    forall rfss, Forall2 (Forall2 chunked) fss rfss ->
      snd (recv_frames CS DS d_new d_feed (rstate_init CS DS (Some (pmce_of_deflate CS DS s))) (List.concat rfss))
      = map (fun m => Delivered (msg_payload m) (msg_binary m)) ms).
Proof. exact lossless_negotiated_deflate. Qed.
Print Assumptions C12_lossless_negotiated.

(* What the bzip2 fix (36836fb7) repaired, and why clause [law_feed_nil] is needed where there is no guard: a library
   whose decompressor refuses calls after end-of-stream (bz2.BZ2Decompressor; brotli and zlib do not), wrapped WITHOUT the
   empty-input guard (the former bzip2 discipline), loses a message whenever sendMessage's fragmentation loop emits its
   trailing EMPTY frame, i.e. whenever the fragment size divides the compressed length. *)
Theorem C12_lossless_refuted_eos_strict :
  let p := pmce_init unit bool disc_bzip2_before_fix 9 0 false 0 false in
  let ms := [MWhole [1; 2]%N true (Some 1) false] in
  Forall msg_wf ms /\
  match send_msgs unit bool id_c_new id_c_compress eos_c_flush (Some p) ms with
  | Sent _ _ _ fss =>
      map (map (fun f => (f_fin f, f_rsv f, f_payload f))) fss
        = [[(false, 4%N, [1%N]); (false, 0%N, [2%N]); (false, 0%N, [255%N]); (true, 0%N, [])]] /\
      snd (recv_frames unit bool eos_d_new eos_d_feed (rstate_init unit bool (Some p))
             (map (fun f => (f_fin f, f_rsv f, f_opcode f, [f_payload f])) (List.concat fss)))
      = [Escaped ECodec]
  | SendRaised _ _ _ _ => False
  end.
Proof. exact eos_strict_loses_message. Qed.
Print Assumptions C12_lossless_refuted_eos_strict.

(* doNotCompress: RSV clear on every frame, payload verbatim, PMCE object untouched (whatever was negotiated) *)
Theorem C12_do_not_compress : forall CS DS c_new c_compress c_flush pm payload b frag,
  match frag with Some pfs => 1 <= pfs | None => True end ->
  exists fs, send_message CS DS c_new c_compress c_flush pm payload b frag true = (pm, inl fs) /\
             Forall (fun f => f_rsv f = 0%N) fs /\ List.concat (map f_payload fs) = payload.
Proof. exact do_not_compress. Qed.
Print Assumptions C12_do_not_compress.

(* RSV1 (rsv = 4) on the first frame of a compressed message only; continuation frames carry opcode 0, RSV 0 *)
Theorem C12_rsv1_first_frame_only : forall CS DS c_new c_compress c_flush pm payload b frag dnc pm' fs,
  send_message CS DS c_new c_compress c_flush pm payload b frag dnc = (pm', inl fs) ->
  exists f rest, fs = f :: rest /\
    f_opcode f = (if b then 2%N else 1%N) /\
    f_rsv f = (match pm with Some _ => if dnc then 0%N else 4%N | None => 0%N end) /\
    Forall (fun g => f_rsv g = 0%N /\ f_opcode g = 0%N) rest.
Proof. exact send_message_shape. Qed.
Print Assumptions C12_rsv1_first_frame_only.

(* RSV rejections (processData): with a PMCE negotiated a control frame with RSV1, and any data frame with RSV1 while
   inside a fragmented message, are protocol violations; RSV2/RSV3 always are; any RSV bit without a PMCE is; the
   rejected frame changes no state and delivers nothing.  RSV1 on the first frame of a data message is accepted. *)
Theorem C12_rsv_rejects :
  (forall inside opcode, (7 <? opcode)%N = true -> rsv_checks true inside 4 opcode = [VCompressedControl]) /\
  (forall opcode, (7 <? opcode)%N = false -> In VCompressedContinuation (rsv_checks true true 4 opcode)) /\
  (forall inside rsv opcode, rsv <> 0%N -> hd_error (rsv_checks false inside rsv opcode) = Some VRsvNoExtension) /\
  (forall pmce_on inside rsv opcode, rsv <> 0%N -> rsv <> 4%N ->
      hd_error (rsv_checks pmce_on inside rsv opcode) = Some VRsvNoExtension) /\
  (forall opcode, (opcode = 1 \/ opcode = 2)%N -> rsv_checks true false 4 opcode = []) /\
  (forall CS DS d_new d_feed (st : rstate CS DS) fin rsv opcode chunks v vs,
      rsv_checks (match r_pmce st with Some _ => true | None => false end) (r_inside st) rsv opcode = v :: vs ->
      recv_frame CS DS d_new d_feed st fin rsv opcode chunks = (st, [Violation v], false)).
Proof.
  exact (conj rsv_control_rejected (conj rsv_continuation_rejected (conj rsv_without_extension
        (conj rsv_other_bits (conj rsv_first_frame_accepted recv_frame_rejects))))).
Qed.
Print Assumptions C12_rsv_rejects.

(* ------------------------------------------------------------------------------------------------ *)
(* Non-vacuity. *)

(* the lattice is big and mostly populated: 589824 points, 87720 of them constructor-valid end to end *)
Example C12_lattice_size : lattice_points = 589824%N /\ lattice_valid_points = 87720%N.
Proof. vm_compute. split; reflexivity. Qed.

(* a concrete negotiation: client offers "client_no_context_takeover; client_max_window_bits; server_max_window_bits=12",
   server overrides its window to 10 and requests client_max_window_bits=9, client compresses with 9 *)
Example C12_negotiation_witness :
  let o := {| o_acc_nct := true; o_acc_mwb := true; o_req_nct := false; o_req_mwb := 12 |} in
  let a := {| a_offer := o; a_req_nct := true; a_req_mwb := 9; a_nct := None; a_wbits := Some 10; a_mem := Some 5;
              a_maxmsg := None |} in
  d_offer_ok o /\ d_accept_ok a /\
  map (fun t => (key_string (fst t), snd t)) (d_accept_string a) =
    [("server_max_window_bits", Some "12"); ("client_no_context_takeover", None); ("client_max_window_bits", Some "9")]%string /\
  exists r, d_response_parse ascii_int (params_of_tokens (d_accept_string a)) = Ok r /\
    let ra := {| ra_response := r; ra_nct := None; ra_wbits := None; ra_mem := None; ra_maxmsg := None |} in
    d_raccept_ok ra /\
    comp_window (d_from_offer_accept true a) = 10 /\ decomp_window (d_from_response_accept false ra) = 12 /\
    comp_window (d_from_response_accept false ra) = 9 /\ decomp_window (d_from_offer_accept true a) = 9 /\
    comp_nct (d_from_response_accept false ra) = true /\ s_mem (d_from_offer_accept true a) = 5.
Proof. vm_compute. repeat split; try reflexivity. eexists. repeat split; reflexivity. Qed.

(* the constructor checks do reject: window above the client's requested maximum; client_max_window_bits not offered *)
Example C12_ctor_rejects :
  let o := {| o_acc_nct := true; o_acc_mwb := false; o_req_nct := true; o_req_mwb := 10 |} in
  d_accept_ctor o false 0 None (Some 11) None None = Raise EPeerRequested /\
  d_accept_ctor o false 9 None None None None = Raise EUnsupportedByClient /\
  d_accept_ctor o false 0 (Some false) None None None = Raise EPeerRequested /\
  d_offer_ctor true true false 8 = Raise EInvalidValue.
Proof. vm_compute. repeat split. Qed.

(* the concrete ASCII int() satisfies the law the theorems assume of Python's int() *)
Example C12_int_law_inhabited : int_law ascii_int window_permissible /\ int_law ascii_int level_permissible.
Proof. exact (conj ascii_int_satisfies_law_window ascii_int_satisfies_law_level). Qed.

(* client-side rejections on concrete responses (registry = the generated [installed]) *)
Example C12_client_witness :
  let accept_all (r : any_response) : option any_raccept :=
      match r with
      | ReD r => Some (RaD {| ra_response := r; ra_nct := None; ra_wbits := None; ra_mem := None; ra_maxmsg := None |})
      | ReB r => Some (RaB {| bra_response := r; bra_level := None |})
      | ReR r => Some (RaR {| nra_response := r; nra_nct := None |})
      | ReS r => Some (RaS {| nra_response := r; nra_nct := None |})
      end in
  let run exts := client_process ascii_int installed exts accept_all in
  (exists s, run [("permessage-deflate"%string, [(KServerMWB, [VStr "10"%string])])] = COpen (Some s)) /\
  run [("x-webkit-deflate-frame"%string, [])] = CFail CUnknownExtension /\
  run [("permessage-deflate"%string, []); ("permessage-deflate"%string, [])] = CFail CMultiplePmce /\
  run [("permessage-deflate"%string, [(KOther "foo"%string, [VTrue])])] = CFail (CParse EIllegalParam) /\
  run [("permessage-deflate"%string, [(KServerNCT, [VTrue; VTrue])])] = CFail (CParse EMultipleParam) /\
  run [("permessage-deflate"%string, [(KClientMWB, [VStr "16"%string])])] = CFail (CParse EIllegalValue) /\
  run [("permessage-deflate"%string, [(KClientMWB, [VTrue])])] = CFail (CParse EIllegalValue) /\
  run [("permessage-deflate"%string, [(KClientNCT, [VStr "1"%string])])] = CFail (CParse EIllegalValue) /\
  client_process ascii_int installed [("permessage-deflate"%string, [])] (fun _ => None) = CFail CDenied /\
  run [("permessage-snappy"%string, [])] = CFail CUnknownExtension.    (* snappy is not installed here *)
Proof. vm_compute. repeat split; try reflexivity. eexists. reflexivity. Qed.

(* the identity codec satisfies the stream law (so the law is satisfiable), and the lossless theorem applied to it
   computes: three messages, fragmented / streamed / doNotCompress, deflate discipline with tail strip and re-append *)
Example C12_codec_law_inhabited :
  codec_law unit unit id_c_new id_c_compress id_c_flush_tail id_d_new id_d_feed disc_deflate Z.leb (fun _ _ _ => True).
Proof. exact id_codec_law. Qed.

Example C12_lossless_witness :
  let p := pmce_init unit unit disc_deflate 11 8 false 12 true in
  let q := pmce_init unit unit disc_deflate 15 8 true 11 false in
  let ms := [MWhole [1;2;3;4;5]%N true (Some 2) false; MStream [[7;8]; []; [9]]%N false false; MWhole [6;6]%N true None true] in
  match send_msgs unit unit id_c_new id_c_compress id_c_flush_tail (Some p) ms with
  | Sent _ _ _ fss =>
      map (map (fun f => (f_fin f, f_rsv f, f_opcode f, f_payload f))) fss =
        [[(false, 4, 2, [1;2]); (false, 0, 0, [3;4]); (true, 0, 0, [5])];
         [(false, 4, 1, [7;8]); (false, 0, 0, []); (false, 0, 0, [9]); (true, 0, 0, [])];
         [(true, 0, 2, [6;6])]]%N /\
      snd (recv_frames unit unit id_d_new id_d_feed (rstate_init unit unit (Some q))
             (map (fun f => (f_fin f, f_rsv f, f_opcode f, map (fun b => [b]) (f_payload f))) (List.concat fss)))
      = [Delivered [1;2;3;4;5]%N true; Delivered [7;8;9]%N false; Delivered [6;6]%N true]
  | SendRaised _ _ _ _ => False
  end.
Proof. vm_compute. split; reflexivity. Qed.

(* the end-of-stream strict codec is fine as long as no empty frame follows the end of the stream *)
Example C12_eos_strict_without_empty_frame :
  let p := pmce_init unit bool disc_bzip2_before_fix 9 0 false 0 false in
  match send_msgs unit bool id_c_new id_c_compress eos_c_flush (Some p) [MWhole [1; 2]%N true (Some 2) false] with
  | Sent _ _ _ fss =>
      snd (recv_frames unit bool eos_d_new eos_d_feed (rstate_init unit bool (Some p))
             (map (fun f => (f_fin f, f_rsv f, f_opcode f, [f_payload f])) (List.concat fss)))
      = [Delivered [1; 2]%N true]
  | SendRaised _ _ _ _ => False
  end.
Proof. exact eos_strict_ok_without_empty_frame. Qed.

(* ... and with the guard of the repaired bzip2 wrapper the message of C12_lossless_refuted_eos_strict, trailing empty
   frame included, is delivered by the same end-of-stream strict codec *)
Example C12_eos_strict_guarded_delivers :
  let p := pmce_init unit bool disc_bzip2 9 0 false 0 false in
  match send_msgs unit bool id_c_new id_c_compress eos_c_flush (Some p) [MWhole [1; 2]%N true (Some 1) false] with
  | Sent _ _ _ fss =>
      map (map (fun f => (f_fin f, f_rsv f, f_payload f))) fss
        = [[(false, 4%N, [1%N]); (false, 0%N, [2%N]); (false, 0%N, [255%N]); (true, 0%N, [])]] /\
      snd (recv_frames unit bool eos_d_new eos_d_feed (rstate_init unit bool (Some p))
             (map (fun f => (f_fin f, f_rsv f, f_opcode f, [f_payload f])) (List.concat fss)))
      = [Delivered [1; 2]%N true]
  | SendRaised _ _ _ _ => False
  end.
Proof. exact eos_strict_guarded_delivers. Qed.

(* what the brotli fix (444bd7d4) repaired: with the former discipline (finish() and keep the object) and context takeover
   the second non-empty message hit the finished encoder, and the kept decoder the second message *)
Example C12_brotli_before_fix :
  (forall CS DS c_new c_compress c_flush cw mem dw dnct m1 b1 v m2 b2,
     exists first,
       send_msgs CS DS c_new c_compress c_flush (Some (pmce_init CS DS disc_brotli_before_fix cw mem false dw dnct))
                 [MWhole m1 b1 None false; MWhole (v :: m2) b2 None false]
       = SendRaised CS DS (SE (ETypestate OnFinished)) [first]) /\
  (forall CS DS d_new d_feed cw mem cnct dw p1 v p2 ds1 o1,
     d_feed (d_new dw) p1 = Some (ds1, o1) ->
     snd (recv_frames CS DS d_new d_feed (rstate_init CS DS (Some (pmce_init CS DS disc_brotli_before_fix cw mem cnct dw false)))
                      [(true, 4%N, 2%N, [p1]); (true, 4%N, 2%N, [v :: p2])])
     = [Delivered (o1 ++ []) true; Escaped (ETypestate OnFinished)]).
Proof. exact (conj brotli_second_send_fails brotli_second_recv_fails). Qed.

(* RSV: a compressed ping and a continuation frame with RSV1 are rejected, the frame stream stops there *)
Example C12_rsv_witness :
  let q := pmce_init unit unit disc_deflate 15 8 false 15 false in
  snd (recv_frames unit unit id_d_new id_d_feed (rstate_init unit unit (Some q)) [(true, 4, 9, [[1]])]%N)
    = [Violation VCompressedControl] /\
  snd (recv_frames unit unit id_d_new id_d_feed (rstate_init unit unit (Some q))
         [(false, 4, 1, [[104]]); (true, 4, 0, [[105]]); (true, 0, 1, [[106]])]%N)
    = [Violation VCompressedContinuation] /\
  snd (recv_frames unit unit id_d_new id_d_feed (rstate_init unit unit None) [(true, 4, 1, [[104]])]%N)
    = [Violation VRsvNoExtension].
Proof. vm_compute. repeat split. Qed.
