(* C01 -- WebSocket messages arrive intact, exactly once and in order, no matter how the byte stream is segmented.
   THE JOIN of the two halves proved separately:
     sender   (Props/C01.v):  every legal call sequence makes the model of the send path write octets [wire c ks ops]
                              that the sender-side declarative reference [rfc_parse] reads as well-formed frames
                              carrying exactly the specified events;
     receiver (Props/C02.v):  the model of the receive loop [feed / feed_all] produces exactly what the receiver-side
                              declarative reference [rfc_judge] prescribes; with failByDrop segmentation does not matter.
   Property statements only; proofs live in Proofs/WsJoinFrame.v, WsJoinParse.v, WsJoinBridge.v, WsJoinProofs.v.

   What is PROVED here (no bound on payload sizes, number of calls, number or size of reads):
     * C01_join_references_agree: on EVERY octet stream that rfc_parse reads as a sequence of complete frames without a
       Close frame, rfc_judge reads the same deliveries and has no objection -- provided the receiver accepts the
       sender's masking, no extension is negotiated, messages respect the receiver's size limits and text messages are
       well-formed UTF-8 when the receiver validates;
     * C01_join_stream: for every such octet stream, whoever wrote it, and EVERY segmentation into reads (empty reads
       included), BOTH failure policies: the model of the real receive loop terminates, its events are exactly these
       deliveries -- every message with its type and payload, in order, once; pings/pongs; no failure, no close -- they
       are the events of the single read of the whole stream, and the receiver ends between frames with nothing
       buffered, not failed, not closed, holding exactly the message that is still open (if any);
     * C01_join_segmented / C01_join_whole: the octets written by the model of the real send path for every call
       sequence the send API specification accepts (message API with any fragment size, streaming API, prepared
       messages, pings/pongs between frames), any role / mask options consistent with the receiver, ending at a frame
       boundary: the same conclusion.  C01_join_meaning spells out "exactly the sent messages";
     * C01_join_both_roles: instantiated for client -> server and server -> client with the factory defaults, no
       dangling hypothesis beyond: keys are 4 octets, payloads are octets, text payloads are well-formed UTF-8.
   On failByDrop = false: C02_split_independent is REFUTED there for arbitrary (violating) streams.  The streams of
   this file meet no violation, and a run that meets no failure does not read the policy (run_same), so the join holds
   under every segmentation for both policies.
   NOT covered by a theorem here: a peer ping that arrives while the application is inside a frame of the streaming
   API (C01_delivery_full_refuted, F-C01-3: the sender then writes a malformed stream); sequences ending in the middle
   of a frame (C01_midframe); per-message compression (C12); Close frames (C03/C02).  That the two models are the code
   is checked by the correspondence runs of C01 and C02, and end to end by the runs of harness/props/c01.py. *)
From Coq Require Import NArith ZArith List Bool.
From AV Require Import Model.Masker Model.WsFrame Model.WsSend Proofs.WsSendProofs.
From AV Require Model.WsRecv Proofs.WsRecvSplit.
From AV Require Import Proofs.WsJoinFrame Proofs.WsJoinParse Proofs.WsJoinBridge Proofs.WsJoinProofs.
Import ListNotations.
Open Scope N_scope.

(* ---- vocabulary (definitions in Proofs/WsJoinBridge.v and Proofs/WsJoinProofs.v) ----
   conv_events evs     the sender-side events in the judge's vocabulary: EvMessage b p -> JMsg p b, EvPing p -> JPing p,
                       EvPong p -> JPong p
   recv_accepts rc cf  receiver configuration cf accepts what reference configuration rc lets through: no extension
                       negotiated (pmc = false); rc judges opcodes and allows no RSV bit; if rc lets masked frames through:
                       cf is a server or acceptMaskedServerFrames, and applyMask; if rc lets unmasked frames through: cf is a
                       client or not requireMaskedClientFrames
   events_fit cf evs   every message of evs is within maxMessagePayloadSize / maxFramePayloadSize of cf (0 = unlimited)
                       and, if it is a text message and cf validates UTF-8, is complete well-formed UTF-8
   open_fits cf o      the same for a message still open: within the limits, a valid UTF-8 prefix
   events_octets evs   every payload is a list of octets (< 256); open_octets likewise
   recv_at D s o       receiver state s is between frames: nothing buffered, no current frame, not failed, not CLOSED,
                       and the message in reassembly is exactly o (None: outside a message)
   judged revs         (Model/WsRecv.v) the deliveries of a receiver event list up to its first failure / close, and
                       the verdict VMore | VFail _ | VClose _ _ *)

(* ---- the two declarative references agree ---- *)
Theorem C01_join_references_agree :
  forall D (cd : WsRecv.codec D) cf rc, recv_accepts rc cf ->
  forall d0 bs fs evs o,
    octets bs -> rfc_parse rc bs = WellFormed fs evs o [] -> no_close evs -> events_fit cf evs -> open_fits cf o ->
    WsRecv.rfc_judge D cd cf d0 bs = Some (conv_events evs, WsRecv.VMore).
Proof. exact references_agree. Qed.
Print Assumptions C01_join_references_agree.

(* the reference parser read backwards: the octets it accepts are exactly the encoding of the frames it returns
   (with C01_frame_judged: parse_frame and encode_frame are mutually inverse on octets) *)
Theorem C01_join_parse_inverse : forall rc bs fs evs o tail,
  octets bs -> rfc_parse rc bs = WellFormed fs evs o tail ->
  bs = encode_frames fs ++ tail /\ frames_pass rc fs /\
  exists st, assemble astate0 fs = AOk st evs /\ a_open st = o.
Proof. exact rfc_parse_inv. Qed.
Print Assumptions C01_join_parse_inverse.

(* ---- every well-formed octet stream, every segmentation, both failure policies ---- *)
Theorem C01_join_stream :
  forall D (cd : WsRecv.codec D) cf rc, recv_accepts rc cf ->
  forall d0 p bs fs evs o chunks,
    WsRecvSplit.codec_law cd ->
    octets bs -> rfc_parse rc bs = WellFormed fs evs o [] -> no_close evs -> events_fit cf evs -> open_fits cf o ->
    p <> WsRecv.CLOSED -> concat chunks = bs ->
    exists s' revs,
      WsRecv.feed_all D cd cf (WsRecv.init_state D p d0) chunks = WsRecv.Done D s' revs /\
      WsRecv.feed D cd cf (WsRecv.init_state D p d0) bs = WsRecv.Done D s' revs /\
      WsRecv.judged revs = (conv_events evs, WsRecv.VMore) /\ recv_at D s' o.
Proof. exact join_stream. Qed.
Print Assumptions C01_join_stream.

(* ---- sender model -> receiver model ---- *)
(* one read of everything the sender wrote *)
Theorem C01_join_whole :
  forall D (cd : WsRecv.codec D) cf rc c ks,
    recv_accepts rc cf -> apply_mask c = true -> keys_ok ks -> policy_ok rc c ->
  forall d0 p ops sp' prep' evs,
    (forall d, WsRecv.d_data cd d [] = (d, [])) ->
    spec_run c [] SpGround ops = Some (sp', prep', evs) -> spec_at_boundary sp' = true ->
    events_octets evs -> open_octets (spec_open sp') -> events_fit cf evs -> open_fits cf (spec_open sp') ->
    p <> WsRecv.CLOSED ->
    exists s' revs,
      WsRecv.feed D cd cf (WsRecv.init_state D p d0) (wire c ks ops) = WsRecv.Done D s' revs /\
      WsRecv.judged revs = (conv_events evs, WsRecv.VMore) /\ recv_at D s' (spec_open sp').
Proof. exact join_whole. Qed.
Print Assumptions C01_join_whole.

(* every segmentation of what the sender wrote: the same events and the same final state as the single read *)
Theorem C01_join_segmented :
  forall D (cd : WsRecv.codec D) cf rc c ks,
    recv_accepts rc cf -> apply_mask c = true -> keys_ok ks -> policy_ok rc c ->
  forall d0 p ops sp' prep' evs chunks,
    WsRecvSplit.codec_law cd ->
    spec_run c [] SpGround ops = Some (sp', prep', evs) -> spec_at_boundary sp' = true ->
    events_octets evs -> open_octets (spec_open sp') -> events_fit cf evs -> open_fits cf (spec_open sp') ->
    p <> WsRecv.CLOSED -> concat chunks = wire c ks ops ->
    exists s' revs,
      WsRecv.feed_all D cd cf (WsRecv.init_state D p d0) chunks = WsRecv.Done D s' revs /\
      WsRecv.feed D cd cf (WsRecv.init_state D p d0) (wire c ks ops) = WsRecv.Done D s' revs /\
      WsRecv.judged revs = (conv_events evs, WsRecv.VMore) /\ recv_at D s' (spec_open sp').
Proof. exact join_segmented. Qed.
Print Assumptions C01_join_segmented.

(* what the conclusion says about onMessage: the delivered (payload, isBinary) pairs are exactly the sent ones, in order,
   once; and no event of the receiver is a failure or an accepted Close frame *)
Theorem C01_join_meaning : forall revs evs,
  WsRecv.judged revs = (conv_events evs, WsRecv.VMore) ->
  deliveries revs = messages_of evs /\ Forall quiet_event revs.
Proof. exact join_meaning. Qed.
Print Assumptions C01_join_meaning.

(* what the sender writes consists of octets whenever the payloads do *)
Theorem C01_join_wire_octets : forall rc c ks, apply_mask c = true -> keys_ok ks -> policy_ok rc c ->
  forall ops sp' prep' evs,
    spec_run c [] SpGround ops = Some (sp', prep', evs) -> spec_at_boundary sp' = true ->
    events_octets evs -> open_octets (spec_open sp') -> octets (wire c ks ops).
Proof. exact wire_octets. Qed.
Print Assumptions C01_join_wire_octets.

(* ---- both roles, factory defaults ----
   sender: default_cfg r (Model/WsSend.v); receiver: the opposite role with the defaults of resetProtocolOptions
   (default_recv: utf8validateIncoming, requireMaskedClientFrames, no acceptMaskedServerFrames, applyMask, no limits,
   failByDrop, no extension); texts_valid evs: every text message sent is complete well-formed UTF-8 *)
Theorem C01_join_both_roles : forall (sender_is_server : bool) ks ops prep' evs chunks,
  keys_ok ks -> spec_run (default_cfg sender_is_server) [] SpGround ops = Some (SpGround, prep', evs) ->
  events_octets evs -> texts_valid evs -> concat chunks = wire (default_cfg sender_is_server) ks ops ->
  exists s' revs,
    WsRecv.feed_all unit WsRecv.id_codec (default_recv (negb sender_is_server)) (WsRecv.init_state unit WsRecv.OPEN tt) chunks
      = WsRecv.Done unit s' revs /\
    WsRecv.judged revs = (conv_events evs, WsRecv.VMore) /\
    deliveries revs = messages_of evs /\ Forall quiet_event revs /\ recv_at unit s' None.
Proof. exact join_default. Qed.
Print Assumptions C01_join_both_roles.

(* the compatibility hypotheses hold for the defaults (used above; stated so that nothing is left dangling) *)
Theorem C01_join_defaults_compatible : forall r,
  policy_ok (rc_from r) (default_cfg r) /\ recv_accepts (rc_from r) (default_recv (negb r)) /\
  apply_mask (default_cfg r) = true /\
  forall evs, texts_valid evs -> events_fit (default_recv (negb r)) evs.
Proof. exact defaults_compatible. Qed.
Print Assumptions C01_join_defaults_compatible.

(* ---- non-vacuity ----
   a default client streams the text "hé!" in two fragments cut INSIDE the code point of é (68 C3 | A9 21) with a
   ping between the fragments, then sends a 5-octet binary message with fragmentSize 2 (three frames) and a pong;
   fresh key per frame.  The hypotheses of C01_join_both_roles hold ... *)
Example C01_join_witness_hypotheses :
  keys_ok ex_join_keys /\
  spec_run (default_cfg false) [] SpGround ex_join_ops = Some (SpGround, [], ex_join_events) /\
  spec_run (default_cfg true) [] SpGround ex_join_ops = Some (SpGround, [], ex_join_events) /\
  events_octets ex_join_events /\ texts_valid ex_join_events /\
  forall bs, concat (octet_by_octet bs) = bs.
Proof. exact ex_join_hypotheses. Qed.
(* ... and the default server, fed the 60 octets ONE AT A TIME, produces: *)
Example C01_join_witness_client_to_server :
  length (wire (default_cfg false) ex_join_keys ex_join_ops) = 60%nat /\
  match WsRecv.feed_all unit WsRecv.id_codec (default_recv true) (WsRecv.init_state unit WsRecv.OPEN tt)
          (octet_by_octet (wire (default_cfg false) ex_join_keys ex_join_ops)) with
  | WsRecv.Done _ s revs =>
      revs = [WsRecv.EPing [1; 2]; WsRecv.ESendPong [1; 2]; WsRecv.EMsg [0x68; 0xC3; 0xA9; 0x21] false;
              WsRecv.EMsg [0; 255; 7; 8; 9] true; WsRecv.EPong [5]] /\
      WsRecv.data unit s = [] /\ WsRecv.st (WsRecv.cn unit s) = WsRecv.OPEN
  | WsRecv.OutOfFuel _ => False
  end.
Proof. vm_compute. repeat split; reflexivity. Qed.
(* the same calls by a default server (unmasked frames), read octet by octet by the default client *)
Example C01_join_witness_server_to_client :
  match WsRecv.feed_all unit WsRecv.id_codec (default_recv false) (WsRecv.init_state unit WsRecv.OPEN tt)
          (octet_by_octet (wire (default_cfg true) ex_join_keys ex_join_ops)) with
  | WsRecv.Done _ s revs =>
      WsRecv.judged revs = (conv_events ex_join_events, WsRecv.VMore) /\
      deliveries revs = [([0x68; 0xC3; 0xA9; 0x21], false); ([0; 255; 7; 8; 9], true)] /\
      WsRecv.data unit s = [] /\ WsRecv.st (WsRecv.cn unit s) = WsRecv.OPEN
  | WsRecv.OutOfFuel _ => False
  end.
Proof. vm_compute. repeat split; reflexivity. Qed.

(* the hypothesis [texts_valid] is needed: sendMessage does not validate outgoing text, the default receiver does.
   A text message "h" FF is legal for the send API, written as a well-formed frame, and the receiver fails the
   connection with 1007 at the offending octet, delivering nothing *)
Example C01_join_text_hypothesis_needed :
  spec_run (default_cfg false) [] SpGround ex_join_bad_text = Some (SpGround, [], [EvMessage false [0x68; 0xFF]]) /\
  match WsRecv.feed unit WsRecv.id_codec (default_recv true) (WsRecv.init_state unit WsRecv.OPEN tt)
          (wire (default_cfg false) ex_join_keys ex_join_bad_text) with
  | WsRecv.Done _ s revs => revs = [WsRecv.EFail 1007; WsRecv.EDrop true] /\ deliveries revs = []
  | WsRecv.OutOfFuel _ => False
  end.
Proof. vm_compute. repeat split; reflexivity. Qed.
