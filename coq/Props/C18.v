(* C18 — remote exceptions arrive with their URI, arguments and class.
   Property statements only; definitions in Model/SessionErr.v, proofs in Proofs/SessionErrProofs.v.
   V = application values (opaque), MV = values of the ERROR details; [construct] = the constructors of user
   exception classes (arbitrary: every theorem quantifies over all of them, including ones that always raise). *)
From Coq Require Import List String Bool NArith.
From AV Require Import Model.SessionErr Proofs.SessionErrProofs.
Import ListNotations.
Open Scope string_scope.

(* ---------------------------------------------------------------- callee side: URI selection *)
(* application errors keep the URI they carry, whatever is registered *)
Theorem C18_uri_app : forall (V : Type) r (e : exn V), x_app e = true -> err_uri r e = x_error e.
Proof. exact uri_app. Qed.
Print Assumptions C18_uri_app.

(* in particular a SUBCLASS of ApplicationError that is itself define()d under URI u still travels under the URI the
   instance carries: the define() table is consulted only for non-application errors *)
Theorem C18_uri_app_registered_subclass : forall (V : Type) pattern_ok ops1 c u ops2 (e : exn V),
  x_cls e = c -> x_app e = true ->
  err_uri (reg_after pattern_ok (ops1 ++ DefExplicit c u :: ops2)) e = x_error e.
Proof. intros V pattern_ok ops1 c u ops2 e _ H. apply uri_app. exact H. Qed.
Print Assumptions C18_uri_app_registered_subclass.

(* after any history of define() calls: the class gets the (first) URI of its latest successful registration,
   later registrations of other classes do not matter *)
Theorem C18_uri_registered : forall (V : Type) pattern_ok ops1 o ops2 (e : exn V) u us,
  x_app e = false ->
  op_class_uris pattern_ok o (x_cls e) = Some (u :: us) ->
  (forall o', In o' ops2 -> registers pattern_ok (x_cls e) o' = false) ->
  err_uri (reg_after pattern_ok (ops1 ++ o :: ops2)) e = u.
Proof. exact uri_registered. Qed.
Print Assumptions C18_uri_registered.

(* a class never successfully registered gets the generic runtime-error URI *)
Theorem C18_uri_unregistered : forall (V : Type) pattern_ok ops (e : exn V),
  x_app e = false ->
  (forall o, In o ops -> registers pattern_ok (x_cls e) o = false) ->
  err_uri (reg_after pattern_ok ops) e = RUNTIME_ERROR.
Proof. exact uri_unregistered. Qed.
Print Assumptions C18_uri_unregistered.

(* ---------------------------------------------------------------- callee side: payload *)
(* without traceback forwarding the ERROR carries exactly the exception's URI, args and kwargs *)
Theorem C18_payload_preserved : forall (V MV : Type) r rt rq (e : exn V),
  let m : errmsg V MV := message_from_exception r rt rq e None in
  m_error m = err_uri r e /\ m_args m = Some (x_args e) /\ m_kwargs m = x_kwargs e /\ m_rtype m = rt /\ m_request m = rq.
Proof. exact payload_no_tb. Qed.
Print Assumptions C18_payload_preserved.

(* traceback forwarding adds the keyword "traceback" (= the formatted traceback) and changes nothing else *)
Theorem C18_payload_traceback : forall (V MV : Type) r rt rq (e : exn V) t,
  let m : errmsg V MV := message_from_exception r rt rq e (Some t) in
  m_error m = err_uri r e /\ m_args m = Some (x_args e) /\
  (forall k, k <> "traceback" -> aget String.eqb k (or_nil (m_kwargs m)) = aget String.eqb k (or_nil (x_kwargs e))) /\
  aget String.eqb "traceback" (or_nil (m_kwargs m)) = Some t.
Proof. exact payload_tb. Qed.
Print Assumptions C18_payload_traceback.

(* full strength ("same keyword arguments with traceback forwarding") fails for an exception whose own kwargs
   already use the name "traceback": its value is overwritten *)
Theorem C18_payload_traceback_refuted : forall (V MV : Type) r rt rq (v t : V), v <> t ->
  exists e : exn V, let m : errmsg V MV := message_from_exception r rt rq e (Some t) in
    aget String.eqb "traceback" (or_nil (x_kwargs e)) = Some v /\
    aget String.eqb "traceback" (or_nil (m_kwargs m)) <> Some v.
Proof. exact payload_tb_overwrites. Qed.
Print Assumptions C18_payload_traceback_refuted.

(* args and kwargs survive Error.marshal / Error.parse up to "empty = absent" *)
Theorem C18_wire : forall (V MV : Type) rt rq meta (m : errmsg V MV),
  let m' := over_the_wire rt rq meta m in
  m_error m' = m_error m /\ m_rtype m' = rt /\ m_request m' = rq /\ m_meta m' = meta /\
  or_nil (m_args m') = or_nil (m_args m) /\ or_nil (m_kwargs m') = or_nil (m_kwargs m) /\
  truthy_args (m_args m') = truthy_args (m_args m) /\ truthy_kw (m_kwargs m') = truthy_kw (m_kwargs m).
Proof. exact wire_fields. Qed.
Print Assumptions C18_wire.

(* ---------------------------------------------------------------- caller side *)
(* the caller gets the class registered for the URI, built by that class's constructor from exactly the message's
   args/kwargs (then the five detail attributes are assigned) — or, when the URI is unregistered, the constructor
   raises or yields a falsy object, the generic ApplicationError carrying URI, args, kwargs.  For EVERY constructor
   oracle.  The only way out is the assignment of a detail attribute that the instance exposes read-only. *)
Theorem C18_class_or_fallback : forall (V MV : Type) construct caller_hook r (m : errmsg V MV),
  (exists c i, aget String.eqb (m_error m) (uri_to_ecls r) = Some c /\ ctor_call V MV construct c m = CtorOk i
               /\ c_truthy i = true /\
               fst (exception_from_message construct caller_hook r m) =
                 if meta_writable V MV i then Ok (with_meta V MV m i) else Raise AttributeError)
  \/
  ( (forall c i, aget String.eqb (m_error m) (uri_to_ecls r) = Some c -> ctor_call V MV construct c m = CtorOk i
                 -> c_truthy i = false)
    /\ fst (exception_from_message construct caller_hook r m) = Ok (generic_error V MV m) ).
Proof. exact class_or_fallback. Qed.
Print Assumptions C18_class_or_fallback.

(* what the generic error carries: URI and args exactly; every keyword except the five names that
   ApplicationError.__init__ pops (enc_algo, callee, callee_authid, callee_authrole, forward_for) — those are
   dropped; with none of them present kwargs are carried exactly *)
Theorem C18_generic_error_carries_partial : forall (V MV : Type) (m : errmsg V MV),
  c_error (generic_error V MV m) = Some (m_error m) /\ c_args (generic_error V MV m) = or_nil (m_args m) /\
  (forall n, ~ In n RESERVED -> aget String.eqb n (or_nil (c_kwargs (generic_error V MV m))) = aget String.eqb n (or_nil (m_kwargs m))) /\
  (forall n, In n RESERVED -> aget String.eqb n (or_nil (c_kwargs (generic_error V MV m))) = None) /\
  (no_reserved V (or_nil (m_kwargs m)) -> c_kwargs (generic_error V MV m) = Some (or_nil (m_kwargs m))).
Proof. exact generic_error_carries. Qed.
Print Assumptions C18_generic_error_carries_partial.

(* "same keyword arguments" REFUTED for the five reserved names (known finding): *)
Theorem C18_generic_error_carries_refuted : forall (V MV : Type) (v : V) u,
  let m : errmsg V MV := mkErr 48%N 1%N u None (Some [("callee", v)]) no_meta in
  aget String.eqb "callee" (or_nil (m_kwargs m)) = Some v /\
  aget String.eqb "callee" (or_nil (c_kwargs (generic_error V MV m))) = None.
Proof. exact reserved_dropped. Qed.
Print Assumptions C18_generic_error_carries_refuted.

(* "failure to construct the registered class never loses the error".
   Since ApplicationError.__init__ takes `error` positionally only, the fallback constructor cannot fail, and for
   EVERY constructor oracle (also one that raises on every call) an exception object carrying the payload is
   returned — provided no instance exposes one of the five detail attributes as a read-only property *)
Theorem C18_never_lost_partial : forall (V MV : Type) construct caller_hook r (m : errmsg V MV),
  (forall c i, aget String.eqb (m_error m) (uri_to_ecls r) = Some c -> ctor_call V MV construct c m = CtorOk i ->
               meta_writable V MV i = true) ->
  exists e, fst (exception_from_message construct caller_hook r m) = Ok e /\
    (e = generic_error V MV m \/ exists c i, aget String.eqb (m_error m) (uri_to_ecls r) = Some c /\
                                          ctor_call V MV construct c m = CtorOk i /\ c_truthy i = true /\
                                          e = with_meta V MV m i).
Proof. exact never_lost. Qed.
Print Assumptions C18_never_lost_partial.

(* full strength (every constructor oracle, every message) is still REFUTED on the faithful model: the statements
   `if hasattr(exc, "callee"): exc.callee = msg.callee` (etc.) are unguarded; a registered class whose instances have
   `callee` as a property without setter makes AttributeError leave _exception_from_message and onMessage *)
Definition C18_never_lost_statement : Prop :=
  forall (V MV : Type) construct caller_hook r (m : errmsg V MV), exists e, fst (exception_from_message construct caller_hook r m) = Ok e.

Theorem C18_never_lost_refuted : ~ C18_never_lost_statement.
Proof.
  intro H.
  destruct (H unit unit
              (fun c _ a _ => CtorOk (mkCexn c None a None true [("callee", FromKw None)] ["callee"]))
              HookReturns
              (fst (define (fun _ => true) init_registry (DefExplicit 10%N "com.myapp.error")))
              (mkErr 48%N 1%N "com.myapp.error" (Some [tt]) None no_meta)) as [e He].
  vm_compute in He. discriminate.
Qed.
Print Assumptions C18_never_lost_refuted.

(* onMessage: an ERROR for a pending, not yet completed CALL removes the request and rejects it with the
   exception — or, in the lost case, removes the request and lets the exception escape (the call never completes) *)
Theorem C18_call_completes : forall (V MV : Type) construct caller_hook r p tbl q (m : errmsg V MV),
  m_rtype m = 48%N ->
  aget N.eqb 48%N p = Some tbl -> find_req (m_request m) tbl = Some q -> rq_done q = false ->
  let '(p', d) := on_error construct caller_hook r p m in
  (exists tbl', aget N.eqb 48%N p' = Some tbl' /\ find_req (m_request m) tbl' = None) /\
  d = match fst (exception_from_message construct caller_hook r m) with
      | Ok e => Rejected (m_request m) e
      | Raise x => Escaped (m_request m) x
      end.
Proof. exact on_error_call. Qed.
Print Assumptions C18_call_completes.

(* ---------------------------------------------------------------- the call-cancelling path *)
(* INTERRUPT (any number of them) before the endpoint fails: the invocation record stays, so the errback still
   finds it, sends exactly the ERROR of the uninterrupted path (URI, args, kwargs as above) and removes the record *)
Theorem C18_error_after_interrupts : forall (V MV : Type) note callee_hook table n r tba tbv req (e : exn V) sr,
  existsb (N.eqb req) table = true ->
  snd (interrupted_failure (MV:=MV) note table n callee_hook r tba tbv req e sr)
    = Ok (invocation_error note callee_hook r tba tbv req e sr) /\
  existsb (N.eqb req) (fst (interrupted_failure (MV:=MV) note table n callee_hook r tba tbv req e sr)) = false.
Proof. exact interrupted_failure_sends. Qed.
Print Assumptions C18_error_after_interrupts.

(* ---------------------------------------------------------------- end to end *)
(* [callee_hook] / [caller_hook] = the applications' onUserError overrides (called by the invocation errback and
   when a registered class's constructor raises): arbitrary, also raising — both call sites are try/except-guarded.
   callee raises e -> ERROR(INVOCATION) -> marshal/parse -> router -> ERROR(CALL) -> marshal/parse -> caller:
   the caller's session processes exactly (URI chosen by the callee's registry, e's args, e's kwargs [+ traceback]) *)
Theorem C18_end_to_end : forall (V MV : Type) construct caller_hook note callee_hook callee_reg caller_reg tba tbv (e : exn V)
                                inv_req call_req meta p tbl q,
  aget N.eqb 48%N p = Some tbl -> find_req call_req tbl = Some q -> rq_done q = false ->
  let m : errmsg V MV := caller_view V MV callee_reg tba tbv e call_req meta in
  let '(p', d) := end_to_end note callee_hook construct caller_hook callee_reg caller_reg tba tbv e inv_req call_req meta p in
  (exists tbl', aget N.eqb 48%N p' = Some tbl' /\ find_req call_req tbl' = None) /\
  d = match fst (exception_from_message construct caller_hook caller_reg m) with
      | Ok ce => Rejected call_req ce
      | Raise x => Escaped call_req x
      end.
Proof. exact end_to_end_spec. Qed.
Print Assumptions C18_end_to_end.

(* corollary: no traceback forwarding, no reserved keyword, URI unknown to the caller: the call fails with
   ApplicationError(uri, *args, **kwargs) — identical URI, args, kwargs (a keyword named error or self included) *)
Theorem C18_end_to_end_generic : forall (V MV : Type) construct caller_hook note callee_hook callee_reg caller_reg (e : exn V)
                                        inv_req call_req meta p tbl q,
  aget N.eqb 48%N p = Some tbl -> find_req call_req tbl = Some q -> rq_done q = false ->
  aget String.eqb (err_uri callee_reg e) (uri_to_ecls caller_reg) = None ->
  no_reserved V (or_nil (x_kwargs e)) ->
  exists ce, snd (end_to_end (MV:=MV) note callee_hook construct caller_hook callee_reg caller_reg false None e inv_req call_req meta p)
             = Rejected call_req ce /\
    c_cls ce = CLS_ApplicationError /\ c_error ce = Some (err_uri callee_reg e) /\
    c_args ce = x_args e /\ c_kwargs ce = Some (or_nil (x_kwargs e)).
Proof.
  intros V MV construct caller_hook note callee_hook callee_reg caller_reg e inv_req call_req meta p tbl q Hp Hf Hd Hu Hr.
  pose proof (end_to_end_spec V MV construct caller_hook note callee_hook callee_reg caller_reg false None e inv_req call_req meta p tbl q Hp Hf Hd) as H.
  cbv zeta in H.
  destruct (end_to_end note callee_hook construct caller_hook callee_reg caller_reg false None e inv_req call_req meta p) as [p' d].
  destruct H as [_ H]. simpl snd.
  set (m := caller_view V MV callee_reg false None e call_req meta) in *.
  destruct (class_or_fallback V MV construct caller_hook caller_reg m) as [(c & i & Hreg & _) | [_ Hgen]].
  - unfold m, caller_view in Hreg. simpl in Hreg. rewrite Hu in Hreg. discriminate.
  - rewrite Hgen in H. exists (generic_error V MV m). split; [exact H|].
    destruct (generic_error_carries V MV m) as (H1 & H2 & _ & _ & H5).
    split; [reflexivity|]. split; [exact H1|]. split; [exact H2|]. exact (H5 Hr).
Qed.
Print Assumptions C18_end_to_end_generic.

(* ---------------------------------------------------------------- non-vacuity *)
Open Scope N_scope.
Definition ex_ops : list defop :=
  [DefDecorated 10 "com.myapp.error1" ["com.myapp.error1b"]; DefExplicit 11 "com.myapp.error2";
   DefUndecorated 12; DefExplicit 10 "Not.A.Pattern"; DefExplicit 13 "com.myapp.error2"].
Definition ex_pattern_ok (u : string) : bool := negb (String.eqb u "Not.A.Pattern").

(* registered / re-registered / never registered classes; the later registration of class 13 takes URI error2
   over from class 11 in the URI->class direction only *)
Example C18_witness_registry :
  let r := reg_after ex_pattern_ok ex_ops in
  err_uri r (mkExn (V:=N) 10 false "" [1] None) = "com.myapp.error1" /\
  err_uri r (mkExn (V:=N) 11 false "" [] None) = "com.myapp.error2" /\
  err_uri r (mkExn (V:=N) 12 false "" [] None) = RUNTIME_ERROR /\
  err_uri r (mkExn (V:=N) 0 true "com.myapp.own" [] (Some [])) = "com.myapp.own" /\
  aget String.eqb "com.myapp.error2" (uri_to_ecls r) = Some 13 /\
  aget String.eqb INVALID_PAYLOAD (uri_to_ecls r) = Some CLS_SerializationError.
Proof. vm_compute. repeat split; reflexivity. Qed.

(* a class whose constructor rejects keywords: fallback to the generic error, nothing lost — also with a keyword
   named "error" *)
Definition ex_construct (c : cls) (s : shape) (a : list N) (k : kw N) : ctor_result N N :=
  match k with [] => CtorOk (mkCexn c None a None true [] []) | _ => CtorRaise end.
Example C18_witness_end_to_end :
  let callee := reg_after ex_pattern_ok ex_ops in
  let caller := reg_after ex_pattern_ok [DefExplicit 20 "com.myapp.error1"] in
  let p : pending := [(48, [mkRequest 7 false; mkRequest 8 false])] in
  snd (end_to_end (fun _ => 0) HookRaises ex_construct HookRaises callee caller false None
         (mkExn 10 false "" [1; 2] None) 100 7 no_meta p)
    = Rejected 7 (mkCexn 20 None [1; 2] None true [] []) /\
  snd (end_to_end (fun _ => 0) HookRaises ex_construct HookRaises callee caller true (Some 99)
         (mkExn 10 false "" [1; 2] (Some [("a", 5)])) 100 8 no_meta p)
    = Rejected 8 (mkCexn CLS_ApplicationError (Some "com.myapp.error1") [1; 2]
                         (Some [("a", 5); ("traceback", 99)]) true
                         (map (fun n => (n, FromMsg None)) RESERVED) []) /\
  end_to_end (fun _ => 0) HookRaises ex_construct HookRaises callee caller false None
         (mkExn 10 false "" [] (Some [("error", 5)])) 100 8 no_meta p
    = ([(48, [mkRequest 7 false])],
       Rejected 8 (mkCexn CLS_ApplicationError (Some "com.myapp.error1") [] (Some [("error", 5)]) true
                          (map (fun n => (n, FromMsg None)) RESERVED) [])).
Proof. vm_compute. repeat split; reflexivity. Qed.

(* class 30 = a subclass of ApplicationError, define()d under com.shop.error, raised carrying another URI: the carried
   URI wins; and an endpoint that fails after two INTERRUPTs still answers *)
Example C18_witness_subclass_and_interrupt :
  let r := reg_after ex_pattern_ok [DefExplicit 30 "com.shop.error"] in
  let e := mkExn (V:=N) 30 true "com.shop.error.out_of_stock" [1] (Some []) in
  err_uri r e = "com.shop.error.out_of_stock" /\
  err_uri r (mkExn (V:=N) 30 false "" [1] None) = "com.shop.error" /\
  snd (interrupted_failure (MV:=N) (fun _ => 0) [7; 9] 2 HookRaises r false None 9 e SendOk)
    = Ok [mkErr 68 9 "com.shop.error.out_of_stock" (Some [1]) (Some []) no_meta] /\
  snd (interrupted_failure (MV:=N) (fun _ => 0) [7] 1 HookRaises r false None 9 e SendOk) = Raise KeyError.
Proof. vm_compute. repeat split; reflexivity. Qed.
